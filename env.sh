# Toolchain for the checker: go1.26.8 + golang.org/x/tools v0.50.0, fully offline.
# go/packages shells out to `go list`, so go1.26.8 must be first on PATH.
export PATH=/opt/veriftools/go1.26.8/bin:$PATH
export GOTOOLCHAIN=local GOFLAGS=-mod=mod GOPROXY=off GOWORK=off GONOSUMDB='*' GONOSUMCHECK=1 GOFLAGS=-mod=mod
unset GOSUMDB 2>/dev/null || true
