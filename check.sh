#!/bin/sh
# usage: ./check.sh <property-id> <quick|thorough>
#        ./check.sh --replay <report.json>
# Decides the property by static analysis of /repo's current working tree.
cd "$(dirname "$0")" || exit 2
. ./env.sh
REPO="${VERIF_REPO:-/repo}"
if [ ! -x bin/verifchk ] || [ -n "$(find checker -newer bin/verifchk -type f 2>/dev/null | head -1)" ]; then
  ./setup.sh >/dev/null || { echo "checker build failed"; exit 2; }
fi
if [ "$1" = "--replay" ]; then
  exec bin/verifchk -replay "$2" -repo "$REPO" -verif "$PWD"
fi
exec bin/verifchk -prop "$1" -tier "${2:-${VERIF_TIER:-quick}}" -repo "$REPO" -verif "$PWD"
