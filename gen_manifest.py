#!/usr/bin/env python3
"""Regenerates MANIFEST.json from the table below (kept next to the checker so
that the manifest never drifts from what is implemented)."""
import json, subprocess, os

ALL = ["C%02d" % i for i in range(1, 21)]

# property -> (technique, level text, level_note, design_ref)
CLAIMS = {
 "C06": ("SSA must-pass-through (edge-sensitive dominance) + value provenance over all load functions",
         "Structural necessary conditions decided on every path of every load function: every return reachable after storage was opened is a setup/I-O/mismatch failure or is dominated by the equal edge of the hash comparison (or TrustedStorage); decoder error only behind it; tee/drain/whole-buffer provenance; I/O errors tested; Store commits only after a nil encoder error. Decides the mechanism for all paths, not the run-time behaviour.",
         "Trusted: go/ssa + go/types, hash.Hash / io.TeeReader / io.Copy / bytes.Buffer semantics, LinkPrototype.BuildLink and Link.Binary. Not covered: run-time bytes.",
         "DESIGN.md section 3, C06"),
}

CLAIMS["C03"] = ("SSA path rules over the token-driven decoder (epoch-scoped must-check-before-use with one path-sensitive fact, guarded-by comparisons, constant flags, AST switch exhaustiveness)",
 "Structural necessary conditions of decode strictness decided on every path of codec/dagcbor's decoder functions: strictness flags constant-true on all non-relaxed paths and handed to cbor.NewDecoder; every committing assembler call behind a Token.Tagged test in its token epoch (only AssignLink on the tagged edge); AssignLink behind tag==42 (encoder's constant), AllowLinks, len>=1, zero prefix, cid.Cast of the remainder; declared lengths enforced both ways; string keys with seen-set test+insert in strict mode; nil return only behind io.EOF after the item; uint tokens below 2^63 only; exhaustive token switch. Not the tokenizer, not value fidelity.",
 "Trusted: go/ssa + go/types, refmt/cbor honouring its DecodeOptions, cid.Cast. Not covered: tokenizer strictness (minimal heads, NaN detection happen in refmt), fidelity of accepted values.",
 "DESIGN.md section 3, C03")

CLAIMS["C10"] = ("recursion-depth dataflow over the decoders' static call cycles, epoch-scoped budget must-pass, clamp/charge provenance of size hints, integer taint to allocation sizes, classified explicit panics over a parser-local call-graph closure, loop progress",
 "Structural necessary conditions of 'total and bounded' over parser-local code reachable from the registered decoders, CompileSelector, the walk functions and ParsePath: every decoder recursion passes a guarded depth+k; every committing assembler call in the CBOR decoder is behind a budget decrement-and-test in its token epoch (proportional to the token length for strings/bytes/keys); size hints clamped and charged; untrusted integers reach allocation sizes only behind a dominating bound; every reachable explicit panic is an exhaustive-switch default or a frozen, side-condition-checked contract entry; every decoder loop consumes input. Bounds the mechanisms, does not measure allocation or exclude implicit panics.",
 "Trusted: go/ssa + go/types + CHA resolution of the parser packages' own interfaces; refmt tokenizers terminate and bound themselves; datamodel.Node implementations honour the node contract. Not covered: the allocation inequality itself, implicit panics (index/nil/reflect), termination over cyclic user data.",
 "DESIGN.md section 3, C10")

CLAIMS["C05"] = ("SSA value provenance on Store/ComputeLink/choosers + field/global write effects",
 "Structural necessary conditions of 'links are a function of value and prototype': Store and ComputeLink derive the link identically (encoder and hasher chosen from the prototype parameter in this activation, writer reaches that hasher, link = lp.BuildLink(H.Sum()), committed link = returned link); registry choosers keyed only by the given link/prototype; load-side choosers asked about the requested link; storage keyed by lnk.Binary() on both sides; no operational LinkSystem method or chooser writes LinkSystem fields or globals. Not codec determinism, not BuildLink arithmetic.",
 "Trusted: go/ssa + go/types, hash.Hash and io.MultiWriter semantics, purity of Registry lookups (C20). Not covered: codec determinism (C02/C04), BuildLink truncation/version arithmetic, equality of loaded and stored node.",
 "DESIGN.md section 3, C05")

CLAIMS["C17"] = ("path-provenance classification (interprocedural, parameter classes joined over call sites) + slice/value provenance for the in-memory stores",
 "Structural necessary conditions of 'faithful key-value map': in fsstore the sharding function receives escapingFunc(key), the key-to-path function returns Join(basepath, shards), and every path argument of every os call is classified BASE/STAGINGDIR/STAGING/DEST/DESTDIR by provenance (never a raw key); memstore and cidlink.Memory never keep the caller's slice and Get returns a fresh copy; the storage fall-backs pass the caller's key unchanged. Not map semantics over histories.",
 "Trusted: go/ssa + go/types, injectivity and path-safety of the base32 escaping, filepath.Join/Dir. Not covered: histories of put/get, aliasing arithmetic of sharding, the empty-key abort sentinel.",
 "DESIGN.md section 3, C17")
CLAIMS["C18"] = ("who-may-call table over package os with path provenance + must-pass-through (Close before rename, abort paths) in the commit closure",
 "Structural argument for write atomicity decided from code shape: destinations are only created by os.Rename from an exclusively created staging file; write-mode opens only STAGING with O_CREATE|O_EXCL; Remove only STAGING; Mkdir only DESTDIR/STAGINGDIR; no other mutating os function; Close dominates rename and rename is unreachable when Close failed; the returned writer is the staging file; Put aborts on write error and the abort branch removes the staging file and cannot reach rename. With rename(2) atomicity trusted, a key is absent or complete at every instant. No crash point or interleaving is executed.",
 "Trusted: go/ssa + go/types, POSIX rename atomicity and O_EXCL exclusivity, crypto/rand staging names. Not covered: power-loss durability (no fsync; outside the property), the EEXIST race in haveDir, actual crash/interleaving exploration.",
 "DESIGN.md section 3, C18")

CLAIMS["C20"] = ("write-effect analysis (field/global writes with fresh-object tracking through loads and call sites) over the CHA-reachable code of a read-only entry table",
 "A data race needs a write to shared memory; the rules bound who can write what: every write to a library package-level variable (direct, map update, or by reference through a callee that writes its parameter) is in init or the frozen registration API; no function CHA-reachable from the read-only entry table (walks, loads, ComputeLink, Wrap/Prototype, CompileSelector and Selector methods, DeepEqual/Copy, encoders, Registry lookups, TypeSystem getters, store reads) performs a non-fresh write to a field of a shared-by-construction type; hashers are per call. No schedule is explored.",
 "Trusted: go/ssa + go/types, CHA as a sound over-approximation of calls, the Go memory model (no write, no race). Not covered: actual schedules, races inside dependencies or user callbacks, node storage (C11), per-walk state by contract (Budget, SeenLinks).",
 "DESIGN.md section 3, C20")

CLAIMS["C19"] = ("global-write effect analysis over the CHA closure of Wrap/Prototype/Unwrap + must-pass-through (verification, Overflow tests) + value provenance (Unwrap)",
 "Structural necessary conditions of 'binding is faithful and pure': nothing reachable from Wrap/Prototype/Unwrap writes a package-level variable outside init (no state left behind by a binding call); every normal return of Wrap/Prototype passes verifyCompatibility or an inference function; every reflect SetInt/SetUint in bindnode is behind the matching Overflow test on the same destination and operand; Unwrap returns the address of the node's own value. Not the faithfulness of the reflection walk, not marshal round trips.",
 "Trusted: go/ssa + go/types + CHA, package reflect. Not covered: reflection-walk faithfulness for arbitrary Go values, Marshal/Unmarshal round trip, float32 narrowing.",
 "DESIGN.md section 3, C19")

CLAIMS["C11"] = ("who-may-write analysis of node storage (field-write effects with fresh-object tracking), Reset/AssignNode path rules, effect-freedom of the Node read API over its same-package call closure",
 "Structural necessary conditions of 'a finished node never changes': storage of every struct-based Node implementation in basicnode and the generated demo package is written only by builder/assembler-role methods or into fresh objects; Reset never writes through the old work-in-progress pointer nor keeps its storage; the structure-sharing same-type AssignNode shortcut is sealed (finished state stored) on every path; every Node read method (and what it statically calls in its package) performs no non-fresh heap write, no reflect.Set* on non-fresh values, and rewinds a node-held reader before consuming it. Not equality of repeated reads as values.",
 "Trusted: go/ssa + go/types, io.Seeker semantics. Not covered: aliasing of caller-supplied byte slices (excluded by the property), user mutation of bound Go values, concurrent reads of reader-backed bytes nodes.",
 "DESIGN.md section 3, C11")

CLAIMS["C01"] = ("sibling/exhaustiveness analysis over all Node implementations (constant Kind(), error-type summaries through delegation), AST kind-switch exhaustiveness, paired-write and write-back path rules",
 "Structural necessary conditions of 'what is built is what is read back': for every Node type with constant Kind() every kind-inappropriate accessor returns a non-nil ErrWrongKind on every path and reaches no panic, wrong-kind iterators return nil, Length of scalars is -1; generic kind dispatches with an erroring default list all nine kinds; every Kind_Int arm of the generic algorithms probes UintNode; basicnode's map writes table value and lookup index together; child container assemblers write their node back into the parent on every successful Finish. Not equality of contents, order or lengths as values.",
 "Trusted: go/ssa + go/types. Not covered: equality of contents and order, Length vs iteration agreement as numbers, AssignNode/Copy content fidelity, size-hint independence, types with dynamic Kind().",
 "DESIGN.md section 3, C01")

CLAIMS["C09"] = ("call-graph reachability in the assembler's local closure (static + VTA-monomorphic interface calls), error-carrier shape discovery, must-pass-through (kind gate, nil tests)",
 "Structural necessary conditions of 'typed builders accept exactly conforming data' over every assembler implementation (basicnode, bindnode both levels, generated demo): both key routes of every map/struct assembler can reject a repeated key; union assemblers consult their already-set member before a second entry; Finish of every struct assembler can report missing required fields; TypeStruct.Field results are nil-tested; no forced assertion on a value that may be an error-carrying assembler; every reflect mutation in scalar Assign* is behind the passed kind check. Not acceptance <=> conformance in general.",
 "Trusted: go/ssa + go/types, VTA only to resolve single-callee interface calls. Not covered: conformance in general, error quality, at which call a rejection is reported.",
 "DESIGN.md section 3, C09")
CLAIMS["C12"] = ("typestate extraction by abstract interpretation of the explicit state enum (path-sensitive in that field) compared with the transcribed contract automaton; commit-before-reject path rule; client typestate over MapAssembler users",
 "Structural necessary conditions of 'assemblers enforce their protocol': the state machine of basicnode's map and list assemblers (and key/value assemblers) equals the contract automaton method by method and state by state, including clean rejection of a repeated key back to the accept-keys state; nothing is committed on any path that returns ErrRepeatedMapKey; both key routes can reject repeats (shared with C09); bindnode assigns always reach the finish hook; entry slots are fresh; library clients follow AssembleKey -> Assign -> AssembleValue on every path. Not exactness of results in general.",
 "Trusted: go/ssa + go/types, the contract automaton transcribed from datamodel/nodeBuilder.go and HACKME_builderBehaviors.md. Not covered: bindnode has no explicit state machine to extract; generated assemblers' automata.",
 "DESIGN.md section 3, C12")

CLAIMS["C02"] = ("abstract interpretation of the sort comparators over the finite (length order x byte order) lattice; enum-fact path-sensitive reachability (sort before emit per mode); constant/table agreement; term decomposition of EncodedLength sums; effect analysis (stateless encoder)",
 "What the repository owns of DAG-CBOR canonical form, decided structurally: the registered 0x71 encoder runs with RFC7049 sorting and links as constants; the less functions are exactly 'shorter first then bytewise' / 'bytewise' on all 7 feasible key relations; under each sort mode every key emission comes from the sorted collection after the sort; UintNode probes in marshal and EncodedLength; link emission behind Cid.Defined, tag 42, exactly one zero prefix byte, Tagged cleared on every path; no state between encodes (fresh token, no pools, no globals); head-size table equals the CBOR boundaries and each length-prefixed arm sizes its head for exactly the payload added. The canonical byte form itself is refmt's.",
 "Trusted: go/ssa + go/types, refmt/cbor emits shortest-form heads and 64-bit floats, sort.Slice. Not covered: bytes equal to the canonical form, decode(encode(v)) == v, EncodedLength as a number for containers.",
 "DESIGN.md section 3, C02")
CLAIMS["C04"] = ("same engines as C02 (comparator lattice interpretation, sort-before-emit, constants) plus writer/reader table agreement for the reserved forms",
 "What the repository owns of DAG-JSON, decided structurally: the registered 0x0129 encoder/decoder run with lexical sorting, links and bytes as constants; the lexical less is exactly bytewise; keys are emitted from the sorted collection after the sort; the reserved key strings and base64 encoding the encoder writes are the ones the decoder's look-ahead recognises; the encoder keeps no state between calls; exhaustive kind dispatch. Number and string formatting are refmt's (integral floats printed without a fraction are observed there and out of static reach).",
 "Trusted: go/ssa + go/types, refmt/json, sort.Slice. Not covered: number/string formatting, round-trip equality as values.",
 "DESIGN.md section 3, C04")

CLAIMS["C14"] = ("slice-aliasing effect rule on Path methods, constant agreement (separator), origin/coupling dataflow between appended segment, child node and explored selector (through helper parameters and closures), path rules on Progress.get",
 "Structural necessary conditions of 'paths address what was visited': no Path method appends to / copies into / stores through the receiver's segment slice; Path.String writes the byte ParsePath splits on and uses no path cleaning; at every descent of every walk the appended segment and the child node originate together (same Next(), lookup by that segment, or coupled parameters at all call sites) and Explore was asked about that segment; Progress.get resolves map steps by the segment's string and list steps by its index, returns no node on any lookup error and loads links through the LinkSystem. Not equality of resolved and visited node.",
 "Trusted: go/ssa + go/types, strings.FieldsFunc/Builder. Not covered: equality of the resolved node with the visited one, the error-exactly-when clause, ParsePath(String(p)) == p as values.",
 "DESIGN.md section 3, C14")
CLAIMS["C15"] = ("must-pass-through on the walk functions, who-may-touch tables for the control fields, threshold normalisation of the budget comparisons, guarded-by rule for the seen-set",
 "Structural necessary conditions of 'controls only restrict': each recursive walk function consults the node budget exactly once, in its entry block, before any visit or descent; budget counters, PastStartAtPath and SeenLinks are touched only by the functions that implement them; the budget checks fail exactly below 1 and otherwise decrement by 1; every link load is behind a link-budget check; under LinkVisitOnlyOnce loads are behind a deciding seen-set lookup and links are recorded only in the traverse phase; SkipMe becomes a silent nil return. Not the prefix/suffix/subsequence relations themselves.",
 "Trusted: go/ssa + go/types. Not covered: the metamorphic relations to the unrestricted walk as values, start-path arithmetic, preloader interaction.",
 "DESIGN.md section 3, C15")
CLAIMS["C16"] = ("taint rule (loaded block content never assigned as node), must-pass-through (store error before AssignLink, a value per loop iteration), client typestate, operator-use rule on PathSegment, coupling of child selector and segment",
 "Structural necessary conditions of 'transforms are pure functional updates': content loaded from a link re-enters the parent only as the link returned by LinkSystem.Store (same prototype) and only after its error was tested; the rebuild loops keep to the assembler protocol and assemble a value in every iteration except the documented delete; PathSegments are compared with Equals outside datamodel; the child selector of the transforming walk comes from Explore for that child's own segment. WalkTransforming inlining loaded blocks is a listed known finding. Not equality/order of untouched entries as values.",
 "Trusted: go/ssa + go/types. Not covered: equality and order of untouched entries as values, input immutability (C11), sequences of transforms.",
 "DESIGN.md section 3, C16")

CLAIMS["C08"] = ("sibling agreement across type switches (strategy x method matrix derived from the representation node's own Kind()), must-pass-through (finish hook, pointer wrapping), dispatch-table reachability for the generators",
 "Structural necessary conditions of 'views obey the strategy': every representation strategy whose representation kind differs from the type-level kind (or is dynamic) has an explicit arm in Length and in the readers/writers of that kind on bindnode's representation node and assembler; representation-level assigns always reach the finish hook or delegate; inferGoType wraps every optional/nullable position in a pointer unconditionally; every exported generator constructor is dispatched from Generate and dispatch defaults panic. Not that each arm computes the right view.",
 "Trusted: go/ssa + go/types. Not covered: correctness of each arm's view, build-route equality and codec round trips as values, generated code (templates are strings).",
 "DESIGN.md section 3, C08")

CLAIMS["C07"] = ("dispatch-table and writer/reader key agreement (constants through the type-checked program), must-pass-through and value-identity rules on the walk engine functions",
 "Engine-level necessary conditions of 'a walk visits what the selector denotes': every Selector type is constructed by a Parse function the union switch dispatches to (distinct constant keys); the keys the spec builder writes are keys the dispatched parser reads; the visit precedes child exploration; descent only with the non-nil selector Explore returned for that child; visit reports (Match result, match reason) or (node, candidate reason); WalkMatching calls the user function only for matches; a missing interest does not end the interest loop; links are loaded with the chooser's prototype; ExploreRecursive never discards a non-nil explored selector. The denotation of each clause kind is value-level and not decided.",
 "Trusted: go/ssa + go/types. Not covered: which children each clause selects, range/depth arithmetic, visit order as a sequence, subset slicing.",
 "DESIGN.md section 3, C07")

# rules added after the second round of independently seeded faults (and four repaired defects); one clause each,
# appended to the level text of the property they belong to
ADDED = {
 "C03": "Also: a token's payload field (Int, Uint, Str, Bytes, Float64, Bool, Length) is read only on paths on which Token.Type was found to be the type that field belongs to (payload).",
 "C01": "Also: the copy path of AssignNode sets up what BeginMap/BeginList sets up before adding entries (begincopy) and skips absent values like datamodel.Copy (copyabsent); integer equality in DeepEqual sees no signed/unsigned conversion (intcompare); whoever writes a reflection assembler's slot consults its finish hook (finishhook); every concrete type placed into a datamodel.Node interface is comparable (comparable). A value read with AsUint() is converted to a signed type only where it was found <= MaxInt64 (uintnarrow).",
 "C02": "Also: no branch of the token consumers judges the content of a text string (strcontent); the token handed to the sink is storage of the Marshal call, through state structs and recursion stages (freshtoken); for every UintNode implementation AsUint applies the user conversions AsInt applies, so dag-cbor (which asks AsUint first) encodes the integer every other reader sees (uintsame).",
 "C05": "Also: neither the bytes a bundled decoder assigns nor the reader the link system hands to a decoder come from recycled storage (decoderbytes). Each chooser of the registry-based link system returns an error only for the registry's own refusal or a foreign prototype type (chooserrefuses). A commit into cidlink.Memory reports success only after the block was placed (storecommits).",
 "C06": "Also: Fill drains the rest of the stream into the hasher on every path after the decoder ran (wholestream); Store writes through the storage writer directly or through an error latch of the package whose error gates the commit (nocommit). The encoder's fan-out holds the storage side and the hasher only.",
 "C07": "Also: stated interests are explored in the stated order (engine); the stop-at condition compares links as wholes (stopat); a union lists a shared segment once and asks each member once (unioninterests). No Match method of a selector consults Decide (matchdelegates).",
 "C08": "Also: a kinded union's re-pointed member is used at type level only after its own strategy was consulted (kindedrepr). The places of bindnode that answer Null / Absent for a nil Go value decide it under the same tests (nullsame, sibling agreement). A begun list or map exists: its Go value is made or found non-nil before the assembler is handed out (begunexists). The member of a union is set before the enclosing finish hook can run (memberthenfinish, shared with C19).",
 "C09": "Also: a stringjoin struct is split without a limit (splitexact); reflect accessors are applied to the materialised slot, never to the raw (possibly pointer) value (materialised); the reverse key mapping has no identity fallback for type-level names (reversekey); AssignNode never writes the slot itself (assignnodechecked); a list assembler of fixed arity (the listpairs pair) refuses to finish below it (arity); every AssignString that can write a string into the bound Go value consults the enum members (enummember). A membership bit 1 << i is computed only where i was bounded below the word width (shiftwidth). Where a repeated key is rejected on a look-up in the index, every successful return of that function lies beyond the look-up (repeat, must-pass-through).",
 "C10": "Also: both decoders bound nesting by the same comparison (depth, sibling agreement); slice bounds are normalised against the length of the value that is sliced (slicedomain). An element of untrusted bytes is read at a constant index only where len() of them was compared beyond it (index); a number parsed from a path segment or read from a node indexes a slice only where bounded from below and above (untrustedindex).",
 "C11": "Also: no builder, assembler or iterator makes a node out of its own fields (nodeoutside); a ReadSeeker held in a field is positioned before every read and never handed out as it is (sharedseeker); the decoder's input is not recycled storage (decoderbytes); no assembler method writes the node when the assembler is finished (afterfinish). bindnode's builders are held to the reset rule in its reflect spelling: Reset never calls a reflect.Value setter on a handle read out of the builder.",
 "C12": "Also: the finish-hook rule covers every function that writes an assembler's slot; a rejected key leaves the assembler in its initial state (usableafterreject); AssignNode takes the checked route (assignnodechecked). Nothing is written before a repeated key is reported (rejectclean). The member of a union is set before the enclosing finish hook can run (memberthenfinish, shared with C19).",
 "C14": "Also: the LinkPath handed to the link system by get is the path recorded as LastBlock.Path (get); a map key becomes a reported path segment only through its representation when typed and only after AsString succeeded (keysegment).",
 "C15": "Also: the seen-set is never re-created inside a recursive walk (seeninit); start-path comparisons only while not past the start path (startgate); every spending site of package traversal tests the counter before charging (threshold). Within one activation a second visit is never reachable without a new spend, and the functions of the recursion that spend nothing do not invoke the visit callback (once, extended). Inside a walk (the recursive functions and what they reach) the Budget pointer of a Progress is replaced only behind the Preloader edge, for the rewind after a preload pass: everything below one entry point charges one budget object (owners, clause d).",
 "C16": "Also: a transform that stores blocks back loads them with Fill, not through the reifying Load (rawload); the callback runs once per target (onecall), sees the node at the target and not a Match result (callbacknode); the focused transform reports success only after the callback ran or a descent was made (handled); create mode is entered only with the create-parents flag true or at the last step, on every container kind (createparents); a parsed list position reaches the merge with the internal append marker only over a test that excludes the marker (sentinel). The child-iterating steps of the transforming walk select children through the same helpers (siblingselect).",
 "C17": "Also: the escaping functions the package installs treat every key alike (escapeuniform); each stream gets its own writer (streamfresh). A put reports success only after the placement (putstores); no append onto a caller's slice (noappendcaller); the error tested with os.IsExist is the rename's (existsofrename). The link system calls the storage committer with the binary key of the link only (commitkey).",
 "C18": "Also: every streaming helper of the storage packages commits only over the nil edge of every Write (streamcommit).",
 "C19": "Also: schema inference memoises per call by Go type before accumulating (infermemo); reflect.Uint and reflect.Uint64 both get the unsigned node (uintkinds). A union's member is set before anything that can run the enclosing finish hook (memberthenfinish). A local copy of a package-level struct with map / slice / pointer fields is not handed to a function that writes through it (pure, shallow copies).",
 "C20": "Also: a value placed in a package-level sync.Map / atomic.Value is not written into afterwards (publish); a closure installed in a field of a longer-lived object keeps no scratch state in a captured local of its creator (closurestate). A slice a shared object hands out of its own storage (Interests, Fields, Members ...) is never sorted, copied into, stored through or handed to a function that writes through that parameter (sharedslice).",
}

NOT_APPLICABLE = {
 "C13": "concerns the output of running the code generator on arbitrary schemas and the run-time equivalence of two engines; the generator's logic lives in text/template strings, so no typed program exists to analyse before execution (DESIGN.md section 4)",
}

def main():
    checks = []
    na = []
    for pid in ALL:
        if pid in CLAIMS:
            tech, text, note, ref = CLAIMS[pid]
            if pid in ADDED:
                text = text + " " + ADDED[pid]
            checks.append({
                "property_id": pid,
                "quick_cmd": "./check.sh %s quick" % pid,
                "thorough_cmd": "./check.sh %s thorough" % pid,
                "evidence_file": "evidence/%s.json" % pid,
                "replay_cmd_template": "./check.sh --replay {path}",
                "engine": "verifchk",
                "level_claimed": {"category": "other", "text": text, "design_ref": ref},
                "level_note": note,
                "technique": "static analysis: " + tech,
            })
        else:
            na.append({"property_id": pid, "reason": NOT_APPLICABLE.get(pid, "not claimed yet: rules for this property are not implemented in the checker at this commit (static analysis family; see DESIGN.md section 3 for the planned rules)")})
    m = {
        "version": 1,
        "setup_cmd": "./setup.sh",
        "hooks": {
            "guard": "verif",
            "enable": "no hooks are needed: the checks analyse /repo's source (go/packages + go/ssa) and never build or run it; the tag `verif` is reserved and unused",
            "baseline_off_cmd": "cd /repo && GOFLAGS=-mod=mod go test -vet=off -count=1 -timeout 25m ./...",
            "source_commits": [],
            "add_only": True,
        },
        "engines": [{
            "name": "verifchk",
            "path": "checker/",
            "serves_properties": sorted(CLAIMS),
            "kind_free_text": "repository-specific static analyser (go/packages + go/types + go/ssa + CHA/VTA call graphs, x/tools v0.50.0 under go1.26.8): per-property rule sets over the SSA of /repo's working tree; thorough tier adds a mutant-sensitivity self-test using in-memory overlays",
        }],
        "checks": checks,
        "not_applicable": na,
        "notes": "All claims are at level `other`: structural necessary conditions decided for all paths / sites / implementations, not the behaviour itself. Known genuine defects are listed in known_findings.json and printed as KNOWN-FINDING lines.",
    }
    with open(os.path.join(os.path.dirname(os.path.abspath(__file__)), "MANIFEST.json"), "w") as f:
        json.dump(m, f, indent=1)
        f.write("\n")

main()
