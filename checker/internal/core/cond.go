package core

import (
	"go/constant"
	"go/token"

	"golang.org/x/tools/go/ssa"
)

// Rel is a binary relation "X Op Y" known to hold on a CFG edge.
type Rel struct {
	X, Y ssa.Value
	Op   token.Token
}

// EdgeRel returns the comparison that holds on edge e when e leaves an If on
// a comparison (operator negated on the false edge).
func EdgeRel(e Edge) (Rel, bool) {
	ifi := BlockIf(e.From)
	if ifi == nil {
		return Rel{}, false
	}
	cmp, ok := IfCompare(ifi)
	if !ok {
		return Rel{}, false
	}
	op := cmp.Op
	if e.Succ == 1 {
		op = NegateOp(op)
	}
	return Rel{cmp.X, cmp.Y, op}, true
}

// Flip returns the relation with operands swapped.
func (r Rel) Flip() Rel {
	op := r.Op
	switch r.Op {
	case token.LSS:
		op = token.GTR
	case token.GTR:
		op = token.LSS
	case token.LEQ:
		op = token.GEQ
	case token.GEQ:
		op = token.LEQ
	}
	return Rel{r.Y, r.X, op}
}

// IfEdges lists both edges of every If-terminated block of fn and of the
// helpers expanded into it (region.go): a test moved into a helper is still a
// test on the paths of fn.
func IfEdges(fn *ssa.Function) []Edge {
	var out []Edge
	for _, g := range RegionOf(fn).Fns {
		for _, b := range g.Blocks {
			if BlockIf(b) != nil {
				out = append(out, Edge{b, 0}, Edge{b, 1})
			}
		}
	}
	return out
}

// EdgesWhere returns the edges of fn's region on which a relation satisfying pred (in either orientation) holds.
// What holds on an edge is given by the atoms the branch condition implies (pathfacts.go): the comparison itself,
// but also the comparisons behind a named boolean (failed := err != nil; if failed) or a conjunction kept in a
// variable. In helpers the relation is also offered with parameters replaced by the arguments of the helper's call
// site, so a predicate about a value of fn recognises it after it was passed down.
func EdgesWhere(fn *ssa.Function, pred func(r Rel) bool) map[Edge]bool {
	out := map[Edge]bool{}
	rg := RegionOf(fn)
	for _, e := range IfEdges(fn) {
		for _, a := range ImpliedAtoms(e) {
			if a.Rel == nil {
				continue
			}
			r := *a.Rel
			if pred(r) || pred(r.Flip()) {
				out[e] = true
				break
			}
			if e.From.Parent() != fn {
				cr := Rel{rg.Canon(r.X), rg.Canon(r.Y), r.Op}
				if (cr.X != Strip(r.X) || cr.Y != Strip(r.Y)) && (pred(cr) || pred(cr.Flip())) {
					out[e] = true
					break
				}
			}
		}
	}
	return out
}

// BoolEdgesWhere returns the edges on which a boolean value satisfying isV is
// true (want=true) or false (want=false), over fn's region - directly, or because the branch condition implies it
// (if !flag, if flag && other, ok := flag; if ok).
func BoolEdgesWhere(fn *ssa.Function, isV func(ssa.Value) bool, want bool) map[Edge]bool {
	out := map[Edge]bool{}
	rg := RegionOf(fn)
	for _, e := range IfEdges(fn) {
		for _, a := range ImpliedAtoms(e) {
			if a.Bool == nil || a.Val != want {
				continue
			}
			if isV(a.Bool) || (e.From.Parent() != fn && isV(rg.Canon(a.Bool))) {
				out[e] = true
				break
			}
		}
	}
	return out
}

// ConstVal returns the exact constant value of v, if any.
func ConstVal(v ssa.Value) constant.Value {
	if c, ok := v.(*ssa.Const); ok && c.Value != nil {
		return c.Value
	}
	return nil
}

// UpperBound: does the relation imply X <= bound (for a constant Y)? Returns
// the largest value X may take.
func (r Rel) UpperBoundConst() (constant.Value, bool) {
	c := ConstVal(r.Y)
	if c == nil || c.Kind() != constant.Int {
		return nil, false
	}
	switch r.Op {
	case token.LEQ, token.EQL:
		return c, true
	case token.LSS:
		return constant.BinaryOp(c, token.SUB, constant.MakeInt64(1)), true
	}
	return nil, false
}

// LowerBoundConst: does the relation imply X >= bound (for a constant Y)?
func (r Rel) LowerBoundConst() (constant.Value, bool) {
	c := ConstVal(r.Y)
	if c == nil || c.Kind() != constant.Int {
		return nil, false
	}
	switch r.Op {
	case token.GEQ, token.EQL:
		return c, true
	case token.GTR:
		return constant.BinaryOp(c, token.ADD, constant.MakeInt64(1)), true
	}
	return nil, false
}

// ImpliesLE reports whether the relation implies X <= Y (non-strict or strict).
func (r Rel) ImpliesLE() bool {
	return r.Op == token.LEQ || r.Op == token.LSS || r.Op == token.EQL
}

// IsLoadOfField reports v == *(&base.field) for a base satisfying isBase.
func IsLoadOfField(v ssa.Value, isBase func(ssa.Value) bool, field string) bool {
	u, ok := v.(*ssa.UnOp)
	if !ok || u.Op != token.MUL {
		return false
	}
	fa, ok := u.X.(*ssa.FieldAddr)
	if !ok || !isBase(fa.X) {
		return false
	}
	st, _ := structOf(fa.X.Type())
	return st != nil && st.Field(fa.Field).Name() == field
}

// LoopBlocks returns, for each back-edge-closed cycle (strongly connected
// component with more than one block or a self loop) of fn's CFG, its blocks.
func LoopBlocks(fn *ssa.Function) [][]*ssa.BasicBlock {
	// Tarjan SCC
	index := 0
	idx := map[*ssa.BasicBlock]int{}
	low := map[*ssa.BasicBlock]int{}
	on := map[*ssa.BasicBlock]bool{}
	var stack []*ssa.BasicBlock
	var out [][]*ssa.BasicBlock
	var strong func(b *ssa.BasicBlock)
	strong = func(b *ssa.BasicBlock) {
		idx[b] = index
		low[b] = index
		index++
		stack = append(stack, b)
		on[b] = true
		for _, s := range b.Succs {
			if _, ok := idx[s]; !ok {
				strong(s)
				if low[s] < low[b] {
					low[b] = low[s]
				}
			} else if on[s] && idx[s] < low[b] {
				low[b] = idx[s]
			}
		}
		if low[b] == idx[b] {
			var comp []*ssa.BasicBlock
			for {
				n := stack[len(stack)-1]
				stack = stack[:len(stack)-1]
				on[n] = false
				comp = append(comp, n)
				if n == b {
					break
				}
			}
			self := false
			for _, s := range b.Succs {
				if s == b {
					self = true
				}
			}
			if len(comp) > 1 || self {
				out = append(out, comp)
			}
		}
	}
	for _, b := range fn.Blocks {
		if _, ok := idx[b]; !ok {
			strong(b)
		}
	}
	return out
}

// AnyOfEdgesWhere returns the edges on which a disjunction of relations holds every member of which satisfies pred:
// the comparison itself, or a boolean assembled from such comparisons by short-circuit "or" (blank := c == ' ' ||
// c == '\t'; if blank) or by assignments under such comparisons (blank := false; if c == ' ' { blank = true }).
// Unlike EdgesWhere, which asks for one atom the edge implies (a conjunct), this asks that whichever way the
// condition came to hold, a relation satisfying pred holds.
func AnyOfEdgesWhere(fn *ssa.Function, pred func(r Rel) bool) map[Edge]bool {
	out := map[Edge]bool{}
	for _, e := range IfEdges(fn) {
		ifi := BlockIf(e.From)
		if ifi != nil && impliesSome(ifi.Cond, e.Succ == 0, pred, 0) {
			out[e] = true
		}
	}
	return out
}

func impliesSome(v ssa.Value, want bool, pred func(Rel) bool, depth int) bool {
	v, neg := CondPolarity(v)
	if neg {
		want = !want
	}
	switch x := v.(type) {
	case *ssa.BinOp:
		op := x.Op
		if !want {
			op = NegateOp(op)
		}
		r := Rel{x.X, x.Y, op}
		return pred(r) || pred(r.Flip())
	case *ssa.Phi:
		if depth > 4 {
			return false
		}
		some := false
		for i, in := range x.Edges {
			if b, ok := ConstBool(in); ok {
				if b != want {
					continue // not a way for v to equal want
				}
				// the constant stands for the branch that led here
				child, p := x.Block(), x.Block().Preds[i]
				for BlockIf(p) == nil {
					if len(p.Preds) != 1 {
						return false
					}
					child, p = p, p.Preds[0]
				}
				if p.Succs[0] == child && p.Succs[1] == child {
					return false
				}
				if !impliesSome(BlockIf(p).Cond, p.Succs[0] == child, pred, depth+1) {
					return false
				}
				some = true
				continue
			}
			if !impliesSome(in, want, pred, depth+1) {
				return false
			}
			some = true
		}
		return some
	}
	return false
}

// NaturalLoops returns the natural loop of every back edge of fn (an edge whose target dominates its source): the
// target (header) and every block that reaches the source without passing the header. Nested loops are separate
// entries (LoopBlocks, by contrast, gives the outermost cycles only).
func NaturalLoops(fn *ssa.Function) []map[*ssa.BasicBlock]bool {
	var out []map[*ssa.BasicBlock]bool
	for _, t := range fn.Blocks {
		for _, h := range t.Succs {
			if !h.Dominates(t) {
				continue
			}
			body := map[*ssa.BasicBlock]bool{h: true}
			work := []*ssa.BasicBlock{t}
			for len(work) > 0 {
				b := work[len(work)-1]
				work = work[:len(work)-1]
				if body[b] {
					continue
				}
				body[b] = true
				work = append(work, b.Preds...)
			}
			out = append(out, body)
		}
	}
	return out
}
