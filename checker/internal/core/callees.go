package core

// Indirect calls and state structs.
//
// Besides moving code into helpers, a developer can (a) bundle the values a function threads through its helpers into a
// small unexported struct, (b) replace a switch by a table of function values, (c) replace a branch by method dispatch
// over a couple of small unexported types, (d) fold near-duplicate code into a generic helper that is handed the
// differing operations as function values. None of these changes behaviour; all of them hide the callee, or the value,
// from an analysis that only follows static calls and SSA registers. This file resolves them from the program itself:
//
//   - FieldSources: a load of a field of a struct type that only this package can write (unexported type, or unexported
//     field) yields one of the values stored to that field anywhere in the package (type-based, flow-insensitive);
//   - funcTargets: the functions a called value can stand for - a function, a closure, a parameter of an expanded
//     helper (the arguments at its call sites), a field (FieldSources), an element of a package-level table (every
//     function stored into that table), the result of an expanded helper;
//   - implementers: the methods an interface call can run when the interface is unexported and declared in the package
//     (closed world: only the package's own types can have been put into it).
//
// A call whose targets are all known is expanded like a static call of each of them (regions, region.go).

import (
	"go/token"
	"go/types"

	"golang.org/x/tools/go/ssa"
)

const maxCallees = 24

var theProg *Program

// ---------- functions of a package ----------

var pkgFnsCache = map[*types.Package][]*ssa.Function{}

func pkgFns(pk *types.Package) []*ssa.Function {
	if pk == nil || theProg == nil {
		return nil
	}
	if len(pkgFnsCache) == 0 {
		for _, fn := range theProg.ModFns {
			if len(fn.Blocks) == 0 {
				continue
			}
			if p := FuncPkg(fn); p != nil {
				pkgFnsCache[p] = append(pkgFnsCache[p], fn)
			}
		}
		// package initialisers are not reported by AllFunctions as members of the module when they carry no object
		for _, sp := range theProg.SSAPkg {
			if ini := sp.Func("init"); ini != nil && len(ini.Blocks) > 0 {
				found := false
				for _, f := range pkgFnsCache[sp.Pkg] {
					if f == ini {
						found = true
					}
				}
				if !found {
					pkgFnsCache[sp.Pkg] = append(pkgFnsCache[sp.Pkg], WithClosures(ini)...)
				}
			}
		}
	}
	return pkgFnsCache[pk]
}

// ---------- field flow ----------

type fieldKey struct {
	obj *types.TypeName
	idx int
}

var fieldStores map[fieldKey][]*ssa.Store

// fieldOfAddr: the (struct type, field) an address denotes when it is a field address.
func fieldOfAddr(a ssa.Value) (fieldKey, *types.Var, bool) {
	fa, ok := a.(*ssa.FieldAddr)
	if !ok {
		return fieldKey{}, nil, false
	}
	t := fa.X.Type()
	if p, ok := t.Underlying().(*types.Pointer); ok {
		t = p.Elem()
	}
	return fieldKeyOf(t, fa.Field)
}

func fieldKeyOf(t types.Type, idx int) (fieldKey, *types.Var, bool) {
	named := namedOf(t)
	if named == nil {
		return fieldKey{}, nil, false
	}
	st, ok := named.Underlying().(*types.Struct)
	if !ok || idx >= st.NumFields() {
		return fieldKey{}, nil, false
	}
	return fieldKey{named.Origin().Obj(), idx}, st.Field(idx), true
}

// privateField: only the declaring package can store to this field (the closed world FieldSources relies on).
func privateField(k fieldKey, f *types.Var) bool {
	if k.obj == nil || k.obj.Pkg() == nil || theProg == nil {
		return false
	}
	if p := k.obj.Pkg().Path(); p != ModPath && !hasPrefix(p, ModPath+"/") {
		return false
	}
	return !k.obj.Exported() || !f.Exported()
}

func hasPrefix(s, p string) bool { return len(s) >= len(p) && s[:len(p)] == p }

func buildFieldStores() {
	fieldStores = map[fieldKey][]*ssa.Store{}
	if theProg == nil {
		return
	}
	for _, fn := range theProg.ModFns {
		Instrs(fn, func(in ssa.Instruction) {
			st, ok := in.(*ssa.Store)
			if !ok {
				return
			}
			if k, f, ok := fieldOfAddr(st.Addr); ok && privateField(k, f) {
				fieldStores[k] = append(fieldStores[k], st)
			}
		})
	}
	for _, sp := range theProg.SSAPkg {
		if ini := sp.Func("init"); ini != nil {
			for _, fn := range WithClosures(ini) {
				if theProg.AllFns[fn] && theProg.InModule(fn) {
					continue // already scanned
				}
				Instrs(fn, func(in ssa.Instruction) {
					if st, ok := in.(*ssa.Store); ok {
						if k, f, ok := fieldOfAddr(st.Addr); ok && privateField(k, f) {
							fieldStores[k] = append(fieldStores[k], st)
						}
					}
				})
			}
		}
	}
}

// FieldLoad reports whether v reads a private field (a load through a field address, or a field of a struct value) and
// returns the field's identity.
func fieldLoad(v ssa.Value) (fieldKey, bool) {
	switch x := v.(type) {
	case *ssa.UnOp:
		if x.Op == token.MUL {
			if k, f, ok := fieldOfAddr(x.X); ok && privateField(k, f) {
				return k, true
			}
		}
	case *ssa.Field:
		if k, f, ok := fieldKeyOf(x.X.Type(), x.Field); ok && privateField(k, f) {
			return k, true
		}
	}
	return fieldKey{}, false
}

// FieldSources lists the values stored, anywhere in the declaring package, to the private field that v reads; ok is
// false when v is not such a read. Updates of the field from its own value (x.f = x.f - n) are left out: they do not
// introduce a new origin.
func FieldSources(v ssa.Value) ([]ssa.Value, bool) {
	k, ok := fieldLoad(v)
	if !ok {
		return nil, false
	}
	if fieldStores == nil {
		buildFieldStores()
	}
	var out []ssa.Value
	for _, st := range fieldStores[k] {
		if selfUpdate(st.Val, k, 0) {
			continue
		}
		out = append(out, st.Val)
	}
	return out, true
}

// LocalFieldSources is FieldSources for the state of ONE activation: v must read a field of a struct that was created
// inside the region (a local variable or composite literal of the root or of a helper, possibly handed around by
// pointer or by value), and only the stores made by the region's own functions count. A field of a longer-lived object
// (the receiver of an exported method, a struct reached through a parameter of the root) is an origin of its own: ok is
// false for it.
func (r *Region) LocalFieldSources(v ssa.Value) ([]ssa.Value, bool) {
	k, ok := fieldLoad(v)
	if !ok {
		return nil, false
	}
	var base ssa.Value
	switch x := v.(type) {
	case *ssa.UnOp:
		base = x.X.(*ssa.FieldAddr).X
	case *ssa.Field:
		base = x.X
	}
	if !r.rootsLocal(base, 0, map[ssa.Value]bool{}) {
		return nil, false
	}
	if fieldStores == nil {
		buildFieldStores()
	}
	var out []ssa.Value
	for _, st := range fieldStores[k] {
		if !r.in[st.Parent()] || selfUpdate(st.Val, k, 0) {
			continue
		}
		out = append(out, st.Val)
	}
	return out, true
}

// rootsLocal: every origin of the struct (pointer or value) b is a variable of one of the region's functions.
func (r *Region) rootsLocal(b ssa.Value, depth int, seen map[ssa.Value]bool) bool {
	b = Strip(b)
	if depth > 10 {
		return false
	}
	if seen[b] {
		return true
	}
	seen[b] = true
	switch x := b.(type) {
	case *ssa.Alloc:
		if !r.in[x.Parent()] {
			return false
		}
		// whole values copied into the variable must be local too
		for _, ref := range *x.Referrers() {
			if st, ok := ref.(*ssa.Store); ok && st.Addr == ssa.Value(x) {
				if !r.rootsLocal(st.Val, depth+1, seen) {
					return false
				}
			}
		}
		return true
	case *ssa.Const:
		return true
	case *ssa.UnOp:
		if x.Op != token.MUL {
			return false
		}
		if _, isField := fieldLoad(x); isField {
			// a struct (pointer) kept in a field of another struct: local if that one is
			return r.rootsLocal(x.X.(*ssa.FieldAddr).X, depth+1, seen) && func() bool {
				srcs, ok := r.LocalFieldSources(x)
				if !ok {
					return false
				}
				for _, sv := range srcs {
					if !r.rootsLocal(sv, depth+1, seen) {
						return false
					}
				}
				return true
			}()
		}
		return r.rootsLocal(x.X, depth+1, seen)
	case *ssa.FieldAddr:
		return r.rootsLocal(x.X, depth+1, seen)
	case *ssa.Field:
		return r.rootsLocal(x.X, depth+1, seen)
	case *ssa.Phi:
		for _, e := range x.Edges {
			if !r.rootsLocal(e, depth+1, seen) {
				return false
			}
		}
		return true
	case *ssa.Parameter:
		g := x.Parent()
		if g == nil || g == r.Root || !r.in[g] || len(r.sites[g]) == 0 {
			return false
		}
		idx := -1
		for j, p := range g.Params {
			if p == x {
				idx = j
			}
		}
		for _, cs := range r.sites[g] {
			a := ArgForParam(cs, idx)
			if a == nil || !r.rootsLocal(a, depth+1, seen) {
				return false
			}
		}
		return true
	case *ssa.FreeVar:
		g := x.Parent()
		if g == nil || !r.in[g] || g.Parent() == nil {
			return false
		}
		var bound ssa.Value
		Instrs(g.Parent(), func(in ssa.Instruction) {
			if mc, ok := in.(*ssa.MakeClosure); ok && mc.Fn == ssa.Value(g) {
				for j, fv := range g.FreeVars {
					if fv == x && j < len(mc.Bindings) {
						bound = mc.Bindings[j]
					}
				}
			}
		})
		return bound != nil && r.rootsLocal(bound, depth+1, seen)
	case *ssa.Call:
		return r.resultsLocal(x, 0, depth, seen)
	case *ssa.Extract:
		if c, ok := x.Tuple.(*ssa.Call); ok {
			return r.resultsLocal(c, x.Index, depth, seen)
		}
	}
	return false
}

func (r *Region) resultsLocal(c *ssa.Call, idx, depth int, seen map[ssa.Value]bool) bool {
	gs := r.callees[c]
	if len(gs) == 0 || r.opaqueToo[c] {
		return false
	}
	for _, g := range gs {
		for _, ret := range Returns(g) {
			if idx >= len(ret.Results) {
				return false
			}
			for _, rv := range ResultValues(ret, idx) {
				if IsNilConst(rv) || IsZeroMarker(rv) {
					continue
				}
				if !r.rootsLocal(rv, depth+1, seen) {
					return false
				}
			}
		}
	}
	return true
}

// selfUpdate: sv is computed from a read of the same field (arithmetic, slicing, append to itself).
func selfUpdate(sv ssa.Value, k fieldKey, depth int) bool {
	if depth > 3 {
		return false
	}
	if k2, ok := fieldLoad(sv); ok && k2 == k {
		return true
	}
	switch x := sv.(type) {
	case *ssa.BinOp:
		return selfUpdate(x.X, k, depth+1) || selfUpdate(x.Y, k, depth+1)
	case *ssa.Convert:
		return selfUpdate(x.X, k, depth+1)
	case *ssa.Slice:
		return selfUpdate(x.X, k, depth+1)
	case *ssa.Call:
		if b, ok := x.Call.Value.(*ssa.Builtin); ok && b.Name() == "append" && len(x.Call.Args) > 0 {
			return selfUpdate(x.Call.Args[0], k, depth+1)
		}
	}
	return false
}

// ---------- tables of functions ----------

var globalFuncsCache = map[*ssa.Global][]*ssa.Function{}

// addrRoot strips field/index steps from an address.
func addrRoot(a ssa.Value) ssa.Value {
	for i := 0; i < 16; i++ {
		switch x := a.(type) {
		case *ssa.FieldAddr:
			a = x.X
		case *ssa.IndexAddr:
			a = x.X
		default:
			return a
		}
	}
	return a
}

// globalFuncs lists the function values stored (at any depth) into the package-level variable g by the code of its
// package: the composite literal of its declaration, an init function, a registration helper.
func globalFuncs(g *ssa.Global) []*ssa.Function {
	if fs, ok := globalFuncsCache[g]; ok {
		return fs
	}
	globalFuncsCache[g] = nil
	var out []*ssa.Function
	seenF := map[*ssa.Function]bool{}
	if g.Pkg == nil {
		return nil
	}
	for _, fn := range pkgFns(g.Pkg.Pkg) {
		mentions := false
		Instrs(fn, func(in ssa.Instruction) {
			for _, op := range in.Operands(nil) {
				if *op == ssa.Value(g) {
					mentions = true
				}
			}
		})
		if !mentions {
			continue
		}
		// values that flow into g inside fn (flow-insensitive containment)
		into := map[ssa.Value]bool{g: true}
		add := func(v ssa.Value) bool {
			v = Strip(v)
			if v == nil || into[v] {
				return false
			}
			into[v] = true
			return true
		}
		for changed, rounds := true, 0; changed && rounds < 12; rounds++ {
			changed = false
			Instrs(fn, func(in ssa.Instruction) {
				switch x := in.(type) {
				case *ssa.Store:
					if into[addrRoot(x.Addr)] && add(x.Val) {
						changed = true
					}
				case *ssa.MapUpdate:
					if into[Strip(x.Map)] && add(x.Value) {
						changed = true
					}
				case *ssa.UnOp:
					if x.Op == token.MUL && into[x] && add(addrRoot(x.X)) {
						changed = true
					}
				case *ssa.Slice:
					if into[x] && add(addrRoot(x.X)) {
						changed = true
					}
				case *ssa.Call:
					// append(table, f...) / a value built by a helper are not followed further
					if b, ok := x.Call.Value.(*ssa.Builtin); ok && b.Name() == "append" && into[x] {
						for _, a := range x.Call.Args {
							if add(a) {
								changed = true
							}
						}
					}
				}
			})
		}
		for v := range into {
			var f *ssa.Function
			switch x := v.(type) {
			case *ssa.Function:
				f = x
			case *ssa.MakeClosure:
				f, _ = x.Fn.(*ssa.Function)
			}
			if f != nil && !seenF[f] {
				seenF[f] = true
				out = append(out, f)
			}
		}
	}
	sortFns(out)
	globalFuncsCache[g] = out
	return out
}

func sortFns(fs []*ssa.Function) {
	for i := 1; i < len(fs); i++ {
		for j := i; j > 0 && fnLess(fs[j], fs[j-1]); j-- {
			fs[j], fs[j-1] = fs[j-1], fs[j]
		}
	}
}

func fnLess(a, b *ssa.Function) bool {
	if a.Pos() != b.Pos() {
		return a.Pos() < b.Pos()
	}
	return a.String() < b.String()
}

// tableRoot: the package-level variable an element/field/lookup expression reads from, if any.
func tableRoot(v ssa.Value) *ssa.Global {
	for i := 0; i < 12; i++ {
		switch x := v.(type) {
		case *ssa.Global:
			return x
		case *ssa.UnOp:
			if x.Op != token.MUL {
				return nil
			}
			v = x.X
		case *ssa.FieldAddr:
			v = x.X
		case *ssa.IndexAddr:
			v = x.X
		case *ssa.Field:
			v = x.X
		case *ssa.Index:
			v = x.X
		case *ssa.Lookup:
			v = x.X
		case *ssa.Extract:
			if _, ok := x.Tuple.(*ssa.Lookup); !ok {
				return nil
			}
			v = x.Tuple
		case *ssa.Slice:
			v = x.X
		case *ssa.ChangeType:
			v = x.X
		default:
			return nil
		}
	}
	return nil
}

// ---------- targets of a called value ----------

// funcTargets resolves the functions v can stand for; complete is false when some origin of v is unknown (a parameter
// of the root, a field the user sets, a result of an opaque call), in which case the call stays an opaque step.
func (r *Region) funcTargets(v ssa.Value, depth int, seen map[ssa.Value]bool) (out []*ssa.Function, complete bool) {
	v = Strip(v)
	if depth > 8 || seen[v] {
		return nil, true
	}
	seen[v] = true
	sig, _ := v.Type().Underlying().(*types.Signature)
	union := func(vals []ssa.Value) ([]*ssa.Function, bool) {
		var acc []*ssa.Function
		for _, w := range vals {
			if IsNilConst(w) || IsZeroMarker(w) {
				continue
			}
			fs, ok := r.funcTargets(w, depth+1, seen)
			if !ok {
				return nil, false
			}
			acc = append(acc, fs...)
		}
		return acc, true
	}
	switch x := v.(type) {
	case *ssa.Function:
		return []*ssa.Function{x}, true
	case *ssa.MakeClosure:
		if f, ok := x.Fn.(*ssa.Function); ok {
			return []*ssa.Function{f}, true
		}
		return nil, false
	case *ssa.Phi:
		return union(x.Edges)
	case *ssa.Parameter:
		g := x.Parent()
		if g == nil || g == r.Root || !r.in[g] || len(r.sites[g]) == 0 {
			return nil, false
		}
		idx := -1
		for j, p := range g.Params {
			if p == x {
				idx = j
			}
		}
		var vals []ssa.Value
		for _, cs := range r.sites[g] {
			args := cs.Common().Args
			if cs.Common().IsInvoke() {
				// receiver is Value, the remaining parameters follow
				if idx == 0 {
					return nil, false
				}
				if idx-1 < len(args) {
					vals = append(vals, args[idx-1])
					continue
				}
				return nil, false
			}
			if idx < 0 || idx >= len(args) {
				return nil, false
			}
			vals = append(vals, args[idx])
		}
		return union(vals)
	case *ssa.FreeVar:
		return nil, false
	case *ssa.UnOp:
		if x.Op != token.MUL {
			return nil, false
		}
		if srcs, ok := FieldSources(x); ok {
			if len(srcs) == 0 {
				return nil, false
			}
			return union(srcs)
		}
		if g := tableRoot(x); g != nil && theProg != nil && theProg.InModuleGlobal(g) {
			return typedFuncs(globalFuncs(g), sig), true
		}
		root, _ := addrPath(x.X)
		if _, ok := root.(*ssa.Alloc); ok {
			vals := storedValues(x.X)
			if len(vals) == 0 {
				return nil, false
			}
			return union(vals)
		}
		return nil, false
	case *ssa.Field:
		if srcs, ok := FieldSources(x); ok && len(srcs) > 0 {
			return union(srcs)
		}
		if g := tableRoot(x); g != nil && theProg != nil && theProg.InModuleGlobal(g) {
			return typedFuncs(globalFuncs(g), sig), true
		}
		return nil, false
	case *ssa.Lookup, *ssa.Index:
		if g := tableRoot(x); g != nil && theProg != nil && theProg.InModuleGlobal(g) {
			return typedFuncs(globalFuncs(g), sig), true
		}
		return nil, false
	case *ssa.Extract:
		if g := tableRoot(x); g != nil && theProg != nil && theProg.InModuleGlobal(g) {
			return typedFuncs(globalFuncs(g), sig), true
		}
		if c, ok := x.Tuple.(*ssa.Call); ok {
			return r.resultTargets(c, x.Index, depth, seen)
		}
		return nil, false
	case *ssa.Call:
		return r.resultTargets(x, 0, depth, seen)
	}
	return nil, false
}

// resultTargets: the functions an expanded helper can return as result idx.
func (r *Region) resultTargets(c *ssa.Call, idx, depth int, seen map[ssa.Value]bool) ([]*ssa.Function, bool) {
	gs := r.callees[c]
	if len(gs) == 0 || r.opaqueToo[c] {
		return nil, false
	}
	var acc []*ssa.Function
	for _, g := range gs {
		for _, ret := range Returns(g) {
			if idx >= len(ret.Results) {
				return nil, false
			}
			for _, rv := range ResultValues(ret, idx) {
				if IsNilConst(rv) || IsZeroMarker(rv) {
					continue
				}
				fs, ok := r.funcTargets(rv, depth+1, seen)
				if !ok {
					return nil, false
				}
				acc = append(acc, fs...)
			}
		}
	}
	return acc, true
}

// typedFuncs keeps the functions whose signature is that of the called value.
func typedFuncs(fs []*ssa.Function, sig *types.Signature) []*ssa.Function {
	if sig == nil {
		return fs
	}
	var out []*ssa.Function
	for _, f := range fs {
		fsig := f.Signature
		if fsig.Recv() != nil {
			continue
		}
		if types.Identical(types.NewSignatureType(nil, nil, nil, fsig.Params(), fsig.Results(), fsig.Variadic()), types.NewSignatureType(nil, nil, nil, sig.Params(), sig.Results(), sig.Variadic())) {
			out = append(out, f)
		}
	}
	return out
}

// ---------- interface dispatch inside the package ----------

var implCache = map[string][]*ssa.Function{}

// implementers: for a call of method m on an interface type that only the caller's package can satisfy from outside
// view - an unexported interface declared in the module - the methods of the package's own types that can run.
func implementers(caller *ssa.Function, cc *ssa.CallCommon) []*ssa.Function {
	if !cc.IsInvoke() || theProg == nil {
		return nil
	}
	named := namedOf(cc.Value.Type())
	if named == nil {
		return nil
	}
	obj := named.Obj()
	if obj.Pkg() == nil || obj.Exported() || FuncPkg(caller) != obj.Pkg() {
		return nil
	}
	iface, ok := named.Underlying().(*types.Interface)
	if !ok {
		return nil
	}
	key := obj.Pkg().Path() + "." + obj.Name() + "." + cc.Method.Name()
	if fs, ok := implCache[key]; ok {
		return fs
	}
	var out []*ssa.Function
	scope := obj.Pkg().Scope()
	consider := func(T types.Type) {
		if types.IsInterface(T) || !types.Implements(T, iface) {
			return
		}
		sel := theProg.SSA.MethodSets.MethodSet(T).Lookup(cc.Method.Pkg(), cc.Method.Name())
		if sel == nil {
			return
		}
		if f := theProg.SSA.MethodValue(sel); f != nil && len(f.Blocks) > 0 {
			// a pointer-receiver wrapper of a value method stands for the value method
			out = append(out, f)
		}
	}
	for _, name := range scope.Names() {
		tn, ok := scope.Lookup(name).(*types.TypeName)
		if !ok || tn.IsAlias() {
			continue
		}
		T := tn.Type()
		if nt, ok := T.(*types.Named); ok && nt.TypeParams().Len() > 0 {
			continue
		}
		if types.Implements(T, iface) {
			consider(T)
		} else {
			consider(types.NewPointer(T))
		}
	}
	// types declared inside functions (rare) are not in the package scope: the closed world is then not known
	sortFns(out)
	if len(out) > maxCallees {
		out = nil
	}
	implCache[key] = out
	return out
}

// resetProgramCaches drops everything derived from a previously loaded program (mutants are loaded one after another
// in one process).
func resetProgramCaches() {
	pkgFnsCache = map[*types.Package][]*ssa.Function{}
	fieldStores = nil
	globalFuncsCache = map[*ssa.Global][]*ssa.Function{}
	implCache = map[string][]*ssa.Function{}
	constTableCache = map[*ssa.Global]map[string]string{}
}

// FieldID identifies a struct field by its declaring named type and index (all instances of the type conflated).
type FieldID struct {
	Type  *types.TypeName
	Index int
}

// FieldOfAddr returns the field an address denotes when it is a field address of a named struct type.
func FieldOfAddr(a ssa.Value) (FieldID, *types.Var, bool) {
	k, f, ok := fieldOfAddr(a)
	return FieldID{k.obj, k.idx}, f, ok
}

// FieldOfLoad returns the field a value reads: a load through a field address or a field of a struct value.
func FieldOfLoad(v ssa.Value) (FieldID, *types.Var, bool) {
	switch x := v.(type) {
	case *ssa.UnOp:
		if x.Op == token.MUL {
			return FieldOfAddr(x.X)
		}
	case *ssa.Field:
		k, f, ok := fieldKeyOf(x.X.Type(), x.Field)
		return FieldID{k.obj, k.idx}, f, ok
	}
	return FieldID{}, nil, false
}

// CallTargets lists the functions a call instruction can run as far as the program itself tells: the static callee,
// the implementers of an unexported interface of the package, the functions a called value can stand for (a table, a
// field, a function parameter of a helper). nil when nothing is known.
func CallTargets(ci ssa.CallInstruction) []*ssa.Function {
	cc := ci.Common()
	if cal := cc.StaticCallee(); cal != nil {
		return []*ssa.Function{cal}
	}
	caller := ci.Parent()
	if caller == nil {
		return nil
	}
	if cc.IsInvoke() {
		return implementers(caller, cc)
	}
	if _, isB := cc.Value.(*ssa.Builtin); isB {
		return nil
	}
	top := caller
	for top.Parent() != nil {
		top = top.Parent()
	}
	ts, complete := RegionOf(top).funcTargets(cc.Value, 0, map[ssa.Value]bool{})
	if !complete {
		return nil
	}
	return ts
}

// Calls reports whether ci can run fn (CallTargets).
func CallsFunc(ci ssa.CallInstruction, fn *ssa.Function) bool {
	for _, g := range CallTargets(ci) {
		if g == fn {
			return true
		}
	}
	return false
}
