package core

// Regions: virtual inlining of same-package helpers.
//
// A developer can move any block of a function into an unexported helper (or inline a helper back) without changing
// behaviour. Path rules therefore never look at one ssa.Function in isolation: a function is analysed together with
// the functions of its own package that it calls statically and the closures it calls directly (its "region"), as if
// their bodies stood at the call sites. Reach explores that expanded control-flow graph context-sensitively (a callee's
// return goes back to the call it was entered from), and remembers which return of a helper was taken so that the
// caller's test of the helper's result (err != nil, ok, found) only continues along the feasible branch - that is what
// makes "the check moved into a helper that returns an error" equivalent to the check written inline.

import (
	"fmt"
	"go/token"
	"go/types"
	"strings"

	"golang.org/x/tools/go/ssa"
)

const regionDepth = 4
const regionMaxFns = 48

// Region is a root function plus the helpers expanded into it.
type Region struct {
	Root  *ssa.Function
	Fns   []*ssa.Function // root first
	in    map[*ssa.Function]bool
	sites map[*ssa.Function][]ssa.CallInstruction // call sites of each helper inside the region
	// callees: the helpers each expanded call instruction can run (one for a static call; several for a call through a
	// table, a field, a function parameter or an unexported interface - callees.go). opaqueToo marks calls that can
	// also run something the region does not expand: exploration then continues past the call as well.
	callees   map[ssa.CallInstruction][]*ssa.Function
	opaqueToo map[ssa.CallInstruction]bool
}

type regionKey struct {
	fn    *ssa.Function
	cycle bool
}

var regionCache = map[regionKey]*Region{}

// cycleStages: while set, regions also expand unexported functions that lead back to the root (the stages a recursive
// function was split into: collect / sort / emit, where emit recurses into the root for each child).
var cycleStages bool

// WithCycleStages runs f with regions that expand the stages of recursive algorithms.
func WithCycleStages(f func()) {
	old := cycleStages
	cycleStages = true
	defer func() { cycleStages = old }()
	f()
}

// HelperCallee returns the function whose body a call instruction runs when that function is a helper in the sense
// above: a static callee with a body that is an unexported function or method of the caller's package, or a closure
// called directly. Exported API stays an opaque step (rules that rely on one API function being built on another say so
// explicitly, e.g. C06.derived); go and defer statements are not expanded.
func HelperCallee(caller *ssa.Function, ci ssa.CallInstruction) *ssa.Function {
	switch ci.(type) {
	case *ssa.Go, *ssa.Defer:
		return nil
	}
	cal := ci.Common().StaticCallee()
	if cal == nil || !expandable(caller, cal, false) {
		return nil
	}
	return cal
}

// expandable: cal's body may be analysed as part of caller's activation. viaValue tells that cal was resolved from a
// function value or an interface call: the synthetic adapters a method value or method expression is wrapped in are
// then transparent (their body is the one call they stand for).
func expandable(caller, cal *ssa.Function, viaValue bool) bool {
	if cal == nil || len(cal.Blocks) == 0 {
		return false
	}
	if cal.Synthetic != "" {
		inst := cal.Origin() != nil && cal.Origin() != cal // an instance of a generic function is a function like any other
		if !inst && !(viaValue && isAdapter(cal)) {
			return false
		}
		if !inst {
			return true
		}
	}
	if cal.Parent() != nil {
		return true
	}
	name := cal.Name()
	if o := cal.Origin(); o != nil {
		name = o.Name()
	}
	cp, fp := FuncPkg(cal), FuncPkg(caller)
	if cp == nil || fp == nil || cp != fp || token.IsExported(name) {
		return false
	}
	return true
}

// isAdapter: a thunk or bound-method wrapper - a synthetic function that only forwards to one method.
func isAdapter(f *ssa.Function) bool {
	if f.Synthetic == "" || len(f.Blocks) != 1 {
		return false
	}
	n := 0
	for _, in := range f.Blocks[0].Instrs {
		if _, ok := in.(ssa.CallInstruction); ok {
			n++
		}
	}
	return n == 1
}

// resolveCallees lists the functions a call instruction can run as far as the program itself tells (static callee,
// targets of a function value, implementers of an unexported interface), split into those the region may expand and a
// flag telling that something else can run too.
func (r *Region) resolveCallees(caller *ssa.Function, ci ssa.CallInstruction) (exp []*ssa.Function, other bool) {
	switch ci.(type) {
	case *ssa.Go, *ssa.Defer:
		return nil, true
	}
	cc := ci.Common()
	if cal := cc.StaticCallee(); cal != nil {
		if expandable(caller, cal, false) {
			return []*ssa.Function{cal}, false
		}
		return nil, true
	}
	var targets []*ssa.Function
	if cc.IsInvoke() {
		targets = implementers(caller, cc)
	} else {
		ts, complete := r.funcTargets(cc.Value, 0, map[ssa.Value]bool{})
		if complete {
			targets = ts
		}
	}
	if len(targets) == 0 || len(targets) > maxCallees {
		return nil, true
	}
	seen := map[*ssa.Function]bool{}
	for _, g := range targets {
		if seen[g] {
			continue
		}
		seen[g] = true
		if expandable(caller, g, true) {
			exp = append(exp, g)
		} else {
			other = true
		}
	}
	return exp, other
}

// reachesStatic reports whether from can reach to through static calls (any package), bounded.
func reachesStatic(from, to *ssa.Function) bool {
	seen := map[*ssa.Function]bool{from: true}
	work := []*ssa.Function{from}
	for len(work) > 0 && len(seen) < 400 {
		f := work[0]
		work = work[1:]
		for _, ci := range Calls(f) {
			g := ci.Common().StaticCallee()
			if g == nil {
				continue
			}
			if g == to {
				return true
			}
			if !seen[g] && len(g.Blocks) > 0 && FuncPkg(g) == FuncPkg(to) {
				seen[g] = true
				work = append(work, g)
			}
		}
		for _, an := range f.AnonFuncs {
			if !seen[an] {
				seen[an] = true
				work = append(work, an)
			}
		}
	}
	return false
}

// RegionOf computes (and caches) the region of root.
func RegionOf(root *ssa.Function) *Region {
	if r, ok := regionCache[regionKey{root, cycleStages}]; ok {
		return r
	}
	r := &Region{Root: root, Fns: []*ssa.Function{root}, in: map[*ssa.Function]bool{root: true}, sites: map[*ssa.Function][]ssa.CallInstruction{},
		callees: map[ssa.CallInstruction][]*ssa.Function{}, opaqueToo: map[ssa.CallInstruction]bool{}}
	frontier := []*ssa.Function{root}
	recursive := map[*ssa.Function]bool{}
	for d := 0; d < regionDepth && len(frontier) > 0; d++ {
		var next []*ssa.Function
		for _, f := range frontier {
			for _, ci := range Calls(f) {
				gs, other := r.resolveCallees(f, ci)
				if len(gs) == 0 {
					continue
				}
				for _, g := range gs {
					if g == root {
						other = true
						continue
					}
					if !r.in[g] {
						// a function that leads back to the root is the recursion of the algorithm, not a helper of this
						// activation - unless the rule asked for the stages of a recursive algorithm to be expanded too
						// (WithCycleStages); the root itself is never re-entered either way
						if !cycleStages {
							if rec, ok := recursive[g]; ok && rec {
								other = true
								continue
							} else if !ok {
								recursive[g] = reachesStatic(g, root)
								if recursive[g] {
									other = true
									continue
								}
							}
						}
						if len(r.Fns) >= regionMaxFns {
							other = true
							continue
						}
						r.in[g] = true
						r.Fns = append(r.Fns, g)
						next = append(next, g)
					}
					r.sites[g] = append(r.sites[g], ci)
					r.callees[ci] = append(r.callees[ci], g)
				}
				if other {
					r.opaqueToo[ci] = true
				}
			}
		}
		frontier = next
	}
	// call sites found in the last layer's functions (calls among helpers already in the region)
	regionCache[regionKey{root, cycleStages}] = r
	return r
}

// HelperOf returns the helper a call instruction expands to in this region (nil when the call is an opaque step).
func (r *Region) HelperOf(ci ssa.CallInstruction) *ssa.Function {
	if gs := r.callees[ci]; len(gs) == 1 && !r.opaqueToo[ci] {
		return gs[0]
	}
	return nil
}

// HelpersOf lists the helpers a call instruction can run in this region; alsoOpaque tells that it can run something
// the region does not expand as well.
func (r *Region) HelpersOf(ci ssa.CallInstruction) (gs []*ssa.Function, alsoOpaque bool) {
	return r.callees[ci], r.opaqueToo[ci]
}

// IsHelperResult reports whether v is (a result of) a call that the region expands.
func (r *Region) IsHelperResult(v ssa.Value) bool {
	switch x := v.(type) {
	case *ssa.Call:
		return r.HelperOf(x) != nil
	case *ssa.Extract:
		if c, ok := x.Tuple.(*ssa.Call); ok {
			return r.HelperOf(c) != nil
		}
	}
	return false
}

// Blocks lists the basic blocks of the root and of every expanded helper.
func (r *Region) Blocks() []*ssa.BasicBlock {
	var out []*ssa.BasicBlock
	for _, g := range r.Fns {
		out = append(out, g.Blocks...)
	}
	return out
}

// EdgeDominates: every path from the root's entry to blk crosses edge e. When blk lies in a helper and e in one of its
// (transitive) callers, that holds if e dominates every call site through which the helper is entered.
func (r *Region) EdgeDominates(e Edge, blk *ssa.BasicBlock) bool {
	return r.edgeDominates(e, blk, 0)
}

func (r *Region) edgeDominates(e Edge, blk *ssa.BasicBlock, depth int) bool {
	if e.From.Parent() == blk.Parent() {
		return EdgeDominates(e, blk)
	}
	g := blk.Parent()
	if depth > regionDepth || g == r.Root || !r.in[g] || len(r.sites[g]) == 0 {
		return false
	}
	for _, cs := range r.sites[g] {
		if !r.edgeDominates(e, cs.Block(), depth+1) {
			return false
		}
	}
	return true
}

// Has reports whether fn is the root or one of its expanded helpers.
func (r *Region) Has(fn *ssa.Function) bool { return r.in[fn] }

// Sites lists the call sites of helper g inside the region.
func (r *Region) Sites(g *ssa.Function) []ssa.CallInstruction { return r.sites[g] }

// InstrsR calls f for every instruction of fn and of the helpers expanded into it.
func InstrsR(fn *ssa.Function, f func(ssa.Instruction)) {
	for _, g := range RegionOf(fn).Fns {
		Instrs(g, f)
	}
}

// CallsR lists the call instructions of fn and of the helpers expanded into it.
func CallsR(fn *ssa.Function) []ssa.CallInstruction {
	var out []ssa.CallInstruction
	for _, g := range RegionOf(fn).Fns {
		out = append(out, Calls(g)...)
	}
	return out
}

// Canon resolves a value through the helper boundaries of the region to the value it stands for:
//   - a parameter of a helper that has exactly one call site in the region is the argument passed there;
//   - a captured variable of a directly called closure is the variable bound by its MakeClosure;
//   - a result of an expanded helper call is the value the helper returns for that result when, nil/zero constants
//     aside, all its returns agree on one value (the usual `return nil, err` / `return v, nil` shape).
//
// The steps are repeated; other values are returned with conversions stripped.
func (r *Region) Canon(v ssa.Value) ssa.Value { return r.canon(v, 0) }

func (r *Region) canon(v ssa.Value, depth int) ssa.Value {
	if depth > 2*regionDepth {
		return Strip(v)
	}
	for i := 0; i < 2*regionDepth+2; i++ {
		v = Strip(v)
		switch x := v.(type) {
		case *ssa.Parameter:
			g := x.Parent()
			if g == r.Root || !r.in[g] || len(r.sites[g]) == 0 {
				return v
			}
			idx := -1
			for j, p := range g.Params {
				if p == x {
					idx = j
				}
			}
			// the argument at the helper's call site; with several call sites, the value they all agree on
			var agreed ssa.Value
			for k, cs := range r.sites[g] {
				a := ArgForParam(cs, idx)
				if idx < 0 || a == nil {
					return v
				}
				if len(r.sites[g]) > 1 {
					a = r.canon(a, depth+i+1)
				}
				if k == 0 {
					agreed = a
				} else if Strip(agreed) != Strip(a) {
					return v
				}
			}
			v = agreed
		case *ssa.FreeVar:
			g := x.Parent()
			if g == r.Root || !r.in[g] {
				return v
			}
			// the binding of a closure's free variable: find the MakeClosure in the parent
			var bound ssa.Value
			if par := g.Parent(); par != nil {
				Instrs(par, func(in ssa.Instruction) {
					if mc, ok := in.(*ssa.MakeClosure); ok && mc.Fn == ssa.Value(g) {
						for j, fv := range g.FreeVars {
							if fv == x && j < len(mc.Bindings) {
								bound = mc.Bindings[j]
							}
						}
					}
				})
			}
			if bound == nil {
				return v
			}
			return Strip(bound) // an address (the variable is captured by reference); callers compare addresses
		case *ssa.UnOp:
			// a load of a local variable that is assigned exactly once (a parameter spilled to memory because a closure
			// captures it, a single-assignment local): the value assigned
			if x.Op != token.MUL {
				return v
			}
			if w := r.uniqueFieldSource(x); w != nil {
				v = w
				continue
			}
			al, ok := x.X.(*ssa.Alloc)
			if !ok {
				return v
			}
			vals := storedValues(al)
			if len(vals) != 1 {
				return v
			}
			v = vals[0]
		case *ssa.Field:
			w := r.uniqueFieldSource(x)
			if w == nil {
				return v
			}
			v = w
		case *ssa.Call:
			w := r.uniqueResult(x, 0)
			if w == nil {
				return v
			}
			v = w
		case *ssa.Extract:
			c, ok := x.Tuple.(*ssa.Call)
			if !ok {
				return v
			}
			w := r.uniqueResult(c, x.Index)
			if w == nil {
				return v
			}
			v = w
		default:
			return v
		}
	}
	return v
}

// uniqueFieldSource: v reads a field of a struct created inside the region (LocalFieldSources), and the region stores
// one value there (zero values and updates of the field from itself aside): that value. This is how a value handed from function to function inside a
// small state struct is the same value as when it was handed over as a parameter.
func (r *Region) uniqueFieldSource(v ssa.Value) ssa.Value {
	srcs, ok := r.LocalFieldSources(v)
	if !ok {
		return nil
	}
	var only ssa.Value
	for _, sv := range srcs {
		if IsNilConst(sv) || IsZeroMarker(sv) {
			continue
		}
		if c, isC := sv.(*ssa.Const); isC && c.Value == nil {
			continue
		}
		w := Strip(sv)
		if only == nil {
			only = w
		} else if only != w {
			return nil
		}
	}
	return only
}

// uniqueResult: the single non-constant value an expanded helper returns as result idx, or nil.
func (r *Region) uniqueResult(c *ssa.Call, idx int) ssa.Value {
	g := r.HelperOf(c)
	if g == nil {
		return nil
	}
	var only ssa.Value
	for _, ret := range Returns(g) {
		if idx >= len(ret.Results) {
			return nil
		}
		for _, rv := range ResultValues(ret, idx) {
			if IsZeroMarker(rv) {
				continue
			}
			if _, isConst := rv.(*ssa.Const); isConst {
				continue
			}
			sv := Strip(rv)
			if only == nil {
				only = sv
			} else if only != sv {
				return nil
			}
		}
	}
	return only
}

// SameValue reports whether a and b denote the same value once helper boundaries are resolved, trying the regions of
// the functions both values belong to (a value of a helper is resolved upwards from the root that expands it).
func SameValue(a, b ssa.Value) bool {
	if a == nil || b == nil {
		return false
	}
	sa, sb := Strip(a), Strip(b)
	if sa == sb {
		return true
	}
	for _, root := range []*ssa.Function{parentOf(a), parentOf(b)} {
		if root == nil {
			continue
		}
		rg := RegionOf(root)
		if rg.Canon(a) == rg.Canon(b) {
			return true
		}
	}
	return false
}

func parentOf(v ssa.Value) *ssa.Function {
	switch x := v.(type) {
	case ssa.Instruction:
		return x.Parent()
	case *ssa.Parameter:
		return x.Parent()
	case *ssa.FreeVar:
		return x.Parent()
	}
	return nil
}

// ---------- interprocedural, context-sensitive reachability ----------

type rframe struct {
	call   ssa.CallInstruction
	blk    *ssa.BasicBlock
	idx    int           // index of the call in blk
	callee *ssa.Function // the helper entered
}

type rfact struct {
	call ssa.CallInstruction
	ret  *ssa.Return
}

type ritem struct {
	stack  []rframe
	b      *ssa.BasicBlock
	start  int
	facts  [2]rfact
	k      string     // knowledge about the tracked enum fact (ReachFact)
	pf     *pathFacts // nil-ness / truth of values this path has tested (pathfacts.go)
	parent int
}

func (it *ritem) key() string {
	var sb strings.Builder
	for _, f := range it.stack {
		fmt.Fprintf(&sb, "%p/", f.call)
	}
	fmt.Fprintf(&sb, "|%p|%d|%s|", it.b, it.start, it.k)
	for _, f := range it.facts {
		if f.call != nil {
			fmt.Fprintf(&sb, "%p=%p;", f.call, f.ret)
		}
	}
	sb.WriteString("|")
	sb.WriteString(it.pf.key())
	return sb.String()
}

// resultOf resolves a value to (call, result index) when it is a result of a call instruction.
func resultOf(v ssa.Value, at ssa.Instruction) (ssa.CallInstruction, int, bool) {
	v = Strip(v)
	switch x := v.(type) {
	case *ssa.Call:
		return x, 0, true
	case *ssa.Extract:
		if c, ok := x.Tuple.(*ssa.Call); ok {
			return c, x.Index, true
		}
	case *ssa.UnOp:
		if x.Op == token.MUL {
			if _, ok := x.X.(*ssa.Alloc); ok && at != nil {
				vals := ReachingValues(x, at)
				if len(vals) == 1 && vals[0] != ssa.Value(x) {
					return resultOf(vals[0], nil)
				}
			}
		}
	}
	return nil, 0, false
}

// evalCond evaluates a branch condition under the facts about helper returns taken on this path.
func evalCond(cond ssa.Value, at ssa.Instruction, facts [2]rfact, pf *pathFacts) (val, known bool) {
	switch x := cond.(type) {
	case *ssa.UnOp:
		if x.Op == token.NOT {
			v, k := evalCond(x.X, at, facts, pf)
			return !v, k
		}
	case *ssa.BinOp:
		if x.Op == token.EQL || x.Op == token.NEQ {
			var other ssa.Value
			if IsNilConst(x.Y) {
				other = x.X
			} else if IsNilConst(x.X) {
				other = x.Y
			}
			if other != nil {
				if c, idx, ok := resultOf(other, at); ok {
					for _, f := range facts {
						if f.call == c && f.ret != nil && idx < len(f.ret.Results) {
							switch ResultNilness(f.ret, idx) {
							case IsNil:
								return x.Op == token.EQL, true
							case NonNil:
								return x.Op == token.NEQ, true
							}
						}
					}
				}
				return false, false
			}
			// comparison of a boolean result with a constant
			if b, ok := ConstBool(x.Y); ok {
				if v, k := evalCond(x.X, at, facts, pf); k {
					return (v == b) == (x.Op == token.EQL), true
				}
			}
		}
		return false, false
	}
	if c, idx, ok := resultOf(cond, at); ok {
		for _, f := range facts {
			if f.call == c && f.ret != nil && idx < len(f.ret.Results) {
				// the value returned is a boolean the path already knows (a short-circuit phi entered from a known side)
				if pf != nil {
					rv, neg := CondPolarity(f.ret.Results[idx])
					if b, ok := pf.bools[rv]; ok {
						return b != neg, true
					}
				}
				vals := ResultValues(f.ret, idx)
				if len(vals) == 0 {
					return false, false
				}
				first, ok0 := ConstBool(vals[0])
				if !ok0 {
					return false, false
				}
				for _, v := range vals[1:] {
					if b, ok := ConstBool(v); !ok || b != first {
						return false, false
					}
				}
				return first, true
			}
		}
	}
	return false, false
}

// ReachLocal is the purely intraprocedural exploration (calls are opaque steps).
func ReachLocal(fn *ssa.Function, from ssa.Instruction, target func(ssa.Instruction) bool, blocked map[Edge]bool, barrier func(ssa.Instruction) bool) ([]*ssa.BasicBlock, bool) {
	return reachLocal(fn, from, target, blocked, barrier)
}

// Reach explores fn's region from `from` (nil = function entry, otherwise the instruction AFTER which exploration
// starts) and reports whether an instruction satisfying target is reachable without crossing a blocked edge and without
// executing a barrier instruction. Helpers are expanded at their call sites (see the package comment of this file);
// return instructions of expanded helpers are never offered to target or barrier - only the root's returns are returns.
// The witness is the list of blocks of one such path (blocks of helpers included).
func Reach(fn *ssa.Function, from ssa.Instruction, target func(ssa.Instruction) bool, blocked map[Edge]bool, barrier func(ssa.Instruction) bool) ([]*ssa.BasicBlock, bool) {
	if len(fn.Blocks) == 0 {
		return nil, false
	}
	return reachRegion(fn, from, target, blocked, barrier, nil, "", nil)
}

// ReachFact is Reach made path-sensitive in ONE enum-like fact: isFact recognises the SSA values that read the fact
// (e.g. loads of options.MapSortMode - also after the value was passed to a helper as an argument), and along a path
// the analysis remembers which constant it was found equal to. `known` is the initial knowledge ("" = unknown,
// otherwise the constant's ExactString). Edges of comparisons fact ==/!= K that contradict the knowledge are infeasible.
func ReachFact(fn *ssa.Function, from ssa.Instruction, target func(ssa.Instruction) bool, blocked map[Edge]bool, barrier func(ssa.Instruction) bool, isFact func(ssa.Value) bool, known string) ([]*ssa.BasicBlock, bool) {
	if len(fn.Blocks) == 0 {
		return nil, false
	}
	return reachRegion(fn, from, target, blocked, barrier, isFact, known, nil)
}

// ReachFactDrop is ReachFact with a forgetting rule: after an instruction for which drop is true the knowledge about
// the fact is discarded (the instruction may have changed it, e.g. an opaque call that was handed the object).
func ReachFactDrop(fn *ssa.Function, from ssa.Instruction, target func(ssa.Instruction) bool, blocked map[Edge]bool, barrier func(ssa.Instruction) bool, isFact func(ssa.Value) bool, known string, drop func(ssa.Instruction) bool) ([]*ssa.BasicBlock, bool) {
	if len(fn.Blocks) == 0 {
		return nil, false
	}
	return reachRegion(fn, from, target, blocked, barrier, isFact, known, drop)
}

// assumedBools: truth values the exploration starts out knowing (ReachAssuming).
var assumedBools map[ssa.Value]bool

// ReachAssuming is Reach with an assumption about boolean values at the start: the exploration begins with these
// truth values among its path facts, so every edge that would imply the opposite - directly, through a negation, or
// through a named condition the value was folded into - is contradictory and not taken. "Can the target be reached
// while the flag is false?" is asked this way.
func ReachAssuming(fn *ssa.Function, from ssa.Instruction, target func(ssa.Instruction) bool, blocked map[Edge]bool, barrier func(ssa.Instruction) bool, assume map[ssa.Value]bool) ([]*ssa.BasicBlock, bool) {
	assumedBools = assume
	defer func() { assumedBools = nil }()
	return reachRegion(fn, from, target, blocked, barrier, nil, "", nil)
}

// assumedNonNil: values the exploration starts out knowing to be non-nil (ReachAssumingNonNil).
var assumedNonNil map[ssa.Value]bool

// ReachAssumingNonNil is Reach under the assumption that the given values are not nil: "can the commit be reached
// although the latched error is set?". Every edge that implies one of them nil - directly, or because it was merged
// into a variable that is then tested - is contradictory.
func ReachAssumingNonNil(fn *ssa.Function, from ssa.Instruction, target func(ssa.Instruction) bool, blocked map[Edge]bool, barrier func(ssa.Instruction) bool, nonNil map[ssa.Value]bool) ([]*ssa.BasicBlock, bool) {
	assumedNonNil = nonNil
	defer func() { assumedNonNil = nil }()
	return reachRegion(fn, from, target, blocked, barrier, nil, "", nil)
}

// ReachFromBlock is Reach started at the first instruction of blk, a block of fn or of one of its expanded helpers
// (in a helper the calling context is unknown: the helper's returns continue after each of its call sites).
func ReachFromBlock(fn *ssa.Function, blk *ssa.BasicBlock, target func(ssa.Instruction) bool, blocked map[Edge]bool, barrier func(ssa.Instruction) bool) ([]*ssa.BasicBlock, bool) {
	if len(fn.Blocks) == 0 || blk == nil {
		return nil, false
	}
	startBlock = blk
	defer func() { startBlock = nil }()
	return reachRegion(fn, nil, target, blocked, barrier, nil, "", nil)
}

var startBlock *ssa.BasicBlock // set by ReachFromBlock for the duration of one exploration

// BlockReachableAvoiding reports whether some path from fn's entry arrives at the head of blk (a block of fn or of an
// expanded helper) without crossing a blocked edge. Unlike a dominance test it sees through helpers in both directions:
// an edge inside a helper that every successful return of the helper has crossed guards what the caller does after
// testing the helper's result.
func BlockReachableAvoiding(fn *ssa.Function, blk *ssa.BasicBlock, blocked map[Edge]bool) bool {
	if len(fn.Blocks) == 0 || blk == nil {
		return false
	}
	wantBlock = blk
	defer func() { wantBlock = nil }()
	_, ok := reachRegion(fn, nil, func(ssa.Instruction) bool { return false }, blocked, nil, nil, "", nil)
	return ok
}

var wantBlock *ssa.BasicBlock

// reachItemLimit bounds one path-sensitive exploration. Path facts multiply the states of a large function (every
// remembered boolean doubles them); beyond the limit the exploration is repeated without path facts, which only adds
// paths - "reachable" becomes an over-approximation, never a miss.
const reachItemLimit = 150000

func reachRegion(fn *ssa.Function, from ssa.Instruction, target func(ssa.Instruction) bool, blocked map[Edge]bool, barrier func(ssa.Instruction) bool, isFact func(ssa.Value) bool, known string, drop func(ssa.Instruction) bool) ([]*ssa.BasicBlock, bool) {
	path, reached, overflow := reachRegion1(fn, from, target, blocked, barrier, isFact, known, drop, true)
	if overflow {
		path, reached, _ = reachRegion1(fn, from, target, blocked, barrier, isFact, known, drop, false)
	}
	return path, reached
}

func reachRegion1(fn *ssa.Function, from ssa.Instruction, target func(ssa.Instruction) bool, blocked map[Edge]bool, barrier func(ssa.Instruction) bool, isFact func(ssa.Value) bool, known string, drop func(ssa.Instruction) bool, withFacts bool) ([]*ssa.BasicBlock, bool, bool) {
	rg := RegionOf(fn)
	defer func() { curPath, curStack = nil, nil }()
	var items []ritem
	seen := map[string]bool{}
	push := func(it ritem) {
		k := it.key()
		if seen[k] {
			return
		}
		seen[k] = true
		items = append(items, it)
	}
	var seedPF *pathFacts
	if withFacts && (len(assumedBools) > 0 || len(assumedNonNil) > 0) {
		seedPF = (*pathFacts)(nil).clone()
		for v, b := range assumedBools {
			seedPF.bools[v] = b
		}
		for v := range assumedNonNil {
			seedPF.nils[Strip(v)] = NonNil
		}
	}
	if from == nil && startBlock != nil {
		items = append(items, ritem{b: startBlock, start: 0, k: known, parent: -1, pf: seedPF})
	} else if from == nil {
		push(ritem{b: fn.Blocks[0], start: 0, k: known, parent: -1, pf: seedPF})
	} else {
		b := from.Block()
		idx := 0
		for i, in := range b.Instrs {
			if in == from {
				idx = i + 1
			}
		}
		it := ritem{b: b, start: idx, k: known, parent: -1, pf: seedPF}
		// what every path to the starting point has established: the edges that dominate its block
		if withFacts {
			var doms []Edge
			for d := b; d != nil && d.Idom() != nil; d = d.Idom() {
				id := d.Idom()
				if BlockIf(id) == nil {
					continue
				}
				e0, e1 := EdgeDominates(Edge{From: id, Succ: 0}, b), EdgeDominates(Edge{From: id, Succ: 1}, b)
				if e0 != e1 {
					succ := 0
					if e1 {
						succ = 1
					}
					doms = append(doms, Edge{From: id, Succ: succ})
				}
			}
			pf := it.pf
			for i := len(doms) - 1; i >= 0; i-- {
				if npf, ok := learnEdge(rg, pf, doms[i]); ok {
					pf = npf
				}
			}
			it.pf = pf
		}
		items = append(items, it) // not marked seen: a loop back to the block start is explored fully
	}
	path := func(i int) []*ssa.BasicBlock {
		var p []*ssa.BasicBlock
		for x := i; x >= 0 && len(p) < 4096; x = items[x].parent {
			if len(p) == 0 || p[0] != items[x].b {
				p = append([]*ssa.BasicBlock{items[x].b}, p...)
			}
		}
		return p
	}
	onStack := func(st []rframe, g *ssa.Function) bool {
		for _, f := range st {
			if f.blk.Parent() == g {
				return true
			}
		}
		return false
	}
	for qi := 0; qi < len(items); qi++ {
		if withFacts && len(items) > reachItemLimit {
			return nil, false, true
		}
		it := items[qi]
		cur := it.b.Parent()
		curPath = it.pf
		curStack = it.stack
		if wantBlock != nil && it.b == wantBlock && it.start == 0 {
			return path(qi), true, false
		}
		stopped := false
		for i := it.start; i < len(it.b.Instrs) && !stopped; i++ {
			in := it.b.Instrs[i]
			if withFacts {
				// constants kept in fields of a local struct (it is a copy of the queued item: later uses see the update)
				if npf := memStep(it.pf, in); npf != it.pf {
					it.pf = npf
					curPath = npf
				}
			}
			if ret, isRet := in.(*ssa.Return); isRet && cur != rg.Root {
				// return of an expanded helper: continue after the call it was entered from
				if n := len(it.stack); n > 0 {
					fr := it.stack[n-1]
					nf := it.facts
					nf[1] = nf[0]
					nf[0] = rfact{fr.call, ret}
					push(ritem{stack: append([]rframe{}, it.stack[:n-1]...), b: fr.blk, start: fr.idx + 1, facts: nf, k: it.k, pf: it.pf, parent: qi})
				} else {
					// exploration started inside the helper: context unknown, continue after every call site
					for _, cs := range rg.sites[cur] {
						cb := cs.Block()
						for j, x := range cb.Instrs {
							if x == ssa.Instruction(cs) {
								nf := it.facts
								nf[1] = nf[0]
								nf[0] = rfact{cs, ret}
								push(ritem{b: cb, start: j + 1, facts: nf, k: it.k, pf: it.pf, parent: qi})
							}
						}
					}
				}
				stopped = true
				break
			}
			if target(in) {
				return path(qi), true, false
			}
			if barrier != nil && barrier(in) {
				stopped = true
				break
			}
			if ci, ok := in.(ssa.CallInstruction); ok {
				if gs := rg.callees[ci]; len(gs) > 0 && len(it.stack) < regionDepth {
					entered := 0
					for _, g := range gs {
						if g != cur && !onStack(it.stack, g) {
							ns := append(append([]rframe{}, it.stack...), rframe{ci, it.b, i, g})
							push(ritem{stack: ns, b: g.Blocks[0], start: 0, facts: it.facts, k: it.k, pf: it.pf, parent: qi})
							entered++
						}
					}
					if entered == len(gs) && !rg.opaqueToo[ci] {
						stopped = true
						break
					}
				}
			}
			if drop != nil && it.k != "" && drop(in) {
				it.k = ""
			}
		}
		if stopped {
			continue
		}
		// successors, pruned by what is known about helper results
		feasible := [2]bool{true, true}
		if ifi := BlockIf(it.b); ifi != nil {
			v, known := false, false
			if withFacts {
				v, known = evalCondPath(ifi.Cond, it.pf)
			}
			if !known && (it.facts[0].call != nil || it.facts[1].call != nil) {
				v, known = evalCond(ifi.Cond, ifi, it.facts, it.pf)
			}
			if known {
				if v {
					feasible[1] = false
				} else {
					feasible[0] = false
				}
			}
		}
		for si, s := range it.b.Succs {
			if blocked[Edge{it.b, si}] {
				continue
			}
			if si < 2 && !feasible[si] {
				continue
			}
			nk := it.k
			if isFact != nil {
				if r, ok := EdgeRel(Edge{it.b, si}); ok && (r.Op == token.EQL || r.Op == token.NEQ) {
					x, y := r.X, r.Y
					if ConstVal(x) != nil {
						x, y = y, x
					}
					if cv := ConstVal(y); cv != nil && (isFact(x) || (cur != rg.Root && isFact(rg.Canon(x)))) {
						k := cv.ExactString()
						if r.Op == token.EQL {
							if it.k != "" && it.k != k {
								continue
							}
							nk = k
						} else if it.k == k {
							continue
						}
					}
				}
			}
			npf := it.pf
			if withFacts {
				var okE bool
				npf, okE = learnEdge(rg, it.pf, Edge{it.b, si})
				if !okE {
					continue // the edge contradicts what this path has already established
				}
				npf = enterBlock(npf, it.b, s)
			}
			push(ritem{stack: it.stack, b: s, start: 0, facts: it.facts, k: nk, pf: npf, parent: qi})
		}
	}
	return nil, false, false
}

// ---------- generic path exploration with a client-defined abstract state ----------

// Explorer walks every path of Root's region (helpers expanded context-sensitively, infeasible branches on helper
// results pruned, exactly like Reach) while a client threads one abstract state - a string - along each path.
// It is the skeleton of the small abstract interpreters of the rules (typestate extraction, enum facts).
type Explorer struct {
	Root *ssa.Function
	// Step is offered every instruction on a path in execution order, except the return instructions of expanded
	// helpers. expanded tells whether in is a call the exploration is about to enter. It returns the state after the
	// instruction and false to end the path there.
	Step func(in ssa.Instruction, state string, expanded bool) (string, bool)
	// Edge is offered every control-flow edge a path is about to take; it returns the state after the edge and false
	// when the edge is infeasible in that state. nil: all edges feasible, state unchanged.
	Edge func(e Edge, state string) (string, bool)
}

// Run explores from Root's entry with the given initial state.
func (x *Explorer) Run(init string) {
	fn := x.Root
	if len(fn.Blocks) == 0 {
		return
	}
	rg := RegionOf(fn)
	defer func() { curPath, curStack = nil, nil }()
	var items []ritem
	seen := map[string]bool{}
	push := func(it ritem) {
		k := it.key()
		if seen[k] {
			return
		}
		seen[k] = true
		items = append(items, it)
	}
	push(ritem{b: fn.Blocks[0], start: 0, k: init, parent: -1})
	active := func(st []rframe, cur, g *ssa.Function) bool {
		if g == cur {
			return true
		}
		for _, f := range st {
			if f.blk.Parent() == g {
				return true
			}
		}
		return false
	}
	for qi := 0; qi < len(items) && len(items) < 200000; qi++ {
		it := items[qi]
		cur := it.b.Parent()
		curPath = it.pf
		curStack = it.stack
		state := it.k
		stopped := false
		for i := it.start; i < len(it.b.Instrs) && !stopped; i++ {
			in := it.b.Instrs[i]
			if ret, isRet := in.(*ssa.Return); isRet && cur != rg.Root {
				if n := len(it.stack); n > 0 {
					fr := it.stack[n-1]
					nf := it.facts
					nf[1] = nf[0]
					nf[0] = rfact{fr.call, ret}
					push(ritem{stack: append([]rframe{}, it.stack[:n-1]...), b: fr.blk, start: fr.idx + 1, facts: nf, k: state, pf: it.pf, parent: qi})
				}
				stopped = true
				break
			}
			var enter []*ssa.Function
			opaque := true
			if ci, ok := in.(ssa.CallInstruction); ok && len(it.stack) < regionDepth {
				for _, g := range rg.callees[ci] {
					if !active(it.stack, cur, g) {
						enter = append(enter, g)
					}
				}
				if len(enter) > 0 && len(enter) == len(rg.callees[ci]) && !rg.opaqueToo[ci] {
					opaque = false
				}
			}
			if len(enter) > 0 {
				ns, cont := x.Step(in, state, true)
				if cont {
					for _, g := range enter {
						nst := append(append([]rframe{}, it.stack...), rframe{in.(ssa.CallInstruction), it.b, i, g})
						push(ritem{stack: nst, b: g.Blocks[0], start: 0, facts: it.facts, k: ns, pf: it.pf, parent: qi})
					}
				}
				if !opaque {
					stopped = true
					break
				}
			}
			ns, cont := x.Step(in, state, false)
			state = ns
			if !cont {
				stopped = true
				break
			}
		}
		if stopped {
			continue
		}
		feasible := [2]bool{true, true}
		if ifi := BlockIf(it.b); ifi != nil {
			v, known := evalCondPath(ifi.Cond, it.pf)
			if !known && (it.facts[0].call != nil || it.facts[1].call != nil) {
				v, known = evalCond(ifi.Cond, ifi, it.facts, it.pf)
			}
			if known {
				if v {
					feasible[1] = false
				} else {
					feasible[0] = false
				}
			}
		}
		for si, s := range it.b.Succs {
			if si < 2 && !feasible[si] {
				continue
			}
			ns := state
			if x.Edge != nil {
				var ok bool
				ns, ok = x.Edge(Edge{it.b, si}, state)
				if !ok {
					continue
				}
			}
			npf, okE := learnEdge(rg, it.pf, Edge{it.b, si})
			if !okE {
				continue
			}
			npf = enterBlock(npf, it.b, s)
			push(ritem{stack: it.stack, b: s, start: 0, facts: it.facts, k: ns, pf: npf, parent: qi})
		}
	}
}

// AddrRoots resolves an address to the objects it can be rooted in: field and element steps are stripped, a parameter
// of an expanded helper stands for the arguments at all its call sites in the region (a recursive function handing its
// own parameter on to itself adds nothing), a captured variable for its binding, a load of a pointer variable for what
// was stored there. What cannot be resolved further is returned as it is.
func (r *Region) AddrRoots(v ssa.Value) []ssa.Value {
	var out []ssa.Value
	seen := map[ssa.Value]bool{}
	var visit func(v ssa.Value, depth int)
	visit = func(v ssa.Value, depth int) {
		v = Strip(v)
		if seen[v] || depth > 12 {
			return
		}
		seen[v] = true
		switch x := v.(type) {
		case *ssa.FieldAddr:
			visit(x.X, depth+1)
			return
		case *ssa.IndexAddr:
			visit(x.X, depth+1)
			return
		case *ssa.Phi:
			for _, e := range x.Edges {
				visit(e, depth+1)
			}
			return
		case *ssa.Parameter:
			g := x.Parent()
			if g != nil && g != r.Root && r.in[g] && len(r.sites[g]) > 0 {
				idx := -1
				for j, p := range g.Params {
					if p == x {
						idx = j
					}
				}
				n := 0
				for _, cs := range r.sites[g] {
					if a := ArgForParam(cs, idx); a != nil {
						visit(a, depth+1)
						n++
					}
				}
				if n > 0 {
					return
				}
			}
		case *ssa.FreeVar:
			g := x.Parent()
			if g != nil && g.Parent() != nil {
				var bound ssa.Value
				Instrs(g.Parent(), func(in ssa.Instruction) {
					if mc, ok := in.(*ssa.MakeClosure); ok && mc.Fn == ssa.Value(g) {
						for j, fv := range g.FreeVars {
							if fv == x && j < len(mc.Bindings) {
								bound = mc.Bindings[j]
							}
						}
					}
				})
				if bound != nil {
					visit(bound, depth+1)
					return
				}
			}
		case *ssa.UnOp:
			if x.Op == token.MUL {
				if al, ok := x.X.(*ssa.Alloc); ok {
					if _, isPtr := al.Type().(*types.Pointer).Elem().Underlying().(*types.Pointer); isPtr {
						vals := storedValues(al)
						if len(vals) > 0 {
							for _, sv := range vals {
								visit(sv, depth+1)
							}
							return
						}
					}
				}
				if srcs, ok := r.LocalFieldSources(x); ok && len(srcs) > 0 {
					for _, sv := range srcs {
						visit(sv, depth+1)
					}
					return
				}
			}
		}
		out = append(out, v)
	}
	visit(v, 0)
	return out
}
