package core

import (
	"encoding/json"
	"fmt"
	"os"
	"path/filepath"
	"sort"
	"strings"
)

// Status of one obligation.
type Status string

const (
	OK        Status = "ok"
	Violation Status = "violation"
	Undecided Status = "undecided"
	Info      Status = "info" // recorded in evidence, never affects the verdict
)

// Obligation is one decided rule instance.
type Obligation struct {
	Property  string   `json:"property"`
	Rule      string   `json:"rule"`
	Construct string   `json:"construct"` // symbol-based key, no line numbers
	Pos       string   `json:"pos"`
	Status    Status   `json:"status"`
	Msg       string   `json:"explanation"`
	Witness   []string `json:"witness,omitempty"`
}

// RuleInfo documents a rule in the evidence.
type RuleInfo struct {
	ID    string `json:"id"`
	Text  string `json:"text"`
	Floor int    `json:"floor"`
}

// Ctx is what a rule function receives.
type Ctx struct {
	P     *Program
	Prop  string
	Obls  []Obligation
	Rules []RuleInfo
	Notes []string
	cur   string
}

// Rule declares the rule subsequent obligations belong to. floor is the
// minimum number of instances (ok+violation+undecided) the rule must find:
// fewer means the rule lost its anchors and the check fails.
func (c *Ctx) Rule(id, text string, floor int) {
	c.cur = id
	c.Rules = append(c.Rules, RuleInfo{id, text, floor})
}

func (c *Ctx) add(st Status, construct, pos, msg string, witness []string) {
	c.Obls = append(c.Obls, Obligation{c.Prop, c.cur, construct, pos, st, msg, witness})
}

func (c *Ctx) OK(construct, pos, msg string) { c.add(OK, construct, pos, msg, nil) }
func (c *Ctx) Fail(construct, pos, msg string, witness ...string) {
	c.add(Violation, construct, pos, msg, witness)
}
func (c *Ctx) Undecided(construct, pos, msg string) { c.add(Undecided, construct, pos, msg, nil) }
func (c *Ctx) Info(construct, pos, msg string)      { c.add(Info, construct, pos, msg, nil) }
func (c *Ctx) Note(format string, a ...any)         { c.Notes = append(c.Notes, fmt.Sprintf(format, a...)) }

// Check records ok or violation depending on cond.
func (c *Ctx) Check(cond bool, construct, pos, okMsg, failMsg string, witness ...string) bool {
	if cond {
		c.OK(construct, pos, okMsg)
	} else {
		c.Fail(construct, pos, failMsg, witness...)
	}
	return cond
}

// KnownFinding is one entry of /verif/known_findings.json.
type KnownFinding struct {
	Property  string `json:"property"`
	Rule      string `json:"rule"`
	Construct string `json:"construct"`
	Status    string `json:"status"` // "known" or "fixed"
	Commit    string `json:"commit,omitempty"`
	What      string `json:"what"`
}

func LoadKnown(path string) ([]KnownFinding, error) {
	b, err := os.ReadFile(path)
	if err != nil {
		if os.IsNotExist(err) {
			return nil, nil
		}
		return nil, err
	}
	var out []KnownFinding
	if err := json.Unmarshal(b, &out); err != nil {
		return nil, fmt.Errorf("%s: %w", path, err)
	}
	return out, nil
}

// Result of running one property.
type Result struct {
	Property   string
	Tier       string
	Obls       []Obligation
	Rules      []RuleInfo
	Notes      []string
	Known      []Obligation // violations matched by a "known" entry
	Unlisted   []Obligation // violations / undecided / floor failures not listed
	Packages   int
	Functions  int
	WallS      float64
	Extra      map[string]any
	ReportPath []string
}

// Finish applies floors and known-findings to the obligations collected in c.
func Finish(c *Ctx, known []KnownFinding) *Result {
	r := &Result{Property: c.Prop, Obls: c.Obls, Rules: c.Rules, Notes: c.Notes, Extra: map[string]any{}}
	count := map[string]int{}
	for _, o := range c.Obls {
		if o.Status != Info {
			count[o.Rule]++
		}
	}
	for _, ri := range c.Rules {
		if count[ri.ID] < ri.Floor {
			r.Obls = append(r.Obls, Obligation{c.Prop, ri.ID, ri.ID + "#instance-floor", "-", Violation,
				fmt.Sprintf("rule matched %d instances, fewer than the %d confirmed by hand: the rule lost its anchors (renamed/removed construct) and would pass vacuously", count[ri.ID], ri.Floor), nil})
		}
	}
	sort.SliceStable(r.Obls, func(i, j int) bool {
		if r.Obls[i].Rule != r.Obls[j].Rule {
			return r.Obls[i].Rule < r.Obls[j].Rule
		}
		return r.Obls[i].Construct < r.Obls[j].Construct
	})
	for _, o := range r.Obls {
		if o.Status != Violation && o.Status != Undecided {
			continue
		}
		listed := false
		if o.Status == Violation {
			for _, k := range known {
				if k.Status == "known" && k.Property == o.Property && k.Rule == o.Rule && k.Construct == o.Construct {
					listed = true
					break
				}
			}
		}
		if listed {
			r.Known = append(r.Known, o)
		} else {
			r.Unlisted = append(r.Unlisted, o)
		}
	}
	return r
}

// WriteReports writes one replayable report per unlisted violation and returns
// the VIOLATION / KNOWN-FINDING lines to print.
func (r *Result) WriteReports(verifDir string, known []KnownFinding) []string {
	var lines []string
	dir := filepath.Join(verifDir, "reports", r.Property)
	os.RemoveAll(dir)
	for _, o := range r.Known {
		what := o.Msg
		for _, k := range known {
			if k.Status == "known" && k.Property == o.Property && k.Rule == o.Rule && k.Construct == o.Construct {
				what = k.What
			}
		}
		lines = append(lines, fmt.Sprintf("KNOWN-FINDING: property=%s rule=%s construct=%s at %s: %s", r.Property, o.Rule, o.Construct, o.Pos, oneLine(what)))
	}
	if len(r.Unlisted) > 0 {
		os.MkdirAll(dir, 0o755)
	}
	for i, o := range r.Unlisted {
		path := filepath.Join(dir, fmt.Sprintf("%d.json", i+1))
		rep := map[string]any{
			"property": o.Property, "rule": o.Rule, "construct": o.Construct, "pos": o.Pos,
			"status": o.Status, "explanation": o.Msg, "witness": o.Witness,
			"replay": fmt.Sprintf("./check.sh --replay %s", path),
		}
		b, _ := json.MarshalIndent(rep, "", " ")
		os.WriteFile(path, append(b, '\n'), 0o644)
		r.ReportPath = append(r.ReportPath, path)
		lines = append(lines, fmt.Sprintf("VIOLATION property=%s replay=%s", r.Property, path))
		lines = append(lines, fmt.Sprintf("  rule=%s construct=%s at %s [%s]: %s", o.Rule, o.Construct, o.Pos, o.Status, oneLine(o.Msg)))
		for _, w := range o.Witness {
			lines = append(lines, "    | "+w)
		}
	}
	return lines
}

func oneLine(s string) string { return strings.Join(strings.Fields(s), " ") }

// WriteEvidence writes /verif/evidence/<id>.json (level "other").
func (r *Result) WriteEvidence(verifDir string, seed int64, explanation string, notCovered []string, trusted []string) error {
	byRule := map[string]map[string]int{}
	distinct := map[string]bool{}
	obligations, discharged, undecided, violations := 0, 0, 0, 0
	for _, o := range r.Obls {
		m := byRule[o.Rule]
		if m == nil {
			m = map[string]int{}
			byRule[o.Rule] = m
		}
		m[string(o.Status)]++
		if o.Status == Info {
			continue
		}
		obligations++
		distinct[o.Rule+"|"+o.Construct] = true
		switch o.Status {
		case OK:
			discharged++
		case Undecided:
			undecided++
		case Violation:
			violations++
		}
	}
	// samples: up to 3 per rule, violations first.
	var samples []any
	perRule := map[string]int{}
	add := func(o Obligation) {
		if perRule[o.Rule] >= 3 {
			return
		}
		perRule[o.Rule]++
		samples = append(samples, map[string]any{"rule": o.Rule, "construct": o.Construct, "pos": o.Pos, "status": o.Status, "explanation": oneLine(o.Msg)})
	}
	for _, o := range r.Obls {
		if o.Status == Violation || o.Status == Undecided {
			add(o)
		}
	}
	for _, o := range r.Obls {
		if o.Status == OK {
			add(o)
		}
	}
	var knownList []any
	for _, o := range r.Known {
		knownList = append(knownList, map[string]any{"rule": o.Rule, "construct": o.Construct, "pos": o.Pos, "explanation": oneLine(o.Msg)})
	}
	var unlisted []any
	for _, o := range r.Unlisted {
		unlisted = append(unlisted, map[string]any{"rule": o.Rule, "construct": o.Construct, "pos": o.Pos, "status": o.Status, "explanation": oneLine(o.Msg)})
	}
	var infos []any
	for _, o := range r.Obls {
		if o.Status == Info && len(infos) < 40 {
			infos = append(infos, map[string]any{"rule": o.Rule, "construct": o.Construct, "pos": o.Pos, "note": oneLine(o.Msg)})
		}
	}
	cov := map[string]any{
		"explanation":         explanation,
		"rule":                "each rule enumerates its instances (obligations) from the type-checked SSA program of /repo's working tree and decides every one; an obligation is distinct by (rule, construct-key); all are non-trivial in that each is a real construct of the analysed source",
		"rules":               r.Rules,
		"obligations":         obligations,
		"discharged":          discharged,
		"undecided":           undecided,
		"violations_total":    violations,
		"known_findings":      knownList,
		"unlisted_violations": unlisted,
		"instances_by_rule":   byRule,
		"evaluations":         obligations,
		"distinct_nontrivial": len(distinct),
		"samples":             samples,
		"info":                infos,
		"notes":               r.Notes,
		"not_covered":         notCovered,
		"packages":            r.Packages,
		"functions_analysed":  r.Functions,
		"trusted_base":        trusted,
		"checker_cmd":         fmt.Sprintf("./check.sh %s %s", r.Property, r.Tier),
		"exhaustive":          undecided == 0,
	}
	for k, v := range r.Extra {
		cov[k] = v
	}
	ev := map[string]any{
		"property_id": r.Property,
		"tier":        r.Tier,
		"seed":        seed,
		"level":       "other",
		"coverage":    cov,
		"assumptions": trusted,
		"wall_s":      r.WallS,
		"violations":  len(r.Unlisted),
	}
	b, err := json.MarshalIndent(ev, "", " ")
	if err != nil {
		return err
	}
	dir := filepath.Join(verifDir, "evidence")
	os.MkdirAll(dir, 0o755)
	return os.WriteFile(filepath.Join(dir, r.Property+".json"), append(b, '\n'), 0o644)
}
