// Package core holds the shared machinery of the static checker: loading the
// repository under analysis, SSA construction, call graphs, and the
// obligation/report/evidence plumbing every rule uses.
package core

import (
	"fmt"
	"go/token"
	"go/types"
	"os"
	"path/filepath"
	"sort"
	"strings"

	"golang.org/x/tools/go/callgraph"
	"golang.org/x/tools/go/callgraph/cha"
	"golang.org/x/tools/go/callgraph/vta"
	"golang.org/x/tools/go/packages"
	"golang.org/x/tools/go/ssa"
	"golang.org/x/tools/go/ssa/ssautil"
)

// ModPath is the module path of the repository under analysis.
const ModPath = "github.com/ipld/go-ipld-prime"

// Program is the loaded, type-checked, SSA-built repository.
type Program struct {
	Repo    string
	Pkgs    []*packages.Package
	ByPath  map[string]*packages.Package
	Fset    *token.FileSet
	SSA     *ssa.Program
	SSAPkg  map[string]*ssa.Package
	AllFns  map[*ssa.Function]bool
	ModFns  []*ssa.Function // functions whose package is in the module, sorted
	cha     *callgraph.Graph
	vta     *callgraph.Graph
	effects map[*ssa.Function]*Effects
}

// Load type-checks every package of the module rooted at repo (with the
// optional in-memory overlay) and builds SSA for the whole program.
func Load(repo string, overlay map[string][]byte) (*Program, error) {
	cfg := &packages.Config{
		Mode:    packages.LoadAllSyntax,
		Dir:     repo,
		Tests:   false,
		Overlay: overlay,
		Env:     append(os.Environ(), "GOWORK=off", "GOFLAGS=-mod=mod", "GOPROXY=off"),
	}
	pkgs, err := packages.Load(cfg, "./...")
	if err != nil {
		return nil, fmt.Errorf("packages.Load: %w", err)
	}
	var errs []string
	packages.Visit(pkgs, nil, func(p *packages.Package) {
		for _, e := range p.Errors {
			errs = append(errs, e.Error())
		}
	})
	if len(errs) > 0 {
		sort.Strings(errs)
		if len(errs) > 10 {
			errs = errs[:10]
		}
		return nil, fmt.Errorf("type/load errors: %s", strings.Join(errs, "; "))
	}
	if len(pkgs) < 40 {
		return nil, fmt.Errorf("only %d packages loaded from %s (expected >= 40)", len(pkgs), repo)
	}
	p := &Program{Repo: repo, Pkgs: pkgs, ByPath: map[string]*packages.Package{}, SSAPkg: map[string]*ssa.Package{}}
	p.Fset = pkgs[0].Fset
	prog, spkgs := ssautil.AllPackages(pkgs, ssa.InstantiateGenerics)
	prog.Build()
	p.SSA = prog
	for i, pk := range pkgs {
		p.ByPath[pk.PkgPath] = pk
		if spkgs[i] != nil {
			p.SSAPkg[pk.PkgPath] = spkgs[i]
		}
	}
	p.AllFns = ssautil.AllFunctions(prog)
	for fn := range p.AllFns {
		if p.InModule(fn) {
			p.ModFns = append(p.ModFns, fn)
		}
	}
	sort.Slice(p.ModFns, func(i, j int) bool { return FuncKey(p.ModFns[i]) < FuncKey(p.ModFns[j]) })
	p.ComputeGlobalFacts()
	theProg = p
	resetProgramCaches()
	return p, nil
}

// InModule reports whether fn belongs (lexically) to a package of the module.
func (p *Program) InModule(fn *ssa.Function) bool {
	pk := FuncPkg(fn)
	return pk != nil && (pk.Path() == ModPath || strings.HasPrefix(pk.Path(), ModPath+"/"))
}

// FuncPkg returns the types.Package a function belongs to (following
// anonymous functions to their parent and wrappers to their object).
func FuncPkg(fn *ssa.Function) *types.Package {
	for fn != nil {
		if fn.Pkg != nil {
			return fn.Pkg.Pkg
		}
		if o := fn.Object(); o != nil && o.Pkg() != nil {
			return o.Pkg()
		}
		if fn.Origin() != nil && fn.Origin() != fn {
			fn = fn.Origin()
			continue
		}
		fn = fn.Parent()
	}
	return nil
}

// RelPkg strips the module path from a package path ("" for the root).
func RelPkg(path string) string {
	if path == ModPath {
		return "."
	}
	return strings.TrimPrefix(path, ModPath+"/")
}

// FuncKey is the stable, symbol-based name of a function used in construct
// keys: "linking.(*LinkSystem).Fill", "traversal.walkAdv$1".
func FuncKey(fn *ssa.Function) string {
	if fn == nil {
		return "<nil>"
	}
	s := fn.String()
	s = strings.ReplaceAll(s, ModPath+"/", "")
	s = strings.ReplaceAll(s, ModPath+".", "ipld.")
	return s
}

// Pos renders a token.Pos as repo-relative file:line.
func (p *Program) Pos(pos token.Pos) string {
	if !pos.IsValid() {
		return "-"
	}
	ps := p.Fset.Position(pos)
	rel, err := filepath.Rel(p.Repo, ps.Filename)
	if err != nil {
		rel = ps.Filename
	}
	return fmt.Sprintf("%s:%d", rel, ps.Line)
}

// Pkg returns the SSA package for a module-relative path ("linking", "codec/dagcbor", "." for root).
func (p *Program) Pkg(rel string) *ssa.Package {
	path := ModPath + "/" + rel
	if rel == "." || rel == "" {
		path = ModPath
	}
	return p.SSAPkg[path]
}

// ExtPkg returns an SSA package by full import path (dependencies and std).
func (p *Program) ExtPkg(path string) *ssa.Package {
	if sp, ok := p.SSAPkg[path]; ok {
		return sp
	}
	for _, sp := range p.SSA.AllPackages() {
		if sp.Pkg.Path() == path {
			return sp
		}
	}
	return nil
}

// Func finds a package-level function or a method. recv is "" for functions,
// "T" or "*T" for methods.
func (p *Program) Func(rel, recv, name string) *ssa.Function {
	sp := p.Pkg(rel)
	if sp == nil {
		return nil
	}
	if recv == "" {
		return sp.Func(name)
	}
	ptr := strings.HasPrefix(recv, "*")
	tn := strings.TrimPrefix(recv, "*")
	m := sp.Members[tn]
	t, ok := m.(*ssa.Type)
	if !ok {
		return nil
	}
	var T types.Type = t.Type()
	if ptr {
		T = types.NewPointer(T)
	}
	sel := p.SSA.MethodSets.MethodSet(T).Lookup(sp.Pkg, name)
	if sel == nil {
		return nil
	}
	return p.SSA.MethodValue(sel)
}

// NamedType finds a named type of the module.
func (p *Program) NamedType(rel, name string) *types.Named {
	sp := p.Pkg(rel)
	if sp == nil {
		return nil
	}
	if t, ok := sp.Members[name].(*ssa.Type); ok {
		if n, ok := t.Type().(*types.Named); ok {
			return n
		}
	}
	return nil
}

// CHA returns the class-hierarchy call graph (built lazily).
func (p *Program) CHA() *callgraph.Graph {
	if p.cha == nil {
		p.cha = cha.CallGraph(p.SSA)
	}
	return p.cha
}

// VTA returns the variable-type-analysis call graph (built lazily on CHA).
func (p *Program) VTA() *callgraph.Graph {
	if p.vta == nil {
		p.vta = vta.CallGraph(p.AllFns, p.CHA())
	}
	return p.vta
}

// ModuleTypes enumerates every named type declared in module packages,
// optionally filtered by package-relative path predicate.
func (p *Program) ModuleTypes(keep func(rel string) bool) []*types.Named {
	var out []*types.Named
	var paths []string
	for path := range p.SSAPkg {
		if path == ModPath || strings.HasPrefix(path, ModPath+"/") {
			paths = append(paths, path)
		}
	}
	sort.Strings(paths)
	for _, path := range paths {
		if keep != nil && !keep(RelPkg(path)) {
			continue
		}
		sp := p.SSAPkg[path]
		var names []string
		for n, m := range sp.Members {
			if _, ok := m.(*ssa.Type); ok {
				names = append(names, n)
			}
		}
		sort.Strings(names)
		for _, n := range names {
			if nt, ok := sp.Members[n].(*ssa.Type).Type().(*types.Named); ok {
				out = append(out, nt)
			}
		}
	}
	return out
}

// Iface finds an interface type by module-relative package and name.
func (p *Program) Iface(rel, name string) *types.Interface {
	nt := p.NamedType(rel, name)
	if nt == nil {
		return nil
	}
	i, _ := nt.Underlying().(*types.Interface)
	return i
}

// Implementers lists module named types T such that T or *T implements iface.
// The bool in the result tells whether the pointer type is needed.
type Impl struct {
	Named *types.Named
	Ptr   bool
}

func (im Impl) Type() types.Type {
	if im.Ptr {
		return types.NewPointer(im.Named)
	}
	return im.Named
}

func (p *Program) Implementers(iface *types.Interface, keep func(rel string) bool) []Impl {
	var out []Impl
	for _, nt := range p.ModuleTypes(keep) {
		if _, isIface := nt.Underlying().(*types.Interface); isIface {
			continue
		}
		if nt.TypeParams().Len() > 0 {
			continue
		}
		if types.Implements(nt, iface) {
			out = append(out, Impl{nt, false})
		} else if types.Implements(types.NewPointer(nt), iface) {
			out = append(out, Impl{nt, true})
		}
	}
	return out
}

// Method returns the SSA function implementing method name on T (following
// promotion through embedded fields; wrappers are synthesized by go/ssa).
func (p *Program) Method(T types.Type, name string) *ssa.Function {
	ms := p.SSA.MethodSets.MethodSet(T)
	for i := 0; i < ms.Len(); i++ {
		if ms.At(i).Obj().Name() == name {
			return p.SSA.MethodValue(ms.At(i))
		}
	}
	return nil
}

// InModuleGlobal reports whether a global belongs to a module package.
func (p *Program) InModuleGlobal(g *ssa.Global) bool {
	if g.Pkg == nil || g.Pkg.Pkg == nil {
		return false
	}
	path := g.Pkg.Pkg.Path()
	return path == ModPath || strings.HasPrefix(path, ModPath+"/")
}
