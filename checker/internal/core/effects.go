package core

import (
	"go/token"
	"go/types"

	"golang.org/x/tools/go/ssa"
)

// Write is one heap/global write performed directly by a function.
type Write struct {
	Fn     *ssa.Function
	Instr  ssa.Instruction
	Kind   string       // "store", "mapupdate", "mapdelete", "append-store", "copy", "call"
	Struct *types.Named // for field writes: the struct type owning the field (nil for anonymous)
	Field  string       // field name, "" for non-field writes
	Elem   bool         // write goes to an element reached through the field (slice/array/map element)
	Global *ssa.Global  // non-nil when rooted at a package-level variable
	Root   ssa.Value    // root of the address chain
	Class  RootClass
	Loads  int       // number of pointer loads between root and the written location
	Val    ssa.Value // value stored (nil for calls)
	// Chain is every (struct, field) step crossed from the root to the written
	// location, outermost first; the last one equals (Struct, Field).
	Chain []FieldStep
}

type FieldStep struct {
	Struct *types.Named
	Field  string
}

// RootClass classifies where the written object comes from.
type RootClass int

const (
	RootFresh   RootClass = iota // Alloc / make / new / composite literal of this activation
	RootParam                    // parameter (receiver = index 0 of a method)
	RootFreeVar                  // captured variable
	RootGlobal                   // package-level variable
	RootCall                     // result of a call
	RootOther                    // anything else (phi of several, type assert, ...)
)

func (r RootClass) String() string {
	return [...]string{"fresh", "param", "freevar", "global", "call", "other"}[r]
}

// Effects is the list of direct writes of one function.
type Effects struct {
	Writes []Write
}

// LocalEffects computes (and caches) the direct writes of fn.
func (p *Program) LocalEffects(fn *ssa.Function) *Effects {
	if p.effects == nil {
		p.effects = map[*ssa.Function]*Effects{}
	}
	if e, ok := p.effects[fn]; ok {
		return e
	}
	e := &Effects{}
	p.effects[fn] = e
	Instrs(fn, func(in ssa.Instruction) {
		switch x := in.(type) {
		case *ssa.Store:
			w := classifyAddr(x.Addr)
			w.Fn, w.Instr, w.Kind, w.Val = fn, in, "store", x.Val
			// a store directly to a local Alloc (no field, no loads) is a register write, not a heap effect
			if al, ok := x.Addr.(*ssa.Alloc); ok && !al.Heap {
				return
			}
			if _, ok := x.Addr.(*ssa.Alloc); ok && w.Field == "" && w.Loads == 0 {
				// heap-allocated local variable (captured / escaping): writing the variable itself
				w.Class = RootFresh
			}
			e.Writes = append(e.Writes, w)
		case *ssa.MapUpdate:
			w := classifyVal(x.Map)
			w.Fn, w.Instr, w.Kind, w.Val, w.Elem = fn, in, "mapupdate", x.Value, true
			e.Writes = append(e.Writes, w)
		case ssa.CallInstruction:
			cc := x.Common()
			if b, ok := cc.Value.(*ssa.Builtin); ok {
				switch b.Name() {
				case "delete":
					w := classifyVal(cc.Args[0])
					w.Fn, w.Instr, w.Kind, w.Elem = fn, in, "mapdelete", true
					e.Writes = append(e.Writes, w)
				case "copy":
					w := classifyVal(cc.Args[0])
					w.Fn, w.Instr, w.Kind, w.Elem = fn, in, "copy", true
					e.Writes = append(e.Writes, w)
				case "clear":
					w := classifyVal(cc.Args[0])
					w.Fn, w.Instr, w.Kind, w.Elem = fn, in, "clear", true
					e.Writes = append(e.Writes, w)
				}
			}
		}
	})
	return e
}

// classifyAddr walks an address expression to its root.
func classifyAddr(a ssa.Value) Write {
	var w Write
	first := true
	notFresh := false
	var chain []FieldStep
	for depth := 0; depth < 64; depth++ {
		switch x := a.(type) {
		case *ssa.FieldAddr:
			st, _ := structOf(x.X.Type())
			nt := namedOf(x.X.Type())
			if st != nil {
				chain = append([]FieldStep{{nt, st.Field(x.Field).Name()}}, chain...)
				if first || w.Field == "" {
					if w.Field == "" {
						w.Struct = nt
						w.Field = st.Field(x.Field).Name()
					}
				}
			}
			first = false
			a = x.X
			continue
		case *ssa.IndexAddr:
			if w.Field == "" {
				w.Elem = true
			}
			a = x.X
			continue
		case *ssa.UnOp:
			if x.Op == token.MUL {
				w.Loads++
				// A pointer/map/slice LOADED from a local is only as fresh as what was
				// stored there: follow the reaching definition(s) instead of the local.
				// (A by-value struct parameter is spilled into a local; the maps and
				// pointers inside it are the caller's shared objects.)
				if root, _ := addrPath(x.X); root != nil && !viaFreeVar(x.X) {
					if _, isAlloc := root.(*ssa.Alloc); isAlloc {
						svs := storedValues(x.X)
						if len(svs) == 1 {
							// record the field steps of the address being loaded before jumping to its definition
							for ad := x.X; ; {
								fa, ok := ad.(*ssa.FieldAddr)
								if !ok {
									if ia, ok := ad.(*ssa.IndexAddr); ok {
										ad = ia.X
										continue
									}
									break
								}
								if st, _ := structOf(fa.X.Type()); st != nil {
									nt := namedOf(fa.X.Type())
									chain = append([]FieldStep{{nt, st.Field(fa.Field).Name()}}, chain...)
									if w.Field == "" {
										w.Struct, w.Field = nt, st.Field(fa.Field).Name()
									}
								}
								ad = fa.X
							}
							a = svs[0]
							continue
						}
						if len(svs) > 1 {
							allFresh := true
							for _, sv := range svs {
								if !isFreshValue(sv) {
									allFresh = false
								}
							}
							if !allFresh {
								notFresh = true
							}
						}
					}
				}
				a = x.X
				continue
			}
		case *ssa.Field:
			st, _ := structOf(x.X.Type())
			if st != nil {
				chain = append([]FieldStep{{namedOf(x.X.Type()), st.Field(x.Field).Name()}}, chain...)
				if w.Field == "" {
					w.Struct = namedOf(x.X.Type())
					w.Field = st.Field(x.Field).Name()
				}
			}
			a = x.X
			continue
		case *ssa.Slice:
			a = x.X
			continue
		case *ssa.ChangeType:
			a = x.X
			continue
		case *ssa.Convert:
			a = x.X
			continue
		case *ssa.TypeAssert:
			a = x.X
			continue
		case *ssa.MakeInterface:
			a = x.X
			continue
		case *ssa.ChangeInterface:
			a = x.X
			continue
		case *ssa.Extract:
			a = x.Tuple
			continue
		}
		break
	}
	w.Root = a
	w.Chain = chain
	switch x := a.(type) {
	case *ssa.Alloc, *ssa.MakeSlice, *ssa.MakeMap, *ssa.MakeChan:
		w.Class = RootFresh
	case *ssa.Parameter:
		w.Class = RootParam
	case *ssa.FreeVar:
		w.Class = RootFreeVar
	case *ssa.Global:
		w.Class = RootGlobal
		w.Global = x
	case *ssa.Call:
		w.Class = RootCall
		if b, ok := x.Call.Value.(*ssa.Builtin); ok && (b.Name() == "append" || b.Name() == "new") {
			if b.Name() == "new" {
				w.Class = RootFresh
			}
		}
	default:
		w.Class = RootOther
	}
	if notFresh && w.Class == RootFresh {
		w.Class = RootOther
	}
	return w
}

// viaFreeVar: the address is reached through a captured variable. What a
// closure finds in a captured variable is shared with its creator and with
// every other invocation, however fresh it was when the creator allocated it.
func viaFreeVar(a ssa.Value) bool {
	for depth := 0; depth < 32; depth++ {
		switch x := a.(type) {
		case *ssa.FieldAddr:
			a = x.X
		case *ssa.IndexAddr:
			a = x.X
		case *ssa.FreeVar:
			return true
		default:
			return false
		}
	}
	return false
}

// isFreshValue: an allocation made by the current activation.
func isFreshValue(v ssa.Value) bool {
	switch x := v.(type) {
	case *ssa.Alloc, *ssa.MakeSlice, *ssa.MakeMap, *ssa.MakeChan:
		return true
	case *ssa.Const:
		return true // nil / zero
	case *ssa.Call:
		if b, ok := x.Call.Value.(*ssa.Builtin); ok && (b.Name() == "new" || b.Name() == "append") {
			return b.Name() == "new"
		}
	case *ssa.UnOp:
		if x.Op == token.MUL {
			// value copy of a fresh struct (composite literal): fresh if it contains no pointers we care about; be conservative
			if al, ok := x.X.(*ssa.Alloc); ok {
				_ = al
				return true
			}
		}
	case *ssa.Slice:
		return isFreshValue(x.X)
	}
	return false
}

// classifyVal classifies a map/slice VALUE (not address) being mutated.
func classifyVal(v ssa.Value) Write {
	return classifyAddr(v)
}

func namedOf(t types.Type) *types.Named {
	if p, ok := t.Underlying().(*types.Pointer); ok {
		t = p.Elem()
	}
	n, _ := types.Unalias(t).(*types.Named)
	return n
}

// ParamIndex returns the index of a parameter value in its function, -1 otherwise.
func ParamIndex(v ssa.Value) int {
	p, ok := v.(*ssa.Parameter)
	if !ok {
		return -1
	}
	for i, q := range p.Parent().Params {
		if q == p {
			return i
		}
	}
	return -1
}
