package core

import (
	"fmt"
	"go/constant"
	"go/token"
	"go/types"
	"sort"
	"strings"

	"golang.org/x/tools/go/ssa"
)

// ---------- iteration ----------

// Instrs calls f for every instruction of fn (not descending into closures).
func Instrs(fn *ssa.Function, f func(ssa.Instruction)) {
	for _, b := range fn.Blocks {
		for _, in := range b.Instrs {
			f(in)
		}
	}
}

// WithClosures returns fn and every anonymous function nested in it.
func WithClosures(fn *ssa.Function) []*ssa.Function {
	out := []*ssa.Function{fn}
	for _, a := range fn.AnonFuncs {
		out = append(out, WithClosures(a)...)
	}
	return out
}

// Calls lists the call instructions (call, go, defer) of fn.
func Calls(fn *ssa.Function) []ssa.CallInstruction {
	var out []ssa.CallInstruction
	Instrs(fn, func(in ssa.Instruction) {
		if c, ok := in.(ssa.CallInstruction); ok {
			out = append(out, c)
		}
	})
	return out
}

// ---------- callee matching (always through resolved objects, never text) ----------

// CalleeObj returns the types.Func a call resolves to: the static callee's
// object, or the interface method for invoke-mode calls. nil for calls of
// function values.
func CalleeObj(c ssa.CallInstruction) *types.Func {
	cc := c.Common()
	if cc.IsInvoke() {
		return cc.Method
	}
	if f := cc.StaticCallee(); f != nil {
		if o, ok := f.Object().(*types.Func); ok {
			return o
		}
		if f.Origin() != nil {
			if o, ok := f.Origin().Object().(*types.Func); ok {
				return o
			}
		}
	}
	return nil
}

// IsPkgFunc reports a static call of the package-level function pkg.name.
func IsPkgFunc(c ssa.CallInstruction, pkg, name string) bool {
	o := CalleeObj(c)
	if o == nil || o.Pkg() == nil || o.Name() != name || o.Pkg().Path() != pkg {
		return false
	}
	return o.Type().(*types.Signature).Recv() == nil
}

// RecvNamed returns the named type (pointer stripped) a method object is declared on, or nil.
func RecvNamed(o *types.Func) *types.Named {
	if o == nil {
		return nil
	}
	r := o.Type().(*types.Signature).Recv()
	if r == nil {
		return nil
	}
	t := r.Type()
	if p, ok := t.(*types.Pointer); ok {
		t = p.Elem()
	}
	n, _ := types.Unalias(t).(*types.Named)
	return n
}

// IsMethod reports a call (static or invoke) of a method called name whose
// receiver type is declared in package pkg with type name typ. typ=="" matches
// any receiver type in pkg; pkg=="" matches any package.
func IsMethod(c ssa.CallInstruction, pkg, typ, name string) bool {
	o := CalleeObj(c)
	if o == nil || o.Name() != name {
		return false
	}
	n := RecvNamed(o)
	if n == nil {
		return false
	}
	if pkg != "" && (n.Obj().Pkg() == nil || n.Obj().Pkg().Path() != pkg) {
		return false
	}
	return typ == "" || n.Obj().Name() == typ
}

// IsMethodNamed reports a method call by bare name whose receiver value's
// static type implements or is the given interface (checked by method name
// only if iface is nil).
func IsMethodNamed(c ssa.CallInstruction, name string) bool {
	o := CalleeObj(c)
	return o != nil && o.Name() == name && o.Type().(*types.Signature).Recv() != nil
}

// Receiver returns the receiver value of a method call (invoke or static).
func Receiver(c ssa.CallInstruction) ssa.Value {
	cc := c.Common()
	if cc.IsInvoke() {
		return cc.Value
	}
	if o := CalleeObj(c); o != nil && o.Type().(*types.Signature).Recv() != nil && len(cc.Args) > 0 {
		return cc.Args[0]
	}
	return nil
}

// Args returns the non-receiver arguments of a call.
func Args(c ssa.CallInstruction) []ssa.Value {
	cc := c.Common()
	if cc.IsInvoke() {
		return cc.Args
	}
	if o := CalleeObj(c); o != nil && o.Type().(*types.Signature).Recv() != nil && len(cc.Args) > 0 {
		return cc.Args[1:]
	}
	return cc.Args
}

// CallValue returns the call as a value (nil for go/defer).
func CallValue(c ssa.CallInstruction) *ssa.Call {
	v, _ := c.(*ssa.Call)
	return v
}

// ---------- constants ----------

// ConstInt returns the integer value of a constant SSA value.
func ConstInt(v ssa.Value) (int64, bool) {
	c, ok := v.(*ssa.Const)
	if !ok || c.Value == nil {
		return 0, false
	}
	if c.Value.Kind() != constant.Int {
		return 0, false
	}
	return c.Int64(), true
}

// ConstBool returns the boolean value of a constant SSA value.
func ConstBool(v ssa.Value) (bool, bool) {
	c, ok := v.(*ssa.Const)
	if !ok || c.Value == nil || c.Value.Kind() != constant.Bool {
		return false, false
	}
	return constant.BoolVal(c.Value), true
}

// ConstString returns the string value of a constant SSA value.
func ConstString(v ssa.Value) (string, bool) {
	c, ok := v.(*ssa.Const)
	if !ok || c.Value == nil || c.Value.Kind() != constant.String {
		return "", false
	}
	return constant.StringVal(c.Value), true
}

// IsNilConst reports whether v is the nil constant.
func IsNilConst(v ssa.Value) bool {
	c, ok := v.(*ssa.Const)
	return ok && c.IsNil()
}

// ---------- unwrapping ----------

// Strip removes value-preserving conversions (ChangeType, ChangeInterface,
// MakeInterface, Convert between same-underlying types is kept).
func Strip(v ssa.Value) ssa.Value {
	for {
		switch x := v.(type) {
		case *ssa.ChangeType:
			v = x.X
		case *ssa.ChangeInterface:
			v = x.X
		case *ssa.MakeInterface:
			v = x.X
		default:
			return v
		}
	}
}

// ---------- edges and conditions ----------

// Edge is a CFG edge: the Succ-th successor of From.
type Edge struct {
	From *ssa.BasicBlock
	Succ int
}

func (e Edge) To() *ssa.BasicBlock { return e.From.Succs[e.Succ] }

// BlockIf returns the If terminating b, or nil.
func BlockIf(b *ssa.BasicBlock) *ssa.If {
	if len(b.Instrs) == 0 {
		return nil
	}
	i, _ := b.Instrs[len(b.Instrs)-1].(*ssa.If)
	return i
}

// CondPolarity peels boolean negations: returns the core condition and
// whether it is negated.
func CondPolarity(v ssa.Value) (ssa.Value, bool) {
	neg := false
	for {
		u, ok := v.(*ssa.UnOp)
		if !ok || u.Op != token.NOT {
			return v, neg
		}
		neg = !neg
		v = u.X
	}
}

// Compare describes a binary comparison condition.
type Compare struct {
	Op   token.Token // EQL NEQ LSS LEQ GTR GEQ, normalised for negation
	X, Y ssa.Value
}

// IfCompare decodes an If on a comparison. Returned Op holds on the TRUE edge (Succs[0]).
func IfCompare(ifi *ssa.If) (Compare, bool) {
	c, neg := CondPolarity(ifi.Cond)
	b, ok := c.(*ssa.BinOp)
	if !ok {
		return Compare{}, false
	}
	op := b.Op
	switch op {
	case token.EQL, token.NEQ, token.LSS, token.LEQ, token.GTR, token.GEQ:
	default:
		return Compare{}, false
	}
	if neg {
		op = NegateOp(op)
	}
	return Compare{op, b.X, b.Y}, true
}

func NegateOp(op token.Token) token.Token {
	switch op {
	case token.EQL:
		return token.NEQ
	case token.NEQ:
		return token.EQL
	case token.LSS:
		return token.GEQ
	case token.GEQ:
		return token.LSS
	case token.GTR:
		return token.LEQ
	case token.LEQ:
		return token.GTR
	}
	return op
}

// BoolEdges: for an If whose (possibly negated) condition is the value v
// itself, returns the successor index on which v is true.
func BoolTrueSucc(ifi *ssa.If, isV func(ssa.Value) bool) (int, bool) {
	c, neg := CondPolarity(ifi.Cond)
	if !isV(c) {
		return 0, false
	}
	if neg {
		return 1, true
	}
	return 0, true
}

// EqualEdge: if ifi compares (==/!=) two values accepted by px and py (in
// either order), returns the successor index taken when they are EQUAL.
func EqualSucc(ifi *ssa.If, px, py func(ssa.Value) bool) (int, bool) {
	cmp, ok := IfCompare(ifi)
	if !ok || (cmp.Op != token.EQL && cmp.Op != token.NEQ) {
		return 0, false
	}
	if !(px(cmp.X) && py(cmp.Y)) && !(px(cmp.Y) && py(cmp.X)) {
		return 0, false
	}
	if cmp.Op == token.EQL {
		return 0, true
	}
	return 1, true
}

// NilSucc: if ifi tests v against nil, returns the successor index taken when v IS nil.
func NilSucc(ifi *ssa.If, isV func(ssa.Value) bool) (int, bool) {
	return EqualSucc(ifi, isV, IsNilConst)
}

// EdgeDominates reports whether every path from entry to blk goes through edge e.
func EdgeDominates(e Edge, blk *ssa.BasicBlock) bool {
	to := e.To()
	if len(to.Preds) == 1 {
		return to.Dominates(blk)
	}
	// critical-edge case: to has several preds; the edge dominates blk only if
	// removing it makes blk unreachable.
	fn := blk.Parent()
	_, reached := Reach(fn, nil, func(in ssa.Instruction) bool { return in.Block() == blk }, map[Edge]bool{e: true}, nil)
	return !reached
}

// reachLocal explores fn's own CFG from `from` (nil = function entry, otherwise
// the instruction AFTER which exploration starts) and reports whether an
// instruction satisfying target is reachable without crossing a blocked edge
// and without executing a barrier instruction. The witness is the list of
// blocks of one such path. Calls are opaque steps; see Reach in region.go for
// the variant every rule uses, which expands same-package helpers.
func reachLocal(fn *ssa.Function, from ssa.Instruction, target func(ssa.Instruction) bool, blocked map[Edge]bool, barrier func(ssa.Instruction) bool) ([]*ssa.BasicBlock, bool) {
	if len(fn.Blocks) == 0 {
		return nil, false
	}
	type item struct {
		b     *ssa.BasicBlock
		start int
	}
	prev := map[*ssa.BasicBlock]*ssa.BasicBlock{}
	seen := map[*ssa.BasicBlock]bool{}
	var queue []item
	if from == nil {
		queue = append(queue, item{fn.Blocks[0], 0})
		seen[fn.Blocks[0]] = true
	} else {
		b := from.Block()
		idx := 0
		for i, in := range b.Instrs {
			if in == from {
				idx = i + 1
			}
		}
		queue = append(queue, item{b, idx})
		// note: b is not marked seen, so a loop back to its start is explored fully
	}
	path := func(b *ssa.BasicBlock) []*ssa.BasicBlock {
		var p []*ssa.BasicBlock
		for x := b; x != nil; x = prev[x] {
			p = append([]*ssa.BasicBlock{x}, p...)
			if len(p) > len(fn.Blocks)+1 {
				break
			}
		}
		return p
	}
	for len(queue) > 0 {
		it := queue[0]
		queue = queue[1:]
		stopped := false
		for i := it.start; i < len(it.b.Instrs); i++ {
			in := it.b.Instrs[i]
			if target(in) {
				return path(it.b), true
			}
			if barrier != nil && barrier(in) {
				stopped = true
				break
			}
		}
		if stopped {
			continue
		}
		for si, s := range it.b.Succs {
			if blocked[Edge{it.b, si}] {
				continue
			}
			if seen[s] {
				continue
			}
			seen[s] = true
			if _, ok := prev[s]; !ok && s != it.b {
				prev[s] = it.b
			}
			queue = append(queue, item{s, 0})
		}
	}
	return nil, false
}

// Witness renders a block path for a report.
func (p *Program) Witness(path []*ssa.BasicBlock) []string {
	var out []string
	for _, b := range path {
		desc := fmt.Sprintf("b%d", b.Index)
		if len(path) > 0 && b.Parent() != path[0].Parent() && b.Parent() != nil {
			desc = b.Parent().Name() + ":" + desc
		}
		if b.Comment != "" {
			desc += " (" + b.Comment + ")"
		}
		for _, in := range b.Instrs {
			if in.Pos().IsValid() {
				desc += " @" + p.Pos(in.Pos())
				break
			}
		}
		out = append(out, desc)
	}
	return out
}

// ---------- returns ----------

// Returns lists the return instructions of fn.
func Returns(fn *ssa.Function) []*ssa.Return {
	var out []*ssa.Return
	for _, b := range fn.Blocks {
		if len(b.Instrs) == 0 || b == fn.Recover {
			continue
		}
		if r, ok := b.Instrs[len(b.Instrs)-1].(*ssa.Return); ok {
			out = append(out, r)
		}
	}
	return out
}

// ResultValues returns the possible values of result i at ret, resolving
// results spilled to locals because of defer (go/ssa stores every result to an
// Alloc, runs defers, then reloads).
func ResultValues(ret *ssa.Return, i int) []ssa.Value {
	return ReachingValues(ret.Results[i], ret)
}

// ResultNilness joins the nilness of all possible values of result i at ret.
func ResultNilness(ret *ssa.Return, i int) Nilness {
	res := Nilness(-1)
	for _, v := range ResultValues(ret, i) {
		n := NilnessAt(v, ret.Block())
		if res == -1 {
			res = n
		} else if res != n {
			return MaybeNil
		}
	}
	if res == -1 {
		return MaybeNil
	}
	return res
}

// ErrResultIndex returns the index of the (last) result of type error, or -1.
func ErrResultIndex(fn *ssa.Function) int {
	res := fn.Signature.Results()
	for i := res.Len() - 1; i >= 0; i-- {
		if IsErrorType(res.At(i).Type()) {
			return i
		}
	}
	return -1
}

func IsErrorType(t types.Type) bool {
	n, ok := types.Unalias(t).(*types.Named)
	return ok && n.Obj().Pkg() == nil && n.Obj().Name() == "error"
}

// ReachingValues resolves a value that may be a load from a local Alloc
// (named results spilled because of defer/recover, address-taken locals) to
// the set of values that may have been stored there, looking backwards from
// instruction `at`. For non-load values it returns {v}.
func ReachingValues(v ssa.Value, at ssa.Instruction) []ssa.Value {
	u, ok := v.(*ssa.UnOp)
	if !ok || u.Op != token.MUL {
		return []ssa.Value{v}
	}
	al, ok := u.X.(*ssa.Alloc)
	if !ok {
		return []ssa.Value{v}
	}
	// Find stores to al reaching u (the load), walking backwards.
	var out []ssa.Value
	seenV := map[ssa.Value]bool{}
	seenB := map[*ssa.BasicBlock]bool{}
	var walk func(b *ssa.BasicBlock, from int)
	walk = func(b *ssa.BasicBlock, from int) {
		for i := from; i >= 0; i-- {
			if st, ok := b.Instrs[i].(*ssa.Store); ok && st.Addr == al {
				if !seenV[st.Val] {
					seenV[st.Val] = true
					out = append(out, st.Val)
				}
				return
			}
		}
		if len(b.Preds) == 0 {
			// entry reached with no store: zero value
			z := zeroMarker{al}
			if !seenV[z] {
				seenV[z] = true
				out = append(out, z)
			}
			return
		}
		for _, p := range b.Preds {
			if seenB[p] {
				continue
			}
			seenB[p] = true
			walk(p, len(p.Instrs)-1)
		}
	}
	b := u.Block()
	idx := len(b.Instrs) - 1
	for i, in := range b.Instrs {
		if in == ssa.Instruction(u) {
			idx = i - 1
		}
	}
	walk(b, idx)
	return out
}

// zeroMarker stands for "the zero value of this alloc" in ReachingValues.
type zeroMarker struct{ *ssa.Alloc }

func (z zeroMarker) Name() string   { return "zero(" + z.Alloc.Name() + ")" }
func (z zeroMarker) String() string { return z.Name() }

// IsZeroMarker reports whether v stands for the zero value of a named result.
func IsZeroMarker(v ssa.Value) bool { _, ok := v.(zeroMarker); return ok }

// Nilness of an error-typed (or any interface/pointer) value at a program point.
type Nilness int

const (
	MaybeNil Nilness = iota
	IsNil
	NonNil
)

func (n Nilness) String() string { return [...]string{"maybe-nil", "nil", "non-nil"}[n] }

// NilnessAt classifies v at block blk: constants, fresh interface values of
// concrete struct types, results of constructors known to be non-nil, phis
// (join), and dominating nil-tests on v.
func NilnessAt(v ssa.Value, blk *ssa.BasicBlock) Nilness {
	// what the path being explored has established about v (pathfacts.go) takes precedence
	if n, ok := PathNilness(v); ok {
		return n
	}
	return nilnessAt(v, blk, map[ssa.Value]bool{})
}

// nilnessNoPath is NilnessAt without consulting the facts of the path being explored.
func nilnessNoPath(v ssa.Value, blk *ssa.BasicBlock) Nilness {
	return nilnessAt(v, blk, map[ssa.Value]bool{})
}

func nilnessAt(v ssa.Value, blk *ssa.BasicBlock, seen map[ssa.Value]bool) Nilness {
	if seen[v] {
		return MaybeNil
	}
	seen[v] = true
	if IsZeroMarker(v) {
		return IsNil
	}
	switch x := v.(type) {
	case *ssa.Const:
		if x.IsNil() {
			return IsNil
		}
		return NonNil
	case *ssa.MakeInterface:
		// interface holding a concrete value: nil only if it wraps a nil pointer, which is still a non-nil interface
		return NonNil
	case *ssa.ChangeInterface:
		return nilnessAt(x.X, blk, seen)
	case *ssa.UnOp:
		if g, ok := x.X.(*ssa.Global); ok && x.Op == token.MUL && globalNonNil[g] {
			return NonNil
		}
	case *ssa.Call:
		if o := CalleeObj(x); o != nil && o.Pkg() != nil {
			switch o.Pkg().Path() + "." + o.Name() {
			case "fmt.Errorf", "errors.New":
				return NonNil
			}
		}
	case *ssa.Phi:
		res := Nilness(-1)
		for i, e := range x.Edges {
			// evaluate edge value in the context of the predecessor block
			n := nilnessAt(e, x.Block().Preds[i], seen)
			if res == -1 {
				res = n
			} else if res != n {
				res = MaybeNil
			}
		}
		if res != -1 && res != MaybeNil {
			return res
		}
	}
	// dominating tests on v
	if blk != nil {
		for d := blk; d != nil; d = d.Idom() {
			id := d.Idom()
			if id == nil {
				break
			}
			ifi := BlockIf(id)
			if ifi == nil {
				continue
			}
			ns, ok := NilSucc(ifi, func(w ssa.Value) bool { return w == v })
			if !ok {
				continue
			}
			if EdgeDominates(Edge{id, ns}, blk) {
				return IsNil
			}
			if EdgeDominates(Edge{id, 1 - ns}, blk) {
				return NonNil
			}
		}
	}
	return MaybeNil
}

// globalNonNil holds package-level variables every store to which (in the
// whole program) is a non-nil value: sentinel errors such as io.EOF or the
// repo's Err* variables. Filled by ComputeGlobalFacts.
var globalNonNil = map[*ssa.Global]bool{}

// ComputeGlobalFacts scans all functions for stores to globals.
func (p *Program) ComputeGlobalFacts() {
	stores := map[*ssa.Global][]ssa.Value{}
	for fn := range p.AllFns {
		Instrs(fn, func(in ssa.Instruction) {
			if st, ok := in.(*ssa.Store); ok {
				if g, ok := st.Addr.(*ssa.Global); ok {
					stores[g] = append(stores[g], st.Val)
				}
			}
		})
	}
	for g, vals := range stores {
		all := true
		for _, v := range vals {
			if nilnessAt(v, nil, map[ssa.Value]bool{}) != NonNil {
				all = false
			}
		}
		if all {
			globalNonNil[g] = true
		}
	}
}

// ---------- provenance ----------

// SliceOpts controls BackSlice.
type SliceOpts struct {
	ThroughCalls   bool                   // follow call arguments (result derives from args/receiver)
	ThroughCallsIf func(c *ssa.Call) bool // finer control; overrides ThroughCalls when non-nil
	Stop           func(v ssa.Value) bool // do not expand this value (it is still included)
	Stores         bool                   // follow loads from local Allocs / fields of local Allocs to the stored values
	Indices        bool                   // also follow the index operand of IndexAddr / Index / Lookup (which element was selected)
	Region         *Region                // expand helpers of this region (default: the region of the function v belongs to)
	Local          bool                   // do not expand helpers at all
}

// BackSlice returns the set of values v may derive from (including v).
func BackSlice(v ssa.Value, o SliceOpts) map[ssa.Value]bool {
	seen := map[ssa.Value]bool{}
	rg := o.Region
	if rg == nil && !o.Local {
		if in, ok := v.(ssa.Instruction); ok && in.Parent() != nil {
			rg = RegionOf(in.Parent())
		} else if pa, ok := v.(*ssa.Parameter); ok && pa.Parent() != nil {
			rg = RegionOf(pa.Parent())
		}
	}
	// helperOf: the region helper a call value runs, if any
	helpersOf := func(c *ssa.Call) []*ssa.Function {
		if rg == nil || o.Local || c.Parent() == nil {
			return nil
		}
		return rg.callees[c]
	}
	var visit func(v ssa.Value)
	visitResults := func(g *ssa.Function, idx int) {
		for _, ret := range Returns(g) {
			for i := range ret.Results {
				if idx >= 0 && i != idx {
					continue
				}
				for _, rv := range ResultValues(ret, i) {
					if !IsZeroMarker(rv) {
						visit(rv)
					}
				}
				// an aggregate result built field by field in a (named-result) local has no whole-value store to
				// normalise to: the local itself is what the result derives from
				if _, isStruct := ret.Results[i].Type().Underlying().(*types.Struct); isStruct {
					visit(ret.Results[i])
				}
			}
		}
	}
	visit = func(v ssa.Value) {
		if v == nil || seen[v] {
			return
		}
		seen[v] = true
		if o.Stop != nil && o.Stop(v) {
			return
		}
		switch x := v.(type) {
		case *ssa.Phi:
			for _, e := range x.Edges {
				visit(e)
			}
		case *ssa.Parameter:
			// a parameter of an expanded helper stands for the arguments at its call sites in the region
			if rg != nil && !o.Local {
				if g := x.Parent(); g != nil && g != rg.Root && rg.in[g] {
					for j, pp := range g.Params {
						if pp != x {
							continue
						}
						for _, cs := range rg.sites[g] {
							if a := ArgForParam(cs, j); a != nil {
								visit(a)
							}
						}
					}
				}
			}
		case *ssa.Extract:
			if c, ok := x.Tuple.(*ssa.Call); ok {
				if gs := helpersOf(c); len(gs) > 0 {
					for _, g := range gs {
						visitResults(g, x.Index)
					}
					if !rg.opaqueToo[c] {
						seen[x.Tuple] = true
						return
					}
				}
			}
			visit(x.Tuple)
		case *ssa.ChangeType:
			visit(x.X)
		case *ssa.ChangeInterface:
			visit(x.X)
		case *ssa.MakeInterface:
			visit(x.X)
		case *ssa.Convert:
			visit(x.X)
		case *ssa.SliceToArrayPointer:
			visit(x.X)
		case *ssa.TypeAssert:
			visit(x.X)
		case *ssa.UnOp:
			visit(x.X)
			if x.Op == token.MUL && o.Stores {
				for _, sv := range storedValues(x.X) {
					visit(sv)
				}
			}
			if x.Op == token.MUL && !o.Local && rg != nil {
				// a field of a struct created in this activation: the values the region stores there
				if srcs, ok := rg.LocalFieldSources(x); ok {
					for _, sv := range srcs {
						visit(sv)
					}
				}
			}
		case *ssa.BinOp:
			visit(x.X)
			visit(x.Y)
		case *ssa.FieldAddr:
			visit(x.X)
		case *ssa.Field:
			visit(x.X)
			if !o.Local && rg != nil {
				if srcs, ok := rg.LocalFieldSources(x); ok {
					for _, sv := range srcs {
						visit(sv)
					}
				}
			}
		case *ssa.IndexAddr:
			visit(x.X)
			if o.Indices {
				visit(x.Index)
			}
		case *ssa.Index:
			visit(x.X)
			if o.Indices {
				visit(x.Index)
			}
		case *ssa.Lookup:
			visit(x.X)
			if o.Indices {
				visit(x.Index)
			}
		case *ssa.Slice:
			visit(x.X)
		case *ssa.MakeClosure:
			for _, b := range x.Bindings {
				visit(b)
			}
		case *ssa.FreeVar:
			// bound value in the parent's MakeClosure
			fn := x.Parent()
			if par := fn.Parent(); par != nil {
				idx := -1
				for i, fv := range fn.FreeVars {
					if fv == x {
						idx = i
					}
				}
				Instrs(par, func(in ssa.Instruction) {
					if mc, ok := in.(*ssa.MakeClosure); ok && mc.Fn == fn && idx >= 0 && idx < len(mc.Bindings) {
						visit(mc.Bindings[idx])
					}
				})
			}
		case *ssa.Call:
			if gs := helpersOf(x); len(gs) > 0 {
				for _, g := range gs {
					visitResults(g, -1)
				}
				if !rg.opaqueToo[x] {
					return
				}
			}
			follow := o.ThroughCalls
			if o.ThroughCallsIf != nil {
				follow = o.ThroughCallsIf(x)
			}
			if follow {
				if x.Call.IsInvoke() {
					visit(x.Call.Value)
				} else if _, ok := x.Call.Value.(*ssa.Function); !ok {
					visit(x.Call.Value)
				}
				for _, a := range x.Call.Args {
					visit(a)
				}
			}
		case *ssa.Alloc:
			if o.Stores {
				for _, sv := range storedValues(x) {
					visit(sv)
				}
			}
		}
	}
	visit(v)
	return seen
}

// ArgForParam returns the value a call instruction passes for the callee's j-th parameter (Params index: for a method
// the receiver is parameter 0), nil when there is none.
func ArgForParam(cs ssa.CallInstruction, j int) ssa.Value {
	cc := cs.Common()
	if cc.IsInvoke() {
		if j == 0 {
			return cc.Value
		}
		j--
	}
	if j < 0 || j >= len(cc.Args) {
		return nil
	}
	return cc.Args[j]
}

// storedValues returns values stored (anywhere in the function, flow
// insensitively) to the address addr when addr is rooted at a local Alloc:
// stores to the same Alloc, or to the same field path of the same Alloc.
func storedValues(addr ssa.Value) []ssa.Value {
	root, path := addrPath(addr)
	al, ok := root.(*ssa.Alloc)
	if !ok {
		return nil
	}
	var out []ssa.Value
	fn := al.Parent()
	for _, f := range WithClosures(fn) {
		Instrs(f, func(in ssa.Instruction) {
			st, ok := in.(*ssa.Store)
			if !ok {
				return
			}
			r2, p2 := addrPath(st.Addr)
			if r2 == root && (p2 == path || strings.HasPrefix(path, p2) || strings.HasPrefix(p2, path)) {
				out = append(out, st.Val)
			}
		})
	}
	return out
}

// addrPath decomposes an address into its root and a field path string.
func addrPath(a ssa.Value) (ssa.Value, string) {
	path := ""
	for {
		switch x := a.(type) {
		case *ssa.FieldAddr:
			path = fmt.Sprintf(".%d%s", x.Field, path)
			a = x.X
		case *ssa.IndexAddr:
			path = "[]" + path
			a = x.X
		case *ssa.FreeVar:
			// closure-captured alloc: resolve to the parent's binding
			fn := x.Parent()
			par := fn.Parent()
			var bound ssa.Value
			if par != nil {
				idx := -1
				for i, fv := range fn.FreeVars {
					if fv == x {
						idx = i
					}
				}
				Instrs(par, func(in ssa.Instruction) {
					if mc, ok := in.(*ssa.MakeClosure); ok && mc.Fn == fn && idx >= 0 && idx < len(mc.Bindings) {
						bound = mc.Bindings[idx]
					}
				})
			}
			if bound == nil {
				return a, path
			}
			a = bound
		default:
			return a, path
		}
	}
}

// AnyIn reports whether some value in the set satisfies pred.
func AnyIn(set map[ssa.Value]bool, pred func(ssa.Value) bool) bool {
	for v := range set {
		if pred(v) {
			return true
		}
	}
	return false
}

// IsCallWhere builds a value predicate: v is a call satisfying f.
func IsCallWhere(f func(c *ssa.Call) bool) func(ssa.Value) bool {
	return func(v ssa.Value) bool {
		c, ok := v.(*ssa.Call)
		return ok && f(c)
	}
}

// FieldOf reports whether v is a load/addr of field `name` of a struct type named tname (in any package when pkg=="").
func IsFieldRef(v ssa.Value, tname, fname string) bool {
	switch x := v.(type) {
	case *ssa.UnOp:
		if x.Op == token.MUL {
			return IsFieldRef(x.X, tname, fname)
		}
	case *ssa.FieldAddr:
		st, named := structOf(x.X.Type())
		return st != nil && named == tname && st.Field(x.Field).Name() == fname
	case *ssa.Field:
		st, named := structOf(x.X.Type())
		return st != nil && named == tname && st.Field(x.Field).Name() == fname
	}
	return false
}

func structOf(t types.Type) (*types.Struct, string) {
	if p, ok := t.Underlying().(*types.Pointer); ok {
		t = p.Elem()
	}
	name := ""
	if n, ok := types.Unalias(t).(*types.Named); ok {
		name = n.Obj().Name()
	}
	st, _ := t.Underlying().(*types.Struct)
	return st, name
}

// FieldName returns "T.f" for a FieldAddr/Field value, "" otherwise.
func FieldName(v ssa.Value) string {
	switch x := v.(type) {
	case *ssa.FieldAddr:
		st, named := structOf(x.X.Type())
		if st != nil {
			return named + "." + st.Field(x.Field).Name()
		}
	case *ssa.Field:
		st, named := structOf(x.X.Type())
		if st != nil {
			return named + "." + st.Field(x.Field).Name()
		}
	}
	return ""
}

// TypeString renders a type relative to the module.
func TypeString(t types.Type) string {
	return types.TypeString(t, func(p *types.Package) string {
		return RelPkg(p.Path())
	})
}

// SortedKeys returns map keys sorted.
func SortedKeys[V any](m map[string]V) []string {
	var ks []string
	for k := range m {
		ks = append(ks, k)
	}
	sort.Strings(ks)
	return ks
}

// SameLoad reports whether a and b are loads of the same memory path (same
// root value and same field/index path). Two such loads denote the same value
// provided nothing is stored there in between; callers use this for locals
// and parameters that are not reassigned.
func SameLoad(a, b ssa.Value) bool {
	if a == b {
		return true
	}
	ua, ok1 := a.(*ssa.UnOp)
	ub, ok2 := b.(*ssa.UnOp)
	if !ok1 || !ok2 || ua.Op != token.MUL || ub.Op != token.MUL {
		return false
	}
	ra, pa := addrPath(ua.X)
	rb, pb := addrPath(ub.X)
	if ra != rb || pa != pb {
		return false
	}
	if pa != "" {
		return true
	}
	// plain loads of one and the same variable (a local, or a variable captured by a closure)
	switch ra.(type) {
	case *ssa.FreeVar, *ssa.Alloc, *ssa.Parameter:
		// (a pointer parameter: the variable of the caller the callee was handed - the closure's captured variable
		// after the closure became a method or function)
		return true
	}
	return false
}
