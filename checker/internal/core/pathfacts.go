package core

// Path facts: what a path knows about values it has tested.
//
// A developer can name a condition (failed := err != nil; ... if failed {..}), merge conditions into one boolean
// (bad := a || b), test the same flag twice, or collect a result in a variable and return it once at the end. None of
// that changes behaviour, but it moves the comparison away from the branch and the value away from the return. So
//   - an edge is described by the ATOMS it implies - elementary comparisons and boolean values - obtained by
//     decomposing the branch condition through negation, named booleans and short-circuit phis (ImpliedAtoms);
//     EdgesWhere / BoolEdgesWhere are defined over atoms;
//   - the exploration (region.go) carries, along each path, the nil-ness of the values and the truth of the booleans
//     the path has tested (only values that are looked at again later), transfers them through phis according to
//     the predecessor the path came from, prunes branches they contradict, and lets predicates ask for the nil-ness
//     of a value "on this path" (NilnessAt consults it), e.g. of the value a single final return hands out.

import (
	"fmt"
	"go/constant"
	"go/token"
	"go/types"
	"sort"
	"strings"

	"golang.org/x/tools/go/ssa"
)

// Atom is an elementary fact implied by taking an edge: a comparison that holds, or a boolean value's truth.
type Atom struct {
	Rel  *Rel      // X Op Y holds
	Bool ssa.Value // this boolean value ...
	Val  bool      // ... has this truth value
}

var atomCache = map[Edge][]Atom{}

// ImpliedAtoms lists what must hold when control leaves e.From over successor e.Succ.
func ImpliedAtoms(e Edge) []Atom {
	if a, ok := atomCache[e]; ok {
		return a
	}
	var out []Atom
	if ifi := BlockIf(e.From); ifi != nil {
		out = decompose(ifi.Cond, e.Succ == 0, 0, map[ssa.Value]bool{})
	}
	atomCache[e] = out
	return out
}

func isCompareOp(op token.Token) bool {
	switch op {
	case token.EQL, token.NEQ, token.LSS, token.LEQ, token.GTR, token.GEQ:
		return true
	}
	return false
}

// decompose: the boolean value c is known to be `want`; which atoms follow?
func decompose(c ssa.Value, want bool, depth int, seen map[ssa.Value]bool) []Atom {
	if c == nil || depth > 8 || seen[c] {
		return nil
	}
	seen[c] = true
	defer delete(seen, c)
	out := []Atom{{Bool: c, Val: want}}
	switch x := c.(type) {
	case *ssa.UnOp:
		if x.Op == token.NOT {
			out = append(out, decompose(x.X, !want, depth+1, seen)...)
		}
	case *ssa.BinOp:
		if isCompareOp(x.Op) {
			op := x.Op
			if !want {
				op = NegateOp(op)
			}
			out = append(out, Atom{Rel: &Rel{x.X, x.Y, op}})
		}
	case *ssa.Phi:
		// a boolean assembled by control flow (v := a && b, v := a || b, v := false; if .. { v = c }):
		// if only one incoming edge can carry `want`, the path came over it
		cand := -1
		n := 0
		for i, ev := range x.Edges {
			if k, isC := ConstBool(ev); isC && k != want {
				continue
			}
			cand = i
			n++
		}
		if n == 1 {
			ev := x.Edges[cand]
			if _, isC := ConstBool(ev); !isC {
				out = append(out, decompose(ev, want, depth+1, seen)...)
			}
			// ... and what it takes to arrive from that predecessor
			pb := x.Block().Preds[cand]
			for hop := 0; hop < 4 && pb != nil; hop++ {
				if len(pb.Preds) != 1 {
					break
				}
				q := pb.Preds[0]
				if BlockIf(q) != nil {
					for si, s := range q.Succs {
						if s == pb && q.Succs[1-si] != pb {
							out = append(out, decompose(BlockIf(q).Cond, si == 0, depth+1, seen)...)
						}
					}
				}
				pb = q
			}
		}
	}
	return out
}

// ---------- facts carried along a path ----------

type pathFacts struct {
	nils  map[ssa.Value]Nilness
	bools map[ssa.Value]bool
	// alias: on this path the boolean phi (key) carries the value of another boolean (possibly negated): learning one
	// tells the other (v := a && !b arrived over the edge that carries !b; if !v {..} then tells b)
	alias map[ssa.Value]boolAlias
	// consts: the constant a phi carries on this path (next := stateA / stateB chosen in two branches, stored later)
	consts map[ssa.Value]string
	// vals: the value a phi carries on this path, for phis that end up returned or stored (result := ...; return result)
	vals map[ssa.Value]ssa.Value
	prev *ssa.BasicBlock
}

type boolAlias struct {
	v   ssa.Value
	neg bool
}

func (p *pathFacts) key() string {
	if p == nil {
		return ""
	}
	var parts []string
	for v, n := range p.nils {
		parts = append(parts, fmt.Sprintf("%p=%d", v, n))
	}
	for v, b := range p.bools {
		parts = append(parts, fmt.Sprintf("%p:%v", v, b))
	}
	for v, a := range p.alias {
		parts = append(parts, fmt.Sprintf("%p~%p%v", v, a.v, a.neg))
	}
	for v, k := range p.consts {
		parts = append(parts, fmt.Sprintf("%p#%s", v, k))
	}
	for v, w := range p.vals {
		parts = append(parts, fmt.Sprintf("%p>%p", v, w))
	}
	sort.Strings(parts)
	return strings.Join(parts, ",")
}

func (p *pathFacts) clone() *pathFacts {
	q := &pathFacts{nils: map[ssa.Value]Nilness{}, bools: map[ssa.Value]bool{}, alias: map[ssa.Value]boolAlias{}, consts: map[ssa.Value]string{}, vals: map[ssa.Value]ssa.Value{}}
	if p != nil {
		for k, v := range p.nils {
			q.nils[k] = v
		}
		for k, v := range p.bools {
			q.bools[k] = v
		}
		for k, v := range p.alias {
			q.alias[k] = v
		}
		for k, v := range p.consts {
			q.consts[k] = v
		}
		for k, v := range p.vals {
			q.vals[k] = v
		}
		q.prev = p.prev
	}
	return q
}

// relevance: only values that are looked at again are worth remembering (otherwise every branch would split the
// state space for nothing).
type relevance struct {
	boolUses map[ssa.Value]int
	nilUses  map[ssa.Value]int
}

var relevanceCache = map[*Region]*relevance{}

func relevanceOf(rg *Region) *relevance {
	if r, ok := relevanceCache[rg]; ok {
		return r
	}
	r := &relevance{boolUses: map[ssa.Value]int{}, nilUses: map[ssa.Value]int{}}
	for _, g := range rg.Fns {
		for _, blk := range g.Blocks {
			for _, in := range blk.Instrs {
				switch x := in.(type) {
				case *ssa.If:
					for _, s := range []bool{true, false} {
						for _, a := range decompose(x.Cond, s, 0, map[ssa.Value]bool{}) {
							if a.Bool != nil && s {
								r.boolUses[a.Bool]++
							}
							if a.Rel != nil && s && (a.Rel.Op == token.EQL || a.Rel.Op == token.NEQ) {
								if IsNilConst(a.Rel.Y) {
									r.nilUses[Strip(a.Rel.X)]++
								} else if IsNilConst(a.Rel.X) {
									r.nilUses[Strip(a.Rel.Y)]++
								}
							}
						}
					}
				case *ssa.Phi:
					for _, e := range x.Edges {
						r.boolUses[e]++
						r.nilUses[Strip(e)]++
					}
					r.boolUses[x]++
					r.nilUses[x]++
				case *ssa.Return:
					for _, res := range x.Results {
						r.nilUses[Strip(res)]++
					}
				case *ssa.Store:
					r.nilUses[Strip(x.Val)]++
				case *ssa.UnOp:
					if x.Op == token.NOT {
						r.boolUses[x.X]++
					}
				}
			}
		}
	}
	relevanceCache[rg] = r
	return r
}

// learnEdge returns the facts after taking edge e, or ok=false when the edge contradicts what the path knows.
func learnEdge(rg *Region, pf *pathFacts, e Edge) (*pathFacts, bool) {
	atoms := ImpliedAtoms(e)
	if len(atoms) == 0 {
		return pf, true
	}
	rel := relevanceOf(rg)
	var out *pathFacts
	get := func() *pathFacts {
		if out == nil {
			out = pf.clone()
		}
		return out
	}
	cur := func() *pathFacts {
		if out != nil {
			return out
		}
		return pf
	}
	// learnRel: a comparison with nil that holds on this path
	learnRel := func(r *Rel) bool {
		if r == nil || (r.Op != token.EQL && r.Op != token.NEQ) {
			return true
		}
		// a comparison of a value whose constant the path knows (an enum chosen in a branch taken earlier) with a constant
		if c := cur(); c != nil && len(c.consts) > 0 {
			for _, pr := range [][2]ssa.Value{{r.X, r.Y}, {r.Y, r.X}} {
				kv := ConstVal(pr[1])
				if kv == nil || kv.Kind() != constant.Int {
					continue
				}
				if known, ok := c.consts[pr[0]]; ok {
					if (known == kv.ExactString()) != (r.Op == token.EQL) {
						return false
					}
				}
			}
		}
		var v ssa.Value
		if IsNilConst(r.Y) {
			v = Strip(r.X)
		} else if IsNilConst(r.X) {
			v = Strip(r.Y)
		}
		if v == nil {
			return true
		}
		n := IsNil
		if r.Op == token.NEQ {
			n = NonNil
		}
		if c := cur(); c != nil {
			if old, ok := c.nils[v]; ok && old != n {
				return false
			}
		}
		if rel.nilUses[v] >= 2 {
			get().nils[v] = n
		}
		return true
	}
	for _, a := range atoms {
		if a.Bool != nil {
			if c := cur(); c != nil {
				if old, ok := c.bools[a.Bool]; ok && old != a.Val {
					return nil, false
				}
			}
			if rel.boolUses[a.Bool] >= 2 {
				get().bools[a.Bool] = a.Val
			}
			if c := cur(); c != nil {
				if al, ok := c.alias[a.Bool]; ok {
					val := a.Val != al.neg
					if old, known := c.bools[al.v]; known && old != val {
						return nil, false
					}
					get().bools[al.v] = val
					// and what that boolean is made of
					for _, sub := range decompose(al.v, val, 0, map[ssa.Value]bool{}) {
						if !learnRel(sub.Rel) {
							return nil, false
						}
						if sub.Bool != nil && sub.Bool != al.v {
							if old, known := cur().bools[sub.Bool]; known && old != sub.Val {
								return nil, false
							}
							if rel.boolUses[sub.Bool] >= 2 {
								get().bools[sub.Bool] = sub.Val
							}
						}
					}
				}
			}
		}
		if a.Rel != nil && !learnRel(a.Rel) {
			return nil, false
		}
	}
	return cur(), true
}

// enterBlock transfers facts through the phis at the head of blk for a path arriving from pred, and forgets facts
// about values the block recomputes.
func enterBlock(pf *pathFacts, pred, blk *ssa.BasicBlock) *pathFacts {
	idx := -1
	for i, p := range blk.Preds {
		if p == pred {
			idx = i
		}
	}
	var out *pathFacts
	get := func() *pathFacts {
		if out == nil {
			out = pf.clone()
		}
		return out
	}
	cur := func() *pathFacts {
		if out != nil {
			return out
		}
		return pf
	}
	type upd struct {
		phi  *ssa.Phi
		b    *bool
		n    Nilness
		hasN bool
		al   *boolAlias
		k    string
		val  ssa.Value
	}
	var upds []upd
	for _, in := range blk.Instrs {
		phi, ok := in.(*ssa.Phi)
		if !ok {
			break
		}
		if idx < 0 || idx >= len(phi.Edges) {
			continue
		}
		ev := phi.Edges[idx]
		u := upd{phi: phi}
		if k, isC := ConstBool(ev); isC {
			u.b = &k
		} else if isBoolType(ev.Type()) {
			w, neg := CondPolarity(ev)
			if c := cur(); c != nil {
				if bv, ok := c.bools[w]; ok {
					t := bv != neg
					u.b = &t
				}
			}
			if u.b == nil {
				u.al = &boolAlias{w, neg}
			}
		}
		if relevantPhi(phi, 0) {
			u.val = ev
			if c := cur(); c != nil {
				if w, ok := c.vals[ev]; ok {
					u.val = w
				}
			}
		}
		// an integer(-enum) constant chosen on this path
		if b, ok := ev.Type().Underlying().(*types.Basic); ok && b.Info()&types.IsInteger != 0 {
			if cv := ConstVal(ev); cv != nil {
				u.k = cv.ExactString()
			} else if c := cur(); c != nil {
				u.k = c.consts[ev]
			}
		}
		// nil-ness of the operand, as the path knows it
		if isNilable(ev.Type()) {
			n := MaybeNil
			if c := cur(); c != nil {
				if f, ok := c.nils[Strip(ev)]; ok {
					n = f
				}
			}
			if n == MaybeNil {
				n = nilnessNoPath(ev, pred)
			}
			if n != MaybeNil {
				u.n, u.hasN = n, true
			}
		}
		upds = append(upds, u)
	}
	for _, u := range upds {
		c := cur()
		hadB := false
		if c != nil {
			_, hadB = c.bools[u.phi]
		}
		if u.b != nil {
			get().bools[u.phi] = *u.b
		} else if hadB {
			delete(get().bools, u.phi)
		}
		hadV := false
		if c != nil {
			_, hadV = c.vals[u.phi]
		}
		if u.val != nil {
			get().vals[u.phi] = u.val
		} else if hadV {
			delete(get().vals, u.phi)
		}
		hadK := false
		if c != nil {
			_, hadK = c.consts[u.phi]
		}
		if u.k != "" {
			get().consts[u.phi] = u.k
		} else if hadK {
			delete(get().consts, u.phi)
		}
		hadA := false
		if c != nil {
			_, hadA = c.alias[u.phi]
		}
		if u.al != nil {
			get().alias[u.phi] = *u.al
		} else if hadA {
			delete(get().alias, u.phi)
		}
		hadN := false
		if c != nil {
			_, hadN = c.nils[u.phi]
		}
		if u.hasN {
			get().nils[u.phi] = u.n
		} else if hadN {
			delete(get().nils, u.phi)
		}
	}
	// values recomputed by this block (loops): what was known about the previous incarnation is void
	if c := cur(); c != nil && (len(c.bools) > 0 || len(c.nils) > 0) {
		for _, in := range blk.Instrs {
			if _, isPhi := in.(*ssa.Phi); isPhi {
				continue
			}
			v, ok := in.(ssa.Value)
			if !ok {
				continue
			}
			if _, assumed := assumedBools[v]; assumed || assumedNonNil[v] {
				continue // an assumption of the query (ReachAssuming*), about this very computation
			}
			if _, has := cur().bools[v]; has {
				delete(get().bools, v)
			}
			if _, has := cur().nils[v]; has {
				delete(get().nils, v)
			}
		}
	}
	return cur()
}

func isBoolType(t types.Type) bool {
	b, ok := t.Underlying().(*types.Basic)
	return ok && b.Info()&types.IsBoolean != 0
}

func isNilable(t types.Type) bool {
	switch t.Underlying().(type) {
	case *types.Pointer, *types.Interface, *types.Slice, *types.Map, *types.Chan, *types.Signature:
		return true
	}
	return false
}

// evalCondPath: the truth of a branch condition as far as the path's facts determine it.
func evalCondPath(cond ssa.Value, pf *pathFacts) (val, known bool) {
	if pf == nil {
		return false, false
	}
	c, neg := CondPolarity(cond)
	if b, ok := pf.bools[c]; ok {
		return b != neg, true
	}
	if bo, ok := c.(*ssa.BinOp); ok && (bo.Op == token.EQL || bo.Op == token.NEQ) {
		var v ssa.Value
		if IsNilConst(bo.Y) {
			v = Strip(bo.X)
		} else if IsNilConst(bo.X) {
			v = Strip(bo.Y)
		}
		if v != nil {
			if n, ok := pf.nils[v]; ok && n != MaybeNil {
				r := (n == IsNil) == (bo.Op == token.EQL)
				return r != neg, true
			}
		}
	}
	return false, false
}

// curPath is the fact set of the path whose instruction is currently offered to a rule's predicate (nil outside an
// exploration). NilnessAt consults it.
var curPath *pathFacts

// PathNilness reports what the path currently being explored knows about v.
func PathNilness(v ssa.Value) (Nilness, bool) {
	if curPath == nil {
		return MaybeNil, false
	}
	n, ok := curPath.nils[Strip(v)]
	if !ok {
		n, ok = curPath.nils[v]
	}
	return n, ok && n != MaybeNil
}

// curStack is the chain of expanded calls the instruction currently offered to a rule's predicate runs under.
var curStack []rframe

// PathConst reports the integer constant v is known to carry on the path currently being explored: a constant, a phi
// that took a constant on this path, a parameter of an expanded helper whose argument in the current calling context
// is such a constant, or an element of a constant package-level table selected by such a constant.
func PathConst(v ssa.Value) (string, bool) {
	return pathConst(v, curStack, 0)
}

func pathConst(v ssa.Value, stack []rframe, depth int) (string, bool) {
	if v == nil || depth > 6 {
		return "", false
	}
	if cv := ConstVal(v); cv != nil {
		return cv.ExactString(), true
	}
	if curPath != nil {
		if k, ok := curPath.consts[v]; ok && k != "" {
			return k, true
		}
	}
	switch x := v.(type) {
	case *ssa.Parameter:
		g := x.Parent()
		for i := len(stack) - 1; i >= 0; i-- {
			if stack[i].callee != g {
				continue
			}
			for j, p := range g.Params {
				if p == x {
					if a := ArgForParam(stack[i].call, j); a != nil {
						return pathConst(a, stack[:i], depth+1)
					}
				}
			}
			break
		}
	case *ssa.Convert:
		if b, ok := x.X.Type().Underlying().(*types.Basic); ok && b.Info()&types.IsInteger != 0 {
			return pathConst(x.X, stack, depth+1)
		}
	case *ssa.ChangeType:
		return pathConst(x.X, stack, depth+1)
	case *ssa.UnOp:
		if x.Op == token.MUL {
			return tableConst(x.X, stack, depth)
		}
	}
	return "", false
}

// tableConst: the constant stored at an address inside a package-level table (array or slice literal of the package's
// initialiser that nothing else writes), when the indices on the way are constants on this path.
func tableConst(addr ssa.Value, stack []rframe, depth int) (string, bool) {
	var steps []string
	a := addr
	var g *ssa.Global
	for i := 0; i < 8 && g == nil; i++ {
		switch x := a.(type) {
		case *ssa.FieldAddr:
			steps = append([]string{fmt.Sprintf(".%d", x.Field)}, steps...)
			a = x.X
		case *ssa.IndexAddr:
			k, ok := pathConst(x.Index, stack, depth+1)
			if !ok {
				return "", false
			}
			steps = append([]string{"[" + k + "]"}, steps...)
			a = x.X
		case *ssa.UnOp:
			// a slice-typed table: the global holds the slice
			if x.Op != token.MUL {
				return "", false
			}
			a = x.X
		case *ssa.Global:
			g = x
		default:
			return "", false
		}
	}
	if g == nil || theProg == nil || !theProg.InModuleGlobal(g) {
		return "", false
	}
	tbl := constTable(g)
	if tbl == nil {
		return "", false
	}
	k, ok := tbl[strings.Join(steps, "")]
	return k, ok
}

var constTableCache = map[*ssa.Global]map[string]string{}

// constTable maps element paths ("[2].1") of a package-level array/slice literal to the integer/bool constants stored
// there by the package initialiser; nil when the variable is written anywhere else (not a constant table).
func constTable(g *ssa.Global) map[string]string {
	if t, ok := constTableCache[g]; ok {
		return t
	}
	constTableCache[g] = nil
	if g.Pkg == nil {
		return nil
	}
	ini := g.Pkg.Func("init")
	if ini == nil {
		return nil
	}
	// backing arrays of slice literals stored into g
	roots := map[ssa.Value]bool{g: true}
	Instrs(ini, func(in ssa.Instruction) {
		if st, ok := in.(*ssa.Store); ok && st.Addr == ssa.Value(g) {
			switch v := st.Val.(type) {
			case *ssa.Slice:
				roots[v.X] = true
			case *ssa.UnOp:
				// the literal is built in a temporary and copied into the variable as a whole
				if v.Op == token.MUL {
					if al, ok := v.X.(*ssa.Alloc); ok {
						roots[al] = true
					}
				}
			}
		}
	})
	for _, fn := range pkgFns(g.Pkg.Pkg) {
		if fn == ini {
			continue
		}
		bad := false
		Instrs(fn, func(in ssa.Instruction) {
			switch x := in.(type) {
			case *ssa.Store:
				if r := addrRoot(x.Addr); r == ssa.Value(g) {
					bad = true
				} else if u, ok := r.(*ssa.UnOp); ok && u.Op == token.MUL && u.X == ssa.Value(g) {
					bad = true // store through the slice held by g
				}
			}
		})
		if bad {
			return nil
		}
	}
	tbl := map[string]string{}
	// prefix: where in the table a root (the variable, the temporary the literal was built in, the temporaries of
	// its elements) ends up
	prefix := map[ssa.Value]string{}
	for r := range roots {
		prefix[r] = ""
	}
	resolve := func(a ssa.Value) (string, bool) {
		var steps []string
		for i := 0; i < 8; i++ {
			switch x := a.(type) {
			case *ssa.FieldAddr:
				steps = append([]string{fmt.Sprintf(".%d", x.Field)}, steps...)
				a = x.X
				continue
			case *ssa.IndexAddr:
				cv := ConstVal(x.Index)
				if cv == nil {
					return "", false
				}
				steps = append([]string{"[" + cv.ExactString() + "]"}, steps...)
				a = x.X
				continue
			}
			break
		}
		pre, ok := prefix[a]
		if !ok {
			return "", false
		}
		return pre + strings.Join(steps, ""), true
	}
	for changed, rounds := true, 0; changed && rounds < 6; rounds++ {
		changed = false
		Instrs(ini, func(in ssa.Instruction) {
			st, ok := in.(*ssa.Store)
			if !ok {
				return
			}
			u, ok := st.Val.(*ssa.UnOp)
			if !ok || u.Op != token.MUL {
				return
			}
			al, ok := u.X.(*ssa.Alloc)
			if !ok {
				return
			}
			if _, have := prefix[al]; have {
				return
			}
			if at, ok := resolve(st.Addr); ok {
				prefix[al] = at
				changed = true
			}
		})
	}
	Instrs(ini, func(in ssa.Instruction) {
		st, ok := in.(*ssa.Store)
		if !ok {
			return
		}
		cv := ConstVal(st.Val)
		if cv == nil {
			return
		}
		if at, ok := resolve(st.Addr); ok && at != "" {
			tbl[at] = cv.ExactString()
		}
	})
	constTableCache[g] = tbl
	return tbl
}

// relevantPhi: the phi's value ends up returned or stored (possibly through another phi or an interface conversion).
func relevantPhi(phi *ssa.Phi, depth int) bool {
	if depth > 3 || phi.Referrers() == nil {
		return false
	}
	var uses func(v ssa.Value, d int) bool
	uses = func(v ssa.Value, d int) bool {
		if d > 3 || v.Referrers() == nil {
			return false
		}
		for _, r := range *v.Referrers() {
			switch x := r.(type) {
			case *ssa.Return, *ssa.Store:
				return true
			case ssa.CallInstruction:
				for _, a := range x.Common().Args {
					if a == v {
						return true // handed to a call: which value it is on this path matters to the callee
					}
				}
			case *ssa.Phi:
				if x != phi && uses(x, d+1) {
					return true
				}
			case *ssa.MakeInterface:
				if uses(x, d+1) {
					return true
				}
			case *ssa.ChangeInterface:
				if uses(x, d+1) {
					return true
				}
			}
		}
		return false
	}
	return uses(phi, depth)
}

// PathValue resolves v - a phi - to the value it carries on the path currently being explored (v itself otherwise).
func PathValue(v ssa.Value) ssa.Value {
	if curPath == nil {
		return v
	}
	for i := 0; i < 4; i++ {
		w, ok := curPath.vals[v]
		if !ok || w == v {
			return v
		}
		v = w
	}
	return v
}

// ---------- integer constants kept in fields of a local struct ----------

// memCell stands for one integer field of a local struct variable whose address does not escape (pass :=
// walkPass{ph: phaseTraverse, ...}; pass.ph = phasePreload; ... if pass.ph == phasePreload). The constant last stored
// into it on the path is remembered under this key, and handed to every load of the field.
type memCell struct {
	*ssa.Alloc
	field int
}

var (
	memCells    = map[*ssa.Alloc]map[int]*memCell{}
	memCellSafe = map[*ssa.Alloc]bool{}
)

// localCell returns the cell addr denotes, or nil: a field of integer type of a local struct none of whose uses
// lets the address out (only field addresses that are stored through or loaded from, and loads of the whole value).
func localCell(addr ssa.Value) *memCell {
	fa, ok := addr.(*ssa.FieldAddr)
	if !ok {
		return nil
	}
	al, ok := fa.X.(*ssa.Alloc)
	if !ok {
		return nil
	}
	st, ok := al.Type().Underlying().(*types.Pointer).Elem().Underlying().(*types.Struct)
	if !ok {
		return nil
	}
	if b, ok := st.Field(fa.Field).Type().Underlying().(*types.Basic); !ok || b.Info()&types.IsInteger == 0 {
		return nil
	}
	safe := allocSafe(al)
	if !safe {
		return nil
	}
	return cellOf(al, fa.Field)
}

// allocSafe: none of the uses of the local lets its address out.
func allocSafe(al *ssa.Alloc) bool {
	safe, seen := memCellSafe[al]
	if seen {
		return safe
	}
	safe = true
	if al.Referrers() == nil {
		safe = false
	} else {
		for _, r := range *al.Referrers() {
			switch x := r.(type) {
			case *ssa.FieldAddr:
				if x.Referrers() == nil {
					safe = false
					break
				}
				for _, rr := range *x.Referrers() {
					switch y := rr.(type) {
					case *ssa.Store:
						if y.Addr != ssa.Value(x) {
							safe = false
						}
					case *ssa.UnOp:
						if y.Op != token.MUL {
							safe = false
						}
					case *ssa.DebugRef:
					default:
						safe = false
					}
				}
			case *ssa.UnOp:
				if x.Op != token.MUL {
					safe = false
				}
			case *ssa.Store:
				if x.Addr != ssa.Value(al) {
					safe = false // the address itself is stored somewhere
				}
			case *ssa.DebugRef:
			default:
				safe = false // calls, closures: not modelled
			}
		}
	}
	memCellSafe[al] = safe
	return safe
}

func cellOf(al *ssa.Alloc, field int) *memCell {
	if memCells[al] == nil {
		memCells[al] = map[int]*memCell{}
	}
	c := memCells[al][field]
	if c == nil {
		c = &memCell{al, field}
		memCells[al][field] = c
	}
	return c
}

// memStep is the effect of one instruction on what the path knows about such cells.
func memStep(pf *pathFacts, in ssa.Instruction) *pathFacts {
	switch x := in.(type) {
	case *ssa.Store:
		if al, ok := x.Addr.(*ssa.Alloc); ok {
			// the whole value is replaced: by a copy of another such local (a composite literal is built in a
			// temporary and copied), or by something unknown
			st, ok := al.Type().Underlying().(*types.Pointer).Elem().Underlying().(*types.Struct)
			if !ok || !allocSafe(al) {
				return pf
			}
			var src *ssa.Alloc
			if u, ok := x.Val.(*ssa.UnOp); ok && u.Op == token.MUL {
				if b, ok := u.X.(*ssa.Alloc); ok && allocSafe(b) {
					src = b
				}
			}
			q := pf
			for i := 0; i < st.NumFields(); i++ {
				if b, ok := st.Field(i).Type().Underlying().(*types.Basic); !ok || b.Info()&types.IsInteger == 0 {
					continue
				}
				k, old := "", ""
				if pf != nil {
					old = pf.consts[cellOf(al, i)]
					if src != nil {
						k = pf.consts[cellOf(src, i)]
					}
				}
				if k == old {
					continue
				}
				if q == pf {
					q = pf.clone()
				}
				if k == "" {
					delete(q.consts, cellOf(al, i))
				} else {
					q.consts[cellOf(al, i)] = k
				}
			}
			return q
		}
		c := localCell(x.Addr)
		if c == nil {
			return pf
		}
		k := ""
		if cv := ConstVal(x.Val); cv != nil && cv.Kind() == constant.Int {
			k = cv.ExactString()
		} else if pf != nil {
			k = pf.consts[x.Val]
		}
		old := ""
		if pf != nil {
			old = pf.consts[c]
		}
		if k == old {
			return pf
		}
		q := pf.clone()
		if k == "" {
			delete(q.consts, c)
		} else {
			q.consts[c] = k
		}
		return q
	case *ssa.UnOp:
		if x.Op != token.MUL {
			return pf
		}
		c := localCell(x.X)
		if c == nil {
			return pf
		}
		k, old := "", ""
		if pf != nil {
			k, old = pf.consts[c], pf.consts[x]
		}
		if k == old {
			return pf
		}
		q := pf.clone()
		if k == "" {
			delete(q.consts, x)
		} else {
			q.consts[x] = k
		}
		return q
	}
	return pf
}
