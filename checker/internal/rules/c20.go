package rules

import (
	"fmt"
	"go/token"
	"go/types"
	"sort"
	"strings"

	"golang.org/x/tools/go/callgraph"
	"golang.org/x/tools/go/ssa"

	"verif/checker/internal/core"
)

func init() {
	register(&Def{
		ID: "C20",
		Explanation: "A data race needs a write to shared memory. The rules bound who can write what: (globals) every write to a package-level variable of a library package - direct store, map update, or a call that passes the variable's address to a function whose summary writes through that parameter - is in an init function / variable initialiser or in the frozen registration API; (readonly) no function reachable (CHA call graph, function values included) from the read-only entry table (walks, loads, ComputeLink, Wrap/Prototype, CompileSelector and Selector methods, DeepEqual, the registered encoders, Registry lookups, TypeSystem getters, read methods of the bundled stores) contains a non-fresh write to a field of a shared-by-construction type (traversal.Config, linking.LinkSystem, multicodec.Registry, schema.TypeSystem and Type* structs, Selector implementations, store structs); (hasher) hashers are per call.  (sharedslice) a slice a shared object hands out of its own storage is never written, sorted or handed to a writer." +
			"No schedule is explored; races inside dependencies or user callbacks are out of scope.",
		NotCovered: []string{"actual schedules", "races inside refmt/go-cid/go-multihash or user callbacks", "node storage (governed by C11.confine: assemblers reachable from Load legitimately write the fresh node they build)", "per-walk state (Progress by value, Budget/SeenLinks per walk by contract)"},
		Trusted:    []string{"go/ssa, go/types, CHA call graph (sound over-approximation of calls)", "Go memory model: no write, no race"},
		Run:        runC20,
	})
}

// libraryPkg: packages whose state is library state (test helpers and benchmark sinks excluded).
func libraryPkg(rel string) bool {
	switch rel {
	case "node/tests", "node/tests/corpus", "storage/tests", "testutil", "testutil/garbage", "storage/benchmarks":
		return false
	}
	return !strings.HasPrefix(rel, "node/gendemo") || true
}

// writesThroughParam computes, for every module function, which parameters it
// (transitively through static calls) writes through.
func writesThroughParam(p *core.Program) map[*ssa.Function]map[int]bool {
	out := map[*ssa.Function]map[int]bool{}
	set := func(f *ssa.Function, i int) bool {
		m := out[f]
		if m == nil {
			m = map[int]bool{}
			out[f] = m
		}
		if m[i] {
			return false
		}
		m[i] = true
		return true
	}
	for _, fn := range p.ModFns {
		for _, w := range p.LocalEffects(fn).Writes {
			if w.Class == core.RootParam {
				if i := core.ParamIndex(w.Root); i >= 0 && w.Root.(*ssa.Parameter).Parent() == fn {
					// writing a by-value struct parameter's own copy is not an effect; only pointer-ish params matter
					if _, isStruct := fn.Params[i].Type().Underlying().(*types.Struct); isStruct && w.Loads == 0 {
						continue
					}
					set(fn, i)
				}
			}
		}
	}
	for changed := true; changed; {
		changed = false
		for _, fn := range p.ModFns {
			for _, ci := range core.Calls(fn) {
				cal := ci.Common().StaticCallee()
				if cal == nil || out[cal] == nil {
					continue
				}
				for j, a := range ci.Common().Args {
					if !out[cal][j] {
						continue
					}
					w := classifyForParam(a)
					if i := core.ParamIndex(w); i >= 0 {
						if set(fn, i) {
							changed = true
						}
					}
				}
			}
		}
	}
	return out
}

// classifyForParam follows an argument value back to a parameter root (through field/index addressing and loads).
func classifyForParam(a ssa.Value) ssa.Value {
	for depth := 0; depth < 32; depth++ {
		switch x := a.(type) {
		case *ssa.FieldAddr:
			a = x.X
		case *ssa.IndexAddr:
			a = x.X
		case *ssa.UnOp:
			a = x.X
		case *ssa.ChangeType:
			a = x.X
		case *ssa.MakeInterface:
			a = x.X
		default:
			return a
		}
	}
	return a
}

// globalRoot: the value is (the address of / a load from) a package-level variable.
func globalRoot(a ssa.Value) *ssa.Global {
	g, _ := classifyForParam(a).(*ssa.Global)
	return g
}

var registrationAPI = map[string]string{
	"multicodec.RegisterEncoder":             "documented setup API (property: 'after initialisation')",
	"multicodec.RegisterDecoder":             "documented setup API",
	"(*multicodec.Registry).RegisterEncoder": "documented setup API",
	"(*multicodec.Registry).RegisterDecoder": "documented setup API",
	"(*multicodec.Registry).ensureInit":      "only called by the Register* setup API (checked by C20.readonly for the lookups)",
}

func isInit(fn *ssa.Function) bool {
	for fn.Parent() != nil {
		fn = fn.Parent()
	}
	return fn.Name() == "init" || strings.HasPrefix(fn.Name(), "init#")
}

func runC20(c *core.Ctx) {
	p := c.P
	wtp := writesThroughParam(p)

	c.Rule("C20.globals", "every write to a package-level variable of a library package (direct store, map update/delete, or passing it by reference to a function whose summary writes through that parameter) happens in an init function / variable initialiser or in the frozen registration API", 20)
	type gw struct {
		fn  *ssa.Function
		pos string
		g   *ssa.Global
		how string
	}
	var gws []gw
	for _, fn := range p.ModFns {
		pk := core.FuncPkg(fn)
		if pk == nil || !libraryPkg(core.RelPkg(pk.Path())) {
			continue
		}
		for _, w := range p.LocalEffects(fn).Writes {
			if w.Global != nil && p.InModuleGlobal(w.Global) {
				gws = append(gws, gw{fn, p.Pos(w.Instr.Pos()), w.Global, w.Kind})
			}
		}
		for _, ci := range core.Calls(fn) {
			cal := ci.Common().StaticCallee()
			if cal == nil || wtp[cal] == nil {
				continue
			}
			for j, a := range ci.Common().Args {
				if wtp[cal][j] {
					if g := globalRoot(a); g != nil && p.InModuleGlobal(g) {
						gws = append(gws, gw{fn, p.Pos(ci.Pos()), g, "call " + core.FuncKey(cal)})
					}
				}
			}
		}
	}
	sort.Slice(gws, func(i, j int) bool { return gws[i].pos < gws[j].pos })
	seenKey := map[string]int{}
	for _, w := range gws {
		gname := core.RelPkg(w.g.Pkg.Pkg.Path()) + "." + w.g.Name()
		key := fmt.Sprintf("%s#writes:%s", core.FuncKey(w.fn), gname)
		seenKey[key]++
		if seenKey[key] > 1 {
			continue
		}
		base := w.fn
		for base.Parent() != nil {
			base = base.Parent()
		}
		switch {
		case isInit(w.fn):
			c.OK(key, w.pos, "written during package initialisation")
		case registrationAPI[core.FuncKey(base)] != "":
			c.OK(key, w.pos, "registration API: "+registrationAPI[core.FuncKey(base)])
		default:
			c.Fail(key, w.pos, fmt.Sprintf("package-level variable %s is written (%s) outside initialisation and outside the registration API: concurrent users of the library race on it", gname, w.how))
		}
	}

	// ---------- publish ----------
	c.Rule("C20.publish", "a value placed into a package-level synchronised container (sync.Map Store / LoadOrStore / Swap, atomic.Value Store on a package-level variable of a library package) is complete when it is placed there: from the publishing call no map update, field or element store into that value - nor into what LoadOrStore returned, which is the shared copy - is reachable (other goroutines can already see it; filling it in afterwards is a data race and readers see half-filled tables)", 0)
	for _, fn := range p.ModFns {
		pk := core.FuncPkg(fn)
		if pk == nil || !libraryPkg(core.RelPkg(pk.Path())) || len(fn.Blocks) == 0 {
			continue
		}
		np := 0
		for _, ci := range core.Calls(fn) {
			o := core.CalleeObj(ci)
			if o == nil {
				continue
			}
			isSyncMap := core.IsMethod(ci, "sync", "Map", o.Name()) && (o.Name() == "Store" || o.Name() == "LoadOrStore" || o.Name() == "Swap")
			isAtomic := core.IsMethod(ci, "sync/atomic", "Value", o.Name()) && (o.Name() == "Store" || o.Name() == "Swap" || o.Name() == "CompareAndSwap")
			if !isSyncMap && !isAtomic {
				continue
			}
			if g := globalRoot(core.Receiver(ci)); g == nil || !p.InModuleGlobal(g) {
				continue
			}
			np++
			args := core.Args(ci)
			if len(args) == 0 {
				continue
			}
			published := []ssa.Value{args[len(args)-1]}
			if cv := core.CallValue(ci); cv != nil && o.Name() == "LoadOrStore" {
				published = append(published, cv)
			}
			shared := map[ssa.Value]bool{}
			for _, pv := range published {
				for w := range core.BackSlice(pv, core.SliceOpts{Stores: true}) {
					switch w.(type) {
					case *ssa.MakeMap, *ssa.MakeSlice, *ssa.Alloc, *ssa.Call, *ssa.Extract:
						shared[w] = true
					}
				}
				shared[core.Strip(pv)] = true
			}
			touches := func(v ssa.Value) bool {
				for w := range core.BackSlice(v, core.SliceOpts{Stores: true}) {
					if shared[w] {
						return true
					}
				}
				return false
			}
			isLateWrite := func(in ssa.Instruction) bool {
				switch x := in.(type) {
				case *ssa.MapUpdate:
					return touches(x.Map)
				case *ssa.Store:
					switch x.Addr.(type) {
					case *ssa.FieldAddr, *ssa.IndexAddr:
						root, _ := rootOfAddr(x.Addr)
						return touches(root)
					}
				}
				return false
			}
			path, reached := core.Reach(fn, ci, isLateWrite, nil, nil)
			c.Check(!reached, fmt.Sprintf("%s#published-complete%d", core.FuncKey(fn), np), p.Pos(ci.Pos()), "nothing writes into the value after it was published", "a value is written into after it was placed in a package-level "+map[bool]string{true: "sync.Map", false: "atomic.Value"}[isSyncMap]+": concurrent first users of the same key read the table while it is being filled (data race, wrong or missing entries)", p.Witness(path)...)
		}
	}

	// ---------- closurestate ----------
	c.Rule("C20.sharedslice", "what a shared object hands out of its own storage is not written: a slice that a method of a library type returns straight from a field of its receiver (Selector.Interests, TypeStruct.Fields, TypeUnion.Members, Path.Segments ...) is, in the caller, never the target of an element store, of sort.* or copy, nor handed to a module function that writes through that parameter - a compiled selector and a type system are shared between concurrent walks and bindings", 20)
	{
		// getters: methods that return a slice field of their receiver as it is
		getters := map[*ssa.Function]bool{}
		for _, fn := range p.ModFns {
			pk := core.FuncPkg(fn)
			if pk == nil || !libraryPkg(core.RelPkg(pk.Path())) || len(fn.Blocks) == 0 || fn.Synthetic != "" || fn.Signature.Recv() == nil {
				continue
			}
			res := fn.Signature.Results()
			if res.Len() != 1 {
				continue
			}
			if _, isSlice := res.At(0).Type().Underlying().(*types.Slice); !isSlice {
				continue
			}
			recv := fn.Params[0]
			isRecv := func(v ssa.Value) bool {
				v = classifyForParam(v)
				if v == ssa.Value(recv) {
					return true
				}
				// a value receiver spilled into a local
				if al, ok := v.(*ssa.Alloc); ok {
					for _, ref := range *al.Referrers() {
						if st, ok := ref.(*ssa.Store); ok && st.Addr == ssa.Value(al) && st.Val == ssa.Value(recv) {
							return true
						}
					}
				}
				return false
			}
			for _, ret := range core.Returns(fn) {
				for _, rv := range core.ResultValues(ret, 0) {
					switch x := core.Strip(rv).(type) {
					case *ssa.UnOp:
						if fa, ok := x.X.(*ssa.FieldAddr); ok && x.Op == token.MUL && isRecv(fa.X) {
							getters[fn] = true
						}
					case *ssa.Field:
						if isRecv(x.X) {
							getters[fn] = true
						}
					}
				}
			}
		}
		isGetterCall := func(ci ssa.CallInstruction) bool {
			cc := ci.Common()
			if cal := cc.StaticCallee(); cal != nil {
				return getters[cal]
			}
			if cc.IsInvoke() {
				it, _ := cc.Value.Type().Underlying().(*types.Interface)
				for g := range getters {
					if g.Name() != cc.Method.Name() || it == nil {
						continue
					}
					rt := g.Signature.Recv().Type()
					if types.Implements(rt, it) || types.Implements(types.NewPointer(rt), it) {
						return true
					}
				}
			}
			return false
		}
		wtp := writesThroughParam(p)
		shared := sharedTypes(p)
		nsites := 0
		for _, fn := range p.ModFns {
			pk := core.FuncPkg(fn)
			if pk == nil || !libraryPkg(core.RelPkg(pk.Path())) || len(fn.Blocks) == 0 || fn.Synthetic != "" {
				continue
			}
			var handed []*ssa.Call
			for _, ci := range core.Calls(fn) {
				if cv := core.CallValue(ci); cv != nil && isGetterCall(ci) {
					handed = append(handed, cv)
				}
			}
			if len(handed) == 0 && !readsSharedSliceField(fn, shared) {
				continue
			}
			// an in-place filter of a slice read from a field of a shared object (x.Members[:0] as the base of append)
			// overwrites the object's own array
			nfld := 0
			for _, ci := range core.Calls(fn) {
				bi, ok := ci.Common().Value.(*ssa.Builtin)
				if !ok || bi.Name() != "append" || len(ci.Common().Args) == 0 {
					continue
				}
				for w := range core.BackSlice(ci.Common().Args[0], core.SliceOpts{Local: true, Stores: true}) {
					sl, ok := w.(*ssa.Slice)
					if !ok || sl.Max != nil || sl.High == nil {
						continue
					}
					if k, isK := core.ConstInt(sl.High); !isK || k != 0 {
						continue
					}
					if why := sharedSliceField(sl.X, fn, shared); why != "" {
						nfld++
						c.Fail(fmt.Sprintf("%s#in-place-filter-of-%s/%d", core.FuncKey(fn), why, nfld), p.Pos(ci.Pos()), "append builds its result in the array of "+why+" (the base is that field cut to length zero): the object is shared - a compiled selector between concurrent walks, a type between bindings - and every other user sees its members overwritten")
					}
				}
			}
			if len(handed) == 0 {
				continue
			}
			from := func(v ssa.Value) *ssa.Call {
				sl := core.BackSlice(v, core.SliceOpts{Local: true, Stores: true})
				for _, h := range handed {
					if sl[h] {
						return h
					}
				}
				return nil
			}
			for i, h := range handed {
				_ = h
				nsites++
				_ = i
			}
			bad := map[*ssa.Call]string{}
			badPos := map[*ssa.Call]token.Pos{}
			core.Instrs(fn, func(in ssa.Instruction) {
				switch x := in.(type) {
				case *ssa.Store:
					a := x.Addr
					if fa, ok := a.(*ssa.FieldAddr); ok {
						a = fa.X
					}
					if ia, ok := a.(*ssa.IndexAddr); ok {
						if _, isSlice := ia.X.Type().Underlying().(*types.Slice); isSlice {
							if h := from(ia.X); h != nil {
								bad[h], badPos[h] = "an element of it is overwritten", x.Pos()
							}
						}
					}
				case ssa.CallInstruction:
					cc := x.Common()
					if bi, ok := cc.Value.(*ssa.Builtin); ok {
						if bi.Name() == "copy" {
							if h := from(cc.Args[0]); h != nil {
								bad[h], badPos[h] = "it is the destination of copy", x.Pos()
							}
						}
						return
					}
					if o := core.CalleeObj(x); o != nil && o.Pkg() != nil && (o.Pkg().Path() == "sort" || o.Pkg().Path() == "slices") {
						switch o.Name() {
						case "Slice", "SliceStable", "Sort", "Stable", "Strings", "Ints", "SortFunc", "SortStableFunc", "Reverse":
							if len(cc.Args) > 0 {
								if h := from(cc.Args[0]); h != nil {
									bad[h], badPos[h] = "it is sorted in place by "+o.Pkg().Path()+"."+o.Name(), x.Pos()
								}
							}
						}
						return
					}
					if cal := cc.StaticCallee(); cal != nil && wtp[cal] != nil {
						for j, a := range cc.Args {
							if !wtp[cal][j] {
								continue
							}
							if _, isSlice := a.Type().Underlying().(*types.Slice); !isSlice {
								continue
							}
							if h := from(a); h != nil {
								bad[h], badPos[h] = "it is handed to "+cal.Name()+", which writes through that parameter", x.Pos()
							}
						}
					}
				}
			})
			for i, h := range handed {
				o := core.CalleeObj(h)
				name := "?"
				if o != nil {
					name = o.Name()
				}
				pos := h.Pos()
				if bp, ok := badPos[h]; ok {
					pos = bp
				}
				c.Check(bad[h] == "", fmt.Sprintf("%s#handed-out-%s/%d", core.FuncKey(fn), name, i+1), p.Pos(pos), "read only", "the slice "+name+"() hands out is the object's own storage, and "+bad[h]+": every other user of that object (a concurrent walk over the same compiled selector, another binding of the same type) sees the change, unsynchronised")
			}
		}
		_ = nsites
	}

	c.Rule("C20.closurestate", "a closure that outlives the call that made it keeps no scratch state: in library packages, a function literal that is installed in a field of a longer-lived object (an opener or chooser of a link system, a hook of a configuration) never stores to - nor calls a method that is not known to be read-only on - a local variable of the function that created it which it captured by reference (a reader or buffer declared next to the closure and reset on every call): every invocation, from whatever goroutine, would work on that one object", 0)
	for _, fn := range p.ModFns {
		pk := core.FuncPkg(fn)
		if pk == nil || !libraryPkg(core.RelPkg(pk.Path())) || len(fn.Blocks) == 0 || fn.Parent() == nil {
			continue
		}
		par := fn.Parent()
		// does the closure escape its creator?
		escapes := false
		core.Instrs(par, func(in ssa.Instruction) {
			mc, ok := in.(*ssa.MakeClosure)
			if !ok || mc.Fn != ssa.Value(fn) || mc.Referrers() == nil {
				return
			}
			// installed in a field of a longer-lived object (a chooser / opener of a LinkSystem, a hook of a Config): such a
			// closure serves every later operation. A closure handed back to the caller as the handle of ONE operation
			// (a write committer) may keep that operation's state.
			var flows func(v ssa.Value, depth int)
			flows = func(v ssa.Value, depth int) {
				if depth > 3 || v.Referrers() == nil {
					return
				}
				for _, ref := range *v.Referrers() {
					switch x := ref.(type) {
					case *ssa.Store:
						if _, isField := x.Addr.(*ssa.FieldAddr); isField && x.Val == v {
							escapes = true
						}
					case *ssa.ChangeType:
						flows(x, depth+1)
					case *ssa.MakeInterface:
						flows(x, depth+1)
					}
				}
			}
			flows(mc, 0)
		})
		if !escapes {
			continue
		}
		// captured locals of the creator (by reference: the free variable is the address of the creator's Alloc)
		isCapturedLocal := func(v ssa.Value) *ssa.Alloc {
			fv, ok := v.(*ssa.FreeVar)
			if !ok {
				return nil
			}
			al := boundAlloc(fv)
			if al == nil || al.Parent() != par {
				return nil
			}
			// a spilled parameter of the creator is the caller's value, not scratch state
			for _, ref := range *al.Referrers() {
				if st, ok := ref.(*ssa.Store); ok && st.Addr == ssa.Value(al) {
					if _, isPrm := st.Val.(*ssa.Parameter); isPrm {
						return nil
					}
				}
			}
			// variables of pointer, interface, map, chan or func type hold references to objects made elsewhere
			switch al.Type().(*types.Pointer).Elem().Underlying().(type) {
			case *types.Pointer, *types.Interface, *types.Map, *types.Chan, *types.Signature:
				return nil
			}
			return al
		}
		n := 0
		core.Instrs(fn, func(in ssa.Instruction) {
			switch x := in.(type) {
			case *ssa.Store:
				root, _ := rootOfAddr(x.Addr)
				if al := isCapturedLocal(root); al != nil {
					n++
					c.Fail(fmt.Sprintf("%s#writes-captured-local%d", core.FuncKey(fn), n), p.Pos(x.Pos()), "the closure stores into "+al.Comment+", a local variable of the function that created it: every invocation of the closure (it is kept and may run from several goroutines, or re-entrantly) works on that one object")
				}
			case ssa.CallInstruction:
				if len(x.Common().Args) == 0 || x.Common().IsInvoke() {
					return
				}
				o := core.CalleeObj(x)
				if o == nil || o.Type().(*types.Signature).Recv() == nil || externalReadOnly[o.Name()] {
					return
				}
				if _, isPtrRecv := o.Type().(*types.Signature).Recv().Type().(*types.Pointer); !isPtrRecv {
					return
				}
				if al := isCapturedLocal(x.Common().Args[0]); al != nil {
					n++
					c.Fail(fmt.Sprintf("%s#writes-captured-local%d", core.FuncKey(fn), n), p.Pos(x.Pos()), "the closure calls "+o.Name()+" on "+al.Comment+", a local variable of the function that created it, through a pointer receiver: every invocation of the closure (it is kept and may run from several goroutines, or overlapping) works on that one object - overlapping loads read each other's data")
				}
			}
		})
	}

	// ---------- readonly ----------
	c.Rule("C20.readonly", "no function reachable (CHA, library packages) from a read-only entry point performs a non-fresh write to a field of a shared-by-construction type; a write through a parameter counts as fresh only if every call site passes a fresh object", 12)
	shared := sharedTypes(p)
	entries := readonlyEntries(p)
	cg := p.CHA()
	staticCallers := map[*ssa.Function][]ssa.CallInstruction{}
	addrTaken := map[*ssa.Function]bool{}
	for _, fn := range p.ModFns {
		core.Instrs(fn, func(in ssa.Instruction) {
			if ci, ok := in.(ssa.CallInstruction); ok {
				if cal := ci.Common().StaticCallee(); cal != nil {
					staticCallers[cal] = append(staticCallers[cal], ci)
				}
			}
			for _, op := range in.Operands(nil) {
				if f, ok := (*op).(*ssa.Function); ok {
					if ci, isCall := in.(ssa.CallInstruction); !isCall || ci.Common().Value != ssa.Value(f) {
						addrTaken[f] = true
					}
				}
			}
		})
	}
	names := make([]string, 0, len(entries))
	for n := range entries {
		names = append(names, n)
	}
	sort.Strings(names)
	reported := map[string]bool{}
	for _, en := range names {
		pred := chaReach(p, cg, entries[en])
		bad := 0
		var fns []*ssa.Function
		for f := range pred {
			fns = append(fns, f)
		}
		sort.Slice(fns, func(i, j int) bool { return core.FuncKey(fns[i]) < core.FuncKey(fns[j]) })
		for _, fn := range fns {
			for _, w := range p.LocalEffects(fn).Writes {
				if w.Class == core.RootFresh {
					continue
				}
				var hit *core.FieldStep
				for i := range w.Chain {
					if w.Chain[i].Struct != nil && shared[w.Chain[i].Struct.Obj()] != "" {
						hit = &w.Chain[i]
						break
					}
				}
				if hit == nil {
					continue
				}
				if exemptSharedWrite(fn, hit) {
					continue
				}
				// parameter-rooted: fresh at every call site (transitively)?
				if w.Class == core.RootParam {
					if i := core.ParamIndex(w.Root); i >= 0 && w.Root.(*ssa.Parameter).Parent() == fn {
						fp := &freshParams{p: p, pred: pred, callers: staticCallers, addrTaken: addrTaken, memo: map[string]bool{}}
						if fp.fresh(fn, i, 0) {
							continue
						}
					}
				}
				bad++
				key := fmt.Sprintf("%s#writes:%s.%s", core.FuncKey(fn), hit.Struct.Obj().Name(), hit.Field)
				full := en + " => " + key
				if reported[full] {
					continue
				}
				reported[full] = true
				c.Fail(en+"=>"+key, p.Pos(w.Instr.Pos()), fmt.Sprintf("read-only entry %s reaches a write to %s.%s (%s, shared by construction): concurrent callers race", en, hit.Struct.Obj().Name(), hit.Field, shared[hit.Struct.Obj()]), chainTo(pred, fn)...)
			}
		}
		if bad == 0 {
			c.OK(en+"#readonly", "-", fmt.Sprintf("%d reachable functions, no shared-object write", len(pred)))
		}
	}

	// ---------- hasher ----------
	c.Rule("C20.hasher", "hashers are obtained per call in every LinkSystem operation and never stored in a field or global; the registry HasherChooser hands out a hasher created by GetHasher in that activation, never a cached instance", 5)
	if lsT := p.NamedType("linking", "LinkSystem"); lsT != nil {
		ms := p.SSA.MethodSets.MethodSet(types.NewPointer(lsT))
		for i := 0; i < ms.Len(); i++ {
			fn := p.SSA.MethodValue(ms.At(i))
			if fn == nil || !ms.At(i).Obj().Exported() {
				continue // unexported methods are helpers: they are looked at as part of the exported operations that call them
			}
			for _, ci := range core.CallsR(fn) {
				cv := core.CallValue(ci)
				if cv == nil || !fieldFuncCall(ci, "LinkSystem", "HasherChooser") {
					continue
				}
				escaped := false
				core.InstrsR(fn, func(in ssa.Instruction) {
					if st, ok := in.(*ssa.Store); ok && extractOf(st.Val, cv, 0) {
						if _, isAlloc := rootOf(st.Addr).(*ssa.Alloc); !isAlloc {
							escaped = true
						}
					}
				})
				c.Check(!escaped, core.FuncKey(fn)+"#hasher-per-call", p.Pos(ci.Pos()), "hasher local to the activation", "hasher stored outside the activation")
			}
		}
	}
	checkFreshHasher(c)
}

// freshParams decides whether parameter i of fn always denotes an object that
// is fresh (allocated in the activation chain, never shared): fn is not
// address-taken, does not implement an interface method of the module, and at
// every static call site reachable from the entry the argument is a fresh
// allocation, a location into which a fresh allocation was just stored, or a
// parameter of the caller that is itself always fresh.
type freshParams struct {
	p         *core.Program
	pred      map[*ssa.Function]*ssa.Function
	callers   map[*ssa.Function][]ssa.CallInstruction
	addrTaken map[*ssa.Function]bool
	memo      map[string]bool
}

func (fp *freshParams) fresh(fn *ssa.Function, i int, depth int) bool {
	key := fmt.Sprintf("%p/%d", fn, i)
	if v, ok := fp.memo[key]; ok {
		return v
	}
	fp.memo[key] = true // optimistic for recursion (greatest fixpoint)
	res := fp.fresh1(fn, i, depth)
	fp.memo[key] = res
	return res
}

func (fp *freshParams) fresh1(fn *ssa.Function, i int, depth int) bool {
	if depth > 6 || fp.addrTaken[fn] || implementsModuleInterface(fp.p, fn) {
		return false
	}
	n := 0
	for _, cs := range fp.callers[fn] {
		if _, ok := fp.pred[cs.Parent()]; !ok {
			continue // caller not reachable from this entry
		}
		n++
		a := cs.Common().Args[i]
		if freshArg(a, cs) {
			continue
		}
		// forwarding the caller's own parameter (or an interior address of it, no loads) keeps the object identity
		if pi := core.ParamIndex(rootOf(core.Strip(a))); pi >= 0 && fp.fresh(cs.Parent(), pi, depth+1) {
			continue
		}
		// the object is kept in a field of a per-call state struct (an unexported type whose every instance is fresh
		// and whose field only ever receives fresh objects): inf := &state{ts: newThing()}; inf.ts.Mutate()
		if u, ok := core.Strip(a).(*ssa.UnOp); ok && u.Op == token.MUL {
			if fa, ok := u.X.(*ssa.FieldAddr); ok {
				holderFresh := false
				if pi := core.ParamIndex(rootOf(fa.X)); pi >= 0 && rootOf(fa.X) == fa.X {
					holderFresh = fp.fresh(cs.Parent(), pi, depth+1)
				} else if _, isAlloc := fa.X.(*ssa.Alloc); isAlloc {
					holderFresh = true
				}
				if holderFresh && fp.freshField(fa, depth+1) {
					continue
				}
			}
		}
		return false
	}
	return n > 0
}

// freshField: every store (anywhere in the module) into this field of this unexported struct type stores a fresh
// object: an allocation or constructor result of the storing activation, or a parameter that is itself always fresh.
func (fp *freshParams) freshField(fa *ssa.FieldAddr, depth int) bool {
	nt := namedOfType(fa.X.Type())
	if nt == nil || nt.Obj().Exported() || depth > 6 {
		return false
	}
	key := fmt.Sprintf("field/%p/%d", nt.Obj(), fa.Field)
	if v, ok := fp.memo[key]; ok {
		return v
	}
	fp.memo[key] = true
	res, n := true, 0
	for _, g := range fp.p.ModFns {
		core.Instrs(g, func(in ssa.Instruction) {
			st, ok := in.(*ssa.Store)
			if !ok {
				return
			}
			f2, ok := st.Addr.(*ssa.FieldAddr)
			if !ok || f2.Field != fa.Field {
				return
			}
			if n2 := namedOfType(f2.X.Type()); n2 == nil || n2.Obj() != nt.Obj() {
				return
			}
			n++
			if freshArg(st.Val, st) {
				return
			}
			if pi := core.ParamIndex(rootOf(core.Strip(st.Val))); pi >= 0 && fp.fresh(g, pi, depth+1) {
				return
			}
			res = false
		})
	}
	res = res && n > 0
	fp.memo[key] = res
	return res
}

var ifaceMethodCache map[string][]*types.Interface

// implementsModuleInterface: fn is a method whose receiver type implements a
// module interface declaring a method of that name (so it may be reached by
// dynamic dispatch on a shared object).
func implementsModuleInterface(p *core.Program, fn *ssa.Function) bool {
	recv := fn.Signature.Recv()
	if recv == nil {
		return false
	}
	if ifaceMethodCache == nil {
		ifaceMethodCache = map[string][]*types.Interface{}
		for _, nt := range p.ModuleTypes(nil) {
			if it, ok := nt.Underlying().(*types.Interface); ok {
				for i := 0; i < it.NumMethods(); i++ {
					ifaceMethodCache[it.Method(i).Name()] = append(ifaceMethodCache[it.Method(i).Name()], it)
				}
			}
		}
	}
	for _, it := range ifaceMethodCache[fn.Name()] {
		if types.Implements(recv.Type(), it) {
			return true
		}
	}
	return false
}

// freshArg: the argument is a fresh allocation of the calling activation, or a
// load from a location into which such an allocation was stored earlier in the
// same basic block with no call in between.
func freshArg(a ssa.Value, at ssa.Instruction) bool {
	switch x := classifyForParam(a).(type) {
	case *ssa.Alloc:
		return true
	case *ssa.Call:
		if b, ok := x.Call.Value.(*ssa.Builtin); ok && b.Name() == "new" {
			return true
		}
		// the result of a constructor-like helper that hands out an allocation of its own
		if returnsFresh(x.Call.StaticCallee()) {
			return true
		}
	}
	// load of a just-stored fresh pointer
	if u, ok := a.(*ssa.UnOp); ok && at != nil {
		blk := at.Block()
		idx := -1
		for i, in := range blk.Instrs {
			if in == ssa.Instruction(u) {
				idx = i
			}
		}
		for j := idx - 1; j >= 0; j-- {
			switch in := blk.Instrs[j].(type) {
			case *ssa.Store:
				if sameAddr(in.Addr, u.X) {
					_, isAlloc := in.Val.(*ssa.Alloc)
					return isAlloc
				}
			case ssa.CallInstruction:
				return false
			}
		}
	}
	return false
}

func sameAddr(a, b ssa.Value) bool {
	if a == b {
		return true
	}
	fa, ok1 := a.(*ssa.FieldAddr)
	fb, ok2 := b.(*ssa.FieldAddr)
	return ok1 && ok2 && fa.Field == fb.Field && fa.X == fb.X
}

// exemptSharedWrite: frozen exceptions (one symbol + reason).
func exemptSharedWrite(fn *ssa.Function, hit *core.FieldStep) bool {
	base := fn
	for base.Parent() != nil {
		base = base.Parent()
	}
	k := core.FuncKey(base)
	// schema.Spawn* constructors write the object they return (e.g. SpawnStruct back-links its fields)
	if strings.HasPrefix(k, "schema.Spawn") {
		return true
	}
	// write methods of the bundled stores write the store by purpose; the property's scope is a read-only store.
	// They show up only because CHA resolves calls of func(string) error values to every committer closure.
	return false
}

// sharedTypes: type name object -> why it is shared by construction.
func sharedTypes(p *core.Program) map[*types.TypeName]string {
	out := map[*types.TypeName]string{}
	add := func(rel, name, why string) {
		if nt := p.NamedType(rel, name); nt != nil {
			out[nt.Obj()] = why
		}
	}
	add("traversal", "Config", "walk configuration shared by all Progress copies")
	add("linking", "LinkSystem", "configured link system")
	add("multicodec", "Registry", "codec registry")
	add("schema", "TypeSystem", "type system")
	add("storage/memstore", "Store", "bundled store")
	add("linking/cid", "Memory", "bundled store")
	add("storage/fsstore", "Store", "bundled store")
	for _, nt := range p.ModuleTypes(func(rel string) bool { return rel == "schema" }) {
		if strings.HasPrefix(nt.Obj().Name(), "Type") || nt.Obj().Name() == "StructField" || strings.HasPrefix(nt.Obj().Name(), "UnionRepresentation") || strings.HasPrefix(nt.Obj().Name(), "StructRepresentation") || strings.HasPrefix(nt.Obj().Name(), "EnumRepresentation") {
			if _, ok := nt.Underlying().(*types.Struct); ok {
				out[nt.Obj()] = "schema type"
			}
		}
	}
	for _, in := range []string{"Selector", "Condition"} {
		if iface := p.Iface("traversal/selector", in); iface != nil {
			for _, im := range p.Implementers(iface, func(rel string) bool { return rel == "traversal/selector" }) {
				out[im.Named.Obj()] = "compiled selector"
			}
		}
	}
	add("traversal/selector", "Slice", "compiled selector part")
	return out
}

// readonlyEntries: name -> entry functions.
func readonlyEntries(p *core.Program) map[string][]*ssa.Function {
	out := map[string][]*ssa.Function{}
	add := func(name string, fns ...*ssa.Function) {
		for _, f := range fns {
			if f != nil {
				out[name] = append(out[name], f)
			}
		}
	}
	for _, n := range []string{"WalkAdv", "WalkMatching", "WalkLocal", "WalkTransforming", "Focus", "Get"} {
		add("traversal."+n, p.Func("traversal", "", n), p.Func("traversal", "Progress", n))
	}
	for _, n := range []string{"Load", "LoadRaw", "LoadPlusRaw", "Fill", "ComputeLink"} {
		add("LinkSystem."+n, p.Func("linking", "*LinkSystem", n))
	}
	add("bindnode.Wrap", p.Func("node/bindnode", "", "Wrap"))
	add("bindnode.Prototype", p.Func("node/bindnode", "", "Prototype"))
	add("selector.CompileSelector", p.Func("traversal/selector", "", "CompileSelector"))
	if iface := p.Iface("traversal/selector", "Selector"); iface != nil {
		for _, im := range p.Implementers(iface, func(rel string) bool { return rel == "traversal/selector" }) {
			for i := 0; i < iface.NumMethods(); i++ {
				add("Selector methods", p.Method(im.Type(), iface.Method(i).Name()))
			}
		}
	}
	add("datamodel.DeepEqual", p.Func("datamodel", "", "DeepEqual"))
	add("datamodel.Copy", p.Func("datamodel", "", "Copy"))
	for _, rel := range []string{"codec/dagcbor", "codec/dagjson", "codec/cbor", "codec/json", "codec/raw"} {
		add("encoders", p.Func(rel, "", "Encode"))
	}
	for _, n := range []string{"LookupEncoder", "LookupDecoder", "ListEncoders", "ListDecoders"} {
		add("Registry lookups", p.Func("multicodec", "*Registry", n), p.Func("multicodec", "", n))
	}
	if ts := p.NamedType("schema", "TypeSystem"); ts != nil {
		ms := p.SSA.MethodSets.MethodSet(types.NewPointer(ts))
		for i := 0; i < ms.Len(); i++ {
			n := ms.At(i).Obj().Name()
			if n == "TypeByName" || n == "Names" || n == "GetTypes" {
				add("TypeSystem getters", p.SSA.MethodValue(ms.At(i)))
			}
		}
	}
	for _, n := range []string{"Has", "Get", "GetStream", "Peek"} {
		add("memstore reads", p.Func("storage/memstore", "*Store", n))
	}
	add("cidlink.Memory.OpenRead", p.Func("linking/cid", "*Memory", "OpenRead"))
	for _, n := range []string{"Has", "Get", "GetStream"} {
		add("fsstore reads", p.Func("storage/fsstore", "*Store", n))
	}
	return out
}

// storeWriteFuncs: the write API of the bundled stores - the exported write methods, the functions they are built
// from (closures, unexported helpers) and whatever function values they hand out as committers (a function literal, or
// a method value of a small state type). These are out of the read-only scope; a load reaches them only through CHA's
// signature matching of committer values.
var storeWriteCache map[*ssa.Function]bool

func storeWriteFuncs(p *core.Program) map[*ssa.Function]bool {
	if storeWriteCache != nil {
		return storeWriteCache
	}
	out := map[*ssa.Function]bool{}
	var add func(fn *ssa.Function, depth int)
	add = func(fn *ssa.Function, depth int) {
		if fn == nil || out[fn] || depth > 3 || len(fn.Blocks) == 0 {
			return
		}
		out[fn] = true
		for _, a := range fn.AnonFuncs {
			add(a, depth+1)
		}
		for _, ret := range core.Returns(fn) {
			for i := range ret.Results {
				if _, isSig := ret.Results[i].Type().Underlying().(*types.Signature); !isSig {
					continue
				}
				for _, v := range core.ResultValues(ret, i) {
					add(resolveFuncValue(v), depth+1)
				}
			}
		}
	}
	for _, spec := range []struct{ rel, recv, name string }{
		{"storage/memstore", "*Store", "Put"}, {"linking/cid", "*Memory", "OpenWrite"},
		{"storage/fsstore", "*Store", "Put"}, {"storage/fsstore", "*Store", "PutStream"},
	} {
		add(p.Func(spec.rel, spec.recv, spec.name), 0)
	}
	storeWriteCache = out
	return out
}

// chaReach: functions of library packages reachable from the entries in the CHA graph.
func chaReach(p *core.Program, cg *callgraph.Graph, entries []*ssa.Function) map[*ssa.Function]*ssa.Function {
	pred := map[*ssa.Function]*ssa.Function{}
	var queue []*ssa.Function
	push := func(f, from *ssa.Function) {
		if f == nil || !p.InModule(f) {
			return
		}
		if pk := core.FuncPkg(f); pk == nil || !libraryPkg(core.RelPkg(pk.Path())) {
			return
		}
		if _, ok := pred[f]; ok {
			return
		}
		if from != nil && storeWriteFuncs(p)[f] {
			return // write API of a bundled store: out of the read-only scope (reached only through CHA's signature matching of committer closures)
		}
		pred[f] = from
		queue = append(queue, f)
	}
	for _, e := range entries {
		push(e, nil)
	}
	for len(queue) > 0 {
		f := queue[0]
		queue = queue[1:]
		if n := cg.Nodes[f]; n != nil {
			for _, e := range n.Out {
				push(e.Callee.Func, f)
			}
		}
		for _, a := range f.AnonFuncs {
			push(a, f)
		}
	}
	return pred
}

// sharedSliceField: v is a slice read from a field of a value of a shared type that the function did not create itself
// (it came in through a parameter, a receiver, an interface unwrapped by a type assertion ...). Returns "Type.field".
func sharedSliceField(v ssa.Value, fn *ssa.Function, shared map[*types.TypeName]string) string {
	v = core.Strip(v)
	var base ssa.Value
	var st types.Type
	var idx int
	switch x := v.(type) {
	case *ssa.UnOp:
		fa, ok := x.X.(*ssa.FieldAddr)
		if !ok || x.Op != token.MUL {
			return ""
		}
		base, idx = fa.X, fa.Field
		st = fa.X.Type()
		if pt, ok := st.Underlying().(*types.Pointer); ok {
			st = pt.Elem()
		}
	case *ssa.Field:
		base, idx, st = x.X, x.Field, x.X.Type()
	default:
		return ""
	}
	nt := namedOfType(st)
	if nt == nil || shared[nt.Obj()] == "" {
		return ""
	}
	// created here? (a composite literal or local being filled in by a constructor)
	root := classifyForParam(base)
	if al, ok := root.(*ssa.Alloc); ok {
		fromOutside := false
		for _, ref := range *al.Referrers() {
			if stx, ok := ref.(*ssa.Store); ok && stx.Addr == ssa.Value(al) {
				switch core.Strip(stx.Val).(type) {
				case *ssa.Parameter, *ssa.TypeAssert, *ssa.Extract, *ssa.UnOp, *ssa.Phi:
					fromOutside = true
				}
			}
		}
		if !fromOutside {
			return ""
		}
	}
	if sst, ok := nt.Underlying().(*types.Struct); ok && idx < sst.NumFields() {
		return nt.Obj().Name() + "." + sst.Field(idx).Name()
	}
	return nt.Obj().Name()
}

// readsSharedSliceField: fn reads a slice-typed field of a shared type at all (cheap pre-filter).
func readsSharedSliceField(fn *ssa.Function, shared map[*types.TypeName]string) bool {
	found := false
	core.Instrs(fn, func(in ssa.Instruction) {
		if v, ok := in.(ssa.Value); ok {
			if _, isSlice := v.Type().Underlying().(*types.Slice); isSlice && sharedSliceField(v, fn, shared) != "" {
				found = true
			}
		}
	})
	return found
}
