package rules

// Role resolution: unexported fields, functions and constants of /repo are found by what they are
// (their type, what they do, who calls them), never by their spelling, so that renaming them - a
// behaviour-preserving edit - does not move a rule's anchors. Exported API and type names stay named.

import (
	"go/types"

	"golang.org/x/tools/go/ssa"

	"verif/checker/internal/core"
)

// fieldsWhere returns the names of the fields of a struct type that satisfy pred, in declaration order.
func fieldsWhere(nt *types.Named, pred func(*types.Var) bool) []string {
	var out []string
	if nt == nil {
		return nil
	}
	st, ok := nt.Underlying().(*types.Struct)
	if !ok {
		return nil
	}
	for i := 0; i < st.NumFields(); i++ {
		if pred(st.Field(i)) {
			out = append(out, st.Field(i).Name())
		}
	}
	return out
}

func oneField(nt *types.Named, pred func(*types.Var) bool) string {
	fs := fieldsWhere(nt, pred)
	if len(fs) == 1 {
		return fs[0]
	}
	return ""
}

func isMapType(t types.Type) bool   { _, ok := t.Underlying().(*types.Map); return ok }
func isSliceType(t types.Type) bool { _, ok := t.Underlying().(*types.Slice); return ok }
func isIfaceType(t types.Type) bool { _, ok := t.Underlying().(*types.Interface); return ok }
func isStringType(t types.Type) bool {
	b, ok := t.Underlying().(*types.Basic)
	return ok && b.Info()&types.IsString != 0
}

// basicMapRoles describes basicnode's map node storage by shape: the struct has exactly one map-typed
// field (the lookup index) and exactly one slice-typed field (the ordered entry table); the table's
// element type is a struct with one string-kinded field (the key) and one interface-typed field (the value).
type basicMapRoles struct {
	Map              *types.Named
	Index, Table     string // qualified "plainMap.m" style names as printed by core.FieldName
	Entry            *types.Named
	EntryK, EntryV   string
	IndexF, TableF   string // bare field names
	EntryKF, EntryVF string
}

func findBasicMapRoles(p *core.Program) *basicMapRoles {
	mt := p.NamedType("node/basicnode", "plainMap")
	if mt == nil {
		return nil
	}
	r := &basicMapRoles{Map: mt}
	r.IndexF = oneField(mt, func(v *types.Var) bool { return isMapType(v.Type()) })
	r.TableF = oneField(mt, func(v *types.Var) bool { return isSliceType(v.Type()) })
	if r.IndexF == "" || r.TableF == "" {
		return nil
	}
	st := mt.Underlying().(*types.Struct)
	for i := 0; i < st.NumFields(); i++ {
		if st.Field(i).Name() == r.TableF {
			r.Entry = namedOfType(st.Field(i).Type().Underlying().(*types.Slice).Elem())
		}
	}
	if r.Entry == nil {
		return nil
	}
	r.EntryKF = oneField(r.Entry, func(v *types.Var) bool { return isStringType(v.Type()) })
	r.EntryVF = oneField(r.Entry, func(v *types.Var) bool { return isIfaceType(v.Type()) })
	if r.EntryKF == "" || r.EntryVF == "" {
		return nil
	}
	n, e := mt.Obj().Name(), r.Entry.Obj().Name()
	r.Index, r.Table, r.EntryK, r.EntryV = n+"."+r.IndexF, n+"."+r.TableF, e+"."+r.EntryKF, e+"."+r.EntryVF
	return r
}

// basicListStorage: the single slice-typed field of basicnode's list node.
func findBasicListStorage(p *core.Program) (qualified string) {
	lt := p.NamedType("node/basicnode", "plainList")
	f := oneField(lt, func(v *types.Var) bool { return isSliceType(v.Type()) })
	if f == "" {
		return ""
	}
	return lt.Obj().Name() + "." + f
}

// samePkgStatic reports the static callee of a call when it is a function or method with a body declared in the
// same package as the caller (a helper the developer could have written inline), or a closure of the caller.
func samePkgStatic(caller *ssa.Function, ci ssa.CallInstruction) *ssa.Function {
	cal := ci.Common().StaticCallee()
	if cal == nil || len(cal.Blocks) == 0 {
		return nil
	}
	if cal.Parent() != nil { // closure
		return cal
	}
	if core.FuncPkg(cal) == nil || core.FuncPkg(caller) == nil || core.FuncPkg(cal) != core.FuncPkg(caller) {
		return nil
	}
	return cal
}

// helperClosure returns fn together with the same-package functions it statically calls, transitively up to depth
// levels (helpers extracted from fn are part of fn's behaviour). Exported functions and methods are included too:
// calling one statically still runs its body.
func helperClosure(fn *ssa.Function, depth int) []*ssa.Function {
	seen := map[*ssa.Function]bool{fn: true}
	out := []*ssa.Function{fn}
	frontier := []*ssa.Function{fn}
	for d := 0; d < depth && len(frontier) > 0; d++ {
		var next []*ssa.Function
		for _, f := range frontier {
			for _, ci := range core.Calls(f) {
				if g := samePkgStatic(f, ci); g != nil && !seen[g] {
					seen[g] = true
					out = append(out, g)
					next = append(next, g)
				}
			}
			for _, an := range f.AnonFuncs {
				if !seen[an] {
					seen[an] = true
					out = append(out, an)
					next = append(next, an)
				}
			}
		}
		frontier = next
	}
	return out
}

// ---- field roles (by type, not by spelling) ----

// fieldVar returns the struct field a FieldAddr / Field value selects.
func fieldVar(v ssa.Value) *types.Var {
	var x ssa.Value
	idx := -1
	switch f := v.(type) {
	case *ssa.FieldAddr:
		x, idx = f.X, f.Field
	case *ssa.Field:
		x, idx = f.X, f.Field
	default:
		return nil
	}
	t := x.Type()
	if pt, ok := t.Underlying().(*types.Pointer); ok {
		t = pt.Elem()
	}
	st, ok := t.Underlying().(*types.Struct)
	if !ok || idx < 0 || idx >= st.NumFields() {
		return nil
	}
	return st.Field(idx)
}

// isStateField: the field holds an assembler's protocol state - a named integer type declared in the module that has
// package-level constants of that type (maState, laState, generated code's maState/laState ...).
func isStateField(v ssa.Value) bool {
	fv := fieldVar(v)
	if fv == nil {
		return false
	}
	return isEnumType(fv.Type())
}

func isEnumType(t types.Type) bool {
	nt, ok := types.Unalias(t).(*types.Named)
	if !ok || nt.Obj().Pkg() == nil {
		return false
	}
	b, ok := nt.Underlying().(*types.Basic)
	if !ok || b.Info()&types.IsInteger == 0 {
		return false
	}
	sc := nt.Obj().Pkg().Scope()
	n := 0
	for _, name := range sc.Names() {
		if cst, ok := sc.Lookup(name).(*types.Const); ok && types.Identical(cst.Type(), nt) {
			n++
		}
	}
	return n >= 2
}

// isFinishHookField: a field of type func() error (the post-assemble commit hook of the reflection assemblers).
func isFinishHookField(v ssa.Value) bool {
	fv := fieldVar(v)
	if fv == nil {
		return false
	}
	sig, ok := fv.Type().Underlying().(*types.Signature)
	return ok && sig.Params().Len() == 0 && sig.Results().Len() == 1 && core.IsErrorType(sig.Results().At(0).Type())
}

// isReflectValueField: a field of type reflect.Value (the Go value a reflection node / assembler is bound to).
func isReflectValueField(v ssa.Value) bool {
	fv := fieldVar(v)
	if fv == nil {
		return false
	}
	nt := namedOfType(fv.Type())
	return nt != nil && nt.Obj().Pkg() != nil && nt.Obj().Pkg().Path() == "reflect" && nt.Obj().Name() == "Value"
}

// isPtrToNodeField: a field of type *T where T is a concrete type of the module implementing datamodel.Node
// (an assembler's pointer to the node under construction).
func isPtrToNodeField(p *core.Program, v ssa.Value) bool {
	fv := fieldVar(v)
	if fv == nil {
		return false
	}
	pt, ok := fv.Type().Underlying().(*types.Pointer)
	if !ok {
		return false
	}
	nt := namedOfType(pt.Elem())
	if nt == nil {
		return false
	}
	node := p.Iface("datamodel", "Node")
	return node != nil && (types.Implements(nt, node) || types.Implements(types.NewPointer(nt), node))
}

// isAssemblerPtrField: a field of type *T where T plays an assembler role (a child's pointer back to its parent).
func isAssemblerPtrField(p *core.Program, v ssa.Value) bool {
	fv := fieldVar(v)
	if fv == nil {
		return false
	}
	pt, ok := fv.Type().Underlying().(*types.Pointer)
	if !ok {
		return false
	}
	nt := namedOfType(pt.Elem())
	return nt != nil && assemblerRole(p, nt)
}

// ---- method roles ----

// isAssignShaped: an unexported method with the shape of an assign - one parameter, one result of type error - on a
// receiver that plays an assembler role (bindnode's unsigned-integer entry point is such a method, whatever its name).
func isAssignShaped(p *core.Program, fn *ssa.Function) bool {
	if fn == nil || fn.Signature.Recv() == nil {
		return false
	}
	sig := fn.Signature
	if sig.Params().Len() != 1 || sig.Results().Len() != 1 || !core.IsErrorType(sig.Results().At(0).Type()) {
		return false
	}
	rt := sig.Recv().Type()
	if pt, ok := rt.(*types.Pointer); ok {
		rt = pt.Elem()
	}
	nt := namedOfType(rt)
	return nt != nil && assemblerRole(p, nt)
}

// assignMethodsOf lists the assign entry points of an assembler type: the exported Assign* methods of the
// NodeAssembler interface it implements, plus unexported assign-shaped methods of the same receiver.
func assignMethodsOf(p *core.Program, nt *types.Named, withNode bool) []*ssa.Function {
	var out []*ssa.Function
	ms := p.SSA.MethodSets.MethodSet(types.NewPointer(nt))
	for i := 0; i < ms.Len(); i++ {
		fn := p.SSA.MethodValue(ms.At(i))
		if fn == nil || len(fn.Blocks) == 0 || fn.Synthetic != "" {
			continue
		}
		name := ms.At(i).Obj().Name()
		if ms.At(i).Obj().Exported() {
			if len(name) > 6 && name[:6] == "Assign" && (withNode || name != "AssignNode") {
				out = append(out, fn)
			}
			continue
		}
		if isAssignShaped(p, fn) {
			out = append(out, fn)
		}
	}
	return out
}

// isKindCheck: a static call of a same-module function that takes a datamodel.Kind among its parameters and returns
// exactly an error: the kind-compatibility check of the reflection assembler.
func isKindCheck(ci ssa.CallInstruction) bool {
	g := ci.Common().StaticCallee()
	if g == nil || g.Signature.Results().Len() != 1 || !core.IsErrorType(g.Signature.Results().At(0).Type()) {
		return false
	}
	for i := 0; i < g.Signature.Params().Len(); i++ {
		if nt := namedOfType(g.Signature.Params().At(i).Type()); nt != nil && nt.Obj().Name() == "Kind" && nt.Obj().Pkg() != nil && core.RelPkg(nt.Obj().Pkg().Path()) == "datamodel" {
			return true
		}
	}
	return false
}

// isValueMaterialiser: a method of an assembler that takes nothing and returns the reflect.Value to write into
// (allocating the pointee of an optional/nullable slot on the way): calling it mutates the bound value.
func isValueMaterialiser(p *core.Program, ci ssa.CallInstruction) bool {
	g := ci.Common().StaticCallee()
	if g == nil || g.Signature.Recv() == nil || g.Signature.Params().Len() != 0 || g.Signature.Results().Len() != 1 {
		return false
	}
	rn := namedOfType(g.Signature.Results().At(0).Type())
	if rn == nil || rn.Obj().Pkg() == nil || rn.Obj().Pkg().Path() != "reflect" || rn.Obj().Name() != "Value" {
		return false
	}
	rt := g.Signature.Recv().Type()
	if pt, ok := rt.(*types.Pointer); ok {
		rt = pt.Elem()
	}
	nt := namedOfType(rt)
	return nt != nil && assemblerRole(p, nt)
}

// ---- bindnode: the functions that relate Go types and schema types ----

func isReflectType(t types.Type) bool {
	nt := namedOfType(t)
	return nt != nil && nt.Obj().Pkg() != nil && nt.Obj().Pkg().Path() == "reflect" && nt.Obj().Name() == "Type"
}

func isSchemaType(t types.Type) bool {
	nt := namedOfType(t)
	return nt != nil && nt.Obj().Pkg() != nil && core.RelPkg(nt.Obj().Pkg().Path()) == "schema" && nt.Obj().Name() == "Type"
}

// sigMentions reports whether the function's parameters / results include a type satisfying pred.
func sigMentions(sig *types.Signature, params, results bool, pred func(types.Type) bool) bool {
	if params {
		for i := 0; i < sig.Params().Len(); i++ {
			if pred(sig.Params().At(i).Type()) {
				return true
			}
		}
	}
	if results {
		for i := 0; i < sig.Results().Len(); i++ {
			if pred(sig.Results().At(i).Type()) {
				return true
			}
		}
	}
	return false
}

// isTypeBridge: a bindnode function that checks or derives the correspondence between a Go type and a schema type:
// it takes both (the compatibility check), or takes one and returns the other (the two inference directions).
func isTypeBridge(fn *ssa.Function) bool {
	if fn == nil || len(fn.Blocks) == 0 || core.FuncPkg(fn) == nil || core.RelPkg(core.FuncPkg(fn).Path()) != "node/bindnode" {
		return false
	}
	sig := fn.Signature
	goIn, goOut := sigMentions(sig, true, false, isReflectType), sigMentions(sig, false, true, isReflectType)
	scIn, scOut := sigMentions(sig, true, false, isSchemaType), sigMentions(sig, false, true, isSchemaType)
	return (goIn && scIn) || (goIn && scOut) || (scIn && goOut)
}

// goTypeInferrer: the bindnode function that derives a Go type from a schema type (schema.Type in, reflect.Type out).
func goTypeInferrer(p *core.Program) *ssa.Function {
	var out *ssa.Function
	for _, fn := range p.ModFns {
		if fn.Parent() != nil || fn.Synthetic != "" || !isTypeBridge(fn) {
			continue
		}
		sig := fn.Signature
		if sigMentions(sig, true, false, isSchemaType) && sig.Results().Len() == 1 && isReflectType(sig.Results().At(0).Type()) && !sigMentions(sig, true, false, isReflectType) {
			if out == nil || core.FuncKey(fn) < core.FuncKey(out) {
				out = fn
			}
		}
	}
	return out
}

// ---- function values ----

// resolveFuncValue: the function a function-typed value denotes when that is decidable locally: a function literal,
// a named function, or a method value (go/ssa wraps the latter in a synthetic bound-method closure whose body is one
// call of the real method).
func resolveFuncValue(v ssa.Value) *ssa.Function {
	v = core.Strip(v)
	var fn *ssa.Function
	switch x := v.(type) {
	case *ssa.MakeClosure:
		fn, _ = x.Fn.(*ssa.Function)
	case *ssa.Function:
		fn = x
	}
	for hop := 0; hop < 2 && fn != nil && fn.Synthetic != ""; hop++ {
		var inner *ssa.Function
		for _, ci := range core.Calls(fn) {
			if g := ci.Common().StaticCallee(); g != nil && len(g.Blocks) > 0 {
				inner = g
			}
		}
		fn = inner
	}
	return fn
}

// linkSystemChoosers: the functions that the exported constructor of package linking/cid installs as the
// EncoderChooser / DecoderChooser / HasherChooser of the LinkSystem it returns - function literals today, but a
// method value or a named function is the same thing.
func linkSystemChoosers(p *core.Program) (ctor *ssa.Function, out map[string]*ssa.Function) {
	out = map[string]*ssa.Function{}
	ctor = p.Func("linking/cid", "", "LinkSystemUsingMulticodecRegistry")
	if ctor == nil {
		return nil, out
	}
	core.InstrsR(ctor, func(in ssa.Instruction) {
		st, ok := in.(*ssa.Store)
		if !ok {
			return
		}
		fa, ok := st.Addr.(*ssa.FieldAddr)
		if !ok {
			return
		}
		switch fnm := core.FieldName(fa); fnm {
		case "LinkSystem.EncoderChooser", "LinkSystem.DecoderChooser", "LinkSystem.HasherChooser":
			if g := resolveFuncValue(st.Val); g != nil {
				out[fnm[len("LinkSystem."):]] = g
			}
		}
	})
	return ctor, out
}

// chooserParam: the chooser's own link / prototype parameter (the last one: a method's receiver comes first).
func chooserParam(fn *ssa.Function) *ssa.Parameter {
	if len(fn.Params) == 0 {
		return nil
	}
	return fn.Params[len(fn.Params)-1]
}
