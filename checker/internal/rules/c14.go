package rules

import (
	"fmt"
	"go/token"
	"go/types"
	"sort"
	"strings"

	"golang.org/x/tools/go/ssa"

	"verif/checker/internal/core"
)

func init() {
	register(&Def{
		ID: "C14",
		Explanation: "Structural necessary conditions of 'paths address what was visited': (fresh) no method of datamodel.Path appends to, copies into or stores through the receiver's segment slice - a longer path always gets a backing array of its own, so sibling paths never overwrite each other; (separator) Path.String writes exactly the byte ParsePath splits on between segments and uses no path-cleaning helper (segments such as '.' and '..' are ordinary keys); (coupling) wherever a walk descends, the segment appended to Progress.Path and the child node handed to the recursive call originate together (the two results of one iterator Next, or a lookup by that very segment) - checked through helper parameters at their call sites; the selector handed down is the result of Explore for that same segment; (get) Progress.get resolves step by step: LookupByString of the segment's string on maps, LookupByIndex of its index on lists, every lookup error returns no node, links are followed through LinkSystem.Load.  (keysegment) a map key becomes a reported segment through its representation when typed and only after AsString succeeded." +
			"Equality of the resolved node with the visited node and the error-exactly-when clause are value-level and not decided.",
		NotCovered: []string{"equality of the resolved node with the visited node", "resolution fails exactly when a segment does not exist", "ParsePath(String(p)) == p as values"},
		Trusted:    []string{"go/ssa, go/types", "strings.FieldsFunc / strings.Builder"},
		Run:        runC14,
	})
}

func runC14(c *core.Ctx) {
	p := c.P
	pathT := p.NamedType("datamodel", "Path")

	c.Rule("C14.fresh", "no method of datamodel.Path passes the receiver's segment slice as the destination of append or copy, nor stores through it: every path-extending method writes only into a slice it made itself", 8)
	if pathT == nil {
		c.Undecided("datamodel.Path", "-", "type not found")
	} else {
		ms := p.SSA.MethodSets.MethodSet(pathT)
		for i := 0; i < ms.Len(); i++ {
			fn := p.SSA.MethodValue(ms.At(i))
			if fn == nil || len(fn.Blocks) == 0 {
				continue
			}
			recv := fn.Params[0]
			fromRecvSegs := func(v ssa.Value) bool {
				for w := range core.BackSlice(v, core.SliceOpts{Stores: true}) {
					switch x := w.(type) {
					case *ssa.FieldAddr:
						if core.FieldName(x) == "Path.segments" {
							// a field of the receiver copy, before any local re-assignment: check what was stored there
							root, _ := rootOfAddr(x)
							if al, ok := root.(*ssa.Alloc); ok {
								// receiver spilled into a local: its segments field initially holds the caller's slice
								_ = al
								return true
							}
							if root == ssa.Value(recv) {
								return true
							}
						}
					case *ssa.Field:
						if core.FieldName(x) == "Path.segments" && x.X == ssa.Value(recv) {
							return true
						}
					}
				}
				return false
			}
			bad := ""
			var pos token.Pos
			for _, ci := range core.Calls(fn) {
				b, ok := ci.Common().Value.(*ssa.Builtin)
				if !ok {
					continue
				}
				if (b.Name() == "append" || b.Name() == "copy") && fromRecvSegs(ci.Common().Args[0]) && !freshDest(fn, ci.Common().Args[0]) {
					bad, pos = b.Name()+" writes into the receiver's segment slice", ci.Pos()
				}
			}
			core.Instrs(fn, func(in ssa.Instruction) {
				if st, ok := in.(*ssa.Store); ok {
					if ia, ok := st.Addr.(*ssa.IndexAddr); ok && fromRecvSegs(ia.X) && !freshDest(fn, ia.X) {
						bad, pos = "an element of the receiver's segment slice is overwritten", st.Pos()
					}
				}
			})
			if !pos.IsValid() {
				pos = fn.Pos()
			}
			c.Check(bad == "", core.FuncKey(fn)+"#fresh", p.Pos(pos), "writes only into storage of its own", core.FuncKey(fn)+": "+bad+" - a path formed earlier from the same parent (a sibling's path kept by a visitor) changes when this one is formed")
		}
	}

	c.Rule("C14.separator", "Path.String writes, between segments, exactly the byte that ParsePath splits on, and calls nothing from packages path or path/filepath (no cleaning: '.' and '..' are ordinary segments)", 2)
	strFn := p.Func("datamodel", "Path", "String")
	parseFn := p.Func("datamodel", "", "ParsePath")
	if strFn == nil || parseFn == nil {
		c.Undecided("datamodel.Path.String/ParsePath", "-", "not found")
	} else {
		var wrote []int64
		cleaning := ""
		for _, ci := range core.Calls(strFn) {
			if o := core.CalleeObj(ci); o != nil && o.Pkg() != nil && (o.Pkg().Path() == "path" || o.Pkg().Path() == "path/filepath") {
				cleaning = o.Pkg().Path() + "." + o.Name()
			}
			if core.IsMethod(ci, "strings", "Builder", "WriteByte") || core.IsMethod(ci, "strings", "Builder", "WriteRune") {
				if k, ok := core.ConstInt(core.Args(ci)[0]); ok {
					wrote = append(wrote, k)
				}
			}
			if core.IsMethod(ci, "strings", "Builder", "WriteString") || core.IsPkgFunc(ci, "strings", "Join") {
				for _, a := range core.Args(ci) {
					if s, ok := core.ConstString(a); ok && len(s) == 1 {
						wrote = append(wrote, int64(s[0]))
					}
				}
			}
		}
		var split []int64
		for _, f := range core.WithClosures(parseFn) {
			for _, e := range core.IfEdges(f) {
				if r, ok := core.EdgeRel(e); ok && r.Op == token.EQL && e.Succ == 0 {
					if k, ok := core.ConstInt(r.Y); ok {
						split = append(split, k)
					}
				}
			}
			core.Instrs(f, func(in ssa.Instruction) {
				if bo, ok := in.(*ssa.BinOp); ok && bo.Op == token.EQL {
					if k, ok := core.ConstInt(bo.Y); ok {
						split = append(split, k)
					}
				}
			})
			for _, ci := range core.Calls(f) {
				if core.IsPkgFunc(ci, "strings", "Split") {
					if s, ok := core.ConstString(ci.Common().Args[1]); ok && len(s) == 1 {
						split = append(split, int64(s[0]))
					}
				}
			}
		}
		agree := len(wrote) > 0 && len(split) > 0
		for _, w := range wrote {
			found := false
			for _, s := range split {
				if s == w {
					found = true
				}
			}
			if !found {
				agree = false
			}
		}
		c.Check(agree, "datamodel.Path#separator-agrees", p.Pos(strFn.Pos()), fmt.Sprintf("String writes %v, ParsePath splits on %v", wrote, split), fmt.Sprintf("Path.String separates segments with %v but ParsePath splits on %v", wrote, split))
		c.Check(cleaning == "", "datamodel.Path.String#no-cleaning", p.Pos(strFn.Pos()), "no path cleaning", "Path.String calls "+cleaning+", which gives '.', '..' and empty segments a file-system meaning: the string form of a path with such keys addresses a different node")
	}

	c.Rule("C14.coupling", "in package traversal, at every site that extends Progress.Path by a segment and then descends into a child node, the segment and the child originate together: both are results of one iterator Next(), or the child is the result of a lookup by that segment, or both are parameters that are coupled at every call site; a selector obtained from Explore for the descent was asked about that same segment", 6)
	checkCoupling(c)
	checkKeySegment(c)

	c.Rule("C14.get", "Progress.get: LookupByString receives the String() of the current path segment and LookupByIndex the Index() of that same segment; after each lookup and each link load a non-nil error leads only to returns carrying a nil node; links are followed only through LinkSystem.Load", 5)
	// the stepwise resolver, by role: the function behind the exported (Progress).Get that walks over Path.Segments()
	var get *ssa.Function
	if api := p.Func("traversal", "Progress", "Get"); api != nil {
		for _, g := range core.RegionOf(api).Fns {
			for _, ci := range core.Calls(g) {
				if core.IsMethod(ci, "", "Path", "Segments") && get == nil {
					get = g
				}
			}
		}
	}
	if get != nil {
		key := core.FuncKey(get)
		rgGet := core.RegionOf(get)
		// the range variable over p.Segments(): loads of elements of the Segments() result
		isSeg := func(v ssa.Value) bool {
			for w := range core.BackSlice(v, core.SliceOpts{Stores: true, Region: rgGet}) {
				if cl, ok := w.(*ssa.Call); ok && core.IsMethod(cl, "", "Path", "Segments") {
					return true
				}
			}
			return false
		}
		errIdx := core.ErrResultIndex(get)
		for _, ci := range core.CallsR(get) {
			cv := core.CallValue(ci)
			if cv == nil || !cv.Call.IsInvoke() {
				continue
			}
			switch cv.Call.Method.Name() {
			case "LookupByString":
				a, ok := rgGet.Canon(cv.Call.Args[0]).(*ssa.Call)
				good := ok && core.IsMethod(a, "", "PathSegment", "String") && isSeg(a.Call.Args[0])
				c.Check(good, key+"#map-step", p.Pos(cv.Pos()), "map step uses the segment's string", "LookupByString is not given the String() of the current path segment")
			case "LookupByIndex":
				good := false
				if e, ok := rgGet.Canon(cv.Call.Args[0]).(*ssa.Extract); ok && e.Index == 0 {
					if a, ok := e.Tuple.(*ssa.Call); ok && core.IsMethod(a, "", "PathSegment", "Index") && isSeg(a.Call.Args[0]) {
						good = true
					}
				}
				c.Check(good, key+"#list-step", p.Pos(cv.Pos()), "list step uses the segment's index", "LookupByIndex is not given the Index() of the current path segment")
			default:
				continue
			}
			nilEdges := core.EdgesWhere(get, func(r core.Rel) bool { return r.Op == token.EQL && extractOf(r.X, cv, 1) && core.IsNilConst(r.Y) })
			path, reached := core.Reach(get, cv, func(in ssa.Instruction) bool {
				ret, ok := in.(*ssa.Return)
				return ok && (core.ResultNilness(ret, errIdx) != core.NonNil || core.ResultNilness(ret, 0) != core.IsNil)
			}, nilEdges, func(in ssa.Instruction) bool { return in == ssa.Instruction(cv) })
			c.Check(len(nilEdges) > 0 && !reached, key+"#"+cv.Call.Method.Name()+"-error", p.Pos(cv.Pos()), "lookup failure returns an error and no node", "after a failed lookup a return without error (or with a node) is reachable", p.Witness(path)...)
		}
		loads := 0
		for _, ci := range core.CallsR(get) {
			if cal := ci.Common().StaticCallee(); cal != nil && cal.Name() == "Load" && core.IsMethod(ci, "", "LinkSystem", "Load") {
				loads++
			}
		}
		c.Check(loads >= 1, key+"#links-through-linksystem", p.Pos(get.Pos()), "links are loaded through LinkSystem.Load", "get does not load links through LinkSystem.Load")
		// the position reported to the link system for a link is the position recorded for the block loaded from it
		var linkPaths, blockPaths []ssa.Value
		core.InstrsR(get, func(in ssa.Instruction) {
			st, ok := in.(*ssa.Store)
			if !ok {
				return
			}
			fa, ok := st.Addr.(*ssa.FieldAddr)
			if !ok {
				return
			}
			switch core.FieldName(fa) {
			case "LinkContext.LinkPath":
				linkPaths = append(linkPaths, st.Val)
			}
			if fv := fieldVar(fa); fv != nil && fv.Name() == "Path" {
				if outer, ok := fa.X.(*ssa.FieldAddr); ok && core.FieldName(outer) == "Progress.LastBlock" {
					blockPaths = append(blockPaths, st.Val)
				}
			}
		})
		samePath := func(a, b ssa.Value) bool {
			ca, ok1 := rgGet.Canon(a).(*ssa.Call)
			cb, ok2 := rgGet.Canon(b).(*ssa.Call)
			if !ok1 || !ok2 || core.CalleeObj(ca) == nil || core.CalleeObj(cb) == nil || core.CalleeObj(ca) != core.CalleeObj(cb) || len(ca.Call.Args) != len(cb.Call.Args) {
				return core.SameValue(a, b)
			}
			for i := range ca.Call.Args {
				x, y := core.Strip(ca.Call.Args[i]), core.Strip(cb.Call.Args[i])
				if x == y || core.SameValue(x, y) {
					continue
				}
				bx, okx := x.(*ssa.BinOp)
				by, oky := y.(*ssa.BinOp)
				if okx && oky && bx.Op == by.Op && core.Strip(bx.X) == core.Strip(by.X) && core.ConstVal(bx.Y) != nil && core.ConstVal(by.Y) != nil && core.ConstVal(bx.Y).ExactString() == core.ConstVal(by.Y).ExactString() {
					continue
				}
				return false
			}
			return true
		}
		if len(linkPaths) > 0 && len(blockPaths) > 0 {
			agree := true
			for _, a := range linkPaths {
				for _, b := range blockPaths {
					if !samePath(a, b) {
						agree = false
					}
				}
			}
			c.Check(agree, key+"#linkpath-is-block-path", p.Pos(get.Pos()), "LinkContext.LinkPath and LastBlock.Path name the same position", "the path handed to the link system as LinkContext.LinkPath is not the path recorded as LastBlock.Path for the block loaded from that link: Get / Focus tell the link system a different position (the link's parent) than the walk does for the same link, so a link system that decides by position treats the two differently")
		}
	} else {
		c.Undecided("traversal.(Progress).Get#resolver", "-", "no function behind (Progress).Get walks over Path.Segments()")
	}
}

func rootOfAddr(v ssa.Value) (ssa.Value, int) {
	n := 0
	for {
		switch x := v.(type) {
		case *ssa.FieldAddr:
			v = x.X
			n++
		case *ssa.IndexAddr:
			v = x.X
			n++
		default:
			return v, n
		}
	}
}

// freshDest: the destination slice value is (a reslice of) a make() of this function, at least on the path examined.
func freshDest(fn *ssa.Function, v ssa.Value) bool {
	onlyFresh := true
	any := false
	for w := range core.BackSlice(v, core.SliceOpts{Stores: false}) {
		switch w.(type) {
		case *ssa.MakeSlice:
			any = true
		case *ssa.FieldAddr, *ssa.Field, *ssa.Parameter, *ssa.UnOp:
			onlyFresh = false
		}
	}
	return any && onlyFresh
}

// ---- coupling ----

func isPathSegment(t types.Type) bool {
	nt := namedOfType(t)
	return nt != nil && nt.Obj().Name() == "PathSegment"
}

func isNodeType(t types.Type) bool {
	nt := namedOfType(t)
	return nt != nil && nt.Obj().Name() == "Node" && nt.Obj().Pkg() != nil && core.RelPkg(nt.Obj().Pkg().Path()) == "datamodel"
}

// loopCarried: a loop-carried phi holds a value of an EARLIER iteration: it does not originate with this iteration's child.
func loopCarried(w ssa.Value) bool {
	if phi, ok := w.(*ssa.Phi); ok {
		for _, pr := range phi.Block().Preds {
			if phi.Block().Dominates(pr) {
				return true
			}
		}
	}
	return false
}

// origins collects the iterator Next() / Lookup* calls a value derives from (through conversions and helper calls).
func origins(v ssa.Value) (nexts map[*ssa.Call]bool, lookups map[*ssa.Call]bool, params map[*ssa.Parameter]bool) {
	nexts, lookups, params = map[*ssa.Call]bool{}, map[*ssa.Call]bool{}, map[*ssa.Parameter]bool{}
	opts := core.SliceOpts{Stores: true, Stop: loopCarried, ThroughCallsIf: func(cl *ssa.Call) bool {
		if cl.Call.IsInvoke() {
			n := cl.Call.Method.Name()
			if n == "Next" || strings.HasPrefix(n, "Lookup") {
				return false
			}
			return true // AsString, String ...
		}
		return true // PathSegmentOfString, loadLink(lnk, v, n) ...
	}}
	for w := range core.BackSlice(v, opts) {
		switch x := w.(type) {
		case *ssa.Call:
			if x.Call.IsInvoke() {
				n := x.Call.Method.Name()
				if n == "Next" {
					nexts[x] = true
				} else if strings.HasPrefix(n, "Lookup") {
					lookups[x] = true
				}
			}
		case *ssa.Parameter:
			params[x] = true
		}
	}
	return
}

// coupledValues: seg and node originate together inside fn; when both come from parameters the pairing is checked at call sites.
func coupledValues(p *core.Program, fn *ssa.Function, seg, node ssa.Value, depth int) (bool, string) {
	return coupledAt(p, fn, seg, node, depth, nil)
}

// coupledAt additionally accepts a selection test: the descent (at instruction `at`) is dominated by a branch whose
// condition relates the segment with the key/index that came out of the same Next() as the node
// (asPathSegment(k).Equals(seg), ti == i).
func coupledAt(p *core.Program, fn *ssa.Function, seg, node ssa.Value, depth int, at ssa.Instruction) (bool, string) {
	sn, sl, sp := origins(seg)
	nn, nl, np := origins(node)
	_ = sl
	if at != nil && len(nn) > 0 {
		segSlice := core.BackSlice(seg, core.SliceOpts{Stores: true, Stop: loopCarried})
		for d := at.Block(); d != nil; d = d.Idom() {
			id := d.Idom()
			if id == nil {
				break
			}
			ifi := core.BlockIf(id)
			if ifi == nil {
				continue
			}
			// a test of an error for nil relates nothing
			if bo, ok := ifi.Cond.(*ssa.BinOp); ok && (core.IsNilConst(bo.X) || core.IsNilConst(bo.Y)) {
				continue
			}
			cs := core.BackSlice(ifi.Cond, core.SliceOpts{ThroughCalls: true, Stores: true})
			hasNext, hasSeg := false, false
			for w := range cs {
				if cl, ok := w.(*ssa.Call); ok && nn[cl] {
					hasNext = true
				}
				if segSlice[w] {
					if _, isConst := w.(*ssa.Const); !isConst {
						hasSeg = true
					}
				}
			}
			if hasNext && hasSeg && (core.EdgeDominates(core.Edge{From: id, Succ: 0}, at.Block()) || core.EdgeDominates(core.Edge{From: id, Succ: 1}, at.Block())) {
				return true, "selected by a test relating the segment with the key/index of the same Next()"
			}
		}
	}
	for c := range sn {
		if nn[c] {
			return true, "same iterator Next()"
		}
	}
	for l := range nl {
		// node = x.LookupBy*(arg): arg must derive from seg's sources
		an, _, ap := origins(l.Call.Args[0])
		for c := range an {
			if sn[c] {
				return true, "lookup by a key from the same Next()"
			}
		}
		for prm := range ap {
			if sp[prm] && isPathSegment(prm.Type()) {
				return true, "lookup by the same segment parameter"
			}
		}
		// range over a slice of segments: both the lookup key and the appended segment load from the same slice element
		for w := range core.BackSlice(l.Call.Args[0], core.SliceOpts{Stores: true}) {
			if ia, ok := w.(*ssa.IndexAddr); ok {
				for w2 := range core.BackSlice(seg, core.SliceOpts{Stores: true}) {
					if w2 == ssa.Value(ia) {
						return true, "lookup by the same range element"
					}
				}
			}
		}
	}
	// both from parameters (possibly captured by a closure): check the pairing at every static call site
	var sprms, nprms []*ssa.Parameter
	for prm := range sp {
		if isPathSegment(prm.Type()) {
			sprms = append(sprms, prm)
		}
	}
	for prm := range np {
		if isNodeType(prm.Type()) {
			nprms = append(nprms, prm)
		}
	}
	firstFail := ""
	for _, sprm := range sprms {
		for _, nprm := range nprms {
			if sprm.Parent() != nprm.Parent() || depth >= 3 {
				continue
			}
			callee := sprm.Parent()
			si, ni := core.ParamIndex(sprm), core.ParamIndex(nprm)
			sites, allOK := 0, true
			for _, g := range p.ModFns {
				if g.Synthetic != "" {
					continue // wrappers merely forward their own parameters
				}
				for _, ci := range core.Calls(g) {
					args := ci.Common().Args
					isCall := ci.Common().StaticCallee() == callee
					if !isCall {
						if mc, ok := ci.Common().Value.(*ssa.MakeClosure); ok && mc.Fn == ssa.Value(callee) {
							isCall = true
						} else if ci.Common().StaticCallee() == nil && !ci.Common().IsInvoke() {
							for w := range core.BackSlice(ci.Common().Value, core.SliceOpts{Stores: true}) {
								if mc, ok := w.(*ssa.MakeClosure); ok && mc.Fn == ssa.Value(callee) {
									isCall = true
								}
							}
						}
					}
					if !isCall || len(args) <= si || len(args) <= ni {
						continue
					}
					sites++
					if ok, _ := coupledAt(p, g, args[si], args[ni], depth+1, ci); !ok {
						allOK = false
						if firstFail == "" {
							firstFail = "parameters are not coupled at call site " + p.Pos(ci.Pos())
						}
					}
				}
			}
			if sites > 0 && allOK {
				return true, fmt.Sprintf("parameters %s/%s coupled at all %d call sites", sprm.Name(), nprm.Name(), sites)
			}
		}
	}
	// both are fields of one struct parameter (the segment and the child bundled into a small value): the pairing is
	// checked where the struct is filled in, at every static call site
	if depth < 3 {
		for _, sf := range fieldsOfParamIn(seg, isPathSegment) {
			for _, nf := range fieldsOfParamIn(node, isNodeType) {
				if sf.prm != nf.prm {
					continue
				}
				ok, why := coupledFields(p, sf.prm.Parent(), core.ParamIndex(sf.prm), sf.idx, nf.idx, depth)
				if ok {
					return true, why
				}
				if firstFail == "" {
					firstFail = why
				}
			}
		}
	}
	if firstFail != "" {
		return false, firstFail
	}
	return false, "segment and child node do not originate together"
}

// coupledFields: at every static call site of callee, fields si (segment) and ni (child) of the struct passed for
// parameter pi were filled with values that originate together - or the struct is the caller's own parameter, handed
// on unchanged, and the same holds for the caller.
func coupledFields(p *core.Program, callee *ssa.Function, pi, si, ni, depth int) (bool, string) {
	if depth >= 4 {
		return false, "struct handed on too many times"
	}
	sites := 0
	for _, g := range p.ModFns {
		if g.Synthetic != "" {
			continue
		}
		for _, ci := range core.Calls(g) {
			if ci.Common().StaticCallee() != callee {
				continue
			}
			a := core.ArgForParam(ci, pi)
			if a == nil {
				continue
			}
			sites++
			if prm := wholeParam(a); prm != nil && prm.Parent() == g {
				if ok, why := coupledFields(p, g, core.ParamIndex(prm), si, ni, depth+1); !ok {
					return false, why
				}
				continue
			}
			sv, nv := fieldValueOfArg(a, si), fieldValueOfArg(a, ni)
			if sv == nil || nv == nil {
				return false, "the struct carrying segment and child is not filled in at call site " + p.Pos(ci.Pos())
			}
			if ok, _ := coupledAt(p, g, sv, nv, depth+1, ci); !ok {
				return false, "segment and child bundled at call site " + p.Pos(ci.Pos()) + " do not originate together"
			}
		}
	}
	if sites == 0 {
		return false, "no call site fills in the struct carrying segment and child"
	}
	return true, fmt.Sprintf("fields of the struct parameter coupled at all %d call sites", sites)
}

// wholeParam: a is a struct parameter of its function passed on as a whole (possibly through the variable it was
// spilled to).
func wholeParam(a ssa.Value) *ssa.Parameter {
	a = core.Strip(a)
	if prm, ok := a.(*ssa.Parameter); ok {
		return prm
	}
	if u, ok := a.(*ssa.UnOp); ok && u.Op == token.MUL {
		if al, ok := u.X.(*ssa.Alloc); ok {
			var only *ssa.Parameter
			n, other := 0, false
			for _, ref := range *al.Referrers() {
				switch x := ref.(type) {
				case *ssa.Store:
					if x.Addr == ssa.Value(al) {
						n++
						only, _ = x.Val.(*ssa.Parameter)
					}
				case *ssa.FieldAddr:
					if x.Referrers() != nil {
						for _, r2 := range *x.Referrers() {
							if st, ok := r2.(*ssa.Store); ok && st.Addr == ssa.Value(x) {
								other = true // a field is overwritten: no longer the parameter as passed
							}
						}
					}
				}
			}
			if n == 1 && !other {
				return only
			}
		}
	}
	return nil
}

type paramField struct {
	prm *ssa.Parameter
	idx int
}

// fieldsOfParamIn: the struct-parameter fields of the wanted type that v is, or derives from.
func fieldsOfParamIn(v ssa.Value, want func(types.Type) bool) []paramField {
	var out []paramField
	add := func(w ssa.Value) {
		if prm, idx := fieldOfParam(w); prm != nil && want(w.Type()) {
			for _, o := range out {
				if o.prm == prm && o.idx == idx {
					return
				}
			}
			out = append(out, paramField{prm, idx})
		}
	}
	add(v)
	for w := range core.BackSlice(v, core.SliceOpts{Stores: true, ThroughCallsIf: func(cl *ssa.Call) bool {
		if cl.Call.IsInvoke() {
			n := cl.Call.Method.Name()
			return n != "Next" && !strings.HasPrefix(n, "Lookup")
		}
		return true
	}}) {
		add(w)
	}
	sort.Slice(out, func(i, j int) bool {
		if out[i].prm != out[j].prm {
			return out[i].prm.Pos() < out[j].prm.Pos()
		}
		return out[i].idx < out[j].idx
	})
	return out
}

// fieldOfParam: v reads field idx of a struct (or pointer-to-struct) parameter of its function - directly, or through
// the local variable the parameter was spilled to.
func fieldOfParam(v ssa.Value) (*ssa.Parameter, int) {
	asParam := func(x ssa.Value) *ssa.Parameter {
		x = core.Strip(x)
		if prm, ok := x.(*ssa.Parameter); ok {
			return prm
		}
		if al, ok := x.(*ssa.Alloc); ok {
			var only *ssa.Parameter
			n := 0
			for _, ref := range *al.Referrers() {
				if st, ok := ref.(*ssa.Store); ok && st.Addr == ssa.Value(al) {
					n++
					only, _ = st.Val.(*ssa.Parameter)
				}
			}
			if n == 1 {
				return only
			}
		}
		if u, ok := x.(*ssa.UnOp); ok && u.Op == token.MUL {
			if al, ok := u.X.(*ssa.Alloc); ok {
				var only *ssa.Parameter
				n := 0
				for _, ref := range *al.Referrers() {
					if st, ok := ref.(*ssa.Store); ok && st.Addr == ssa.Value(al) {
						n++
						only, _ = st.Val.(*ssa.Parameter)
					}
				}
				if n == 1 {
					return only
				}
			}
		}
		return nil
	}
	switch x := core.Strip(v).(type) {
	case *ssa.Field:
		if prm := asParam(x.X); prm != nil {
			return prm, x.Field
		}
	case *ssa.UnOp:
		if x.Op == token.MUL {
			if fa, ok := x.X.(*ssa.FieldAddr); ok {
				if prm := asParam(fa.X); prm != nil {
					return prm, fa.Field
				}
			}
		}
	}
	return nil, -1
}

// fieldValueOfArg: the value the caller stored into field idx of the struct it passes as a (the struct value loaded
// from a local composite literal, or a pointer to one); nil unless exactly one store is found.
func fieldValueOfArg(a ssa.Value, idx int) ssa.Value {
	a = core.Strip(a)
	if u, ok := a.(*ssa.UnOp); ok && u.Op == token.MUL {
		a = u.X
	}
	al, ok := a.(*ssa.Alloc)
	if !ok {
		return nil
	}
	var val ssa.Value
	n := 0
	for _, ref := range *al.Referrers() {
		fa, ok := ref.(*ssa.FieldAddr)
		if !ok || fa.Field != idx || fa.Referrers() == nil {
			continue
		}
		for _, r2 := range *fa.Referrers() {
			if st, ok := r2.(*ssa.Store); ok && st.Addr == ssa.Value(fa) {
				val = st.Val
				n++
			}
		}
	}
	if n != 1 {
		return nil
	}
	return val
}

func checkCoupling(c *core.Ctx) {
	p := c.P
	// a descent: a static call of a function of the package that takes a node and is part of a recursion (the walks and
	// the focused transform all recurse through such calls), whatever it is called
	tr := newTravRoles(p)
	isDescentCallee := func(cal *ssa.Function) bool {
		if cal == nil || len(cal.Blocks) == 0 || !tr.recursive(cal) {
			return false
		}
		for _, prm := range cal.Params {
			if isNodeType(prm.Type()) {
				return true
			}
		}
		return false
	}
	for _, fn := range p.ModFns {
		pk := core.FuncPkg(fn)
		if pk == nil || core.RelPkg(pk.Path()) != "traversal" || len(fn.Blocks) == 0 || fn.Synthetic != "" {
			continue
		}
		// appends of a segment to a path
		var appends []*ssa.Call
		for _, ci := range core.Calls(fn) {
			cv := core.CallValue(ci)
			if cv != nil && (core.IsMethod(ci, "", "Path", "AppendSegment") || core.IsMethod(ci, "", "Path", "AppendSegmentString") || core.IsMethod(ci, "", "Path", "AppendSegmentInt")) {
				appends = append(appends, cv)
			}
		}
		if len(appends) == 0 {
			continue
		}
		n := 0
		for _, ci := range core.Calls(fn) {
			cal := ci.Common().StaticCallee()
			if cal == nil || core.FuncPkg(cal) != pk || !isDescentCallee(cal) {
				continue
			}
			// the node arguments: the child - and, when the callee also wants to know where it came from, the parent
			var nodes []ssa.Value
			for i, a := range ci.Common().Args {
				if i == 0 && cal.Signature.Recv() != nil {
					continue
				}
				if isNodeType(a.Type()) && !core.IsNilConst(a) {
					nodes = append(nodes, a)
				}
			}
			if len(nodes) == 0 {
				continue
			}
			// the append that feeds this descent: the latest one that can reach it
			for _, ap := range appends {
				if _, r := core.Reach(fn, ap, isTarget(ci), nil, nil); !r {
					continue
				}
				n++
				seg := ap.Call.Args[len(ap.Call.Args)-1]
				// one of the nodes handed down must be the child the appended segment leads to
				ok, why := false, ""
				for _, node := range nodes {
					o, w := coupledAt(p, fn, seg, node, 0, ci)
					if o {
						ok, why = true, w
						break
					}
					if why == "" {
						why = w
					}
				}
				c.Check(ok, fmt.Sprintf("%s#descent%d->%s", core.FuncKey(fn), n, cal.Name()), p.Pos(ci.Pos()), "segment and child coupled: "+why, "the segment appended to Progress.Path and the child node handed to "+cal.Name()+" do not originate together ("+why+"): the path reported at the child's visit addresses a different node")
			}
		}
		// selector coupling: Explore(n, ps) asked about the same segment that is appended
		for _, ci := range core.Calls(fn) {
			cv := core.CallValue(ci)
			if cv == nil || !cv.Call.IsInvoke() || cv.Call.Method.Name() != "Explore" || len(cv.Call.Args) != 2 {
				continue
			}
			for _, ap := range appends {
				_, r1 := core.Reach(fn, cv, isTarget(ap), nil, nil)
				_, r2 := core.Reach(fn, ap, isTarget(cv), nil, nil)
				if !r1 && !r2 {
					continue
				}
				n++
				same := sameOrigin(cv.Call.Args[1], ap.Call.Args[len(ap.Call.Args)-1])
				c.Check(same, fmt.Sprintf("%s#explore-segment%d", core.FuncKey(fn), n), p.Pos(cv.Pos()), "Explore asked about the appended segment", "the selector is asked (Explore) about a different segment than the one appended to the path for the same child")
			}
		}
	}
}

// sameOrigin: the two segment values are the same SSA value or derive from the same source value.
func sameOrigin(a, b ssa.Value) bool {
	a, b = core.Strip(a), core.Strip(b)
	if a == b {
		return true
	}
	an, _, ap := origins(a)
	bn, _, bp := origins(b)
	for x := range an {
		if bn[x] {
			return true
		}
	}
	for x := range ap {
		if bp[x] && isPathSegment(x.Type()) {
			return true
		}
	}
	// the same field of the same struct parameter
	if pa, ia := fieldOfParam(a); pa != nil {
		if pb, ib := fieldOfParam(b); pb == pa && ia == ib {
			return true
		}
	}
	return false
}

// checkKeySegment: wherever the traversal packages turn a node into the string of a path segment that is reported
// (appended to a path, or returned as a PathSegment), the node is first taken to its representation when it is typed
// (a typed map hands out type-level keys, which for a struct key are of kind map), and a node that has no string is
// not silently reported as the empty segment.
func checkKeySegment(c *core.Ctx) {
	p := c.P
	c.Rule("C14.keysegment", "wherever package traversal or traversal/selector turns a map key into the string of a reported path segment (appended to a Path, or returned as a PathSegment), the key is taken through schema.TypedNode.Representation when it is typed, and the segment is formed only after AsString succeeded (its error tested, or the node's kind tested to be string)", 4)
	dm := core.ModPath + "/datamodel"
	kindString := ""
	if kindT := p.NamedType("datamodel", "Kind"); kindT != nil {
		if v, ok := enumConsts(kindT)["Kind_String"]; ok {
			kindString = v.ExactString()
		}
	}
	for _, fn := range p.ModFns {
		pk := core.FuncPkg(fn)
		if pk == nil || len(fn.Blocks) == 0 || fn.Synthetic != "" {
			continue
		}
		if rel := core.RelPkg(pk.Path()); rel != "traversal" && rel != "traversal/selector" {
			continue
		}
		n := 0
		for _, ci := range core.Calls(fn) {
			cv := core.CallValue(ci)
			if cv == nil {
				continue
			}
			var str ssa.Value
			switch {
			case core.IsMethod(ci, dm, "Path", "AppendSegmentString"):
				str = core.Args(ci)[0]
			case core.IsPkgFunc(ci, dm, "PathSegmentOfString"):
				// reported: returned as a segment, or appended to a path
				reported := false
				for _, ret := range core.Returns(fn) {
					for i, r := range ret.Results {
						if isPathSegment(r.Type()) && core.BackSlice(ret.Results[i], core.SliceOpts{Local: true})[cv] {
							reported = true
						}
					}
				}
				for _, cj := range core.Calls(fn) {
					if core.IsMethod(cj, dm, "Path", "AppendSegment") && core.BackSlice(core.Args(cj)[0], core.SliceOpts{Local: true})[cv] {
						reported = true
					}
				}
				if !reported {
					continue
				}
				str = cv.Call.Args[0]
			default:
				continue
			}
			for w := range core.BackSlice(str, core.SliceOpts{Local: true}) {
				as, ok := w.(*ssa.Call)
				if !ok || !as.Call.IsInvoke() || as.Call.Method.Name() != "AsString" || !isNodeType(as.Call.Value.Type()) {
					continue
				}
				n++
				key := fmt.Sprintf("%s#segment-of-key/%d", core.FuncKey(fn), n)
				typed := core.AnyIn(core.BackSlice(as.Call.Value, core.SliceOpts{Local: true}), func(v ssa.Value) bool {
					rc, ok := v.(*ssa.Call)
					return ok && rc.Call.IsInvoke() && rc.Call.Method.Name() == "Representation" && core.IsMethod(rc, core.ModPath+"/schema", "TypedNode", "Representation")
				})
				c.Check(typed, key+"#typed-key-representation", p.Pos(as.Pos()), "a typed key is taken to its representation before its string is asked for", "the key's string is asked of the node as the iterator handed it out: a typed map with struct keys (string representation) hands out keys of kind map, whose AsString fails - the entry is reported under a segment that does not address it")
				okEdges := core.EdgesWhere(fn, func(r core.Rel) bool {
					if r.Op != token.EQL {
						return false
					}
					if extractOfLocal(r.X, as, 1) && core.IsNilConst(r.Y) {
						return true
					}
					kc, ok := core.Strip(r.X).(*ssa.Call)
					if ok && kc.Call.IsInvoke() && kc.Call.Method.Name() == "Kind" && core.SameValue(kc.Call.Value, as.Call.Value) {
						kc, isK := core.Strip(r.Y).(*ssa.Const)
						return isK && kc.Value != nil && kindString != "" && kc.Value.ExactString() == kindString
					}
					return false
				})
				guarded := false
				if len(okEdges) > 0 {
					// the segment is formed only beyond such an edge
					for e := range okEdges {
						if core.EdgeDominates(e, cv.Block()) {
							guarded = true
						}
					}
				}
				c.Check(guarded, key+"#string-obtained", p.Pos(cv.Pos()), "the segment is formed only where AsString succeeded", "the segment is formed from the result of AsString whether or not it failed: a key that has no string is reported as the empty segment, which addresses nothing (or another entry)")
			}
		}
	}
}
