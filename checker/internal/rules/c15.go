package rules

import (
	"fmt"
	"go/constant"
	"go/token"
	"sort"
	"strings"

	"golang.org/x/tools/go/ssa"

	"verif/checker/internal/core"
)

func init() {
	register(&Def{
		ID: "C15",
		Explanation: "Structural necessary conditions of 'traversal controls only restrict a walk': (once) each recursive walk function consults the node budget exactly once per activation - the check sits in the entry block, outside every loop, and dominates the visit callback and all recursion; (owners) the budget counters, the resume flag PastStartAtPath and the seen-link set are read and written only by the frozen set of functions that implement them (an extra consultation elsewhere changes what a sufficient budget or a start path yields); (threshold) the budget checks fail exactly when the remaining allowance is below 1 and otherwise decrement by exactly 1; (linkbudget) every link load in package traversal is dominated by a passed link-budget check; (seen) under LinkVisitOnlyOnce the load is behind a seen-set lookup whose hit returns without loading, and links are recorded only in the traverse phase; (skip) a SkipMe error from the loader becomes a nil return at the load site. " +
			"The prefix/suffix/subsequence relations to the unrestricted walk are value-level and not decided.",
		NotCovered: []string{"prefix / suffix / subsequence relations themselves", "start-at-path arithmetic", "preloader interaction (documented as approximate)"},
		Trusted:    []string{"go/ssa, go/types"},
		Run:        runC15,
	})
}

// budgetCheckEdges: nil edges of tests on the result of a call to the named budget-check method.
func budgetCheckNilEdges(fn *ssa.Function, name string) (map[core.Edge]bool, []*ssa.Call) {
	edges := map[core.Edge]bool{}
	var calls []*ssa.Call
	for _, ci := range core.Calls(fn) {
		cv := core.CallValue(ci)
		if cv == nil {
			continue
		}
		if cal := cv.Call.StaticCallee(); cal != nil && cal.Name() == name {
			calls = append(calls, cv)
			for e := range core.EdgesWhere(fn, func(r core.Rel) bool { return r.Op == token.EQL && core.Strip(r.X) == ssa.Value(cv) && core.IsNilConst(r.Y) }) {
				edges[e] = true
			}
		}
	}
	return edges, calls
}

func runC15(c *core.Ctx) {
	p := c.P
	const rel = "traversal"

	c.Rule("C15.once", "walkAdv, WalkLocal and walkTransforming call checkNodeBudget exactly once, in their entry block (outside every loop); the visit callback, the transform callback and every recursive descent are reachable only over the nil edge of that call's error", 3)
	for _, name := range []string{"walkAdv", "WalkLocal", "walkTransforming"} {
		fn := p.Func(rel, "Progress", name)
		if fn == nil {
			c.Undecided(rel+".Progress."+name, "-", "not found")
			continue
		}
		key := core.FuncKey(fn)
		edges, calls := budgetCheckNilEdges(fn, "checkNodeBudget")
		if len(calls) != 1 {
			c.Fail(key+"#budget-once", p.Pos(fn.Pos()), fmt.Sprintf("checkNodeBudget is called %d times in one activation (must be exactly once per visited node)", len(calls)))
			continue
		}
		inEntry := calls[0].Block() == fn.Blocks[0]
		// everything that visits or descends
		bad := false
		var wp []string
		for _, g := range core.WithClosures(fn) {
			if g != fn {
				continue
			}
			for _, ci := range core.Calls(g) {
				cc := ci.Common()
				isVisit := false
				if cal := cc.StaticCallee(); cal != nil {
					switch cal.Name() {
					case "visit", "walkAdv", "WalkLocal", "walkTransforming", "WalkTransforming", "explore", "walk_transform_iterateList", "walk_transform_iterateMap", "reify":
						isVisit = core.FuncPkg(cal) == core.FuncPkg(fn)
					}
				} else if !cc.IsInvoke() {
					if _, isB := cc.Value.(*ssa.Builtin); !isB {
						if prm, ok := cc.Value.(*ssa.Parameter); ok && prm.Parent() == fn {
							isVisit = true // the user's callback parameter
						}
					}
				}
				if !isVisit {
					continue
				}
				if path, reached := core.Reach(fn, nil, isTarget(ci), edges, nil); reached {
					bad = true
					wp = p.Witness(path)
				}
			}
		}
		c.Check(inEntry && !bad, key+"#budget-once", p.Pos(calls[0].Pos()), "one budget check, in the entry block, before any visit or descent", "the node budget check is not the single entry-block check that every visit and descent is behind", wp...)
	}

	c.Rule("C15.owners", "who may touch the controls: Budget.NodeBudget and Budget.LinkBudget are accessed only by checkNodeBudget / checkLinkBudget, Budget.Clone, Progress.get and focusedTransform; Progress.PastStartAtPath is written only by walkAdv's descent closure; Progress.SeenLinks is written only by Progress.init, explore and the transforming iterators", 6)
	owners := map[string]map[string]bool{
		"Budget.NodeBudget":        {"(traversal.Progress).checkNodeBudget": true, "(*traversal.Budget).Clone": true, "(*traversal.Progress).get": true, "(traversal.Progress).focusedTransform": true},
		"Budget.LinkBudget":        {"(traversal.Progress).checkLinkBudget": true, "(*traversal.Budget).Clone": true, "(*traversal.Progress).get": true, "(traversal.Progress).focusedTransform": true},
		"Progress.PastStartAtPath": {"(traversal.Progress).walkAdv$1": true},
		"Progress.SeenLinks":       {"(*traversal.Progress).init": true, "(traversal.Progress).explore": true, "(traversal.Progress).walk_transform_iterateList": true, "(traversal.Progress).walk_transform_iterateMap": true},
	}
	writeOnly := map[string]bool{"Progress.PastStartAtPath": true, "Progress.SeenLinks": true}
	found := map[string]map[string]string{}
	for _, fn := range p.ModFns {
		pk := core.FuncPkg(fn)
		if pk == nil || core.RelPkg(pk.Path()) != rel || len(fn.Blocks) == 0 || fn.Synthetic != "" {
			continue
		}
		core.Instrs(fn, func(in ssa.Instruction) {
			var fa *ssa.FieldAddr
			isWrite := false
			switch x := in.(type) {
			case *ssa.Store:
				fa, _ = x.Addr.(*ssa.FieldAddr)
				isWrite = true
			case *ssa.UnOp:
				if x.Op == token.MUL {
					fa, _ = x.X.(*ssa.FieldAddr)
				}
			case *ssa.MapUpdate:
				if u, ok := x.Map.(*ssa.UnOp); ok {
					fa, _ = u.X.(*ssa.FieldAddr)
					isWrite = true
				}
			}
			if fa == nil {
				return
			}
			fnm := core.FieldName(fa)
			if _, tracked := owners[fnm]; !tracked {
				return
			}
			if writeOnly[fnm] && !isWrite {
				return
			}
			// whole-struct copies of Progress (by-value receivers) are not accesses of the control
			if found[fnm] == nil {
				found[fnm] = map[string]string{}
			}
			found[fnm][core.FuncKey(fn)] = p.Pos(in.Pos())
		})
	}
	var fields []string
	for f := range owners {
		fields = append(fields, f)
	}
	sort.Strings(fields)
	for _, f := range fields {
		var fns []string
		for fn := range found[f] {
			fns = append(fns, fn)
		}
		sort.Strings(fns)
		if len(fns) == 0 {
			c.Undecided("traversal#"+f+"-owners", "-", "no access to "+f+" found at all")
		}
		for _, fn := range fns {
			c.Check(owners[f][fn], fmt.Sprintf("%s#touches:%s", fn, f), found[f][fn], "owner of this control", fn+" reads or writes "+f+" but is not one of the functions that implement that control: the control is consulted or changed at an extra point of the walk (a sufficient budget can now fail, or visits after a start path go missing)")
		}
	}

	c.Rule("C15.threshold", "checkNodeBudget and checkLinkBudget: the error branch is taken exactly when the counter is <= 0 (i.e. below 1), and on the other branch the counter is stored back decremented by exactly 1", 2)
	for _, spec := range []struct{ fn, field string }{{"checkNodeBudget", "Budget.NodeBudget"}, {"checkLinkBudget", "Budget.LinkBudget"}} {
		fn := p.Func(rel, "Progress", spec.fn)
		if fn == nil {
			c.Undecided(rel+".Progress."+spec.fn, "-", "not found")
			continue
		}
		isCounter := func(v ssa.Value) bool {
			u, ok := v.(*ssa.UnOp)
			if !ok || u.Op != token.MUL {
				return false
			}
			fa, ok := u.X.(*ssa.FieldAddr)
			return ok && core.FieldName(fa) == spec.field
		}
		thresholdOK := false
		var errEdge *core.Edge
		for _, e := range core.IfEdges(fn) {
			r, ok := core.EdgeRel(e)
			if !ok {
				continue
			}
			if !isCounter(r.X) {
				r = r.Flip()
			}
			if !isCounter(r.X) {
				continue
			}
			if ub, ok := r.UpperBoundConst(); ok && r.Op != token.EQL {
				// edge on which counter <= ub: must be the error edge with ub == 0
				e2 := e
				errEdge = &e2
				thresholdOK = constant.Compare(ub, token.EQL, constant.MakeInt64(0))
			}
		}
		decOK := false
		core.Instrs(fn, func(in ssa.Instruction) {
			st, ok := in.(*ssa.Store)
			if !ok {
				return
			}
			fa, ok := st.Addr.(*ssa.FieldAddr)
			if !ok || core.FieldName(fa) != spec.field {
				return
			}
			if bo, ok := st.Val.(*ssa.BinOp); ok && bo.Op == token.SUB && isCounter(bo.X) {
				if k, isC := core.ConstInt(bo.Y); isC && k == 1 {
					decOK = true
					// the decrement must not be on the error edge's side
					if errEdge != nil && core.EdgeDominates(*errEdge, st.Block()) {
						decOK = false
					}
				}
			}
		})
		errReturns := false
		if errEdge != nil {
			errReturns = !reachFromBlock(fn, errEdge.To(), func(in ssa.Instruction) bool {
				ret, ok := in.(*ssa.Return)
				return ok && core.ResultNilness(ret, 0) != core.NonNil
			}, nil)
		}
		c.Check(thresholdOK && decOK && errReturns, core.FuncKey(fn)+"#threshold", p.Pos(fn.Pos()), "fails iff remaining < 1, otherwise decrements by 1", spec.fn+" does not fail exactly when the remaining allowance is <= 0 and decrement by exactly 1 otherwise (off-by-one in budget accounting)")
	}

	c.Rule("C15.linkbudget", "every call of LinkSystem.Load / Fill in package traversal, and every call of the walk's loadLink helper's loading part, is dominated by a passed link-budget check (nil edge of checkLinkBudget, or the not-exhausted edge of an inline comparison of Budget.LinkBudget)", 3)
	for _, fn := range p.ModFns {
		pk := core.FuncPkg(fn)
		if pk == nil || core.RelPkg(pk.Path()) != rel || len(fn.Blocks) == 0 || fn.Synthetic != "" {
			continue
		}
		n := 0
		for _, ci := range core.Calls(fn) {
			if !(core.IsMethod(ci, "", "LinkSystem", "Load") || core.IsMethod(ci, "", "LinkSystem", "Fill")) {
				continue
			}
			n++
			edges, _ := budgetCheckNilEdges(fn, "checkLinkBudget")
			// inline form: `if prog.Budget != nil { if LinkBudget <= 0 {return}; LinkBudget-- }`: passing the decrement or the Budget==nil edge
			inlineDec := func(in ssa.Instruction) bool {
				st, ok := in.(*ssa.Store)
				if !ok {
					return false
				}
				fa, ok := st.Addr.(*ssa.FieldAddr)
				return ok && core.FieldName(fa) == "Budget.LinkBudget"
			}
			noBudget := core.EdgesWhere(fn, func(r core.Rel) bool {
				return r.Op == token.EQL && core.IsFieldRef(r.X, "Progress", "Budget") && core.IsNilConst(r.Y)
			})
			path, reached := core.Reach(fn, nil, isTarget(ci), union(edges, noBudget), inlineDec)
			c.Check(!reached, fmt.Sprintf("%s#load%d", core.FuncKey(fn), n), p.Pos(ci.Pos()), "behind a link-budget check", "a block load is reachable without a link-budget check: the link budget does not bound loads on this path", p.Witness(path)...)
		}
	}

	c.Rule("C15.seen", "in explore: every call that loads a link (loadLink) is, on paths where LinkVisitOnlyOnce is true, behind a comma-ok lookup in SeenLinks whose hit edge cannot reach the load; the insertion into SeenLinks is behind the phase == traverse edge", 2)
	if fn := p.Func(rel, "Progress", "explore"); fn != nil {
		key := core.FuncKey(fn)
		var loads []ssa.CallInstruction
		for _, ci := range core.Calls(fn) {
			if cal := ci.Common().StaticCallee(); cal != nil && cal.Name() == "loadLink" {
				loads = append(loads, ci)
			}
		}
		onceFalse := core.BoolEdgesWhere(fn, func(v ssa.Value) bool { return core.IsFieldRef(v, "Config", "LinkVisitOnlyOnce") }, false)
		isSeenGuard := func(ifi *ssa.If) bool {
			cnd, _ := core.CondPolarity(ifi.Cond)
			e, ok := cnd.(*ssa.Extract)
			if !ok || e.Index != 1 {
				return false
			}
			lk, ok := e.Tuple.(*ssa.Lookup)
			return ok && lk.CommaOk && core.IsFieldRef(lk.X, "Progress", "SeenLinks")
		}
		for i, ld := range loads {
			okG, path := guardedByBlocked(fn, nil, ld, nil, isSeenGuard, onceFalse)
			c.Check(okG, fmt.Sprintf("%s#seen-before-load%d", key, i+1), p.Pos(ld.Pos()), "seen-set consulted before loading", "with LinkVisitOnlyOnce a link load is reachable without a deciding lookup in SeenLinks: a link can be loaded twice", p.Witness(path)...)
		}
		if len(loads) == 0 {
			c.Undecided(key+"#seen-before-load", p.Pos(fn.Pos()), "no loadLink call found")
		}
		core.Instrs(fn, func(in ssa.Instruction) {
			mu, ok := in.(*ssa.MapUpdate)
			if !ok || !core.IsFieldRef(mu.Map, "Progress", "SeenLinks") {
				return
			}
			trav := core.EdgesWhere(fn, func(r core.Rel) bool {
				prm, isP := r.X.(*ssa.Parameter)
				cv := core.ConstVal(r.Y)
				return r.Op == token.EQL && isP && strings.HasSuffix(prm.Type().String(), "phase") && cv != nil
			})
			path, reached := core.Reach(fn, nil, isTarget(in), trav, nil)
			c.Check(len(trav) > 0 && !reached, key+"#seen-insert-traverse-only", p.Pos(mu.Pos()), "recorded only in the traverse phase", "a link is recorded as seen outside the traverse phase (the preload pass would make the real pass skip it)", p.Witness(path)...)
		})
	} else {
		c.Undecided(rel+".Progress.explore", "-", "not found")
	}

	c.Rule("C15.skip", "at every load site of the visiting walk (explore) the error of loadLink is tested for the SkipMe type and that case returns nil: skipping a block removes exactly that subtree and is not an error", 1)
	if fn := p.Func(rel, "Progress", "explore"); fn != nil {
		key := core.FuncKey(fn)
		ok := false
		for _, b := range fn.Blocks {
			ifi := core.BlockIf(b)
			if ifi == nil {
				continue
			}
			cnd, _ := core.CondPolarity(ifi.Cond)
			e, isE := cnd.(*ssa.Extract)
			if !isE || e.Index != 1 {
				continue
			}
			ta, isTA := e.Tuple.(*ssa.TypeAssert)
			if !isTA || !ta.CommaOk {
				continue
			}
			if nt := namedOfType(ta.AssertedType); nt == nil || nt.Obj().Name() != "SkipMe" {
				continue
			}
			// the true edge leads only to returns with a nil error
			onlyNil := !reachFromBlock(fn, b.Succs[0], func(in ssa.Instruction) bool {
				ret, isR := in.(*ssa.Return)
				return isR && core.ResultNilness(ret, 0) != core.IsNil
			}, nil)
			if onlyNil {
				ok = true
			}
		}
		c.Check(ok, key+"#skipme-is-silent", p.Pos(fn.Pos()), "SkipMe becomes a nil return", "explore does not turn a SkipMe error from the loader into a silent nil return")
	}
}
