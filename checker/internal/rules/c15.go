package rules

import (
	"fmt"
	"go/constant"
	"go/token"
	"sort"
	"strings"

	"golang.org/x/tools/go/ssa"

	"verif/checker/internal/core"
)

func init() {
	register(&Def{
		ID: "C15",
		Explanation: "Structural necessary conditions of 'traversal controls only restrict a walk'. The functions are found by role (package traversal: who decrements which Budget counter, who invokes the user's callback, who loads blocks, who leads back to itself), with unexported helpers expanded at their call sites, so the rules do not depend on how the walk is split into functions or what they are called:  One visit per spend: no second invocation of the visit callback within an activation without a new spend, none at all in the functions of the recursion that spend nothing." +
			"(once) in every recursive walk function every invocation of the user's callback and every recursive descent lies behind a decrement of the node budget (or the no-budget-configured edge), no second decrement is reachable from the first within one activation, and each recursion cycle contains exactly one node-budget spending site; " +
			"(owners) the controls are touched only in the ways that implement them: a Budget counter is read only by functions that also spend it (or copy the Budget), PastStartAtPath is only ever latched (stored a value known to be true), and insertions into SeenLinks happen only under LinkVisitOnlyOnce behind a failed lookup of the same key; " +
			"(threshold) every spending site reachable from a recursive walk fails exactly when the counter is <= 0 and otherwise decrements by exactly 1; (linkbudget) every block load in package traversal is behind a link-budget decrement; " +
			"(seen) under LinkVisitOnlyOnce a walk's load is behind a seen-set lookup whose hit cannot reach the load, and the visiting walk records links only in the traverse phase; (skip) a SkipMe error from the loader becomes a nil return in the visiting walk. " +
			"The prefix/suffix/subsequence relations to the unrestricted walk are value-level and not decided.",
		NotCovered: []string{"prefix / suffix / subsequence relations themselves", "start-at-path arithmetic", "preloader interaction (documented as approximate)"},
		Trusted:    []string{"go/ssa, go/types"},
		Run:        runC15,
	})
}

// noBudgetEdges: edges on which Progress.Budget == nil (no budget configured: nothing to spend).
func noBudgetEdges(fn *ssa.Function) map[core.Edge]bool {
	return core.EdgesWhere(fn, func(r core.Rel) bool {
		return r.Op == token.EQL && core.IsFieldRef(r.X, "Progress", "Budget") && core.IsNilConst(r.Y)
	})
}

// isVisitCallback: the call invokes the callback a walk was given for its visits (not one of the other functions a
// configuration carries, such as the prototype chooser).
func isVisitCallback(root *ssa.Function, ci ssa.CallInstruction) bool {
	switch callbackType(root, ci) {
	case "VisitFn", "AdvVisitFn", "TransformFn":
		return true
	}
	return false
}

func isSpendOf(field string) func(ssa.Instruction) bool {
	return func(in ssa.Instruction) bool { _, ok := isSpend(in, field); return ok }
}

func runC15(c *core.Ctx) {
	p := c.P
	tr := newTravRoles(p)

	// ---------------------------------------------------------------- once
	c.Rule("C15.once", "in every recursive walk function whose activation spends the node budget: each invocation of the user's callback and each recursive descent is reachable from the entry only by passing a decrement of Budget.NodeBudget (or the edge on which no budget is configured); from a decrement no second decrement is reachable within the activation (the check is outside every loop); and the functions of its recursion cycle contain exactly one spending site between them", 3)
	var walkers []*ssa.Function
	for _, fn := range tr.fns {
		if fn.Parent() != nil || !tr.recursive(fn) || !tr.underWalkAPI(fn) {
			continue
		}
		spends := false
		core.InstrsR(fn, func(in ssa.Instruction) {
			if _, ok := isSpend(in, "NodeBudget"); ok {
				spends = true
			}
		})
		if spends {
			walkers = append(walkers, fn)
		}
	}
	for _, fn := range walkers {
		key := core.FuncKey(fn)
		spend := isSpendOf("NodeBudget")
		nob := noBudgetEdges(fn)
		bad := ""
		var wp []string
		pos := fn.Pos()
		n := 0
		for _, ci := range core.CallsR(fn) {
			if !userCallback(fn, ci) && !tr.descent(fn, ci) {
				continue
			}
			n++
			if path, reached := core.Reach(fn, nil, isTarget(ci), nob, spend); reached {
				bad = "a visit or descent is reachable without the node budget having been spent for this node"
				wp = p.Witness(path)
				pos = ci.Pos()
			}
		}
		// closures that descend (the per-child step of the walk) are entered from the activation: they must be created only after the spend
		for _, an := range fn.AnonFuncs {
			descends := false
			for _, ci := range core.CallsR(an) {
				if tr.descent(fn, ci) || userCallback(fn, ci) {
					descends = true
				}
			}
			if !descends {
				continue
			}
			n++
			isMk := func(in ssa.Instruction) bool {
				mc, ok := in.(*ssa.MakeClosure)
				return ok && mc.Fn == ssa.Value(an)
			}
			if path, reached := core.Reach(fn, nil, isMk, nob, spend); reached {
				bad = "the descending closure is set up on a path that has not spent the node budget"
				wp = p.Witness(path)
			}
		}
		var first ssa.Instruction
		core.InstrsR(fn, func(in ssa.Instruction) {
			if spend(in) && first == nil {
				first = in
			}
		})
		if first != nil {
			if path, reached := core.Reach(fn, first, spend, nil, nil); reached {
				bad = "a second decrement of the node budget is reachable within one activation (the check sits in a loop or is repeated)"
				wp = p.Witness(path)
			}
		}
		// one visit per spend: after the user's callback ran, no further invocation of it is reachable within the
		// activation without a new spend (a shortcut that visits a child directly - a leaf, a scalar block - instead of
		// descending gives that visit away for free)
		if bad == "" {
			for _, ci := range core.CallsR(fn) {
				if !isVisitCallback(fn, ci) {
					continue
				}
				isOtherVisit := func(in ssa.Instruction) bool {
					cj, ok := in.(ssa.CallInstruction)
					return ok && isVisitCallback(fn, cj)
				}
				if path, reached := core.Reach(fn, ci, isOtherVisit, nil, spend); reached {
					bad = "after the callback was invoked, another invocation of it is reachable within the same activation without the node budget having been spent again: a node is visited that no budget unit was charged for"
					wp = p.Witness(path)
					pos = ci.Pos()
				}
			}
		}
		// the other functions of the recursion (they load the next block, pick the selector for a child) spend nothing, so
		// they must not visit either
		if bad == "" {
			for _, g := range tr.cycleOf(fn) {
				if g == fn || len(spendsIn(g, "NodeBudget")) > 0 {
					continue
				}
				for _, ci := range core.CallsR(g) {
					if h := ci.Parent(); h != g && tr.recursive(h) {
						continue
					}
					if isVisitCallback(g, ci) {
						bad = "a function of the walk's recursion that does not spend the node budget (" + g.Name() + ") invokes the user's callback: that visit is not charged"
						pos = ci.Pos()
					}
				}
			}
		}
		// one spending site per recursion cycle
		sites := 0
		for _, g := range tr.cycleOf(fn) {
			sites += len(spendsIn(g, "NodeBudget"))
			for _, ci := range core.Calls(g) {
				if h := core.RegionOf(g).HelperOf(ci); h != nil {
					hs := false
					core.InstrsR(h, func(in ssa.Instruction) {
						if spend(in) {
							hs = true
						}
					})
					if hs {
						sites++
					}
				}
			}
		}
		if sites != 1 && bad == "" {
			bad = fmt.Sprintf("the recursion cycle of this walk contains %d node-budget spending sites (exactly one per visited node is required)", sites)
		}
		if n == 0 && bad == "" {
			bad = "no callback invocation or recursive descent recognised in a recursive walk function"
		}
		c.Check(bad == "", key+"#budget-once", p.Pos(pos), "one node-budget spend per activation, before every visit and descent", bad, wp...)
	}

	// ---------------------------------------------------------------- owners
	// insideWalk: g runs during a walk - it is one of the recursive functions or is reached from one. What the
	// exported entry points do once, before the recursion starts (Progress.init), is outside.
	insideWalk := func(g *ssa.Function) bool {
		for g.Parent() != nil {
			g = g.Parent()
		}
		if tr.recursive(g) {
			return true
		}
		for _, r := range tr.fns {
			if tr.recursive(r) && tr.reaches(r, g) {
				return true
			}
		}
		return false
	}
	c.Rule("C15.owners", "the controls are touched only in the ways that implement them: (a) a function of the library that reads Budget.NodeBudget / LinkBudget also decrements that counter in its own body, or only copies it into another Budget; (b) every store to Progress.PastStartAtPath stores a value known to be true at that point (the flag latches, it is never recomputed or reset); (c) every insertion into Progress.SeenLinks is behind the true edge of Config.LinkVisitOnlyOnce and behind the miss edge of a comma-ok lookup of the same key in SeenLinks; (d) a function that runs during a walk (a recursive function of package traversal or one reached from it) replaces the Progress.Budget pointer only behind the true edge of Config.Preloader != nil - the rewind after a preload pass: everything below one entry point charges the same Budget object", 6)
	for _, fn := range p.ModFns {
		pk := core.FuncPkg(fn)
		if pk == nil || !libraryPkg(core.RelPkg(pk.Path())) || len(fn.Blocks) == 0 || fn.Synthetic != "" {
			continue
		}
		key := core.FuncKey(fn)
		for _, field := range []string{"NodeBudget", "LinkBudget"} {
			var reads []ssa.Instruction
			onlyCopies := true
			core.Instrs(fn, func(in ssa.Instruction) {
				u, ok := in.(*ssa.UnOp)
				if !ok || !counterLoad(u, field) {
					return
				}
				reads = append(reads, in)
				// a copy: the loaded value is stored into the same field of another Budget and used for nothing else
				for _, ref := range *u.Referrers() {
					st, isSt := ref.(*ssa.Store)
					if !isSt {
						onlyCopies = false
						continue
					}
					if fa, ok := st.Addr.(*ssa.FieldAddr); !ok || core.FieldName(fa) != "Budget."+field {
						onlyCopies = false
					}
				}
			})
			if len(reads) == 0 {
				continue
			}
			ok := len(spendsIn(fn, field)) > 0 || onlyCopies
			c.Check(ok, fmt.Sprintf("%s#touches:Budget.%s", key, field), p.Pos(reads[0].Pos()), "reads the counter only to spend it (or to copy the budget)", key+" consults Budget."+field+" without spending it: the control is looked at at an extra point of the walk (a sufficient budget can now fail, or a walk stops earlier than the budget allows)")
		}
		core.Instrs(fn, func(in ssa.Instruction) {
			switch x := in.(type) {
			case *ssa.Store:
				fa, ok := x.Addr.(*ssa.FieldAddr)
				if ok && core.FieldName(fa) == "Progress.Budget" && insideWalk(fn) {
					// (d) the budget object is the caller's: one Budget is charged by the whole traversal, nested and
					// re-entered walks included, because everybody holds the same pointer. The only replacement is the
					// rewind between the preload pass and the real pass, which exists only when a Preloader is configured.
					noPre := core.EdgesWhere(fn, func(r core.Rel) bool {
						return r.Op == token.NEQ && ((core.IsNilConst(r.Y) && core.IsFieldRef(r.X, "Config", "Preloader")) || (core.IsNilConst(r.X) && core.IsFieldRef(r.Y, "Config", "Preloader")))
					})
					_, reach := core.Reach(fn, nil, isTarget(in), noPre, nil)
					c.Check(!reach, fmt.Sprintf("%s#replaces:Progress.Budget", key), p.Pos(x.Pos()), "the budget pointer is replaced only for the rewind after a preload pass", key+" replaces Progress.Budget on a path without a Preloader: the traversal stops charging the budget object it was given (steps taken by nested or re-entered walks, or by this walk, are no longer counted against the one shared budget)")
					return
				}
				if !ok || core.FieldName(fa) != "Progress.PastStartAtPath" {
					return
				}
				known := false
				if b, isC := core.ConstBool(x.Val); isC && b {
					known = true
				}
				if !known {
					// the stored value is a boolean the store is guarded by: if v { prog.PastStartAtPath = v }
					for e := range core.BoolEdgesWhere(fn, func(v ssa.Value) bool { return core.SameLoad(v, x.Val) || core.Strip(v) == core.Strip(x.Val) }, true) {
						if core.EdgeDominates(e, x.Block()) {
							known = true
						}
					}
				}
				c.Check(known, fmt.Sprintf("%s#latches:Progress.PastStartAtPath", key), p.Pos(x.Pos()), "the resume flag is only ever latched to true", key+" stores a computed value into Progress.PastStartAtPath: the flag is recomputed (or reset) at an extra point, so nodes after the start path can be skipped or nodes before it visited")
			case *ssa.MapUpdate:
				if !core.IsFieldRef(x.Map, "Progress", "SeenLinks") {
					return
				}
				onceFalse := core.BoolEdgesWhere(fn, func(v ssa.Value) bool { return core.IsFieldRef(v, "Config", "LinkVisitOnlyOnce") }, true)
				_, unguarded := core.Reach(fn, nil, isTarget(in), onceFalse, nil)
				isMiss := func(ifi *ssa.If) bool {
					cnd, _ := core.CondPolarity(ifi.Cond)
					e, ok := core.RegionOf(fn).Canon(cnd).(*ssa.Extract)
					if !ok || e.Index != 1 {
						return false
					}
					lk, ok := e.Tuple.(*ssa.Lookup)
					return ok && lk.CommaOk && core.IsFieldRef(lk.X, "Progress", "SeenLinks") && core.SameValue(lk.Index, x.Key)
				}
				// a hit must not reach the insertion: the lookup decides
				okG, path := guardedBy(fn, nil, in, isIterNext, isMiss)
				c.Check(!unguarded && okG, fmt.Sprintf("%s#records:Progress.SeenLinks", key), p.Pos(x.Pos()), "links are recorded only under LinkVisitOnlyOnce, after a failed lookup of the same link", key+" records a link in Progress.SeenLinks outside the LinkVisitOnlyOnce / not-yet-seen path", p.Witness(path)...)
			}
		})
	}

	// ---------------------------------------------------------------- threshold
	c.Rule("C15.threshold", "every function of package traversal that spends a budget counter (the walks, and Focus / Get / FocusedTransform alike) tests the counter before charging the step, takes the error branch exactly when it is <= 0 (i.e. below 1), stores the counter back decremented by exactly 1 on the other branch only, and the error branch cannot return success", 2)
	spenders := map[*ssa.Function]map[string]bool{}
	for _, fn := range tr.fns {
		if fn.Parent() != nil {
			continue
		}
		for _, field := range []string{"NodeBudget", "LinkBudget"} {
			core.InstrsR(fn, func(in ssa.Instruction) {
				if _, ok := isSpend(in, field); ok {
					g := in.Parent()
					if spenders[g] == nil {
						spenders[g] = map[string]bool{}
					}
					spenders[g][field] = true
				}
			})
		}
	}
	for _, fn := range tr.fns {
		for _, field := range []string{"LinkBudget", "NodeBudget"} {
			if !spenders[fn][field] {
				continue
			}
			thresholdOK := false
			var errEdge *core.Edge
			var testIf ssa.Instruction
			for _, b := range fn.Blocks {
				if core.BlockIf(b) == nil {
					continue
				}
				for s := 0; s < 2; s++ {
					e := core.Edge{From: b, Succ: s}
					r, ok := core.EdgeRel(e)
					if !ok {
						continue
					}
					if !counterLoad(r.X, field) {
						r = r.Flip()
					}
					if !counterLoad(r.X, field) {
						continue
					}
					if ub, ok := r.UpperBoundConst(); ok && r.Op != token.EQL {
						e2 := e
						errEdge = &e2
						testIf = core.BlockIf(b)
						thresholdOK = constant.Compare(ub, token.EQL, constant.MakeInt64(0))
					}
				}
			}
			decOK := false
			for _, sp := range spendsIn(fn, field) {
				if k, _ := isSpend(sp, field); k == 1 {
					decOK = true
					if errEdge != nil && core.EdgeDominates(*errEdge, sp.Block()) {
						decOK = false
					}
				} else {
					decOK = false
					break
				}
			}
			errReturns := false
			if errEdge != nil {
				ei := core.ErrResultIndex(fn)
				errReturns = ei >= 0 && !reachFromBlock(fn, errEdge.To(), func(in ssa.Instruction) bool {
					ret, ok := in.(*ssa.Return)
					return ok && core.ResultNilness(ret, ei) != core.NonNil
				}, nil)
			}
			// the test looks at what is left BEFORE this step is charged: it is reachable without a decrement having run
			testFirst := false
			if testIf != nil {
				_, testFirst = core.Reach(fn, nil, func(in ssa.Instruction) bool { return in == testIf }, nil, isSpendOf(field))
			}
			c.Check(thresholdOK && decOK && errReturns && testFirst, fmt.Sprintf("%s#threshold:%s", core.FuncKey(fn), field), p.Pos(fn.Pos()), "fails iff remaining < 1 before the step is charged, otherwise decrements by 1", core.FuncKey(fn)+" does not fail exactly when the remaining "+field+" is <= 0 and decrement by exactly 1 otherwise (off-by-one in budget accounting: the counter is compared after it was decremented, on the wrong branch, against another bound, or by another amount)")
		}
	}

	// ---------------------------------------------------------------- linkbudget
	c.Rule("C15.linkbudget", "every call of LinkSystem.Load / Fill in package traversal is reachable from the entry of the function it belongs to (helpers expanded into their callers) only by passing a decrement of Budget.LinkBudget or the edge on which no budget is configured", 3)
	for _, fn := range tr.fns {
		if tr.absorbed(fn) {
			continue // a step of another function (the load and its budget test may sit in different steps): decided there, with the steps expanded
		}
		n := 0
		for _, ci := range core.CallsR(fn) {
			if !isBlockLoad(ci) {
				continue
			}
			// the function's own loads, and - for the functions of the recursion, which are the ones that test the budget -
			// the loads of the steps expanded into them
			if ci.Parent() != fn && !(tr.recursive(fn) && tr.absorbed(ci.Parent())) {
				continue
			}
			n++
			path, reached := core.Reach(fn, nil, isTarget(ci), noBudgetEdges(fn), isSpendOf("LinkBudget"))
			c.Check(!reached, fmt.Sprintf("%s#load%d", core.FuncKey(fn), n), p.Pos(ci.Pos()), "behind a link-budget spend", "a block load is reachable without the link budget having been spent: the link budget does not bound loads on this path", p.Witness(path)...)
		}
	}

	// ---------------------------------------------------------------- seen
	c.Rule("C15.seen", "in every walk function that consults Config.LinkVisitOnlyOnce: each block load it performs (directly or through its loading helper) is, on paths where LinkVisitOnlyOnce is true, behind a comma-ok lookup in SeenLinks whose hit edge cannot reach the load; in the visiting walk (the function with a phase parameter) the insertion into SeenLinks is behind the phase == traverse edge", 2)
	for _, fn := range tr.fns {
		if fn.Parent() != nil {
			continue
		}
		// a walk function that honours LinkVisitOnlyOnce: it (or a non-recursive helper of it) reads the flag and looks links up in SeenLinks
		consults, looksUp := false, false
		core.InstrsR(fn, func(in ssa.Instruction) {
			if g := in.Parent(); g != fn && tr.recursive(g) {
				return // part of the recursion below this function, looked at in its own right
			}
			if u, ok := in.(*ssa.UnOp); ok && core.IsFieldRef(u, "Config", "LinkVisitOnlyOnce") {
				consults = true
			}
			if lk, ok := in.(*ssa.Lookup); ok && lk.CommaOk && core.IsFieldRef(lk.X, "Progress", "SeenLinks") {
				looksUp = true
			}
		})
		if !consults || !looksUp || tr.absorbed(fn) {
			continue
		}
		key := core.FuncKey(fn)
		rg := core.RegionOf(fn)
		var loads []ssa.CallInstruction
		for _, ci := range core.CallsR(fn) {
			if isBlockLoad(ci) {
				loads = append(loads, ci)
			}
		}
		onceFalse := core.BoolEdgesWhere(fn, func(v ssa.Value) bool { return core.IsFieldRef(v, "Config", "LinkVisitOnlyOnce") }, false)
		isSeenGuard := func(ifi *ssa.If) bool {
			cnd, _ := core.CondPolarity(ifi.Cond)
			e, ok := rg.Canon(cnd).(*ssa.Extract)
			if !ok || e.Index != 1 {
				return false
			}
			lk, ok := e.Tuple.(*ssa.Lookup)
			return ok && lk.CommaOk && core.IsFieldRef(lk.X, "Progress", "SeenLinks")
		}
		for i, ld := range loads {
			okG, path := guardedByBlocked(fn, nil, ld, isIterNext, isSeenGuard, onceFalse)
			c.Check(okG, fmt.Sprintf("%s#seen-before-load%d", key, i+1), p.Pos(ld.Pos()), "seen-set consulted before loading", "with LinkVisitOnlyOnce a link load is reachable without a deciding lookup in SeenLinks: a link can be loaded twice", p.Witness(path)...)
		}
		if len(loads) == 0 {
			c.Undecided(key+"#seen-before-load", p.Pos(fn.Pos()), "the function consults LinkVisitOnlyOnce but no block load was found in it or its helpers")
		}
		if hasPhase(fn) {
			core.InstrsR(fn, func(in ssa.Instruction) {
				mu, ok := in.(*ssa.MapUpdate)
				if !ok || !core.IsFieldRef(mu.Map, "Progress", "SeenLinks") {
					return
				}
				trav := core.EdgesWhere(fn, func(r core.Rel) bool {
					cv := core.ConstVal(r.Y)
					return r.Op == token.EQL && isPhaseValue(r.X) && cv != nil
				})
				path, reached := core.Reach(fn, nil, isTarget(in), trav, nil)
				c.Check(len(trav) > 0 && !reached, key+"#seen-insert-traverse-only", p.Pos(mu.Pos()), "recorded only in the traverse phase", "a link is recorded as seen outside the traverse phase (the preload pass would make the real pass skip it)", p.Witness(path)...)
			})
		}
	}

	// ---------------------------------------------------------------- startgate
	c.Rule("C15.startgate", "the start path only matters until it has been passed: in package traversal every comparison of a child's segment with a segment of Config.StartAtPath (PathSegment.Equals with an operand taken from StartAtPath.Segments()) is reachable only over the edge on which Progress.PastStartAtPath was found false - once the walk is past the start path no child is ever skipped (or chosen) because of it", 1)
	for _, fn := range tr.fns {
		var cmps []ssa.CallInstruction
		for _, ci := range core.Calls(fn) {
			if !core.IsMethod(ci, "", "PathSegment", "Equals") {
				continue
			}
			fromStart := false
			ops := append([]ssa.Value{}, ci.Common().Args...)
			if ci.Common().IsInvoke() {
				ops = append(ops, ci.Common().Value)
			}
			for _, a := range ops {
				for w := range core.BackSlice(a, core.SliceOpts{Stores: true, Indices: false, ThroughCalls: true}) {
					if cl, ok := w.(*ssa.Call); ok && core.IsMethod(cl, "", "Path", "Segments") {
						for w2 := range core.BackSlice(core.Receiver(cl), core.SliceOpts{Stores: true}) {
							if core.IsFieldRef(w2, "Config", "StartAtPath") {
								fromStart = true
							}
						}
					}
				}
			}
			if fromStart {
				cmps = append(cmps, ci)
			}
		}
		if len(cmps) == 0 {
			continue
		}
		// the function that owns the variables a closure tests is the closure's parent: edges are looked for in the
		// function the comparison stands in
		isPast := func(v ssa.Value) bool { return core.IsFieldRef(v, "Progress", "PastStartAtPath") }
		notPast := core.BoolEdgesWhere(fn, isPast, false)
		for i, cmp := range cmps {
			path, reached := core.Reach(fn, nil, isTarget(cmp), notPast, nil)
			c.Check(len(notPast) > 0 && !reached, fmt.Sprintf("%s#start-compare%d", core.FuncKey(fn), i+1), p.Pos(cmp.Pos()), "compared only while not past the start path", "a child's segment is compared with the start path on a path where Progress.PastStartAtPath was not found false: after the start path has been passed, children of later subtrees can still be skipped for not lying on it", p.Witness(path)...)
		}
	}

	// ---------------------------------------------------------------- seeninit
	c.Rule("C15.seeninit", "the set of links already visited lives as long as the walk: a function that stores a freshly made map into Progress.SeenLinks is never called from a function that lies on a recursion cycle of package traversal (each level of a recursive walk would otherwise start with an empty set, and LinkVisitOnlyOnce would only de-duplicate links among siblings)", 1)
	for _, fn := range tr.fns {
		var makes []*ssa.Store
		core.Instrs(fn, func(in ssa.Instruction) {
			st, ok := in.(*ssa.Store)
			if !ok {
				return
			}
			if _, isMake := core.Strip(st.Val).(*ssa.MakeMap); isMake && core.IsFieldRef(st.Addr, "Progress", "SeenLinks") {
				makes = append(makes, st)
			}
		})
		if len(makes) == 0 {
			continue
		}
		// every function of the package that can run fn inside a recursion: callers (transitively, through functions
		// that are not API entry points of their own recursion) that lie on a cycle
		var bad []string
		for _, g := range tr.fns {
			if !tr.recursive(g) {
				continue
			}
			for _, h := range tr.succs(g) {
				if h == fn {
					bad = append(bad, core.FuncKey(g))
				}
			}
		}
		sort.Strings(bad)
		if tr.recursive(fn) {
			bad = append(bad, core.FuncKey(fn)+" (itself recursive)")
		}
		c.Check(len(bad) == 0, core.FuncKey(fn)+"#seen-set-created-once", p.Pos(makes[0].Pos()), "the seen-set is created outside the recursion", "the function that creates Progress.SeenLinks afresh is called from inside a recursive walk: "+strings.Join(bad, ", ")+" - every level of that walk forgets the links seen so far, so a link reachable at two depths is loaded twice despite LinkVisitOnlyOnce")
	}

	// ---------------------------------------------------------------- skip
	c.Rule("C15.skip", "in the visiting walk (the function with a phase parameter that loads blocks, helpers expanded) the loader's error is tested for the SkipMe type and that case returns nil: skipping a block removes exactly that subtree and is not an error", 1)
	for _, fn := range tr.fns {
		if fn.Parent() != nil || !hasPhase(fn) {
			continue
		}
		loadsBlocks := false
		for _, ci := range core.CallsR(fn) {
			if isBlockLoad(ci) {
				loadsBlocks = true
			}
		}
		if !loadsBlocks || tr.absorbed(fn) {
			continue
		}
		key := core.FuncKey(fn)
		rg := core.RegionOf(fn)
		ei := core.ErrResultIndex(fn)
		ok := false
		for _, b := range fn.Blocks {
			ifi := core.BlockIf(b)
			if ifi == nil {
				continue
			}
			cnd, neg := core.CondPolarity(ifi.Cond)
			e, isE := rg.Canon(cnd).(*ssa.Extract)
			if !isE || e.Index != 1 {
				continue
			}
			ta, isTA := e.Tuple.(*ssa.TypeAssert)
			if !isTA || !ta.CommaOk {
				continue
			}
			if nt := namedOfType(ta.AssertedType); nt == nil || nt.Obj().Name() != "SkipMe" {
				continue
			}
			succ := 0
			if neg {
				succ = 1
			}
			// the is-SkipMe edge leads only to returns with a nil error
			onlyNil := ei >= 0 && !reachFromBlock(fn, b.Succs[succ], func(in ssa.Instruction) bool {
				ret, isR := in.(*ssa.Return)
				return isR && core.ResultNilness(ret, ei) != core.IsNil
			}, nil)
			if onlyNil {
				ok = true
			}
		}
		c.Check(ok, key+"#skipme-is-silent", p.Pos(fn.Pos()), "SkipMe becomes a nil return", "the visiting walk does not turn a SkipMe error from the loader into a silent nil return")
	}
}
