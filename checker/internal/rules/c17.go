package rules

import (
	"fmt"
	"go/constant"
	"go/token"
	"go/types"
	"sort"
	"strings"

	"golang.org/x/tools/go/ssa"

	"verif/checker/internal/core"
)

func init() {
	register(&Def{
		ID: "C17",
		Explanation: "Structural necessary conditions of 'block storage is a faithful map': in fsstore every path handed to the os package is classified by provenance (base / staging / destination / destination directory) and none derives from a raw key; the key reaches the sharding function only as the result of the configured escaping function; memstore and cidlink.Memory never store the caller's slice and Get returns a fresh copy; the feature-detection fall-backs in package storage and the LinkSystem glue pass the caller's key unchanged. " +
			"Map semantics over histories and sharding arithmetic are not decided.",
		NotCovered: []string{"map semantics over put/get histories", "aliasing after sharding/escaping (injectivity of base32 is trusted)", "the empty-key abort sentinel of fsstore.Put (observed: Put(ctx, \"\", ..) succeeds without storing)"},
		Trusted:    []string{"go/ssa, go/types", "base32 encoding is injective and yields no path separators or dot segments", "filepath.Join / Dir semantics"},
		Run:        runC17,
	})
	register(&Def{
		ID:          "C18",
		Explanation: "Structural argument for fsstore write atomicity, decided from the shape of the code: (1) destination paths are only ever created by os.Rename from a staging file; write-mode opens happen only on staging paths with O_CREATE|O_EXCL; Remove only touches staging files; Mkdir only destination directories or the staging directory; no other mutating os function is used; (2) in the commit closure Close of the staging file dominates the rename and the rename is unreachable when Close failed; (3) the io.Writer handed to the caller is that staging file; (4) Put aborts (commit with the empty key) on a write error and the abort branch removes the staging file and cannot reach the rename. With POSIX rename atomicity (trusted) a key is absent or complete at every instant. No crash point or schedule is executed.",
		NotCovered:  []string{"durability across power loss (no fsync; outside the property, which speaks of process death)", "the EEXIST race in haveDir (a spurious error, not a partial block)", "actual crash/interleaving exploration"},
		Trusted:     []string{"go/ssa, go/types", "rename(2) is atomic; O_EXCL creation is exclusive", "crypto/rand staging names do not collide with keys (they live in a directory no key maps to)"},
		Run:         runC18,
	})
}

// ---- path provenance classes for storage/fsstore ----

type pathClass int

const (
	pcOther pathClass = iota
	pcBase
	pcStagingDir
	pcStaging
	pcDest
	pcDestDir
	pcRawKey
	pcConst
	pcRandom
	pcUnderBase
	pcDestOrDir // a destination path or one of its parent directories (the join of DEST and DESTDIR)
)

const pcBottom pathClass = -1 // nothing known yet (a recursion in progress): the identity of joinPC

// joinPC joins the classes of two values that can both arrive at one place.
func joinPC(a, b pathClass) pathClass {
	switch {
	case a == pcBottom:
		return b
	case b == pcBottom || a == b:
		return a
	}
	isD := func(c pathClass) bool { return c == pcDest || c == pcDestDir || c == pcDestOrDir }
	if isD(a) && isD(b) {
		return pcDestOrDir
	}
	return pcOther
}

func (c pathClass) String() string {
	if c == pcBottom {
		return "UNKNOWN"
	}
	return [...]string{"OTHER", "BASE", "STAGINGDIR", "STAGING", "DEST", "DESTDIR", "RAWKEY", "CONST", "RANDOM", "UNDERBASE", "DEST-OR-DIR"}[c]
}

type fsFacts struct {
	p         *core.Program
	fns       []*ssa.Function
	inPkg     map[*ssa.Function]bool
	keyToPath map[*ssa.Function]bool // (kept for compatibility; destinations are recognised through destSlots)
	destSlots map[*ssa.Alloc]bool    // local slices that hold [basepath, shards of escapingFunc(key)...]
	memo      map[ssa.Value]pathClass
	busy      map[ssa.Value]bool
	hitBusy   bool   // a value under classification was met again: results computed meanwhile are provisional
	staging   string // constant value of the staging directory name
	// the unexported fields of fsstore.Store, found by their types: the base path (the string), the escaping
	// function (string -> string) and the sharding function (key, *[]string)
	baseF, escF, shardF string
	cfgT                string // the struct type that holds them: Store, or the unexported configuration struct Store holds
}

func gatherFS(p *core.Program) *fsFacts {
	f := &fsFacts{p: p, inPkg: map[*ssa.Function]bool{}, keyToPath: map[*ssa.Function]bool{}, memo: map[ssa.Value]pathClass{}, busy: map[ssa.Value]bool{}}
	for _, fn := range p.ModFns {
		if pk := core.FuncPkg(fn); pk != nil && core.RelPkg(pk.Path()) == "storage/fsstore" && len(fn.Blocks) > 0 && fn.Synthetic == "" {
			f.fns = append(f.fns, fn)
			f.inPkg[fn] = true
		}
	}
	st := p.NamedType("storage/fsstore", "Store")
	isEsc := func(v *types.Var) bool {
		sig, ok := v.Type().Underlying().(*types.Signature)
		return ok && sig.Params().Len() == 1 && sig.Results().Len() == 1 && isString(sig.Params().At(0).Type()) && isString(sig.Results().At(0).Type())
	}
	isShard := func(v *types.Var) bool {
		sig, ok := v.Type().Underlying().(*types.Signature)
		if !ok || sig.Params().Len() != 2 || sig.Results().Len() != 0 {
			return false
		}
		_, isPtr := sig.Params().At(1).Type().Underlying().(*types.Pointer)
		return isString(sig.Params().At(0).Type()) && isPtr
	}
	// the configuration lives in Store itself, or bundled in one unexported struct that Store holds (by value or pointer)
	f.cfgT = "Store"
	owner := st
	if st != nil && oneField(st, isEsc) == "" {
		if sst, ok := st.Underlying().(*types.Struct); ok {
			for i := 0; i < sst.NumFields(); i++ {
				ft := sst.Field(i).Type()
				if pt, ok := ft.Underlying().(*types.Pointer); ok {
					ft = pt.Elem()
				}
				if nt := namedOfType(ft); nt != nil && nt.Obj().Pkg() == st.Obj().Pkg() && oneField(nt, isEsc) != "" {
					owner, f.cfgT = nt, nt.Obj().Name()
				}
			}
		}
	}
	f.baseF = oneField(owner, func(v *types.Var) bool { return isString(v.Type()) })
	f.escF = oneField(owner, isEsc)
	f.shardF = oneField(owner, isShard)
	return f
}

// analyseKeyToPath establishes where keys become paths. Wherever the sharding function is called (in a key-to-path
// helper today; inlined into its callers just as well): its key argument is escapingFunc(key parameter), and the slice
// it extends - a local whose element 0 is the base path and which receives nothing else - is then a "destination
// slot": filepath.Join of a destination slot is a key's destination path (class DEST).
func (f *fsFacts) analyseKeyToPath(c *core.Ctx) {
	p := f.p
	if f.destSlots == nil {
		f.destSlots = map[*ssa.Alloc]bool{}
	}
	for _, fn := range f.fns {
		var shardCalls []*ssa.Call
		for _, ci := range core.Calls(fn) {
			if cv := core.CallValue(ci); cv != nil && fieldFuncCall(ci, f.cfgT, f.shardF) {
				shardCalls = append(shardCalls, cv)
			}
		}
		if len(shardCalls) == 0 {
			continue
		}
		key := core.FuncKey(fn)
		for i, sc := range shardCalls {
			sfx := ""
			if len(shardCalls) > 1 {
				sfx = fmt.Sprintf("%d", i+1)
			}
			arg := core.Strip(sc.Call.Args[0])
			ec, ok := arg.(*ssa.Call)
			escOK := ok && fieldFuncCall(ec, f.cfgT, f.escF)
			if escOK {
				// the escaping function's argument is a string parameter (the key)
				_, isParam := core.Strip(ec.Call.Args[0]).(*ssa.Parameter)
				escOK = isParam
			}
			good := c.Check(escOK, key+"#shard-arg-escaped"+sfx, p.Pos(sc.Pos()), "the sharding function receives escapingFunc(key)", "the sharding function receives a key that did not pass through the configured escaping function (raw key bytes such as '/' or '..' reach the filesystem path)")
			// the slice the sharding function appends to: a local whose element 0 is the base path
			slot, _ := sc.Call.Args[1].(*ssa.Alloc)
			hasBase, foreign := false, false
			if slot != nil {
				isSlotLoad := func(v ssa.Value) bool {
					u, ok := v.(*ssa.UnOp)
					return ok && u.X == ssa.Value(slot)
				}
				core.Instrs(fn, func(in ssa.Instruction) {
					switch x := in.(type) {
					case *ssa.Store:
						if ia, ok := x.Addr.(*ssa.IndexAddr); ok && isSlotLoad(ia.X) {
							if i, isC := core.ConstInt(ia.Index); isC && i == 0 && core.IsFieldRef(x.Val, f.cfgT, f.baseF) {
								hasBase = true
							} else {
								foreign = true // any other element store is not part of the accepted shape
							}
						}
						if x.Addr == ssa.Value(slot) {
							// whole-slice stores: only the initial make/slice
							for w := range core.BackSlice(x.Val, core.SliceOpts{Local: true}) {
								if prm, ok := w.(*ssa.Parameter); ok && isString(prm.Type()) {
									foreign = true
								}
							}
						}
					case ssa.CallInstruction:
						for _, a := range x.Common().Args {
							if a == ssa.Value(slot) && !fieldFuncCall(x, f.cfgT, f.shardF) {
								foreign = true
							}
						}
					}
				})
			}
			okSlot := c.Check(slot != nil && hasBase && !foreign, key+"#result-join"+sfx, p.Pos(sc.Pos()), "the sharded slice is [basepath] extended only by the sharding function", "the slice handed to the sharding function is not exactly [basepath] extended by the sharding function: something else ends up in the joined path")
			if good && okSlot {
				f.destSlots[slot] = true
			}
		}
	}
}

// classifyResult joins the classes of what a package function returns as result idx (failure returns aside).
func (f *fsFacts) classifyResult(cal *ssa.Function, idx int) pathClass {
	cls := pathClass(-1)
	ei := core.ErrResultIndex(cal)
	for _, ret := range core.Returns(cal) {
		if idx >= len(ret.Results) {
			return pcOther
		}
		if ei >= 0 && ei != idx && core.ResultNilness(ret, ei) == core.NonNil {
			continue
		}
		for _, rv := range core.ResultValues(ret, idx) {
			if core.IsZeroMarker(rv) {
				continue
			}
			c2 := f.classifyB(rv)
			cls = joinPC(cls, c2)
		}
	}
	if cls == -1 {
		return pcOther
	}
	return cls
}

// inPkgOrClosure: fn is a function of the package or a closure inside one.
func (f *fsFacts) inPkgOrClosure(fn *ssa.Function) bool {
	for g := fn; g != nil; g = g.Parent() {
		if f.inPkg[g] {
			return true
		}
	}
	return false
}

func isString(t types.Type) bool {
	b, ok := t.Underlying().(*types.Basic)
	return ok && b.Kind() == types.String
}

// classify determines the provenance class of a string value used as a path.
func (f *fsFacts) classify(v ssa.Value) pathClass {
	c := f.classifyB(v)
	if c == pcBottom {
		return pcOther
	}
	return c
}

// classifyB is classify that may answer pcBottom for a value whose class is being established further up (a helper
// that calls itself with a value derived from its own parameter): the joins above it ignore that operand.
func (f *fsFacts) classifyB(v ssa.Value) pathClass {
	v = core.Strip(v)
	if c, ok := f.memo[v]; ok {
		return c
	}
	if f.busy[v] {
		f.hitBusy = true
		return pcBottom
	}
	f.busy[v] = true
	c := f.classify1(v)
	delete(f.busy, v)
	if len(f.busy) == 0 {
		f.hitBusy = false
		f.memo[v] = c
	} else if !f.hitBusy {
		f.memo[v] = c
	}
	return c
}

func (f *fsFacts) classify1(v ssa.Value) pathClass {
	switch x := v.(type) {
	case *ssa.Const:
		return pcConst
	case *ssa.Field:
		// a field of a small state struct of the package (the captured values of a commit step turned into a type)
		if cls, ok := f.classifyStructField(x.X.Type(), x.Field); ok {
			return cls
		}
	case *ssa.UnOp:
		if x.Op == token.MUL {
			if core.IsFieldRef(x, f.cfgT, f.baseF) {
				return pcBase
			}
			if fa, ok := x.X.(*ssa.FieldAddr); ok {
				if cls, ok := f.classifyStructField(fa.X.Type(), fa.Field); ok {
					return cls
				}
			}
			switch a := x.X.(type) {
			case *ssa.Alloc:
				return f.classifyAlloc(a)
			case *ssa.FreeVar:
				// variable captured by reference: resolve to the enclosing function's Alloc
				if al := boundAlloc(a); al != nil {
					return f.classifyAlloc(al)
				}
			}
		}
	case *ssa.FreeVar:
		fn := x.Parent()
		par := fn.Parent()
		idx := -1
		for i, fv := range fn.FreeVars {
			if fv == x {
				idx = i
			}
		}
		cls := pathClass(-1)
		if par != nil && idx >= 0 {
			core.Instrs(par, func(in ssa.Instruction) {
				if mc, ok := in.(*ssa.MakeClosure); ok && mc.Fn == ssa.Value(fn) {
					b := mc.Bindings[idx]
					// captured by reference: the binding is an Alloc holding the value
					var c2 pathClass
					if al, ok := b.(*ssa.Alloc); ok {
						c2 = f.classifyAlloc(al)
					} else {
						c2 = f.classify(b)
					}
					cls = joinPC(cls, c2)
				}
			})
		}
		if cls == -1 {
			return pcOther
		}
		return cls
	case *ssa.Alloc:
		return f.classifyAlloc(x)
	case *ssa.Parameter:
		fn := x.Parent()
		idx := core.ParamIndex(x)
		exported := fn.Object() != nil && fn.Object().Exported()
		if fn.Parent() != nil {
			// closure parameter: commit closures receive the key
			if isString(x.Type()) {
				return pcRawKey
			}
			return pcOther
		}
		if exported {
			// the exported initialiser's parameter that is stored into the base-path field
			isBase := false
			for _, ref := range *x.Referrers() {
				if stI, ok := ref.(*ssa.Store); ok {
					if fa, ok := stI.Addr.(*ssa.FieldAddr); ok && core.FieldName(fa) == f.cfgT+"."+f.baseF {
						isBase = true
					}
				}
			}
			if !isBase && isString(x.Type()) {
				// ... or of an exported helper that the package itself only ever hands the base path
				sites, allBase := 0, true
				for _, g := range f.fns {
					for _, gg := range core.WithClosures(g) {
						for _, ci := range core.Calls(gg) {
							if a := core.ArgForParam(ci, idx); a != nil && core.CallsFunc(ci, fn) {
								sites++
								if f.classify(a) != pcBase {
									allBase = false
								}
							}
						}
					}
				}
				isBase = sites > 0 && allBase
			}
			if isBase {
				return pcBase
			}
			if isString(x.Type()) {
				return pcRawKey
			}
			return pcOther
		}
		// unexported helper: join over all static call sites in the package
		cls := pathClass(-1)
		for _, g := range f.fns {
			for _, gg := range core.WithClosures(g) {
				for _, ci := range core.Calls(gg) {
					if a := core.ArgForParam(ci, idx); a != nil && core.CallsFunc(ci, fn) {
						c2 := f.classifyB(a)
						cls = joinPC(cls, c2)
					}
				}
			}
		}
		if cls == -1 {
			return pcOther
		}
		return cls
	case *ssa.Phi:
		cls := pathClass(-1)
		for _, e := range x.Edges {
			c2 := f.classifyB(e)
			cls = joinPC(cls, c2)
		}
		return cls
	case *ssa.Extract:
		// a result of a helper of the package (a step of PutStream split off into its own function): what the helper returns
		if cl, ok := x.Tuple.(*ssa.Call); ok {
			if cal := cl.Call.StaticCallee(); cal != nil && f.inPkg[cal] {
				return f.classifyResult(cal, x.Index)
			}
		}
	case *ssa.Call:
		if cal := x.Call.StaticCallee(); cal != nil && f.keyToPath[cal] {
			return pcDest
		}
		if cal := x.Call.StaticCallee(); cal != nil && f.inPkg[cal] && cal.Signature.Results().Len() == 1 {
			return f.classifyResult(cal, 0)
		}
		if core.IsPkgFunc(x, "encoding/hex", "EncodeToString") {
			return pcRandom
		}
		if core.IsPkgFunc(x, "path/filepath", "Dir") {
			switch f.classifyB(x.Call.Args[0]) {
			case pcDest, pcDestDir, pcDestOrDir:
				return pcDestDir
			case pcBottom:
				return pcBottom
			}
			return pcOther
		}
		if core.IsPkgFunc(x, "path/filepath", "Join") {
			// Join of a destination slot: a key's destination path
			if u, ok := x.Call.Args[0].(*ssa.UnOp); ok {
				if slot, ok := u.X.(*ssa.Alloc); ok && f.destSlots[slot] {
					return pcDest
				}
			}
			// varargs slice: collect element values
			elems := f.varargElems(x.Call.Args[0])
			if len(elems) == 2 && f.classify(elems[0]) == pcBase && f.isStagingConst(elems[1]) {
				return pcStagingDir
			}
			if len(elems) == 3 && f.classify(elems[0]) == pcBase && f.isStagingConst(elems[1]) && f.classify(elems[2]) == pcRandom {
				return pcStaging
			}
			// under the base path and free of key material (not a recognised staging name, which C18 insists on)
			if len(elems) >= 2 && f.classify(elems[0]) == pcBase {
				keyFree := true
				for _, e := range elems[1:] {
					for w := range core.BackSlice(e, core.SliceOpts{ThroughCalls: true, Stores: true}) {
						if prm, ok := w.(*ssa.Parameter); ok && isString(prm.Type()) && f.classify(prm) == pcRawKey {
							keyFree = false
						}
					}
				}
				if keyFree {
					return pcUnderBase
				}
			}
			return pcOther
		}
	}
	return pcOther
}

// boundAlloc resolves a by-reference captured variable to its Alloc.
func boundAlloc(fv *ssa.FreeVar) *ssa.Alloc {
	fn := fv.Parent()
	par := fn.Parent()
	if par == nil {
		return nil
	}
	idx := -1
	for i, v := range fn.FreeVars {
		if v == fv {
			idx = i
		}
	}
	var out *ssa.Alloc
	core.Instrs(par, func(in ssa.Instruction) {
		if mc, ok := in.(*ssa.MakeClosure); ok && mc.Fn == ssa.Value(fn) && idx >= 0 {
			switch b := mc.Bindings[idx].(type) {
			case *ssa.Alloc:
				out = b
			case *ssa.FreeVar:
				out = boundAlloc(b)
			}
		}
	})
	return out
}

// classifyAlloc: a local variable captured by reference; class = join of stored values.
// fieldStores lists the values stored into field idx of the package's struct type t (anywhere in the package).
func (f *fsFacts) fieldStores(t types.Type, idx int) []ssa.Value {
	nt := namedOfType(t)
	if nt == nil || nt.Obj().Pkg() == nil || core.RelPkg(nt.Obj().Pkg().Path()) != "storage/fsstore" || nt.Obj().Name() == "Store" || nt.Obj().Name() == f.cfgT {
		return nil
	}
	var out []ssa.Value
	for _, g := range f.fns {
		for _, gg := range core.WithClosures(g) {
			core.Instrs(gg, func(in ssa.Instruction) {
				st, ok := in.(*ssa.Store)
				if !ok {
					return
				}
				fa, ok := st.Addr.(*ssa.FieldAddr)
				if !ok || fa.Field != idx {
					return
				}
				if n2 := namedOfType(fa.X.Type()); n2 != nil && n2.Obj() == nt.Obj() {
					out = append(out, st.Val)
				}
			})
		}
	}
	return out
}

// classifyStructField joins the classes of everything stored into that field.
func (f *fsFacts) classifyStructField(t types.Type, idx int) (pathClass, bool) {
	vals := f.fieldStores(t, idx)
	if len(vals) == 0 {
		return pcOther, false
	}
	cls := pathClass(-1)
	for _, v := range vals {
		c2 := f.classify(v)
		cls = joinPC(cls, c2)
	}
	return cls, true
}

func (f *fsFacts) classifyAlloc(al *ssa.Alloc) pathClass {
	cls := pathClass(-1)
	for _, fn := range core.WithClosures(al.Parent()) {
		core.Instrs(fn, func(in ssa.Instruction) {
			st, ok := in.(*ssa.Store)
			if !ok {
				return
			}
			root, path := st.Addr, ""
			_ = path
			if root == ssa.Value(al) {
				c2 := f.classify(st.Val)
				cls = joinPC(cls, c2)
			}
		})
	}
	if cls == -1 {
		return pcOther
	}
	return cls
}

func (f *fsFacts) isStagingConst(v ssa.Value) bool {
	s, ok := core.ConstString(core.Strip(v))
	if !ok || s == "" || strings.ContainsAny(s, "/\\") || s == ".." || s == "." {
		return false
	}
	if f.staging == "" {
		f.staging = s
	}
	return f.staging == s
}

// varargElems returns the values stored into the backing array of a varargs slice.
func (f *fsFacts) varargElems(v ssa.Value) []ssa.Value {
	sl, ok := v.(*ssa.Slice)
	if !ok {
		return nil
	}
	al, ok := sl.X.(*ssa.Alloc)
	if !ok {
		return nil
	}
	type ent struct {
		idx int64
		val ssa.Value
	}
	var ents []ent
	core.Instrs(al.Parent(), func(in ssa.Instruction) {
		st, ok := in.(*ssa.Store)
		if !ok {
			return
		}
		ia, ok := st.Addr.(*ssa.IndexAddr)
		if !ok || ia.X != ssa.Value(al) {
			return
		}
		i, _ := core.ConstInt(ia.Index)
		ents = append(ents, ent{i, st.Val})
	})
	sort.Slice(ents, func(i, j int) bool { return ents[i].idx < ents[j].idx })
	var out []ssa.Value
	for _, e := range ents {
		out = append(out, e.val)
	}
	return out
}

// osCall describes one call into package os.
type osCall struct {
	fn   *ssa.Function
	ci   ssa.CallInstruction
	name string
}

func (f *fsFacts) osCalls() []osCall {
	var out []osCall
	for _, fn := range f.fns {
		for _, g := range core.WithClosures(fn) {
			if g != fn && f.inPkg[g] {
				continue
			}
			for _, ci := range core.Calls(g) {
				o := core.CalleeObj(ci)
				if o == nil || o.Pkg() == nil || o.Pkg().Path() != "os" {
					continue
				}
				if o.Type().(*types.Signature).Recv() != nil {
					continue // methods on *os.File etc.
				}
				out = append(out, osCall{g, ci, o.Name()})
			}
		}
	}
	return out
}

// osPure lists os functions that neither touch paths nor mutate.
var osPure = map[string]bool{"IsExist": true, "IsNotExist": true, "IsPermission": true, "IsTimeout": true}

func runC17(c *core.Ctx) {
	p := c.P
	f := gatherFS(p)
	c.Rule("C17.escape", "fsstore: the sharding function receives escapingFunc(key); the key-to-path function returns Join(basepath, shards); every path argument of every os call is classified BASE/STAGINGDIR/STAGING/DEST/DESTDIR by provenance, none is a raw key or unclassifiable", 8)
	if len(f.fns) == 0 {
		c.Undecided("storage/fsstore", "-", "package not found")
	}
	f.analyseKeyToPath(c)
	if len(f.destSlots) == 0 {
		c.Fail("storage/fsstore#key-to-path", "-", "nothing maps keys to paths through escapingFunc and shardingFunc under the base path")
	}
	n := map[string]int{}
	for _, oc := range f.osCalls() {
		if osPure[oc.name] {
			continue
		}
		args := oc.ci.Common().Args
		for i, a := range args {
			if !isString(a.Type()) {
				continue
			}
			cls := f.classify(a)
			n[oc.name]++
			ck := fmt.Sprintf("%s#os.%s-arg%d[%s]", core.FuncKey(oc.fn), oc.name, i, cls)
			switch cls {
			case pcBase, pcStagingDir, pcStaging, pcDest, pcDestDir, pcUnderBase:
				c.OK(ck, p.Pos(oc.ci.Pos()), "path provenance: "+cls.String())
			default:
				c.Fail(ck, p.Pos(oc.ci.Pos()), "a filesystem call receives a path whose provenance is "+cls.String()+": not derived from the base path through the escaping and sharding functions or the staging directory")
			}
		}
	}
	c.Rule("C17.wholekey", "no function of the storage packages truncates a key: a string key parameter is never copied into a fixed-size array nor sliced with a constant upper bound on its way to the value that names the block (distinct keys must stay distinct)", 3)
	for _, fn := range p.ModFns {
		pk := core.FuncPkg(fn)
		if pk == nil || len(fn.Blocks) == 0 || fn.Synthetic != "" {
			continue
		}
		rel := core.RelPkg(pk.Path())
		if !strings.HasPrefix(rel, "storage") || rel == "storage/tests" || rel == "storage/benchmarks" {
			continue
		}
		var keys []*ssa.Parameter
		for _, prm := range fn.Params {
			if isString(prm.Type()) {
				keys = append(keys, prm)
			}
		}
		if len(keys) == 0 {
			continue
		}
		bad := ""
		var badPos token.Pos
		fromKey := func(v ssa.Value) bool {
			for w := range core.BackSlice(v, core.SliceOpts{Stores: true}) {
				for _, k := range keys {
					if w == ssa.Value(k) {
						return true
					}
				}
			}
			return false
		}
		core.Instrs(fn, func(in ssa.Instruction) {
			switch x := in.(type) {
			case *ssa.Slice:
				if x.High != nil && core.ConstVal(x.High) != nil && fromKey(x.X) {
					bad, badPos = "the key is sliced with a constant upper bound", x.Pos()
				}
			case ssa.CallInstruction:
				if b, ok := x.Common().Value.(*ssa.Builtin); ok && b.Name() == "copy" && fromKey(x.Common().Args[1]) {
					// destination rooted at a fixed-size array
					d := x.Common().Args[0]
					for w := range core.BackSlice(d, core.SliceOpts{}) {
						if al, ok := w.(*ssa.Alloc); ok {
							if _, isArr := al.Type().(*types.Pointer).Elem().Underlying().(*types.Array); isArr {
								bad, badPos = "the key is copied into a fixed-size array", x.Pos()
							}
						}
					}
				}
			}
		})
		c.Check(bad == "", core.FuncKey(fn)+"#whole-key", p.Pos(func() token.Pos {
			if badPos.IsValid() {
				return badPos
			}
			return fn.Pos()
		}()), "key used whole", bad+": keys longer than the bound alias one another")
	}

	c.Rule("C17.escapeuniform", "the escaping functions fsstore installs by itself (functions of the package stored into the escaping field, e.g. by InitDefaults) treat every key alike: every return hands back the result of the same encoding call applied to the key - all returns hand back the key itself, or all hand back the result of one and the same encoding call; never one or the other depending on what the key looks like (a mixed scheme maps a key and the spelled-out encoding of another key to one path)", 1)
	{
		f := gatherFS(p)
		var installed []*ssa.Function
		seenF := map[*ssa.Function]bool{}
		for _, g := range f.fns {
			for _, gg := range core.WithClosures(g) {
				core.Instrs(gg, func(in ssa.Instruction) {
					st, ok := in.(*ssa.Store)
					if !ok {
						return
					}
					fa, ok := st.Addr.(*ssa.FieldAddr)
					if !ok || core.FieldName(fa) != f.cfgT+"."+f.escF {
						return
					}
					var resolve func(v ssa.Value, depth int)
					resolve = func(v ssa.Value, depth int) {
						if depth > 4 {
							return
						}
						var fnv *ssa.Function
						switch x := core.Strip(v).(type) {
						case *ssa.Function:
							fnv = x
						case *ssa.MakeClosure:
							fnv, _ = x.Fn.(*ssa.Function)
						case *ssa.Phi:
							for _, e := range x.Edges {
								resolve(e, depth+1)
							}
						case *ssa.Parameter:
							// what the package itself passes for it
							idx := core.ParamIndex(x)
							for _, h := range f.fns {
								for _, hh := range core.WithClosures(h) {
									for _, ci := range core.Calls(hh) {
										if a := core.ArgForParam(ci, idx); a != nil && core.CallsFunc(ci, x.Parent()) {
											resolve(a, depth+1)
										}
									}
								}
							}
						}
						if fnv != nil && f.inPkgOrClosure(fnv) && !seenF[fnv] {
							seenF[fnv] = true
							installed = append(installed, fnv)
						}
					}
					resolve(st.Val, 0)
				})
			}
		}
		// a composite literal of the configuration struct stores the field as well (handled by the loop above: complits
		// are field stores in SSA)
		for _, g := range installed {
			if len(g.Params) == 0 {
				continue
			}
			key := g.Params[len(g.Params)-1]
			shape := ""
			bad := ""
			pos := g.Pos()
			for _, ret := range core.Returns(g) {
				for _, rv := range core.ResultValues(ret, 0) {
					this := "?"
					if core.Strip(rv) == ssa.Value(key) {
						this = "the key itself"
					} else if cl, ok := core.Strip(rv).(*ssa.Call); ok {
						o := core.CalleeObj(cl)
						fromKey := false
						for _, a := range cl.Call.Args {
							for w := range core.BackSlice(a, core.SliceOpts{Stores: true}) {
								if w == ssa.Value(key) {
									fromKey = true
								}
							}
						}
						if o != nil && fromKey {
							this = "the result of " + o.FullName() + " applied to the key"
						}
					}
					if this == "?" {
						bad, pos = "a return hands back something that is neither the key nor the result of an encoding call applied to the key", ret.Pos()
						continue
					}
					if shape == "" {
						shape = this
					} else if shape != this {
						bad, pos = "some returns hand back "+shape+", others "+this, ret.Pos()
					}
				}
			}
			c.Check(bad == "", core.FuncKey(g)+"#uniform-encoding", p.Pos(pos), "every key goes through the same encoding", bad+": the escaping is not injective across the two shapes of key, so differing keys can alias")
		}
		if len(installed) == 0 {
			c.Undecided("storage/fsstore#installed-escaping", "-", "no function of the package is stored into the escaping field")
		}
	}

	c.Rule("C17.streamfresh", "the writer a store hands out for a streaming put (result 0, of type io.Writer, of the stream-opening methods of the storage packages and of cidlink.Memory) is created by that very call - a local buffer or what a call such as os.OpenFile returned - and is never memory of the store itself (the address of one of its fields, a pointer kept in a field, a package-level variable): two streams open at the same time must not write into one buffer", 2)
	nsf := 0
	for _, fn := range p.ModFns {
		pk := core.FuncPkg(fn)
		if pk == nil || len(fn.Blocks) == 0 || fn.Synthetic != "" || fn.Parent() != nil || fn.Signature.Recv() == nil {
			continue
		}
		rel := core.RelPkg(pk.Path())
		if !(strings.HasPrefix(rel, "storage/") || rel == "linking/cid") || rel == "storage/tests" || rel == "storage/benchmarks" {
			continue
		}
		res := fn.Signature.Results()
		if res.Len() < 2 {
			continue
		}
		if nt := namedOfType(res.At(0).Type()); nt == nil || nt.Obj().Name() != "Writer" || nt.Obj().Pkg() == nil || nt.Obj().Pkg().Path() != "io" {
			continue
		}
		nsf++
		bad := ""
		pos := fn.Pos()
		for _, ret := range core.Returns(fn) {
			for _, rv := range core.ResultValues(ret, 0) {
				if core.IsNilConst(rv) || core.IsZeroMarker(rv) {
					continue
				}
				for w := range core.BackSlice(rv, core.SliceOpts{Stores: true}) {
					switch x := w.(type) {
					case *ssa.FieldAddr:
						root, _ := rootOfAddr(x)
						if _, isPrm := core.RegionOf(fn).Canon(root).(*ssa.Parameter); isPrm {
							bad, pos = "memory of the store ("+core.FieldName(x)+")", ret.Pos()
						}
					case *ssa.Global:
						if p.InModuleGlobal(x) {
							bad, pos = "package-level variable "+x.Name(), ret.Pos()
						}
					}
				}
			}
		}
		c.Check(bad == "", core.FuncKey(fn)+"#fresh-writer", p.Pos(pos), "each stream gets its own writer", "the writer handed out is "+bad+": a second stream opened before the first is committed writes into the same buffer, and both blocks are stored with mixed content")
	}
	if nsf == 0 {
		c.Undecided("storage#stream-openers", "-", "no stream-opening method found")
	}

	// the escaping function field is only written by Init-like configuration and is never nil-unsafe: every call of escapingFunc is reached with a field set in Init
	c.Rule("C17.noappendcaller", "the caller's buffers are read, not written: in the storage packages no append takes as its base a slice that came in through a parameter (or an element of one) - appending writes into the spare capacity of the caller's array, so blobs that are sub-slices of one buffer are overwritten before they are stored", 0)
	for _, fn := range p.ModFns {
		pk := core.FuncPkg(fn)
		if pk == nil || len(fn.Blocks) == 0 || fn.Synthetic != "" {
			continue
		}
		rel := core.RelPkg(pk.Path())
		if !(strings.HasPrefix(rel, "storage") && !strings.Contains(rel, "adapter") && !strings.Contains(rel, "tests") && !strings.Contains(rel, "benchmarks")) && rel != "linking/cid" && rel != "linking" {
			continue
		}
		n := 0
		for _, ci := range core.Calls(fn) {
			bi, ok := ci.Common().Value.(*ssa.Builtin)
			if !ok || bi.Name() != "append" || len(ci.Common().Args) == 0 {
				continue
			}
			base := ci.Common().Args[0]
			if _, isByteSlice := base.Type().Underlying().(*types.Slice); !isByteSlice {
				continue
			}
			from := ""
			for w := range core.BackSlice(base, core.SliceOpts{Local: true}) {
				if prm, ok := w.(*ssa.Parameter); ok {
					if _, isSlice := prm.Type().Underlying().(*types.Slice); isSlice && prm.Parent() == fn {
						from = prm.Name()
					}
				}
				// own result of an earlier append onto a fresh base is fine: only report when a parameter is at the root
			}
			if from == "" {
				continue
			}
			// a base cut to zero length and zero capacity (x[:0:0]) or a nil conversion is fresh; a 3-index slice with max == len is too
			if sl, ok := core.Strip(base).(*ssa.Slice); ok && sl.Max != nil {
				continue
			}
			n++
			c.Fail(fmt.Sprintf("%s#append-onto-parameter/%d", core.FuncKey(fn), n), p.Pos(ci.Pos()), "append writes into a slice that came in through parameter "+from+": when that slice has spare capacity (a sub-slice of a larger buffer) the caller's memory behind it is overwritten - other blobs of the same call, or data the caller still uses")
		}
	}

	c.Rule("C17.existsofrename", "\"something is already there\" is said by the rename and by nothing else: in fsstore, where a function that renames the staged file into place tests an error with os.IsExist (and then drops the staged file and reports success - the store is write-once), that error is the result of os.Rename on every incoming path, never the error of making the shard directory or of anything else - EEXIST from a concurrent mkdir would otherwise delete the staged block and report a put that stored nothing", 1)
	for _, fn := range p.ModFns {
		pk := core.FuncPkg(fn)
		if pk == nil || core.RelPkg(pk.Path()) != "storage/fsstore" || len(fn.Blocks) == 0 || fn.Synthetic != "" {
			continue
		}
		renames := false
		for _, ci := range core.Calls(fn) {
			if core.IsPkgFunc(ci, "os", "Rename") {
				renames = true
			}
		}
		if !renames {
			continue
		}
		n := 0
		for _, ci := range core.Calls(fn) {
			if !core.IsPkgFunc(ci, "os", "IsExist") {
				continue
			}
			n++
			other := ""
			for w := range core.BackSlice(ci.Common().Args[0], core.SliceOpts{Local: true}) {
				if cl, ok := w.(*ssa.Call); ok && !core.IsPkgFunc(cl, "os", "Rename") {
					if o := core.CalleeObj(cl); o != nil {
						other = o.Name()
					} else {
						other = "a call"
					}
				}
			}
			c.Check(other == "", fmt.Sprintf("%s#exists-test%d", core.FuncKey(fn), n), p.Pos(ci.Pos()), "the error tested with os.IsExist is the rename's", "the error tested with os.IsExist can be the result of "+other+": when two writers create one shard directory at the same time the loser's mkdir fails with EEXIST, this test takes it for \"content already stored\", removes the staged file and returns nil - Put reported success and the key is absent")
		}
	}

	c.Rule("C17.putstores", putStoresText, 2)
	checkPutStores(c, []struct{ rel, typ string }{{"storage/memstore", "Store"}, {"linking/cid", "Memory"}})

	c.Rule("C17.commitkey", "the link system ends a write with the link's own key and nothing else: in package linking, every call of the committer that storage.PutStream handed out passes a key that derives from Link.Binary() - never a constant (the empty key is the streaming API's abort signal, and the emulated committer of a Put-only store turns it into a put under the empty key)", 1)
	for _, fn := range p.ModFns {
		pk := core.FuncPkg(fn)
		if pk == nil || core.RelPkg(pk.Path()) != "linking" || len(fn.Blocks) == 0 || fn.Synthetic != "" {
			continue
		}
		rg := core.RegionOf(fn)
		n := 0
		for _, ci := range core.Calls(fn) {
			cc := ci.Common()
			if cc.IsInvoke() || cc.StaticCallee() != nil || len(cc.Args) != 1 {
				continue
			}
			// the called value is result 1 of storage.PutStream (possibly captured by the committer closure)
			isCommitter := false
			for w := range core.BackSlice(cc.Value, core.SliceOpts{Stores: true, Region: rg}) {
				if ex, ok := w.(*ssa.Extract); ok && ex.Index == 1 {
					if cl, ok := ex.Tuple.(*ssa.Call); ok && core.IsPkgFunc(cl, core.ModPath+"/storage", "PutStream") {
						isCommitter = true
					}
				}
			}
			if !isCommitter {
				continue
			}
			n++
			fromBinary := false
			for w := range core.BackSlice(cc.Args[0], core.SliceOpts{Stores: true, Region: rg}) {
				if cl, ok := w.(*ssa.Call); ok && cl.Call.IsInvoke() && cl.Call.Method.Name() == "Binary" {
					fromBinary = true
				}
			}
			_, isConst := core.Strip(cc.Args[0]).(*ssa.Const)
			c.Check(fromBinary && !isConst, fmt.Sprintf("%s#commit-key%d", core.FuncKey(fn), n), p.Pos(ci.Pos()), "the committer is given the link's binary key", "the storage committer is called with a key that is not the link's Binary() (a constant, the empty abort key): a store that emulates streaming on top of Put stores the buffered bytes under that key - a block nobody put appears in the store")
		}
	}

	c.Rule("C17.noretain", "memstore.Store and cidlink.Memory never place a caller-provided slice into their bag (the stored value derives from a fresh make/buffer of the store's own), and Get returns a fresh copy, not the stored slice", 3)
	for _, spec := range []struct{ rel, typ string }{{"storage/memstore", "Store"}, {"linking/cid", "Memory"}} {
		for _, fn := range p.ModFns {
			pk := core.FuncPkg(fn)
			if pk == nil || core.RelPkg(pk.Path()) != spec.rel || len(fn.Blocks) == 0 {
				continue
			}
			core.Instrs(fn, func(in ssa.Instruction) {
				mu, ok := in.(*ssa.MapUpdate)
				if !ok || !core.IsFieldRef(mu.Map, spec.typ, "Bag") {
					return
				}
				sl := core.BackSlice(mu.Value, core.SliceOpts{ThroughCallsIf: func(cl *ssa.Call) bool { return core.IsMethod(cl, "bytes", "Buffer", "Bytes") }, Stores: false})
				bad := ""
				fresh := false
				for w := range sl {
					switch x := w.(type) {
					case *ssa.Parameter:
						if _, isSlice := x.Type().Underlying().(*types.Slice); isSlice {
							bad = "parameter " + x.Name()
						}
						// the buffer of the write in progress handed to an unexported step of the store: its own when every
						// caller passes the address of a local (or captured local) bytes.Buffer
						if pt, isPtr := x.Type().Underlying().(*types.Pointer); isPtr && !fn.Object().Exported() {
							if bt := namedOfType(pt.Elem()); bt != nil && bt.Obj().Pkg() != nil && bt.Obj().Pkg().Path() == "bytes" && bt.Obj().Name() == "Buffer" {
								idx := core.ParamIndex(x)
								sites, own := 0, true
								for _, g := range p.ModFns {
									for _, ci := range core.Calls(g) {
										if ci.Common().StaticCallee() != fn || idx >= len(ci.Common().Args) {
											continue
										}
										sites++
										switch core.Strip(ci.Common().Args[idx]).(type) {
										case *ssa.Alloc, *ssa.FreeVar:
										default:
											own = false
										}
									}
								}
								if sites > 0 && own {
									fresh = true
								}
							}
						}
					case *ssa.MakeSlice:
						fresh = true
					case *ssa.Alloc:
						fresh = true
					case *ssa.FreeVar:
						// captured local buffer of the enclosing OpenWrite
						if _, isPtr := x.Type().Underlying().(*types.Pointer); isPtr {
							fresh = true
						}
					case *ssa.FieldAddr:
						// ... or that buffer kept in a field of the write-in-progress state (an unexported type of the
						// store's package holding a bytes.Buffer of its own)
						if fv := fieldVar(x); fv != nil {
							bt := namedOfType(fv.Type())
							on := namedOfType(x.X.Type())
							if bt != nil && bt.Obj().Pkg() != nil && bt.Obj().Pkg().Path() == "bytes" && bt.Obj().Name() == "Buffer" && on != nil && !on.Obj().Exported() {
								fresh = true
							}
						}
					}
				}
				c.Check(bad == "" && fresh, core.FuncKey(fn)+"#bag-store", p.Pos(mu.Pos()), "stored value is the store's own fresh copy/buffer", "the store keeps "+bad+" (or a value of unknown origin) in its bag: later mutation of the caller's buffer changes stored content")
			})
		}
	}
	if get := p.Func("storage/memstore", "*Store", "Get"); get != nil {
		for _, ret := range core.Returns(get) {
			if core.ResultNilness(ret, 1) == core.NonNil {
				continue
			}
			for _, v := range core.ResultValues(ret, 0) {
				sl := core.BackSlice(v, core.SliceOpts{})
				internal, fresh := false, false
				for w := range sl {
					if lk, ok := w.(*ssa.Lookup); ok && core.IsFieldRef(lk.X, "Store", "Bag") {
						internal = true
					}
					if _, ok := w.(*ssa.MakeSlice); ok {
						fresh = true
					}
				}
				c.Check(fresh && !internal, core.FuncKey(get)+"#get-copy", p.Pos(ret.Pos()), "Get returns a fresh copy", "Get hands out the stored slice itself")
			}
		}
	} else {
		c.Undecided("storage/memstore.(*Store).Get", "-", "not found")
	}

	c.Rule("C17.key", "the feature-detection fall-backs in package storage pass, wherever a storage method or committer takes a key, exactly the key parameter of the enclosing function/closure (no re-encoding, trimming or substitution)", 8)
	for _, fn := range p.ModFns {
		pk := core.FuncPkg(fn)
		if pk == nil || core.RelPkg(pk.Path()) != "storage" || len(fn.Blocks) == 0 || fn.Synthetic != "" {
			continue
		}
		for _, ci := range core.Calls(fn) {
			cc := ci.Common()
			isStorageCall := false
			if cc.IsInvoke() {
				if nt, ok := types.Unalias(cc.Value.Type()).(*types.Named); ok && nt.Obj().Pkg() != nil && core.RelPkg(nt.Obj().Pkg().Path()) == "storage" {
					isStorageCall = true
				}
			} else if cal := cc.StaticCallee(); cal != nil {
				if cpk := core.FuncPkg(cal); cpk != nil && core.RelPkg(cpk.Path()) == "storage" {
					isStorageCall = true
				}
			} else if _, isB := cc.Value.(*ssa.Builtin); !isB {
				isStorageCall = true // committer function value
			}
			if !isStorageCall {
				continue
			}
			for i, a := range cc.Args {
				if !isString(a.Type()) {
					continue
				}
				prm, ok := core.Strip(a).(*ssa.Parameter)
				c.Check(ok && prm.Parent() == fn, fmt.Sprintf("%s#key-arg%d->%s", core.FuncKey(fn), i, calleeNameCI(ci)), p.Pos(ci.Pos()), "key passed through unchanged", "a storage fall-back passes a key that is not the caller's key parameter unchanged")
			}
		}
	}
}

func calleeNameCI(ci ssa.CallInstruction) string {
	if o := core.CalleeObj(ci); o != nil {
		return o.Name()
	}
	return "funcvalue"
}

func runC18(c *core.Ctx) {
	p := c.P
	f := gatherFS(p)
	// establish key-to-path functions quietly (C17 reports their obligations)
	tmp := &core.Ctx{P: p, Prop: "C17"}
	tmp.Rule("tmp", "", 0)
	f.analyseKeyToPath(tmp)

	c.Rule("C18.rename-only", "every call into package os from fsstore is in the frozen effect table and its path arguments have the required provenance: write-mode OpenFile only on STAGING with O_CREATE|O_EXCL; Rename only STAGING -> DEST; Remove only STAGING; Mkdir only DESTDIR or STAGINGDIR; Stat and read-only OpenFile anywhere under the base; any other os function is an unclassified filesystem effect", 8)
	oflag := func(name string) int64 {
		if sp := p.ExtPkg("os"); sp != nil {
			if cn, ok := sp.Members[name].(*ssa.NamedConst); ok {
				if i, ok := constant.Int64Val(cn.Value.Value); ok {
					return i
				}
			}
		}
		return -1
	}
	oCreate, oExcl, oWronly, oRdwr, oAppend, oTrunc := oflag("O_CREATE"), oflag("O_EXCL"), oflag("O_WRONLY"), oflag("O_RDWR"), oflag("O_APPEND"), oflag("O_TRUNC")
	for _, oc := range f.osCalls() {
		if osPure[oc.name] {
			continue
		}
		args := oc.ci.Common().Args
		cls := func(i int) pathClass { return f.classify(args[i]) }
		ck := fmt.Sprintf("%s#os.%s", core.FuncKey(oc.fn), oc.name)
		pos := p.Pos(oc.ci.Pos())
		switch oc.name {
		case "Stat", "Lstat":
			c.Check(cls(0) != pcOther && cls(0) != pcRawKey, ck+"["+cls(0).String()+"]", pos, "read-only stat under the base", "stat of an unclassified path")
		case "OpenFile":
			fl, isC := core.ConstInt(args[1])
			if !isC {
				c.Fail(ck, pos, "OpenFile with non-constant flags")
				continue
			}
			write := fl&(oWronly|oRdwr|oCreate|oAppend|oTrunc) != 0
			if !write {
				c.Check(cls(0) == pcDest, ck+"[read "+cls(0).String()+"]", pos, "read-only open of a destination path", "read-only open of a path that is not a key's destination")
				continue
			}
			okF := fl&oCreate != 0 && fl&oExcl != 0 && fl&oTrunc == 0 && fl&oAppend == 0
			c.Check(cls(0) == pcStaging && okF, ck+"[write "+cls(0).String()+"]", pos, "write-mode open only of a fresh staging file with O_CREATE|O_EXCL", "a file is opened for writing that is not an exclusive new staging file (destination content could be observed partially written)")
		case "Rename":
			c.Check(cls(0) == pcStaging && cls(1) == pcDest, fmt.Sprintf("%s[%s->%s]", ck, cls(0), cls(1)), pos, "rename staging -> destination", "rename that is not STAGING -> DEST")
		case "Remove":
			c.Check(cls(0) == pcStaging, ck+"["+cls(0).String()+"]", pos, "removes only staging files", "removes a path that is not a staging file (a committed block could disappear)")
		case "Mkdir":
			c.Check(cls(0) == pcDestDir || cls(0) == pcStagingDir, ck+"["+cls(0).String()+"]", pos, "creates only destination directories / the staging directory", "creates a directory of unclassified provenance")
		default:
			c.Fail(ck, pos, "os."+oc.name+" is not in the table of filesystem effects the atomicity argument allows (destinations must only be created by rename from staging)")
		}
	}

	c.Rule("C18.commit", "in the commit closure of PutStream: Close of the staging file (the very file returned as the io.Writer) dominates the move/rename, the rename is unreachable when Close failed, the abort branch (empty key) removes the staging file and cannot reach the rename", 5)
	ps := p.Func("storage/fsstore", "*Store", "PutStream")
	// the committer(s): whatever function PutStream hands out as its second result - a function literal today, a
	// method value of a small state type just as well
	var committers []*ssa.Function
	if ps != nil {
		seenC := map[*ssa.Function]bool{}
		for _, ret := range core.Returns(ps) {
			if len(ret.Results) < 2 {
				continue
			}
			for _, v := range core.ResultValues(ret, 1) {
				if g := resolveFuncValue(v); g != nil && !seenC[g] {
					seenC[g] = true
					committers = append(committers, g)
				}
			}
		}
	}
	if ps == nil || len(committers) == 0 {
		c.Undecided("storage/fsstore.(*Store).PutStream", "-", "PutStream or the committer it returns not found")
	} else {
		key := core.FuncKey(ps)
		// the staging file: result 0 of the write-mode OpenFile
		var open *ssa.Call
		for _, ci := range core.CallsR(ps) {
			if core.IsPkgFunc(ci, "os", "OpenFile") {
				open = core.CallValue(ci)
			}
		}
		if open == nil {
			c.Undecided(key+"#open", p.Pos(ps.Pos()), "staging OpenFile not found")
		} else {
			errIdx := core.ErrResultIndex(ps)
			for _, ret := range core.Returns(ps) {
				if core.ResultNilness(ret, errIdx) == core.NonNil || core.ResultNilness(ret, 0) == core.IsNil {
					continue
				}
				okW := false
				for _, v := range core.ResultValues(ret, 0) {
					if f.isCapturedOpen(core.RegionOf(ps), v, open) {
						okW = true
					}
				}
				c.Check(okW, key+"#writer-is-staging-file", p.Pos(ret.Pos()), "the returned writer is the staging file", "the writer handed to the caller is not the staging file that gets renamed")
				// the open error is tested before success
				nilEdges := core.EdgesWhere(ps, func(r core.Rel) bool { return r.Op == token.EQL && extractOf(r.X, open, 1) && core.IsNilConst(r.Y) })
				path, reached := core.Reach(ps, open, successReturn(ret, errIdx), nilEdges, nil)
				c.Check(!reached, key+"#open-error-tested", p.Pos(ret.Pos()), "success only when the staging file was created", "PutStream can succeed although creating the staging file failed", p.Witness(path)...)
			}
			for _, cl := range committers {
				ck := core.FuncKey(cl)
				// calls that rename: os.Rename directly or a package helper reaching it
				var moves []ssa.CallInstruction
				var closes []*ssa.Call
				var removes []ssa.CallInstruction
				rgc := core.RegionOf(cl)
				for _, ci := range core.CallsR(cl) {
					if rgc.HelperOf(ci) != nil {
						continue // a helper the commit step was moved into: its body is looked at here, as part of the closure
					}
					if core.IsPkgFunc(ci, "os", "Rename") {
						moves = append(moves, ci)
					}
					if cal := ci.Common().StaticCallee(); cal != nil && f.inPkg[cal] && reachesOS(f, cal, "Rename", map[*ssa.Function]bool{}) {
						moves = append(moves, ci)
					}
					if cv := core.CallValue(ci); cv != nil && core.IsMethod(ci, "os", "File", "Close") {
						// receiver is the captured staging file
						if f.isCapturedOpen(rgc, core.Receiver(ci), open) {
							closes = append(closes, cv)
						}
					}
					if core.IsPkgFunc(ci, "os", "Remove") {
						removes = append(removes, ci)
					}
				}
				if len(moves) == 0 {
					continue
				}
				if len(closes) == 0 {
					c.Fail(ck+"#close", p.Pos(cl.Pos()), "commit closure renames without closing the staging file")
					continue
				}
				for _, mv := range moves {
					var nilEdges map[core.Edge]bool = map[core.Edge]bool{}
					for _, cz := range closes {
						for e := range core.EdgesWhere(cl, func(r core.Rel) bool {
							return r.Op == token.EQL && core.SameValue(r.X, cz) && core.IsNilConst(r.Y)
						}) {
							nilEdges[e] = true
						}
					}
					path, reached := core.Reach(cl, nil, isTarget(mv), nilEdges, nil)
					c.Check(!reached && len(nilEdges) > 0, ck+"#close-before-rename", p.Pos(mv.Pos()), "rename only behind the nil edge of Close's error", "the rename is reachable without the staging file having been closed successfully (a reader could see a partially flushed block)", p.Witness(path)...)
					// abort branch: key == "" edge cannot reach the rename
					abortEdges := core.EdgesWhere(cl, func(r core.Rel) bool {
						s, isS := core.ConstString(r.Y)
						_, isParam := rgc.Canon(r.X).(*ssa.Parameter)
						return r.Op == token.EQL && isS && s == "" && isParam
					})
					if len(abortEdges) == 0 {
						c.Fail(ck+"#abort-branch", p.Pos(cl.Pos()), "commit closure has no abort branch (empty key)")
					}
					for e := range abortEdges {
						c.Check(!reachFromBlock(cl, e.To(), isTarget(mv), nil), ck+"#abort-no-rename", p.Pos(mv.Pos()), "abort branch cannot reach the rename", "the abort branch can reach the rename")
						rem := false
						for _, rm := range removes {
							if reachFromBlock(cl, e.To(), isTarget(rm), nil) {
								rem = true
							}
						}
						c.Check(rem, ck+"#abort-removes", p.Pos(cl.Pos()), "abort branch removes the staging file", "abort branch does not remove the staging file")
					}
				}
			}
		}
	}

	c.Rule("C18.abort", "Put: on a failed Write every path to a return passes a call of the committer with the empty (abort) key, and the committing call receives the key parameter", 2)
	if put := p.Func("storage/fsstore", "*Store", "Put"); put != nil {
		key := core.FuncKey(put)
		var psCall *ssa.Call
		for _, ci := range core.Calls(put) {
			if cal := ci.Common().StaticCallee(); cal != nil && cal == ps {
				psCall = core.CallValue(ci)
			}
		}
		var write *ssa.Call
		for _, ci := range core.CallsR(put) {
			if cv := core.CallValue(ci); cv != nil && core.IsMethodNamed(ci, "Write") && psCall != nil && extractOf(core.Receiver(ci), psCall, 0) {
				write = cv
			}
		}
		if psCall == nil || write == nil {
			c.Undecided(key+"#anchors", p.Pos(put.Pos()), "PutStream call / Write call not found")
		} else {
			isAbort := func(in ssa.Instruction) bool {
				ci, ok := in.(ssa.CallInstruction)
				if !ok || ci.Common().IsInvoke() || !extractOf(ci.Common().Value, psCall, 1) {
					return false
				}
				s, isS := core.ConstString(ci.Common().Args[0])
				return isS && s == ""
			}
			nilEdges := core.EdgesWhere(put, func(r core.Rel) bool { return r.Op == token.EQL && extractOf(r.X, write, 1) && core.IsNilConst(r.Y) })
			isRet := func(in ssa.Instruction) bool { _, ok := in.(*ssa.Return); return ok }
			path, reached := core.Reach(put, write, isRet, nilEdges, isAbort)
			c.Check(!reached && len(nilEdges) > 0, key+"#abort-on-write-error", p.Pos(write.Pos()), "a failed Write aborts the staging file before returning", "after a failed Write a return is reachable without aborting (a partial staging file could later be committed or leak)", p.Witness(path)...)
			for _, ci := range core.CallsR(put) {
				if ci.Common().IsInvoke() || !extractOf(ci.Common().Value, psCall, 1) || isAbort(ci) {
					continue
				}
				prm, ok := core.RegionOf(put).Canon(ci.Common().Args[0]).(*ssa.Parameter)
				c.Check(ok && prm.Parent() == put, key+"#commit-key", p.Pos(ci.Pos()), "commits under the caller's key", "commits under something other than the key parameter")
				// commit unreachable after a failed write
				path, reached := core.Reach(put, write, isTarget(ci), nilEdges, nil)
				c.Check(!reached, key+"#commit-after-ok-write", p.Pos(ci.Pos()), "commit only after a successful Write", "commit reachable after a failed Write (partial content renamed into place)", p.Witness(path)...)
			}
		}
	} else {
		c.Undecided("storage/fsstore.(*Store).Put", "-", "not found")
	}

	c.Rule("C18.streamcommit", "every function of the storage packages that drives a streaming put - it obtains a writer and a committer from a PutStream-shaped call (results io.Writer, func(string) error, error) and writes to that writer - can reach a committing call (the committer with anything but the constant empty key) only over the nil edge of every Write's error: a block whose write failed midway is never committed under its key", 2)
	nstream := 0
	for _, fn := range p.ModFns {
		pk := core.FuncPkg(fn)
		if pk == nil || len(fn.Blocks) == 0 || fn.Synthetic != "" || fn.Parent() != nil {
			continue
		}
		rel := core.RelPkg(pk.Path())
		if !(rel == "storage" || strings.HasPrefix(rel, "storage/")) || rel == "storage/tests" || rel == "storage/benchmarks" {
			continue
		}
		for _, ci := range core.Calls(fn) {
			psv := core.CallValue(ci)
			if psv == nil {
				continue
			}
			res, ok := psv.Type().(*types.Tuple)
			if !ok || res.Len() != 3 || !core.IsErrorType(res.At(2).Type()) {
				continue
			}
			if nt := namedOfType(res.At(0).Type()); nt == nil || nt.Obj().Name() != "Writer" || nt.Obj().Pkg() == nil || nt.Obj().Pkg().Path() != "io" {
				continue
			}
			if sig, ok := res.At(1).Type().Underlying().(*types.Signature); !ok || sig.Params().Len() != 1 || !isString(sig.Params().At(0).Type()) {
				continue
			}
			var writes []*ssa.Call
			for _, cj := range core.CallsR(fn) {
				if cv := core.CallValue(cj); cv != nil && core.IsMethodNamed(cj, "Write") && extractOf(core.Receiver(cj), psv, 0) {
					writes = append(writes, cv)
				}
			}
			if len(writes) == 0 {
				continue
			}
			for _, cj := range core.CallsR(fn) {
				if cj.Common().IsInvoke() || cj.Common().StaticCallee() != nil || !extractOf(cj.Common().Value, psv, 1) {
					continue
				}
				if s0, isS := core.ConstString(cj.Common().Args[0]); isS && s0 == "" {
					continue // the abort
				}
				nstream++
				bad := false
				var wp []string
				for _, w := range writes {
					w := w
					nilEdges := core.EdgesWhere(fn, func(r core.Rel) bool { return r.Op == token.EQL && extractOf(r.X, w, 1) && core.IsNilConst(r.Y) })
					if path, reached := core.Reach(fn, w, isTarget(cj), nilEdges, func(in ssa.Instruction) bool { return in == ssa.Instruction(w) }); reached || len(nilEdges) == 0 {
						bad = true
						wp = p.Witness(path)
					}
				}
				c.Check(!bad, core.FuncKey(fn)+"#commit-only-after-ok-writes", p.Pos(cj.Pos()), "commit only after every Write succeeded", "the committer is reachable with the block's key after a Write that failed (or whose error was never tested): a partially written block is committed and readers see truncated content under the key", wp...)
			}
		}
	}
	if nstream == 0 {
		c.Undecided("storage#streaming-puts", "-", "no function of the storage packages drives a streaming put (PutVec / Put were expected)")
	}
}

func reachesOS(f *fsFacts, fn *ssa.Function, name string, seen map[*ssa.Function]bool) bool {
	if seen[fn] {
		return false
	}
	seen[fn] = true
	for _, ci := range core.Calls(fn) {
		if core.IsPkgFunc(ci, "os", name) {
			return true
		}
		if cal := ci.Common().StaticCallee(); cal != nil && f.inPkg[cal] && reachesOS(f, cal, name, seen) {
			return true
		}
	}
	return false
}

// isCapturedOpen: v is (a free variable bound to) result 0 of the OpenFile call.
func (f *fsFacts) isCapturedOpen(rg *core.Region, v ssa.Value, open *ssa.Call) bool {
	v = core.Strip(v)
	if extractOf(v, open, 0) {
		return true
	}
	sl := core.BackSlice(v, core.SliceOpts{Stores: true, Region: rg})
	for w := range sl {
		if extractOf(w, open, 0) {
			return true
		}
	}
	// the file kept in a field of a small state struct of the package (a commit closure turned into a method)
	for w := range sl {
		var t types.Type
		idx := -1
		switch x := w.(type) {
		case *ssa.Field:
			t, idx = x.X.Type(), x.Field
		case *ssa.FieldAddr:
			t, idx = x.X.Type(), x.Field
		}
		if idx < 0 {
			continue
		}
		for _, sv := range f.fieldStores(t, idx) {
			if extractOf(sv, open, 0) {
				return true
			}
			for w2 := range core.BackSlice(sv, core.SliceOpts{Stores: true}) {
				if extractOf(w2, open, 0) {
					return true
				}
			}
		}
	}
	return false
}

const putStoresText = "a put that reports success has stored: in memstore.Store and cidlink.Memory, every function (or commit closure) that places a value into the store's bag returns a nil error only on a path that passed the placement - or found the key present already (the comma-ok read of the bag) - there is no way out that says \"stored\" and stored nothing (a block kind the store decides to answer from somewhere else, a size it does not want)"

// checkPutStores is shared by C17 (a successful put is readable) and C05 (what was stored loads back).
func checkPutStores(c *core.Ctx, specs []struct{ rel, typ string }) {
	p := c.P
	for _, spec := range specs {
		for _, fn := range p.ModFns {
			pk := core.FuncPkg(fn)
			if pk == nil || core.RelPkg(pk.Path()) != spec.rel || len(fn.Blocks) == 0 || fn.Synthetic != "" {
				continue
			}
			var puts []ssa.Instruction
			core.Instrs(fn, func(in ssa.Instruction) {
				if mu, ok := in.(*ssa.MapUpdate); ok && core.IsFieldRef(mu.Map, spec.typ, "Bag") {
					puts = append(puts, in)
				}
			})
			errIdx := core.ErrResultIndex(fn)
			if len(puts) == 0 || errIdx < 0 {
				continue
			}
			isPut := func(in ssa.Instruction) bool {
				for _, q := range puts {
					if in == q {
						return true
					}
				}
				return false
			}
			present := core.BoolEdgesWhere(fn, func(v ssa.Value) bool {
				e, ok := core.Strip(v).(*ssa.Extract)
				if !ok || e.Index != 1 {
					return false
				}
				lk, ok := e.Tuple.(*ssa.Lookup)
				return ok && lk.CommaOk && core.IsFieldRef(lk.X, spec.typ, "Bag")
			}, true)
			bad := false
			var wp []string
			pos := fn.Pos()
			for _, ret := range core.Returns(fn) {
				if core.ResultNilness(ret, errIdx) == core.NonNil {
					continue
				}
				if path, reached := core.Reach(fn, nil, successReturn(ret, errIdx), present, isPut); reached {
					bad, wp, pos = true, p.Witness(path), ret.Pos()
				}
			}
			c.Check(!bad, core.FuncKey(fn)+"#success-only-after-placement", p.Pos(pos), "success is reported only after the value was placed (or was there already)", "the function can return a nil error without having placed the value into the bag and without having found the key present: the put (or commit) reports success and a later get / has / load of that key finds nothing", wp...)
		}
	}
}
