package rules

import (
	"fmt"
	"go/ast"
	"go/constant"
	"go/token"
	"go/types"
	"sort"
	"strings"

	"golang.org/x/tools/go/ast/astutil"
	"golang.org/x/tools/go/packages"
	"golang.org/x/tools/go/ssa"

	"verif/checker/internal/core"
)

func init() {
	register(&Def{
		ID: "C10",
		Explanation: "Structural necessary conditions of 'parsers are total and bounded', decided over the parser-local code reachable from the registered decoders, selector compilation, the walk functions and ParsePath:  (index, untrustedindex) elements of outside bytes are read only beyond a length test, and numbers taken from path segments or nodes index slices only where bounded on both sides." +
			"every recursive cycle of a decoder passes a depth comparison that dominates the recursive call, which passes depth+k; every committing assembler call in the CBOR decoder is behind a budget decrement-and-test in its token epoch (decrement derived from the token's length for strings/bytes/keys); container size hints are constants or clamped and charged; " +
			"untrusted 64-bit integers (token lengths, AsInt results) reach allocation sizes only behind a dominating bound; every explicit panic reachable in parser-local code is an exhaustive-switch default or a frozen contract entry; every decoder loop consumes input. " +
			"This bounds the mechanisms; it does not measure allocation or prove absence of implicit panics.",
		NotCovered: []string{"the allocation bound as an inequality", "implicit panics (index, nil, reflect) outside the taint and assertion rules", "termination of walks over cyclic user data", "refmt tokenizer internals"},
		Trusted:    []string{"go/ssa, go/types, CHA call graph", "refmt tokenizers terminate and bound their own allocations", "datamodel.Node implementations honour the node contract (covered by C01/C09/C12)"},
		Run:        runC10,
	})
}

// parserSide reports whether a module-relative package path belongs to the
// packages that interpret untrusted input.
func parserSide(rel string) bool {
	return strings.HasPrefix(rel, "codec") || rel == "traversal" || rel == "traversal/selector" || rel == "datamodel"
}

// parserLocalReach computes the functions reachable from the entries through
// static calls, closures, function values, and invoke calls on interfaces
// declared in parser-side packages other than datamodel (resolved to all
// module implementers). Calls through datamodel interfaces and dynamic calls
// of function-typed fields/parameters are opaque. Returns fn -> predecessor.
func parserLocalReach(p *core.Program, entries []*ssa.Function) map[*ssa.Function]*ssa.Function {
	pred := map[*ssa.Function]*ssa.Function{}
	var queue []*ssa.Function
	push := func(f, from *ssa.Function) {
		if f == nil || len(f.Blocks) == 0 || !p.InModule(f) {
			return
		}
		if _, ok := pred[f]; ok {
			return
		}
		pred[f] = from
		queue = append(queue, f)
	}
	for _, e := range entries {
		push(e, nil)
	}
	for len(queue) > 0 {
		f := queue[0]
		queue = queue[1:]
		core.Instrs(f, func(in ssa.Instruction) {
			// function values referenced as operands (closures, method values, func literals)
			for _, op := range in.Operands(nil) {
				if op == nil || *op == nil {
					continue
				}
				switch v := (*op).(type) {
				case *ssa.Function:
					push(v, f)
				case *ssa.MakeClosure:
					if fn, ok := v.Fn.(*ssa.Function); ok {
						push(fn, f)
					}
				}
			}
			ci, ok := in.(ssa.CallInstruction)
			if !ok {
				return
			}
			cc := ci.Common()
			if !cc.IsInvoke() {
				return
			}
			nt, ok := types.Unalias(cc.Value.Type()).(*types.Named)
			if !ok || nt.Obj().Pkg() == nil {
				return
			}
			rel := core.RelPkg(nt.Obj().Pkg().Path())
			if !strings.HasPrefix(nt.Obj().Pkg().Path(), core.ModPath) || rel == "datamodel" || !parserSide(rel) {
				return
			}
			iface, ok := nt.Underlying().(*types.Interface)
			if !ok {
				return
			}
			for _, im := range p.Implementers(iface, nil) {
				push(p.Method(im.Type(), cc.Method.Name()), f)
			}
		})
	}
	return pred
}

func chainTo(pred map[*ssa.Function]*ssa.Function, f *ssa.Function) []string {
	var out []string
	for x := f; x != nil; x = pred[x] {
		out = append([]string{core.FuncKey(x)}, out...)
		if len(out) > 40 {
			break
		}
	}
	return out
}

func c10Entries(p *core.Program) []*ssa.Function {
	var out []*ssa.Function
	add := func(f *ssa.Function) {
		if f != nil {
			out = append(out, f)
		}
	}
	for _, rel := range []string{"codec/dagcbor", "codec/cbor", "codec/dagjson", "codec/json", "codec/raw"} {
		add(p.Func(rel, "", "Decode"))
	}
	add(p.Func("codec/dagcbor", "DecodeOptions", "Decode"))
	add(p.Func("codec/dagjson", "DecodeOptions", "Decode"))
	add(p.Func("traversal/selector", "", "CompileSelector"))
	add(p.Func("traversal/selector", "", "ParseSelector"))
	for _, n := range []string{"WalkAdv", "WalkMatching", "WalkLocal", "WalkTransforming"} {
		add(p.Func("traversal", "", n))
		add(p.Func("traversal", "Progress", n))
	}
	add(p.Func("datamodel", "", "ParsePath"))
	return out
}

func runC10(c *core.Ctx) {
	p := c.P
	names, _ := tokenTypeNames(p)

	// ---------- C10.depth ----------
	c.Rule("C10.depth", "in each decoder package every recursive call among its functions either passes the caller's depth parameter through unchanged or passes depth+k (k>=1) from a point dominated by the not-exceeded edge of a comparison depth >= limit; every recursive cycle contains an incrementing call; and the two decoders use the same comparison (depth < limit), so that MaxDepth means the same nesting bound in both", 3)
	depthOps := map[string]map[string]bool{}
	for _, rel := range []string{"codec/dagcbor", "codec/dagjson"} {
		depthOps[rel] = checkDepth(c, rel)
	}
	// sibling agreement: MaxDepth bounds the same nesting in both decoders
	{
		var descr []string
		all := map[string]bool{}
		for _, rel := range []string{"codec/dagcbor", "codec/dagjson"} {
			var ops []string
			for op := range depthOps[rel] {
				ops = append(ops, "depth "+op+" limit")
				all[op] = true
			}
			sort.Strings(ops)
			descr = append(descr, rel+": "+strings.Join(ops, " / "))
		}
		c.Check(len(all) == 1, "codec#depth-limit-same-comparison", "-", "both decoders descend behind the same comparison ("+strings.Join(descr, "; ")+")", "the bundled decoders do not bound nesting by the same comparison ("+strings.Join(descr, "; ")+"): with the same MaxDepth one of them accepts one more (or one fewer) level of nesting than the other, so the documented bound does not hold for one of them")
	}

	// ---------- C10.budget / prealloc ----------
	consumers := findTokenConsumers(p, "codec/dagcbor")
	sort.Slice(consumers, func(i, j int) bool { return core.FuncKey(consumers[i].fn) < core.FuncKey(consumers[j].fn) })
	c.Rule("C10.budget", "in the CBOR decoder every assembler call that stores token data or adds an entry (Assign* except AssignNull, AssembleEntry, AssembleValue) is, within its token epoch, behind the budget-not-exhausted edge of a decrement-and-test of the allocation budget; for strings, bytes and keys the decrement derives from len() of the token field that is committed", 10)
	type hint struct {
		tc *tokenConsumer
		ci ssa.CallInstruction
	}
	var hints []hint
	for _, tc := range consumers {
		budget := budgetOf(tc)
		key := core.FuncKey(tc.fn)
		for _, ci := range tc.calls() {
			name, ok := assemblerCall(ci)
			if !ok {
				continue
			}
			if name == "BeginMap" || name == "BeginList" {
				hints = append(hints, hint{tc, ci})
			}
			if !(strings.HasPrefix(name, "Assign") && name != "AssignNull") && name != "AssembleEntry" && name != "AssembleValue" {
				continue
			}
			arm := tc.armChain(ci, names)
			ck := fmt.Sprintf("%s#budget:%s[%s]", key, name, arm)
			if budget == nil {
				c.Fail(ck, p.Pos(ci.Pos()), "decoder function commits token data but has no allocation budget in view (an *int64 parameter, or an int64 field of its state struct that it decrements)")
				continue
			}
			var need []string
			for _, a := range ci.Common().Args {
				for _, f := range []string{"Str", "Bytes"} {
					if tc.derivesFromField(a, f) {
						need = append(need, f)
					}
				}
			}
			charged := chargedEdges(tc, budget, need)
			for _, e := range tc.epochStarts() {
				if _, r := core.Reach(tc.fn, e, isTarget(ci), nil, tc.isStep); !r {
					continue
				}
				path, reached := core.Reach(tc.fn, e, isTarget(ci), charged, tc.isStep)
				msg := name + " is reachable in its token epoch without a budget decrement-and-test"
				if len(need) > 0 {
					msg += " proportional to len(Token." + strings.Join(need, ",") + ")"
				}
				c.Check(!reached, ck, p.Pos(ci.Pos()), "behind a budget charge in its epoch", msg, p.Witness(path)...)
			}
		}
	}

	c.Rule("C10.prealloc", "the size hint given to BeginMap/BeginList in the CBOR decoder is, on every incoming path, a constant, a value not derived from the token (the configured cap), or a token-derived value that is upper-bounded by a non-token value on that path and was charged to the budget", 2)
	for _, h := range hints {
		tc := h.tc
		budget := budgetOf(tc)
		name, _ := assemblerCall(h.ci)
		ck := fmt.Sprintf("%s#hint:%s", core.FuncKey(tc.fn), name)
		v := h.ci.Common().Args[0]
		rg := core.RegionOf(tc.fn)
		fromToken := func(x ssa.Value) bool { return tc.derivesFromField(x, "Length", "Int", "Uint", "Str", "Bytes") }
		// clamp: an edge on which the value is <= something that does not come from the token
		clampEdges := func(x ssa.Value) map[core.Edge]bool {
			return core.EdgesWhere(tc.fn, func(r core.Rel) bool { return r.ImpliesLE() && r.X == x && !fromToken(r.Y) })
		}
		ok := true
		why := ""
		if !holdsAt(rg, v, h.ci.Block(), nil, fromToken, clampEdges, map[ssa.Value]bool{}) {
			ok = false
			why = "a token-derived size reaches the hint without an upper bound by the configured cap"
		}
		if budget != nil {
			charged := chargedEdgesFor(tc, budget, func(x ssa.Value) bool { return tc.derivesFromField(x, "Length") })
			chargeEdges := func(ssa.Value) map[core.Edge]bool { return charged }
			if !holdsAt(rg, v, h.ci.Block(), nil, fromToken, chargeEdges, map[ssa.Value]bool{}) {
				ok = false
				why = "a token-derived size was not charged to the allocation budget"
			}
		}
		c.Check(ok, ck, p.Pos(h.ci.Pos()), "size hint is constant, the cap, or a clamped and charged declared length", why)
	}

	// ---------- C10.progress ----------
	c.Rule("C10.progress", "every loop of the decoder functions (token consumers and Decode entry points) contains a call that consumes input: TokenSource.Step, io.Reader.Read, or a same-package function that does so on all its paths' behalf (step/ensure helpers, recursive unmarshal)", 4)
	for _, rel := range []string{"codec/dagcbor", "codec/dagjson"} {
		checkProgress(c, rel)
	}

	// ---------- C10.alloc ----------
	runC10Alloc(c)

	// ---------- C10.slice ----------
	runC10Slice(c)

	// ---------- C10.iternext ----------
	runC10IterNext(c)

	// ---------- C10.panics ----------
	runC10Panics(c)
}

// runC10IterNext: MapIterator/ListIterator.Next on an exhausted iterator
// returns nil nodes and an error; using the nodes then dereferences nil.
func runC10IterNext(c *core.Ctx) {
	p := c.P
	c.Rule("C10.iternext", "every MapIterator/ListIterator Next() call in parser-side packages is guarded: it is dominated by the not-done edge of Done() on the same iterator, or by an edge implying Length() >= 1 of the node the iterator was made from, or its error result is nil-tested before any use of the returned nodes (an exhausted iterator yields nil nodes)", 15)
	for _, fn := range p.ModFns {
		pk := core.FuncPkg(fn)
		if pk == nil || !parserSide(core.RelPkg(pk.Path())) || len(fn.Blocks) == 0 || fn.Synthetic != "" {
			continue
		}
		n := 0
		for _, ci := range core.Calls(fn) {
			cv := core.CallValue(ci)
			if cv == nil || !cv.Call.IsInvoke() || cv.Call.Method.Name() != "Next" {
				continue
			}
			nt := namedOfType(cv.Call.Value.Type())
			if nt == nil || (nt.Obj().Name() != "MapIterator" && nt.Obj().Name() != "ListIterator") {
				continue
			}
			n++
			itr := core.Strip(cv.Call.Value)
			errIdx := cv.Type().(*types.Tuple).Len() - 1
			guarded := ""
			// (a) Done() == false on the same iterator
			for e := range core.BoolEdgesWhere(fn, func(v ssa.Value) bool {
				dc, ok := v.(*ssa.Call)
				return ok && dc.Call.IsInvoke() && dc.Call.Method.Name() == "Done" && core.Strip(dc.Call.Value) == itr
			}, false) {
				if core.EdgeDominates(e, cv.Block()) {
					guarded = "not-done edge of Done()"
				}
			}
			// (c) Length() >= 1 of the source node
			if guarded == "" {
				if mk, ok := itr.(*ssa.Call); ok && mk.Call.IsInvoke() && (mk.Call.Method.Name() == "MapIterator" || mk.Call.Method.Name() == "ListIterator") {
					src := core.Strip(mk.Call.Value)
					for e := range core.EdgesWhere(fn, func(r core.Rel) bool {
						lc, ok := r.X.(*ssa.Call)
						if !ok || !lc.Call.IsInvoke() || lc.Call.Method.Name() != "Length" || core.Strip(lc.Call.Value) != src {
							return false
						}
						lb, ok := r.LowerBoundConst()
						return ok && constant.Sign(lb) > 0
					}) {
						if core.EdgeDominates(e, cv.Block()) {
							guarded = "Length() >= 1 of the iterated node"
						}
					}
				}
			}
			// (b) error tested before use of the nodes
			if guarded == "" {
				nilEdges := core.EdgesWhere(fn, func(r core.Rel) bool { return r.Op == token.EQL && extractOf(r.X, cv, errIdx) && core.IsNilConst(r.Y) })
				usesOK := true
				for _, ref := range *cv.Referrers() {
					ex, ok := ref.(*ssa.Extract)
					if !ok || ex.Index == errIdx {
						continue
					}
					// only uses that dereference the node matter (a method call on it, or handing it to a call);
					// forwarding it in a return next to the error is the wrapper idiom
					if _, isNode := ex.Type().Underlying().(*types.Interface); !isNode {
						continue
					}
					for _, use := range *ex.Referrers() {
						if _, isCall := use.(ssa.CallInstruction); !isCall {
							if _, isMI := use.(*ssa.MakeInterface); !isMI {
								continue
							}
						}
						if len(nilEdges) == 0 {
							usesOK = false
							continue
						}
						if _, reached := core.Reach(fn, cv, isTarget(use), nilEdges, nil); reached {
							usesOK = false
						}
					}
				}
				if usesOK {
					guarded = "error tested before the nodes are used"
				}
			}
			c.Check(guarded != "", fmt.Sprintf("%s#next%d", core.FuncKey(fn), n), p.Pos(cv.Pos()), "guarded by "+guarded, "Next() is called without a Done()/Length() guard and its error is not tested before the returned nodes are used: on an empty or exhausted container the nodes are nil and the next method call on them panics")
		}
	}
}

// runC10Slice: digest-length fields of a CID prefix come from untrusted link
// bytes; used as a slice bound they must be compared with the length of the
// sliced value first.
func runC10Slice(c *core.Ctx) {
	p := c.P
	c.Rule("C10.slicedomain", "bounds and slice speak of the same thing: in package traversal/selector, where the bounds of a slice expression come out of a bounds-normalising helper of the package that was told a length, that length is len() of the very value that is sliced - not of another representation of it (bytes of a string versus its runes): otherwise a subset matcher over a non-ASCII string slices past the end and the walk panics", 1)
	{
		nsd := 0
		for _, fn := range p.ModFns {
			pk := core.FuncPkg(fn)
			if pk == nil || core.RelPkg(pk.Path()) != "traversal/selector" || len(fn.Blocks) == 0 || fn.Synthetic != "" {
				continue
			}
			n := 0
			core.Instrs(fn, func(in ssa.Instruction) {
				sl, ok := in.(*ssa.Slice)
				if !ok || (sl.Low == nil && sl.High == nil) {
					return
				}
				// bounds that derive from a call of a package function given a len(...)
				var lens []ssa.Value
				for _, b := range []ssa.Value{sl.Low, sl.High} {
					if b == nil {
						continue
					}
					// the same normalisation written out in the body: the bound is computed from a len() directly
					for w := range core.BackSlice(b, core.SliceOpts{Stores: true, Local: true}) {
						if c2, ok := w.(*ssa.Call); ok {
							if bi, ok := c2.Call.Value.(*ssa.Builtin); ok && bi.Name() == "len" {
								lens = append(lens, c2.Call.Args[0])
							}
						}
					}
					for w := range core.BackSlice(b, core.SliceOpts{Stores: true}) {
						e, ok := w.(*ssa.Extract)
						if !ok {
							continue
						}
						cl, ok := e.Tuple.(*ssa.Call)
						if !ok || cl.Call.StaticCallee() == nil || core.FuncPkg(cl.Call.StaticCallee()) != pk {
							continue
						}
						for _, a := range cl.Call.Args {
							for w2 := range core.BackSlice(a, core.SliceOpts{ThroughCallsIf: func(c2 *ssa.Call) bool { bi, ok := c2.Call.Value.(*ssa.Builtin); return ok && bi.Name() == "len" }}) {
								if c2, ok := w2.(*ssa.Call); ok {
									if bi, ok := c2.Call.Value.(*ssa.Builtin); ok && bi.Name() == "len" {
										lens = append(lens, c2.Call.Args[0])
									}
								}
							}
						}
					}
				}
				if len(lens) == 0 {
					return
				}
				nsd++
				n++
				// the sliced value, through the phis of a variable assigned on several paths (but through no conversion)
				srcs := map[ssa.Value]bool{}
				var walk func(v ssa.Value, d int)
				walk = func(v ssa.Value, d int) {
					v = core.Strip(v)
					if d > 4 || srcs[v] {
						return
					}
					srcs[v] = true
					if phi, ok := v.(*ssa.Phi); ok {
						for _, e := range phi.Edges {
							walk(e, d+1)
						}
					}
				}
				walk(sl.X, 0)
				same := true
				for _, lv := range lens {
					if !srcs[core.Strip(lv)] && !core.SameValue(lv, sl.X) {
						same = false
					}
				}
				c.Check(same, fmt.Sprintf("%s#bounds-of-sliced-value%d", core.FuncKey(fn), n), p.Pos(sl.Pos()), "the bounds were computed from the length of the sliced value", "the bounds of this slice were normalised against the length of a different value than the one that is sliced (e.g. the byte length of a string for its rune slice): an end bound within the one length lies past the end of the other, and the slice expression panics during the walk")
			})
		}
		if nsd == 0 {
			c.Undecided("traversal/selector#subset-slices", "-", "no slice with helper-normalised bounds found (the subset matcher was expected)")
		}
	}
	c.Rule("C10.index", "no element of untrusted bytes is read before their length was looked at: in library packages, every element access with a constant index k into a byte slice or string that is not of the function's own making (make / literal / array) is dominated by an edge on which len() of that very value was compared so that it exceeds k", 1)
	for _, fn := range p.ModFns {
		pk := core.FuncPkg(fn)
		if pk == nil || len(fn.Blocks) == 0 || fn.Synthetic != "" {
			continue
		}
		if rel := core.RelPkg(pk.Path()); !libraryPkg(rel) {
			continue
		}
		n := 0
		core.Instrs(fn, func(in ssa.Instruction) {
			var x, idx ssa.Value
			switch a := in.(type) {
			case *ssa.IndexAddr:
				x, idx = a.X, a.Index
			case *ssa.Lookup:
				if _, isMap := a.X.Type().Underlying().(*types.Map); isMap {
					return
				}
				x, idx = a.X, a.Index
			default:
				return
			}
			k, isK := core.ConstInt(idx)
			if !isK {
				return
			}
			// only byte strings (slices of bytes, strings): that is what untrusted input arrives as
			switch t := x.Type().Underlying().(type) {
			case *types.Slice:
				if b, ok := t.Elem().Underlying().(*types.Basic); !ok || b.Kind() != types.Uint8 {
					return
				}
			case *types.Basic:
				if t.Info()&types.IsString == 0 {
					return
				}
			default:
				return // arrays and pointers to arrays are checked by the compiler
			}
			// of the function's own making?
			own := false
			switch m := core.Strip(x).(type) {
			case *ssa.MakeSlice:
				if l, ok := core.ConstInt(m.Len); ok && l > k {
					own = true
				}
			case *ssa.Slice:
				if al, ok := m.X.(*ssa.Alloc); ok {
					if pt, ok := al.Type().Underlying().(*types.Pointer); ok {
						if at, ok := pt.Elem().Underlying().(*types.Array); ok && at.Len() > k && m.High == nil && m.Low == nil {
							own = true
						}
					}
				}
			case *ssa.Const:
				if m.Value != nil && m.Value.Kind() == constant.String && int64(len(constant.StringVal(m.Value))) > k {
					own = true
				}
			}
			if own {
				return
			}
			n++
			guard := core.EdgesWhere(fn, func(r core.Rel) bool {
				lc, ok := core.Strip(r.X).(*ssa.Call)
				if !ok {
					return false
				}
				bi, ok := lc.Call.Value.(*ssa.Builtin)
				if !ok || bi.Name() != "len" || !(core.SameValue(lc.Call.Args[0], x) || core.SameLoad(core.Strip(lc.Call.Args[0]), core.Strip(x))) {
					return false
				}
				cv := core.ConstVal(r.Y)
				if cv == nil || cv.Kind() != constant.Int {
					return false
				}
				kk := constant.MakeInt64(k)
				switch r.Op {
				case token.GTR:
					return constant.Compare(cv, token.GEQ, kk)
				case token.GEQ:
					return constant.Compare(cv, token.GTR, kk)
				case token.EQL:
					return constant.Compare(cv, token.GTR, kk)
				case token.NEQ:
					return k == 0 && constant.Compare(cv, token.EQL, constant.MakeInt64(0))
				}
				return false
			})
			ok := false
			for e := range guard {
				if core.EdgeDominates(e, in.Block()) {
					ok = true
				}
			}
			c.Check(ok, fmt.Sprintf("%s#element%d-at-%d", core.FuncKey(fn), n, k), p.Pos(in.Pos()), "the length was tested before the element is read", fmt.Sprintf("element %d of a byte string that came from outside is read on a path on which its length was not found to exceed %d: input that is shorter (an empty byte string in a link, an empty key) makes the decoder panic instead of returning an error", k, k))
		})
	}

	c.Rule("C10.untrustedindex", "a number that came out of a path segment or a node (PathSegment.Index, Node.AsInt) is used as a slice index only where it was found to be at least 0 and compared from above: \"-1\" is a legal field name in a selector and parses as a number", 0)
	for _, fn := range p.ModFns {
		pk := core.FuncPkg(fn)
		if pk == nil || len(fn.Blocks) == 0 || fn.Synthetic != "" {
			continue
		}
		if rel := core.RelPkg(pk.Path()); !parserSide(rel) {
			continue
		}
		n := 0
		core.Instrs(fn, func(in ssa.Instruction) {
			ia, ok := in.(*ssa.IndexAddr)
			if !ok {
				return
			}
			if _, isK := core.ConstInt(ia.Index); isK {
				return
			}
			var src *ssa.Extract
			for w := range core.BackSlice(ia.Index, core.SliceOpts{Local: true}) {
				e, ok := w.(*ssa.Extract)
				if !ok || e.Index != 0 {
					continue
				}
				if cl, ok := e.Tuple.(*ssa.Call); ok && (core.IsMethod(cl, core.ModPath+"/datamodel", "PathSegment", "Index") || (cl.Call.IsInvoke() && cl.Call.Method.Name() == "AsInt")) {
					src = e
				}
			}
			if src == nil {
				return
			}
			n++
			about := func(v ssa.Value) bool {
				v = core.Strip(v)
				return v == core.Strip(ia.Index) || v == ssa.Value(src)
			}
			lower, upper := false, false
			for e := range core.EdgesWhere(fn, func(r core.Rel) bool { return about(r.X) }) {
				if !core.EdgeDominates(e, ia.Block()) {
					continue
				}
				for _, a := range core.ImpliedAtoms(e) {
					if a.Rel == nil {
						continue
					}
					for _, r := range []core.Rel{*a.Rel, a.Rel.Flip()} {
						if !about(r.X) {
							continue
						}
						switch r.Op {
						case token.GEQ, token.GTR:
							if cv := core.ConstVal(r.Y); cv != nil && cv.Kind() == constant.Int {
								min := cv
								if r.Op == token.GTR {
									min = constant.BinaryOp(cv, token.ADD, constant.MakeInt64(1))
								}
								if constant.Compare(min, token.GEQ, constant.MakeInt64(0)) {
									lower = true
								}
							}
						case token.LSS, token.LEQ:
							upper = true
						case token.EQL:
							lower, upper = true, true
						}
					}
				}
			}
			c.Check(lower && upper, fmt.Sprintf("%s#index-from-outside%d", core.FuncKey(fn), n), p.Pos(ia.Pos()), "bounded from below and above before it is used as an index", "a number parsed from a path segment / read from a node is used as a slice index without having been found >= 0 and bounded from above on this path: a selector field named \"-1\" (or an index past the end) makes the walk panic")
		})
	}

	c.Rule("C10.slice", "a slice bound derived from a CID prefix field (digest length taken from untrusted link bytes) is dominated by a comparison bounding it by len() of the sliced value", 1)
	isSrc := func(v ssa.Value) bool {
		switch x := v.(type) {
		case *ssa.UnOp:
			if fa, ok := x.X.(*ssa.FieldAddr); ok && x.Op == token.MUL {
				return strings.HasPrefix(core.FieldName(fa), "Prefix.")
			}
		case *ssa.Field:
			return strings.HasPrefix(core.FieldName(x), "Prefix.")
		}
		return false
	}
	for _, fn := range p.ModFns {
		pk := core.FuncPkg(fn)
		if pk == nil || len(fn.Blocks) == 0 {
			continue
		}
		rel := core.RelPkg(pk.Path())
		if !parserSide(rel) && !strings.HasPrefix(rel, "linking") {
			continue
		}
		n := 0
		core.Instrs(fn, func(in ssa.Instruction) {
			sl, ok := in.(*ssa.Slice)
			if !ok {
				return
			}
			for _, b := range []ssa.Value{sl.Low, sl.High, sl.Max} {
				if b == nil || core.ConstVal(b) != nil {
					continue
				}
				chain := core.BackSlice(b, core.SliceOpts{Stores: true})
				if !core.AnyIn(chain, isSrc) {
					continue
				}
				n++
				isLenOfSliced := func(v ssa.Value) bool {
					cv, ok := v.(*ssa.Call)
					if !ok {
						return false
					}
					bi, ok := cv.Call.Value.(*ssa.Builtin)
					return ok && bi.Name() == "len" && cv.Call.Args[0] == sl.X
				}
				good := false
				inChain := func(v ssa.Value) bool {
					if chain[v] {
						return true
					}
					for w := range chain {
						if core.SameLoad(w, v) {
							return true
						}
					}
					return false
				}
				for e := range core.EdgesWhere(fn, func(r core.Rel) bool { return r.ImpliesLE() && inChain(r.X) && isLenOfSliced(r.Y) }) {
					if core.EdgeDominates(e, sl.Block()) {
						good = true
					}
				}
				c.Check(good, fmt.Sprintf("%s#slice-bound%d", core.FuncKey(fn), n), p.Pos(sl.Pos()), "prefix-derived bound checked against len of the sliced value", "a digest length taken from a (possibly untrusted) CID prefix is used as a slice bound without being compared with the length of the sliced value: loading such a link panics instead of failing with a hash mismatch")
			}
		})
	}
}

// chargedEdges returns the edges on which the budget is known not exhausted
// right after a decrement whose operand covers len() of all needed fields.
func chargedEdges(tc *tokenConsumer, budget *budgetLoc, need []string) map[core.Edge]bool {
	return chargedEdgesFor(tc, budget, func(x ssa.Value) bool {
		for _, f := range need {
			if !tc.derivesFromField(x, f) {
				return false
			}
		}
		return true
	})
}

// holdsAt decides a "guarded by a dominating test" property of a value structurally, so that it does not matter whether
// the test is written inline, on one arm of a clamp (a phi), or inside a helper that computes the value:
//   - a value for which need() is false (constants, untainted values) holds trivially;
//   - it holds at blk if an edge of `guards(v)` dominates blk (across helper boundaries) or is the edge `ed` over which
//     the value arrives;
//   - a phi holds if every operand holds at the end of its predecessor block (or arrives over a guarding edge);
//   - a result of an expanded helper holds if, at every return of the helper, the returned value holds;
//   - a numeric conversion holds if its operand does.
func holdsAt(rg *core.Region, v ssa.Value, blk *ssa.BasicBlock, ed *core.Edge, need func(ssa.Value) bool, guards func(ssa.Value) map[core.Edge]bool, seen map[ssa.Value]bool) bool {
	if v == nil || core.ConstVal(v) != nil || !need(v) {
		return true
	}
	gs := guards(v)
	for e := range gs {
		if (ed != nil && e == *ed) || rg.EdgeDominates(e, blk) {
			return true
		}
	}
	// the guard may sit inside a helper whose result the path tested (charge(n) returning nil): no path reaches blk
	// without crossing a guarding edge
	if len(gs) > 0 && ed == nil && !core.BlockReachableAvoiding(rg.Root, blk, gs) {
		return true
	}
	if seen[v] {
		return false
	}
	seen[v] = true
	defer delete(seen, v)
	switch x := v.(type) {
	case *ssa.Phi:
		for i, ev := range x.Edges {
			pb := x.Block().Preds[i]
			var ied *core.Edge
			for si, s := range pb.Succs {
				if s == x.Block() {
					ied = &core.Edge{From: pb, Succ: si}
				}
			}
			if !holdsAt(rg, ev, pb, ied, need, guards, seen) {
				return false
			}
		}
		return true
	case *ssa.Convert:
		return holdsAt(rg, x.X, blk, ed, need, guards, seen)
	case *ssa.ChangeType:
		return holdsAt(rg, x.X, blk, ed, need, guards, seen)
	case *ssa.Extract:
		if cl, ok := x.Tuple.(*ssa.Call); ok {
			if g := rg.HelperOf(cl); g != nil {
				return helperResultHolds(rg, g, x.Index, need, guards, seen)
			}
		}
	case *ssa.Call:
		if g := rg.HelperOf(x); g != nil {
			return helperResultHolds(rg, g, 0, need, guards, seen)
		}
	}
	return false
}

func helperResultHolds(rg *core.Region, g *ssa.Function, idx int, need func(ssa.Value) bool, guards func(ssa.Value) map[core.Edge]bool, seen map[ssa.Value]bool) bool {
	for _, ret := range core.Returns(g) {
		if idx >= len(ret.Results) {
			return false
		}
		// a return that reports failure hands out no usable value
		if ei := core.ErrResultIndex(g); ei >= 0 && ei != idx && core.ResultNilness(ret, ei) == core.NonNil {
			continue
		}
		for _, rv := range core.ResultValues(ret, idx) {
			if core.IsZeroMarker(rv) {
				continue
			}
			if !holdsAt(rg, rv, ret.Block(), nil, need, guards, seen) {
				return false
			}
		}
	}
	return true
}

// budgetLoc is where a decoder function keeps the allocation budget: the pointee of an *int64 parameter, or an int64
// field of the state struct the decoder's functions share (recognised by being decremented, never by name).
type budgetLoc struct {
	param *ssa.Parameter
	field *core.FieldID
}

func budgetOf(tc *tokenConsumer) *budgetLoc {
	for _, prm := range tc.fn.Params {
		if pt, ok := prm.Type().(*types.Pointer); ok {
			if b, ok := pt.Elem().(*types.Basic); ok && b.Kind() == types.Int64 {
				return &budgetLoc{param: prm}
			}
		}
	}
	// an int64 field of an unexported struct that the function (or a helper) decrements: f = f - x
	var found *core.FieldID
	ambiguous := false
	core.InstrsR(tc.fn, func(in ssa.Instruction) {
		st, ok := in.(*ssa.Store)
		if !ok {
			return
		}
		id, fv, ok := core.FieldOfAddr(st.Addr)
		if !ok || id.Type.Exported() {
			return
		}
		if b, ok := fv.Type().Underlying().(*types.Basic); !ok || b.Kind() != types.Int64 {
			return
		}
		bo, ok := st.Val.(*ssa.BinOp)
		if !ok || bo.Op != token.SUB {
			return
		}
		if lid, _, ok := core.FieldOfLoad(bo.X); !ok || lid != id {
			return
		}
		if found != nil && *found != id {
			ambiguous = true
		}
		idc := id
		found = &idc
	})
	if found == nil || ambiguous {
		return nil
	}
	return &budgetLoc{field: found}
}

func chargedEdgesFor(tc *tokenConsumer, budget *budgetLoc, operandOK func(ssa.Value) bool) map[core.Edge]bool {
	rg := core.RegionOf(tc.fn)
	isBudget := func(a ssa.Value) bool {
		if budget.param != nil {
			return a == ssa.Value(budget.param) || rg.Canon(a) == ssa.Value(budget.param)
		}
		id, _, ok := core.FieldOfAddr(a)
		return ok && id == *budget.field
	}
	isBudgetLoad := func(v ssa.Value) bool {
		u, ok := v.(*ssa.UnOp)
		return ok && u.Op == token.MUL && isBudget(u.X)
	}
	out := map[core.Edge]bool{}
	for _, b := range rg.Blocks() {
		ifi := core.BlockIf(b)
		if ifi == nil {
			continue
		}
		// find the decrement in this block: Store(budget, load(budget) - X) with no later store
		var dec *ssa.BinOp
		for _, in := range b.Instrs {
			if st, ok := in.(*ssa.Store); ok && isBudget(st.Addr) {
				dec = nil
				if bo, ok := st.Val.(*ssa.BinOp); ok && bo.Op == token.SUB && isBudgetLoad(bo.X) {
					dec = bo
				}
			}
		}
		if dec == nil || !operandOK(dec.Y) {
			continue
		}
		// a charge computed by arithmetic on an unbounded header integer can wrap around (and even refund the budget)
		if chargeMayOverflow(tc, dec.Y) {
			continue
		}
		// the decrement must be positive-or-zero by construction: a constant >= 0, or a length/len-derived value
		if cv := core.ConstVal(dec.Y); cv != nil && constant.Sign(cv) < 0 {
			continue
		}
		for s := 0; s < 2; s++ {
			r, ok := core.EdgeRel(core.Edge{From: b, Succ: s})
			if !ok {
				continue
			}
			if !isBudgetLoad(r.X) {
				r = r.Flip()
			}
			if !isBudgetLoad(r.X) {
				continue
			}
			if lb, ok := r.LowerBoundConst(); ok && constant.Sign(lb) >= 0 {
				out[core.Edge{From: b, Succ: s}] = true
			}
		}
	}
	return out
}

// decoderLocal lists the functions of package rel statically reachable (within
// the package) from its decode entry points: functions with a
// datamodel.NodeAssembler parameter, the role of a decoder.
func decoderLocal(p *core.Program, rel string) []*ssa.Function {
	inPkg := map[*ssa.Function]bool{}
	var all []*ssa.Function
	for _, fn := range p.ModFns {
		if pk := core.FuncPkg(fn); pk != nil && core.RelPkg(pk.Path()) == rel && len(fn.Blocks) > 0 && fn.Synthetic == "" {
			inPkg[fn] = true
			all = append(all, fn)
		}
	}
	seen := map[*ssa.Function]bool{}
	var st []*ssa.Function
	for _, fn := range all {
		if paramOfType(fn, "datamodel", "NodeAssembler") != nil {
			st = append(st, fn)
		}
	}
	for len(st) > 0 {
		f := st[len(st)-1]
		st = st[:len(st)-1]
		if seen[f] {
			continue
		}
		seen[f] = true
		for _, ci := range core.Calls(f) {
			if cal := ci.Common().StaticCallee(); cal != nil && inPkg[cal] {
				st = append(st, cal)
			}
		}
		for _, a := range f.AnonFuncs {
			st = append(st, a)
		}
	}
	var out []*ssa.Function
	for _, fn := range all {
		if seen[fn] {
			out = append(out, fn)
		}
	}
	return out
}

// chargeMayOverflow: the operand multiplies, shifts or adds a value derived
// from one of the token's untrusted 64-bit integer fields.
func chargeMayOverflow(tc *tokenConsumer, y ssa.Value) bool {
	for w := range core.BackSlice(y, core.SliceOpts{}) {
		bo, ok := w.(*ssa.BinOp)
		if !ok {
			continue
		}
		switch bo.Op {
		case token.MUL, token.SHL, token.ADD:
			if tc.derivesFromField(bo.X, "Length", "Int", "Uint") || tc.derivesFromField(bo.Y, "Length", "Int", "Uint") {
				return true
			}
		}
	}
	return false
}

// checkDepth decides the recursion-depth rule for one decoder package.
func checkDepth(c *core.Ctx, rel string) (guardOps map[string]bool) {
	guardOps = map[string]bool{}
	p := c.P
	fns := decoderLocal(p, rel)
	in := map[*ssa.Function]bool{}
	for _, fn := range fns {
		in[fn] = true
	}
	// static call edges
	type callSite struct {
		from, to *ssa.Function
		ci       ssa.CallInstruction
	}
	var sites []callSite
	adj := map[*ssa.Function][]*ssa.Function{}
	for _, f := range fns {
		for _, ci := range core.Calls(f) {
			if cal := ci.Common().StaticCallee(); cal != nil && in[cal] {
				sites = append(sites, callSite{f, cal, ci})
				adj[f] = append(adj[f], cal)
			}
		}
	}
	// recursive functions: on a cycle
	reach := func(a, b *ssa.Function) bool {
		seen := map[*ssa.Function]bool{}
		st := append([]*ssa.Function{}, adj[a]...)
		for len(st) > 0 {
			x := st[len(st)-1]
			st = st[:len(st)-1]
			if x == b {
				return true
			}
			if seen[x] {
				continue
			}
			seen[x] = true
			st = append(st, adj[x]...)
		}
		return false
	}
	rec := map[*ssa.Function]bool{}
	for _, f := range fns {
		if reach(f, f) {
			rec[f] = true
		}
	}
	if len(rec) == 0 {
		c.Undecided(rel+"#recursion", "-", "no recursive decoder functions found")
		return
	}
	// depth parameter positions: seed = integer param compared (>=,>) against a value not derived from it, on whose exceeded edge no recursive call is reachable
	depthIdx := map[*ssa.Function]int{}
	guardEdges := map[*ssa.Function]map[core.Edge]bool{}
	for f := range rec {
		for i, prm := range f.Params {
			b, ok := prm.Type().Underlying().(*types.Basic)
			if !ok || b.Info()&types.IsInteger == 0 {
				continue
			}
			edges := core.EdgesWhere(f, func(r core.Rel) bool {
				return (r.Op == token.LSS || r.Op == token.LEQ) && r.X == ssa.Value(prm) && r.Y != ssa.Value(prm) && core.ConstVal(r.Y) == nil
			})
			if len(edges) > 0 {
				depthIdx[f] = i
				guardEdges[f] = edges
				for e := range edges {
					for _, a := range core.ImpliedAtoms(e) {
						if a.Rel == nil {
							continue
						}
						r := *a.Rel
						if r.X != ssa.Value(prm) {
							r = r.Flip()
						}
						if r.X == ssa.Value(prm) && (r.Op == token.LSS || r.Op == token.LEQ) {
							guardOps[r.Op.String()] = true
						}
					}
				}
			}
		}
	}
	// propagate positions along recursive call sites
	for changed := true; changed; {
		changed = false
		for _, s := range sites {
			if !rec[s.from] || !rec[s.to] {
				continue
			}
			args := s.ci.Common().Args
			if di, ok := depthIdx[s.to]; ok {
				if _, have := depthIdx[s.from]; !have && di < len(args) {
					if pi := core.ParamIndex(args[di]); pi >= 0 {
						depthIdx[s.from] = pi
						changed = true
					}
				}
			}
			if di, ok := depthIdx[s.from]; ok {
				if _, have := depthIdx[s.to]; !have {
					for ai, a := range args {
						if a == ssa.Value(s.from.Params[di]) {
							depthIdx[s.to] = ai
							changed = true
						}
					}
				}
			}
		}
	}
	passThrough := map[*ssa.Function][]*ssa.Function{}
	for _, s := range sites {
		if !rec[s.from] || !rec[s.to] || !reach(s.to, s.from) {
			continue
		}
		key := fmt.Sprintf("%s->%s", core.FuncKey(s.from), core.FuncKey(s.to))
		// disambiguate by token arm when available
		if tcs := findTokenConsumersIn(p, s.from); tcs != nil {
			nm, _ := tokenTypeNames(p)
			key += "[" + tcs.armChain(s.ci, nm) + "]"
		}
		di, ok1 := depthIdx[s.from]
		dj, ok2 := depthIdx[s.to]
		if !ok1 || !ok2 {
			c.Fail(key+"#depth", p.Pos(s.ci.Pos()), "recursive call between decoder functions that carry no depth counter")
			continue
		}
		arg := s.ci.Common().Args[dj]
		dp := ssa.Value(s.from.Params[di])
		switch {
		case arg == dp:
			passThrough[s.from] = append(passThrough[s.from], s.to)
			c.OK(key+"#depth", p.Pos(s.ci.Pos()), "passes its depth through unchanged (a helper hop)")
		default:
			bo, ok := arg.(*ssa.BinOp)
			k, isC := int64(0), false
			if ok && bo.Op == token.ADD && bo.X == dp {
				k, isC = core.ConstInt(bo.Y)
			}
			if !ok || !isC || k < 1 {
				c.Fail(key+"#depth", p.Pos(s.ci.Pos()), "recursive call does not pass depth+k (k>=1): nesting is not counted")
				continue
			}
			ge := guardEdges[s.from]
			path, reached := core.Reach(s.from, nil, isTarget(s.ci), ge, nil)
			c.Check(len(ge) > 0 && !reached, key+"#depth", p.Pos(s.ci.Pos()), "depth+k passed from behind the depth < limit edge", "recursive call reachable without passing the depth-limit comparison", p.Witness(path)...)
		}
	}
	// cycles made only of pass-through edges
	for f := range rec {
		seen := map[*ssa.Function]bool{}
		st := append([]*ssa.Function{}, passThrough[f]...)
		for len(st) > 0 {
			x := st[len(st)-1]
			st = st[:len(st)-1]
			if x == f {
				c.Fail(core.FuncKey(f)+"#depth-cycle", p.Pos(f.Pos()), "a recursive cycle passes depth unchanged all the way round")
				break
			}
			if seen[x] {
				continue
			}
			seen[x] = true
			st = append(st, passThrough[x]...)
		}
	}
	return guardOps
}

func findTokenConsumersIn(p *core.Program, fn *ssa.Function) *tokenConsumer {
	pk := core.FuncPkg(fn)
	if pk == nil {
		return nil
	}
	for _, tc := range findTokenConsumers(p, core.RelPkg(pk.Path())) {
		if tc.fn == fn {
			return tc
		}
	}
	return nil
}

// checkProgress: every CFG cycle of decoder functions contains an input-consuming call.
func checkProgress(c *core.Ctx, rel string) {
	p := c.P
	fns := decoderLocal(p, rel)
	// consumers: functions that call Step/Read directly, closed over same-package callers' helpers
	consumes := map[*ssa.Function]bool{}
	direct := func(ci ssa.CallInstruction) bool {
		if core.IsMethodNamed(ci, "Step") || core.IsMethodNamed(ci, "Read") || core.IsMethodNamed(ci, "ReadByte") {
			return true
		}
		return core.IsPkgFunc(ci, "io", "ReadFull") || core.IsPkgFunc(ci, "io", "ReadAll")
	}
	for changed := true; changed; {
		changed = false
		for _, f := range fns {
			if consumes[f] {
				continue
			}
			for _, ci := range core.Calls(f) {
				if direct(ci) || (ci.Common().StaticCallee() != nil && consumes[ci.Common().StaticCallee()]) {
					consumes[f] = true
					changed = true
					break
				}
			}
		}
	}
	for _, f := range fns {
		loops := core.LoopBlocks(f)
		for li, lp := range loops {
			has := false
			var pos token.Pos
			for _, b := range lp {
				for _, in := range b.Instrs {
					if pos == token.NoPos && in.Pos().IsValid() {
						pos = in.Pos()
					}
					if ci, ok := in.(ssa.CallInstruction); ok {
						if direct(ci) || (ci.Common().StaticCallee() != nil && consumes[ci.Common().StaticCallee()]) {
							has = true
						}
					}
				}
			}
			if !has {
				// bounded counting loops over in-memory data (range over slice / i < len) are fine: detect a loop whose exit compares an induction variable against len()/constant
				if boundedLoop(lp) {
					c.Info(fmt.Sprintf("%s#loop%d", core.FuncKey(f), li), p.Pos(pos), "loop bounded by in-memory length/constant")
					continue
				}
			}
			c.Check(has, fmt.Sprintf("%s#loop%d", core.FuncKey(f), li), p.Pos(pos), "loop consumes input on every iteration path that continues", "loop in decoder code contains no input-consuming call and no in-memory bound: may not terminate")
		}
	}
}

// boundedLoop recognises counted loops: the loop is left through a comparison between an induction variable (a phi
// whose value around the back edge is itself plus/minus a constant, or a range index) and a bound that the loop does
// not move: a constant, len() of something, a value computed before the loop, or a load of a location that no
// instruction of the loop stores to (for i := 0; i < st.n; i++ with st.n untouched in the body).
func boundedLoop(blocks []*ssa.BasicBlock) bool {
	inLoop := map[*ssa.BasicBlock]bool{}
	for _, b := range blocks {
		inLoop[b] = true
	}
	isInduction := func(v ssa.Value) bool {
		phi, ok := v.(*ssa.Phi)
		if !ok || !inLoop[phi.Block()] {
			return false
		}
		for _, e := range phi.Edges {
			if bo, ok := e.(*ssa.BinOp); ok && (bo.Op == token.ADD || bo.Op == token.SUB) {
				if (bo.X == ssa.Value(phi) && core.ConstVal(bo.Y) != nil) || (bo.Y == ssa.Value(phi) && core.ConstVal(bo.X) != nil && bo.Op == token.ADD) {
					return true
				}
			}
		}
		return false
	}
	storedInLoop := func(addr ssa.Value) bool {
		fn := core.FieldName(addr)
		stored := false
		for _, b := range blocks {
			for _, in := range b.Instrs {
				switch x := in.(type) {
				case *ssa.Store:
					if x.Addr == addr || (fn != "" && core.FieldName(x.Addr) == fn) {
						stored = true
					}
				case ssa.CallInstruction:
					// a call inside the loop may write anything reachable: only locals that do not escape are safe
					if _, isAlloc := rootOf(addr).(*ssa.Alloc); !isAlloc {
						if _, isBuiltin := x.Common().Value.(*ssa.Builtin); !isBuiltin {
							stored = true
						}
					}
				}
			}
		}
		return stored
	}
	unmoved := func(v ssa.Value) bool {
		v = core.Strip(v)
		if core.ConstVal(v) != nil {
			return true
		}
		switch x := v.(type) {
		case *ssa.Call:
			if bi, ok := x.Call.Value.(*ssa.Builtin); ok && bi.Name() == "len" {
				return true
			}
		case *ssa.UnOp:
			if x.Op == token.MUL {
				return !storedInLoop(x.X)
			}
		}
		if in, ok := v.(ssa.Instruction); ok {
			return !inLoop[in.Block()]
		}
		_, isParam := v.(*ssa.Parameter)
		return isParam
	}
	for _, b := range blocks {
		ifi := core.BlockIf(b)
		if ifi == nil {
			continue
		}
		exits := !inLoop[b.Succs[0]] || !inLoop[b.Succs[1]]
		if !exits {
			continue
		}
		cmp, ok := core.IfCompare(ifi)
		if !ok || cmp.Op == token.EQL {
			continue
		}
		_, px := cmp.X.(*ssa.Phi)
		_, py := cmp.Y.(*ssa.Phi)
		if !px && !py {
			continue
		}
		for _, pair := range [][2]ssa.Value{{cmp.X, cmp.Y}, {cmp.Y, cmp.X}} {
			ind, bound := pair[0], pair[1]
			if _, isPhi := ind.(*ssa.Phi); !isPhi {
				continue
			}
			if core.ConstVal(bound) != nil {
				return true
			}
			if cv, ok := bound.(*ssa.Call); ok {
				if bi, ok := cv.Call.Value.(*ssa.Builtin); ok && bi.Name() == "len" {
					return true
				}
			}
			if isInduction(ind) && unmoved(bound) {
				return true
			}
		}
	}
	return false
}

// ---------- C10.alloc ----------

func runC10Alloc(c *core.Ctx) {
	p := c.P
	c.Rule("C10.alloc", "taint: a 64-bit integer taken from untrusted data (a token's Length/Int/Uint field, the result of Node.AsInt) reaches an allocation size (make length/capacity, BeginMap/BeginList size hint) in parser-side packages only behind a dominating comparison that bounds it (or a value on its way to the sink) by a value not derived from untrusted data", 8)
	isSource := func(v ssa.Value) bool {
		switch x := v.(type) {
		case *ssa.UnOp:
			if x.Op == token.MUL {
				if fa, ok := x.X.(*ssa.FieldAddr); ok {
					switch core.FieldName(fa) {
					case "Token.Length", "Token.Int", "Token.Uint":
						return true
					}
				}
			}
		case *ssa.Extract:
			if cv, ok := x.Tuple.(*ssa.Call); ok && x.Index == 0 && cv.Call.IsInvoke() && cv.Call.Method.Name() == "AsInt" {
				return true
			}
		}
		return false
	}
	taintOpts := core.SliceOpts{Stores: true, ThroughCallsIf: func(*ssa.Call) bool { return false }}
	tainted := func(v ssa.Value) (bool, map[ssa.Value]bool) {
		sl := core.BackSlice(v, taintOpts)
		for w := range sl {
			if isSource(w) {
				return true, sl
			}
		}
		return false, sl
	}
	for _, fn := range p.ModFns {
		pk := core.FuncPkg(fn)
		if pk == nil || !parserSide(core.RelPkg(pk.Path())) || len(fn.Blocks) == 0 {
			continue
		}
		key := core.FuncKey(fn)
		n := 0
		core.Instrs(fn, func(in ssa.Instruction) {
			var sizes []ssa.Value
			what := ""
			switch x := in.(type) {
			case *ssa.MakeSlice:
				sizes, what = []ssa.Value{x.Len, x.Cap}, "make-slice"
			case *ssa.MakeMap:
				if x.Reserve != nil {
					sizes, what = []ssa.Value{x.Reserve}, "make-map"
				}
			case *ssa.MakeChan:
				sizes, what = []ssa.Value{x.Size}, "make-chan"
			case ssa.CallInstruction:
				if name, ok := assemblerCall(x); ok && (name == "BeginMap" || name == "BeginList") {
					sizes, what = []ssa.Value{x.Common().Args[0]}, name+"-hint"
				}
			}
			for _, sz := range sizes {
				if sz == nil || core.ConstVal(sz) != nil {
					continue
				}
				n++
				ck := fmt.Sprintf("%s#%s%d", key, what, n)
				isT, sl := tainted(sz)
				if !isT {
					c.OK(ck, p.Pos(in.Pos()), "size not derived from untrusted integers (len/Length of built values, constants, configuration)")
					continue
				}
				// sanitizer: a comparison bounding the value (or a tainted value of its chain) by an untainted one, on every
				// way the value can reach this point - dominating test, clamp arm, or inside the helper that computed it
				rg := core.RegionOf(fn)
				isTainted := func(x ssa.Value) bool { t, _ := tainted(x); return t }
				boundEdges := func(x ssa.Value) map[core.Edge]bool {
					xs, _ := x, sl
					chain := core.BackSlice(xs, taintOpts)
					return core.EdgesWhere(fn, func(r core.Rel) bool {
						if !r.ImpliesLE() || !(r.X == x || chain[r.X]) {
							return false
						}
						return isTainted(r.X) && !isTainted(r.Y)
					})
				}
				sanitized := holdsAt(rg, sz, in.Block(), nil, isTainted, boundEdges, map[ssa.Value]bool{})
				c.Check(sanitized, ck, p.Pos(in.Pos()), "untrusted size bounded by a dominating comparison", "an integer taken from untrusted input reaches this allocation size without a dominating bound (a crafted value makes the allocation panic or exhaust memory)")
			}
		})
	}
}

// ---------- C10.panics ----------

// contractPanics is the frozen table of explicit panics in parser-local code
// that are contract violations of the caller/node, one symbol + reason each.
var contractPanics = map[string]string{
	"traversal.asPathSegment":                       "map keys are string/int by data-model invariant; any other kind is a broken Node implementation",
	"(traversal.Progress).get":                      "Kind_Invalid from a Node breaks the node contract",
	"(datamodel.Kind).String":                       "a Kind outside the enumeration breaks the node contract",
	"(*codec/dagjson.unmarshalState).step":          "shift is only ever set from constant look-ahead distances 0..6 (checked by this rule) and decremented",
	"(traversal/selector.ExploreRecursive).Explore": "RecursionLimit.mode is an unexported enum only ever stored from its two constants (checked by this rule)",
}

func runC10Panics(c *core.Ctx) {
	p := c.P
	c.Rule("C10.panics", "every explicit panic in parser-side code reachable (parser-local closure: static calls, closures, function values, interfaces of the parser packages; datamodel interfaces opaque) from a decoder, CompileSelector, a walk function or ParsePath is either the default of a switch that covers every constant of its tag's enum type, or a frozen contract entry whose side condition is checked", 6)
	entries := c10Entries(p)
	if len(entries) < 10 {
		c.Undecided("C10.panics#entries", "-", fmt.Sprintf("only %d entry points resolved", len(entries)))
	}
	pred := parserLocalReach(p, entries)
	var fns []*ssa.Function
	for f := range pred {
		fns = append(fns, f)
	}
	sort.Slice(fns, func(i, j int) bool { return core.FuncKey(fns[i]) < core.FuncKey(fns[j]) })
	c.Note("C10.panics: %d functions in the parser-local closure of %d entry points", len(fns), len(entries))
	for _, fn := range fns {
		pk := core.FuncPkg(fn)
		if pk == nil || !parserSide(core.RelPkg(pk.Path())) {
			continue
		}
		n := 0
		core.Instrs(fn, func(in ssa.Instruction) {
			pn, ok := in.(*ssa.Panic)
			if !ok || !pn.Pos().IsValid() {
				return
			}
			n++
			key := fmt.Sprintf("%s#panic%d", core.FuncKey(fn), n)
			// exhaustive switch default?
			if ok, why := exhaustiveDefault(p, fn, pn.Pos()); ok {
				c.OK(key, p.Pos(pn.Pos()), "default of an exhaustive switch: "+why)
				return
			}
			base := fn
			for base.Parent() != nil {
				base = base.Parent()
			}
			if reason, ok := contractPanics[core.FuncKey(base)]; ok {
				if okSide, why := contractSideCondition(c, base); okSide {
					c.OK(key, p.Pos(pn.Pos()), "contract entry: "+reason)
				} else {
					c.Fail(key, p.Pos(pn.Pos()), "contract entry's side condition no longer holds: "+why, chainTo(pred, fn)...)
				}
				return
			}
			c.Fail(key, p.Pos(pn.Pos()), "explicit panic reachable from an untrusted-input entry point and neither an exhaustive-switch default nor a listed contract", chainTo(pred, fn)...)
		})
	}
}

// exhaustiveDefault: the panic at pos sits in the default clause of an
// expression switch whose tag has an enum-like named type all of whose
// constants appear as cases.
func exhaustiveDefault(p *core.Program, fn *ssa.Function, pos token.Pos) (bool, string) {
	pk := core.FuncPkg(fn)
	pp := p.ByPath[pk.Path()]
	if pp == nil {
		return false, ""
	}
	for _, f := range pp.Syntax {
		if f.Pos() > pos || pos > f.End() {
			continue
		}
		path, _ := astutil.PathEnclosingInterval(f, pos, pos)
		// panic statement directly following an exhaustive switch all of whose clauses return
		for i, n := range path {
			es, ok := n.(*ast.ExprStmt)
			if !ok || i+1 >= len(path) {
				continue
			}
			blk, ok := path[i+1].(*ast.BlockStmt)
			if !ok {
				continue
			}
			for j, st := range blk.List {
				if st != ast.Stmt(es) || j == 0 {
					continue
				}
				sw, ok := blk.List[j-1].(*ast.SwitchStmt)
				if !ok || sw.Tag == nil {
					continue
				}
				if ok, why := switchExhaustive(pp, sw, true); ok {
					return true, "follows a switch all of whose clauses return: " + why
				}
			}
		}
		for i, n := range path {
			cc, ok := n.(*ast.CaseClause)
			if !ok || cc.List != nil {
				continue
			}
			// parent chain: CaseClause -> BlockStmt -> SwitchStmt
			if i+2 >= len(path) {
				continue
			}
			sw, ok := path[i+2].(*ast.SwitchStmt)
			if !ok || sw.Tag == nil {
				continue
			}
			tv, ok := pp.TypesInfo.Types[sw.Tag]
			if !ok {
				continue
			}
			cases := map[string]bool{}
			for _, st := range sw.Body.List {
				for _, e := range st.(*ast.CaseClause).List {
					if v, ok := pp.TypesInfo.Types[e]; ok && v.Value != nil {
						cases[v.Value.ExactString()] = true
					}
				}
			}
			if b, ok := tv.Type.Underlying().(*types.Basic); ok && b.Kind() == types.Bool {
				if cases["true"] && cases["false"] {
					return true, "switch over bool covers true and false"
				}
				return false, ""
			}
			nt, ok := types.Unalias(tv.Type).(*types.Named)
			if !ok {
				return false, ""
			}
			all := enumConsts(nt)
			if len(all) < 2 {
				return false, ""
			}
			var missing []string
			for name, v := range all {
				if !cases[v.ExactString()] {
					missing = append(missing, name)
				}
			}
			if len(missing) == 0 {
				return true, fmt.Sprintf("all %d constants of %s are cases", len(all), nt.Obj().Name())
			}
			return false, "missing " + strings.Join(missing, ",")
		}
	}
	return false, ""
}

// switchExhaustive: the switch's cases cover every value of its tag type
// (bool, or every constant of a named enum type). With mustReturn, it must
// have no default and every clause must end in a return.
func switchExhaustive(pp *packages.Package, sw *ast.SwitchStmt, mustReturn bool) (bool, string) {
	tv, ok := pp.TypesInfo.Types[sw.Tag]
	if !ok {
		return false, ""
	}
	cases := map[string]bool{}
	for _, st := range sw.Body.List {
		cc := st.(*ast.CaseClause)
		if mustReturn {
			if cc.List == nil || len(cc.Body) == 0 {
				return false, ""
			}
			if _, isRet := cc.Body[len(cc.Body)-1].(*ast.ReturnStmt); !isRet {
				return false, ""
			}
		}
		for _, e := range cc.List {
			if v, ok := pp.TypesInfo.Types[e]; ok && v.Value != nil {
				cases[v.Value.ExactString()] = true
			}
		}
	}
	if b, ok := tv.Type.Underlying().(*types.Basic); ok && b.Kind() == types.Bool {
		if cases["true"] && cases["false"] {
			return true, "switch over bool covers true and false"
		}
		return false, ""
	}
	nt, ok := types.Unalias(tv.Type).(*types.Named)
	if !ok {
		return false, ""
	}
	all := enumConsts(nt)
	if len(all) < 2 {
		return false, ""
	}
	for _, v := range all {
		if !cases[v.ExactString()] {
			return false, ""
		}
	}
	return true, fmt.Sprintf("all %d constants of %s are cases", len(all), nt.Obj().Name())
}

// contractSideCondition checks the extra facts some contract entries rely on.
func contractSideCondition(c *core.Ctx, fn *ssa.Function) (bool, string) {
	p := c.P
	switch core.FuncKey(fn) {
	case "(*codec/dagjson.unmarshalState).step":
		// every store to unmarshalState.shift is a constant in 0..6, a decrement, or a parameter whose every call-site argument is a constant in 0..6
		ok, why := true, ""
		for _, f := range p.ModFns {
			pk := core.FuncPkg(f)
			if pk == nil || core.RelPkg(pk.Path()) != "codec/dagjson" {
				continue
			}
			core.Instrs(f, func(in ssa.Instruction) {
				st, isSt := in.(*ssa.Store)
				if !isSt {
					return
				}
				fa, isFa := st.Addr.(*ssa.FieldAddr)
				if !isFa || core.FieldName(fa) != "unmarshalState.shift" {
					return
				}
				if k, isC := core.ConstInt(st.Val); isC {
					if k < 0 || k > 6 {
						ok, why = false, fmt.Sprintf("shift stored with constant %d", k)
					}
					return
				}
				if bo, isB := st.Val.(*ssa.BinOp); isB && bo.Op == token.SUB {
					return
				}
				if pi := core.ParamIndex(st.Val); pi >= 0 {
					// all call sites pass constants 0..6
					for _, g := range p.ModFns {
						for _, ci := range core.Calls(g) {
							if ci.Common().StaticCallee() == f {
								k, isC := core.ConstInt(ci.Common().Args[pi])
								if !isC || k < 0 || k > 6 {
									ok, why = false, "look-ahead helper called with a non-constant or out-of-range distance at "+p.Pos(ci.Pos())
								}
							}
						}
					}
					return
				}
				ok, why = false, "shift stored from an unrecognised value at "+p.Pos(st.Pos())
			})
		}
		// cases 0..6 exist
		for _, si := range enumSwitchesAny(p, "codec/dagjson", "unmarshalState.step") {
			for k := int64(0); k <= 6; k++ {
				if !si.Cases[constant.MakeInt64(k).ExactString()] {
					ok, why = false, fmt.Sprintf("case %d missing in step", k)
				}
			}
		}
		return ok, why
	case "(traversal/selector.ExploreRecursive).Explore":
		// every store to RecursionLimit.mode is one of the enum constants
		ok, why := true, ""
		nt := p.NamedType("traversal/selector", "RecursionLimit_Mode")
		valid := map[string]bool{}
		if nt != nil {
			for _, v := range enumConsts(nt) {
				valid[v.ExactString()] = true
			}
		}
		for _, f := range p.ModFns {
			pk := core.FuncPkg(f)
			if pk == nil || core.RelPkg(pk.Path()) != "traversal/selector" {
				continue
			}
			core.Instrs(f, func(in ssa.Instruction) {
				st, isSt := in.(*ssa.Store)
				if !isSt {
					return
				}
				fa, isFa := st.Addr.(*ssa.FieldAddr)
				if !isFa || core.FieldName(fa) != "RecursionLimit.mode" {
					return
				}
				cv := core.ConstVal(st.Val)
				if cv == nil || !valid[cv.ExactString()] {
					ok, why = false, "RecursionLimit.mode stored from a non-enum value at "+p.Pos(st.Pos())
				}
			})
		}
		if len(valid) == 0 {
			return false, "RecursionLimit_Mode enum not found"
		}
		return ok, why
	}
	return true, ""
}

// enumSwitchesAny finds expression switches (any tag type) in a function by name.
func enumSwitchesAny(p *core.Program, rel, fnName string) []switchInfo {
	pk := p.ByPath[core.ModPath+"/"+rel]
	if pk == nil {
		return nil
	}
	var out []switchInfo
	for _, f := range pk.Syntax {
		for _, d := range f.Decls {
			fd, ok := d.(*ast.FuncDecl)
			if !ok || fd.Body == nil {
				continue
			}
			name := fd.Name.Name
			if fd.Recv != nil && len(fd.Recv.List) > 0 {
				name = strings.TrimPrefix(types.ExprString(fd.Recv.List[0].Type), "*") + "." + name
			}
			if name != fnName {
				continue
			}
			ast.Inspect(fd.Body, func(n ast.Node) bool {
				sw, ok := n.(*ast.SwitchStmt)
				if !ok || sw.Tag == nil {
					return true
				}
				si := switchInfo{Fn: name, Pos: sw.Pos(), Cases: map[string]bool{}}
				for _, st := range sw.Body.List {
					for _, e := range st.(*ast.CaseClause).List {
						if v, ok := pk.TypesInfo.Types[e]; ok && v.Value != nil {
							si.Cases[v.Value.ExactString()] = true
						}
					}
				}
				out = append(out, si)
				return true
			})
		}
	}
	return out
}
