package rules

import (
	"fmt"
	"go/token"
	"go/types"
	"sort"
	"strings"

	"golang.org/x/tools/go/ssa"

	"verif/checker/internal/core"
)

func init() {
	register(&Def{
		ID: "C09",
		Explanation: "Structural necessary conditions of 'typed builders accept exactly conforming data', decided for every assembler implementation of the library (basicnode, bindnode type- and representation-level, generated demo code): (repeat) every map- or struct-typed MapAssembler can reject a repeated key on both key routes - a construction of ErrRepeatedMapKey is reachable in the assembler's local call closure from AssembleEntry, and from AssembleKey's key assembler / AssembleValue / Finish; (unionone) union map assemblers consult the already-set member before opening a second entry; (required) Finish of every struct assembler can report ErrMissingRequiredField; (fieldnil) the possibly-nil result of TypeStruct.Field is nil-tested before use in bindnode; (assert) a value that may be an error-carrying assembler is never force-asserted to another type; (kindgate) every mutation of the bound Go value in the reflection assembler's scalar Assign* is behind a passed kind-compatibility check. " +
			"Acceptance <=> conformance in general and error quality are not decided.",
		NotCovered: []string{"acceptance <=> conformance in general", "error quality / which call reports the rejection", "the AssembleKey route of bindnode reports a repeated key at the first value assignment rather than when the key is supplied"},
		Trusted:    []string{"go/ssa, go/types, VTA call graph (used only to resolve interface calls that have a single module callee)"},
		Run:        runC09,
	})
}

// localClosure computes the functions reachable from the roots through static
// calls, closures, and interface calls that VTA resolves to exactly one module
// function (delegation to an embedded/owned assembler). It never follows
// invoke calls with several possible callees (that would reach every
// implementation through datamodel.Copy and hide everything).
func localClosure(p *core.Program, roots []*ssa.Function) map[*ssa.Function]bool {
	vta := p.VTA()
	seen := map[*ssa.Function]bool{}
	var st []*ssa.Function
	for _, r := range roots {
		if r != nil {
			st = append(st, r)
		}
	}
	for len(st) > 0 {
		f := st[len(st)-1]
		st = st[:len(st)-1]
		if f == nil || seen[f] || len(f.Blocks) == 0 || !p.InModule(f) {
			continue
		}
		seen[f] = true
		for _, a := range f.AnonFuncs {
			st = append(st, a)
		}
		node := vta.Nodes[f]
		bySite := map[ssa.CallInstruction][]*ssa.Function{}
		if node != nil {
			for _, e := range node.Out {
				if e.Site != nil {
					bySite[e.Site] = append(bySite[e.Site], e.Callee.Func)
				}
			}
		}
		for _, ci := range core.Calls(f) {
			if cal := ci.Common().StaticCallee(); cal != nil {
				st = append(st, cal)
				continue
			}
			if ci.Common().IsInvoke() {
				cs := bySite[ci]
				uniq := map[*ssa.Function]bool{}
				for _, c := range cs {
					if p.InModule(c) {
						uniq[c] = true
					}
				}
				if len(uniq) == 1 {
					for c := range uniq {
						st = append(st, c)
					}
				}
			}
		}
	}
	return seen
}

// constructs reports whether some function of the set builds a value of the named error type (pkgRel.name).
func constructs(set map[*ssa.Function]bool, pkgRel, name string) bool {
	for f := range set {
		found := false
		core.Instrs(f, func(in ssa.Instruction) {
			var t types.Type
			switch x := in.(type) {
			case *ssa.MakeInterface:
				t = x.X.Type()
			case *ssa.Alloc:
				t = x.Type().(*types.Pointer).Elem()
			default:
				return
			}
			if nt := namedOfType(t); nt != nil && nt.Obj().Name() == name && nt.Obj().Pkg() != nil && core.RelPkg(nt.Obj().Pkg().Path()) == pkgRel {
				found = true
			}
		})
		if found {
			return true
		}
	}
	return false
}

func callsMethodOn(set map[*ssa.Function]bool, typ, method string) bool {
	for f := range set {
		for _, ci := range core.Calls(f) {
			if core.IsMethod(ci, "", typ, method) {
				return true
			}
		}
	}
	return false
}

// keyAssemblerTypes: concrete types AssembleKey may return.
func keyAssemblerTypes(p *core.Program, fn *ssa.Function, depth int) []types.Type {
	var out []types.Type
	if fn == nil || depth > 3 {
		return nil
	}
	for _, ret := range core.Returns(fn) {
		for _, v := range core.ResultValues(ret, 0) {
			switch x := v.(type) {
			case *ssa.MakeInterface:
				out = append(out, x.X.Type())
			case *ssa.Call:
				if cal := x.Call.StaticCallee(); cal != nil {
					out = append(out, keyAssemblerTypes(p, cal, depth+1)...)
				}
			case *ssa.Phi:
				for _, e := range x.Edges {
					if mi, ok := e.(*ssa.MakeInterface); ok {
						out = append(out, mi.X.Type())
					}
				}
			}
		}
	}
	return out
}

var repeatExceptions = map[string]string{
	"node/bindnode.basicMapAssembler": "embeds the MapAssembler interface; its single construction site stores the map assembler of basicnode's Any builder, which rejects repeats (checked under its own name)",
}

func runC09(c *core.Ctx) {
	p := c.P
	maIface := p.Iface("datamodel", "MapAssembler")
	laIface := p.Iface("datamodel", "ListAssembler")
	impls := p.Implementers(maIface, libraryPkg)

	c.Rule("C09.repeat", "every map- or struct-typed MapAssembler implementation can reject a repeated key on both key routes: a construction of datamodel.ErrRepeatedMapKey is reachable (local call closure) from AssembleEntry, and from the route AssembleKey -> key assembler's AssignString/AssignNode -> AssembleValue / Finish", 30)
	var unions []core.Impl
	var structAsms []core.Impl
	for _, im := range impls {
		name := core.RelPkg(im.Named.Obj().Pkg().Path()) + "." + im.Named.Obj().Name()
		entry := p.Method(im.Type(), "AssembleEntry")
		key := p.Method(im.Type(), "AssembleKey")
		val := p.Method(im.Type(), "AssembleValue")
		fin := p.Method(im.Type(), "Finish")
		if entry == nil || key == nil {
			continue
		}
		whole := localClosure(p, []*ssa.Function{entry, key, val, fin})
		if constructs(whole, "schema", "ErrNotUnionStructure") {
			unions = append(unions, im)
			continue
		}
		if constructs(localClosure(p, []*ssa.Function{entry, val}), "schema", "ErrInvalidKey") || callsMethodOn(localClosure(p, []*ssa.Function{entry, val}), "TypeStruct", "Field") {
			structAsms = append(structAsms, im)
		}
		if why, ok := repeatExceptions[name]; ok {
			c.Info(name+"#repeat", p.Pos(entry.Pos()), "frozen exception: "+why)
			continue
		}
		routeE := constructs(localClosure(p, []*ssa.Function{entry}), "datamodel", "ErrRepeatedMapKey")
		c.Check(routeE, name+"#AssembleEntry-route", p.Pos(entry.Pos()), "can reject a repeated key", "no construction of ErrRepeatedMapKey is reachable from AssembleEntry: a key supplied twice through the entry shortcut is silently accepted")
		roots := []*ssa.Function{val, fin}
		for _, kt := range keyAssemblerTypes(p, key, 0) {
			roots = append(roots, p.Method(kt, "AssignString"), p.Method(kt, "AssignNode"))
		}
		routeK := constructs(localClosure(p, roots), "datamodel", "ErrRepeatedMapKey")
		c.Check(routeK, name+"#AssembleKey-route", p.Pos(key.Pos()), "can reject a repeated key", "no construction of ErrRepeatedMapKey is reachable from the key assembler, AssembleValue or Finish: a key supplied twice through AssembleKey/AssembleValue is silently accepted")
	}

	c.Rule("C09.unionone", "every union MapAssembler can refuse a second entry: from AssembleValue/AssembleEntry (or the key assembler) a construction of ErrNotUnionStructure is reachable that is guarded by the assembler's own already-set state (a test of the member index / state field dominates it), not only by the member-name lookup", 2)
	for _, im := range unions {
		name := core.RelPkg(im.Named.Obj().Pkg().Path()) + "." + im.Named.Obj().Name()
		entry := p.Method(im.Type(), "AssembleEntry")
		key := p.Method(im.Type(), "AssembleKey")
		val := p.Method(im.Type(), "AssembleValue")
		roots := []*ssa.Function{entry, val}
		for _, kt := range keyAssemblerTypes(p, key, 0) {
			roots = append(roots, p.Method(kt, "AssignString"), p.Method(kt, "AssignNode"))
		}
		ok := false
		// the union assembler's own reflect.Value field (not the key assembler's): in the reflection binding the state IS the bound Go value
		ownBoundValue := func(x *ssa.FieldAddr) bool {
			if !isReflectValueField(x) {
				return false
			}
			pt, isPtr := x.X.Type().Underlying().(*types.Pointer)
			if !isPtr {
				return false
			}
			nt := namedOfType(pt.Elem())
			return nt != nil && (nt.Obj() == im.Named.Obj() || types.ConvertibleTo(types.NewPointer(nt), types.NewPointer(im.Named)))
		}
		for f := range localClosure(p, roots) {
			// a construction of ErrNotUnionStructure behind a condition on receiver state (state field, or the bound value)
			core.Instrs(f, func(in ssa.Instruction) {
				mi, isMI := in.(*ssa.MakeInterface)
				if !isMI {
					return
				}
				nt := namedOfType(mi.X.Type())
				if nt == nil || nt.Obj().Name() != "ErrNotUnionStructure" {
					return
				}
				for d := mi.Block(); d != nil; d = d.Idom() {
					id := d.Idom()
					if id == nil {
						break
					}
					ifi := core.BlockIf(id)
					if ifi == nil {
						continue
					}
					for w := range core.BackSlice(ifi.Cond, core.SliceOpts{}) {
						switch x := w.(type) {
						case *ssa.Call:
							// reflection binding: the current member is read off the bound Go value by a helper
							// (its result is control-, not data-dependent on the value): a static call that is handed
							// the union assembler's own reflect.Value
							if x.Call.StaticCallee() != nil && !x.Call.IsInvoke() {
								for _, a := range x.Call.Args {
									for aw := range core.BackSlice(a, core.SliceOpts{Local: true}) {
										if fa, isFA := aw.(*ssa.FieldAddr); isFA && ownBoundValue(fa) {
											ok = true
										}
									}
								}
							}
						case *ssa.FieldAddr:
							fnm := core.FieldName(x)
							if isStateField(x) || strings.HasSuffix(fnm, ".tag") || strings.HasSuffix(fnm, ".ca") {
								ok = true
							}
							if ownBoundValue(x) {
								ok = true
							}
						}
					}
				}
			})
		}
		c.Check(ok, name+"#second-entry", p.Pos(entry.Pos()), "a second entry is refused on the assembler's own state", "the union assembler never consults whether a member is already set before opening another entry: a second entry silently replaces the first")
	}

	c.Rule("C09.required", "Finish of every struct assembler (type level and every representation: map, tuple, listpairs, stringjoin builders excluded) can report ErrMissingRequiredField: a construction of schema.ErrMissingRequiredField is reachable in Finish's local call closure", 6)
	// struct list-representation assemblers (tuple/listpairs) are ListAssemblers whose closure consults TypeStruct
	for _, im := range p.Implementers(laIface, libraryPkg) {
		valf := p.Method(im.Type(), "AssembleValue")
		// the method body itself consults the struct type (the inner pair assembler of listpairs only delegates to its parent)
		if valf != nil && (callsMethodOn(map[*ssa.Function]bool{valf: true}, "TypeStruct", "Fields") || callsMethodOn(map[*ssa.Function]bool{valf: true}, "TypeStruct", "Field")) {
			structAsms = append(structAsms, im)
		}
	}
	for _, im := range structAsms {
		name := core.RelPkg(im.Named.Obj().Pkg().Path()) + "." + im.Named.Obj().Name()
		fin := p.Method(im.Type(), "Finish")
		if fin == nil {
			continue
		}
		cl := localClosure(p, []*ssa.Function{fin})
		ok := constructs(cl, "schema", "ErrMissingRequiredField")
		// generated assemblers of structs whose fields are all optional have nothing to report
		if !ok && allOptionalStruct(p, im) {
			c.Info(name+"#Finish-required", p.Pos(fin.Pos()), "struct has no required field")
			continue
		}
		c.Check(ok, name+"#Finish-required", p.Pos(fin.Pos()), "Finish can report missing required fields", "Finish of a struct assembler cannot report ErrMissingRequiredField: a struct missing required fields is built silently")
	}

	c.Rule("C09.splitexact", "a stringjoin struct is taken apart without a limit on the number of parts: where bindnode splits the representation string by the strategy's delimiter (GetDelim) it uses strings.Split (or SplitN with a negative count), so that the comparison of the number of parts with the number of fields sees surplus components and rejects them", 1)
	{
		nsp := 0
		for _, fn := range p.ModFns {
			pk := core.FuncPkg(fn)
			if pk == nil || core.RelPkg(pk.Path()) != "node/bindnode" || len(fn.Blocks) == 0 {
				continue
			}
			for _, ci := range core.Calls(fn) {
				o := core.CalleeObj(ci)
				if o == nil || o.Pkg() == nil || o.Pkg().Path() != "strings" || len(ci.Common().Args) < 2 || o.Type().(*types.Signature).Recv() != nil {
					continue
				}
				if !strings.HasPrefix(o.Name(), "Split") && o.Name() != "Cut" {
					continue
				}
				byDelim := false
				for w := range core.BackSlice(ci.Common().Args[1], core.SliceOpts{Stores: true}) {
					if cl, ok := w.(*ssa.Call); ok && core.CalleeObj(cl) != nil && core.CalleeObj(cl).Name() == "GetDelim" {
						// the delimiter of a struct's stringjoin strategy (a stringprefix union splits off one prefix, by design)
						if rn := core.RecvNamed(core.CalleeObj(cl)); rn != nil && strings.HasPrefix(rn.Obj().Name(), "StructRepresentation") {
							byDelim = true
						}
					}
				}
				if !byDelim {
					continue
				}
				nsp++
				good := o.Name() == "Split"
				if o.Name() == "SplitN" && len(ci.Common().Args) == 3 {
					if k, isC := core.ConstInt(ci.Common().Args[2]); isC && k < 0 {
						good = true
					}
				}
				c.Check(good, fmt.Sprintf("%s#split-by-delim%d", core.FuncKey(fn), nsp), p.Pos(ci.Pos()), "split without a limit", "the representation string is split with strings."+o.Name()+" under a limit: surplus components are folded into the last part, the part count always matches, and input that does not conform to the schema is accepted")
			}
		}
		if nsp == 0 {
			c.Undecided("node/bindnode#stringjoin-split", "-", "no split of a representation string by the strategy's delimiter found")
		}
	}

	c.Rule("C09.fieldnil", "in node/bindnode every result of (*schema.TypeStruct).Field (nil for an unknown name) is compared with nil before any method is called on it", 2)
	for _, fn := range p.ModFns {
		pk := core.FuncPkg(fn)
		if pk == nil || core.RelPkg(pk.Path()) != "node/bindnode" || len(fn.Blocks) == 0 {
			continue
		}
		n := 0
		for _, ci := range core.Calls(fn) {
			cv := core.CallValue(ci)
			if cv == nil || !core.IsMethod(ci, "", "TypeStruct", "Field") {
				continue
			}
			n++
			nonNil := core.EdgesWhere(fn, func(r core.Rel) bool { return r.Op == token.NEQ && r.X == ssa.Value(cv) && core.IsNilConst(r.Y) })
			bad := false
			var path []string
			for _, use := range *cv.Referrers() {
				// dereferencing uses: a load through the pointer (value-receiver method calls copy *p first),
				// a field address, or a pointer-receiver method call
				deref := false
				switch x := use.(type) {
				case *ssa.UnOp:
					deref = x.Op == token.MUL && x.X == ssa.Value(cv)
				case *ssa.FieldAddr:
					deref = x.X == ssa.Value(cv)
				case ssa.CallInstruction:
					deref = len(x.Common().Args) > 0 && x.Common().Args[0] == ssa.Value(cv)
				}
				if !deref {
					continue
				}
				if pth, reached := core.Reach(fn, cv, isTarget(use), nonNil, nil); reached {
					bad = true
					path = p.Witness(pth)
				}
			}
			c.Check(!bad, fmt.Sprintf("%s#Field%d", core.FuncKey(fn), n), p.Pos(cv.Pos()), "nil-tested before use", "the result of TypeStruct.Field is used without a nil test: an unknown field name dereferences nil", path...)
		}
	}

	c.Rule("C09.assert", "no non-comma-ok type assertion in library code is applied to the result of a module function that may return an error-carrying assembler (a NodeAssembler whose every Assign*/Begin* returns an error held in the receiver): such an assertion turns a data-dependent rejection into a panic", 3)
	carriers := errorCarriers(p)
	var cnames []string
	for t := range carriers {
		cnames = append(cnames, t.Obj().Name())
	}
	sort.Strings(cnames)
	c.Note("C09.assert: error-carrier types discovered by shape: %v", cnames)
	if len(carriers) == 0 {
		c.Undecided("C09.assert#carriers", "-", "no error-carrying assembler type found")
	}
	memo := map[*ssa.Function]map[*types.Named]bool{}
	for _, fn := range p.ModFns {
		pk := core.FuncPkg(fn)
		if pk == nil || !libraryPkg(core.RelPkg(pk.Path())) || len(fn.Blocks) == 0 {
			continue
		}
		n := 0
		core.Instrs(fn, func(in ssa.Instruction) {
			ta, ok := in.(*ssa.TypeAssert)
			if !ok || ta.CommaOk {
				return
			}
			cv, ok := core.Strip(ta.X).(*ssa.Call)
			if !ok {
				return
			}
			cal := cv.Call.StaticCallee()
			if cal == nil || !p.InModule(cal) {
				return
			}
			rts := returnTypes(cal, 0, memo)
			hit := ""
			for t := range rts {
				if carriers[t] && !types.Identical(ta.AssertedType, t) {
					hit = t.Obj().Name()
				}
			}
			if len(rts) == 0 {
				return
			}
			n++
			c.Check(hit == "", fmt.Sprintf("%s#assert%d->%s", core.FuncKey(fn), n, cal.Name()), p.Pos(ta.Pos()), "callee never returns an error carrier (or the assertion is to the carrier itself)", fmt.Sprintf("forced assertion to %s of the result of %s, which may return the error carrier %s: a rejected input panics instead of returning the error", core.TypeString(ta.AssertedType), core.FuncKey(cal), hit))
		})
	}

	c.Rule("C09.childreset", "a container assembler of bindnode that hands out a child assembler it keeps inside itself (a reused field such as curKey) resets that child completely first: on every path to the return either the whole child struct is overwritten, or every one of its fields is stored - otherwise state of the previous entry (nullable, finish hook, schema type) carries over into the next entry and changes what it accepts", 3)
	for _, fn := range p.ModFns {
		pk := core.FuncPkg(fn)
		if pk == nil || core.RelPkg(pk.Path()) != "node/bindnode" || len(fn.Blocks) == 0 || fn.Synthetic != "" {
			continue
		}
		if fn.Name() != "AssembleKey" && fn.Name() != "AssembleValue" {
			continue
		}
		for _, ret := range core.Returns(fn) {
			for _, v := range core.ResultValues(ret, 0) {
				mi, ok := v.(*ssa.MakeInterface)
				if !ok {
					continue
				}
				fa, ok := mi.X.(*ssa.FieldAddr)
				if !ok {
					continue
				}
				if _, isParam := fa.X.(*ssa.Parameter); !isParam {
					continue
				}
				st, _ := fa.Type().(*types.Pointer).Elem().Underlying().(*types.Struct)
				if st == nil {
					continue
				}
				sameChild := func(a ssa.Value) bool {
					x, ok := a.(*ssa.FieldAddr)
					return ok && x.X == fa.X && x.Field == fa.Field
				}
				whole := func(in ssa.Instruction) bool {
					s2, ok := in.(*ssa.Store)
					return ok && sameChild(s2.Addr)
				}
				var missing []string
				if _, reached := core.Reach(fn, nil, isTarget(ret), nil, whole); reached {
					for i := 0; i < st.NumFields(); i++ {
						fi := i
						fieldStore := func(in ssa.Instruction) bool {
							if whole(in) {
								return true
							}
							s2, ok := in.(*ssa.Store)
							if !ok {
								return false
							}
							inner, ok := s2.Addr.(*ssa.FieldAddr)
							return ok && inner.Field == fi && sameChild(inner.X)
						}
						if _, r := core.Reach(fn, nil, isTarget(ret), nil, fieldStore); r {
							missing = append(missing, st.Field(i).Name())
						}
					}
				}
				c.Check(len(missing) == 0, fmt.Sprintf("%s#reused-child:%s", core.FuncKey(fn), core.FieldName(fa)), p.Pos(ret.Pos()), "reused child assembler is fully reset before it is handed out", fmt.Sprintf("the reused child assembler %s is handed out without its field(s) %v having been reset on every path: what the previous entry left there decides what this entry accepts", core.FieldName(fa), missing))
			}
		}
	}

	c.Rule("C09.kindgate", "in every scalar Assign* method of the reflection assembler (bindnode._assembler: AssignBool/Int/Float/String/Bytes, assignUInt) each mutation of the bound Go value (reflect.Value.Set*, createNonPtrVal) is dominated by the nil edge of the kind-compatibility check's result", 6)
	asmT := p.NamedType("node/bindnode", "_assembler")
	if asmT == nil {
		c.Undecided("node/bindnode._assembler", "-", "type not found")
	} else {
		for _, fn := range assignMethodsOf(p, asmT, false) {
			m := fn.Name()
			if m == "AssignNull" || m == "AssignLink" {
				continue // no scalar kind to check: null is decided by nullability, links by Go-type assignability (outside this rule's domain)
			}
			var gate *ssa.Call
			for _, ci := range core.CallsR(fn) {
				if isKindCheck(ci) {
					gate = core.CallValue(ci)
				}
			}
			if gate == nil {
				c.Fail("node/bindnode._assembler."+m+"#gate", p.Pos(fn.Pos()), "no kind-compatibility check in a scalar assign: any kind of data is stored into the bound value")
				continue
			}
			nilEdges := core.EdgesWhere(fn, func(r core.Rel) bool {
				return r.Op == token.EQL && core.Strip(r.X) == ssa.Value(gate) && core.IsNilConst(r.Y)
			})
			bad := false
			var path []string
			for _, ci := range core.Calls(fn) {
				o := core.CalleeObj(ci)
				if o == nil {
					continue
				}
				mut := false
				if rn := core.RecvNamed(o); rn != nil && rn.Obj().Pkg() != nil && rn.Obj().Pkg().Path() == "reflect" && strings.HasPrefix(o.Name(), "Set") {
					mut = true
				}
				if isValueMaterialiser(p, ci) {
					mut = true
				}
				if !mut {
					continue
				}
				if pth, reached := core.Reach(fn, nil, isTarget(ci), nilEdges, nil); reached {
					bad = true
					path = p.Witness(pth)
				}
			}
			c.Check(!bad && len(nilEdges) > 0, "node/bindnode._assembler."+m+"#gate", p.Pos(gate.Pos()), "mutations only behind the passed kind check", m+" can mutate the bound Go value without having passed the kind-compatibility check", path...)
		}
	}
}

// allOptionalStruct: generated struct assemblers whose Finish has no sufficiency test because no field is required.
func allOptionalStruct(p *core.Program, im core.Impl) bool {
	return false
}

// errorCarriers finds NodeAssembler implementations every Assign*/Begin* method of which returns an error loaded from the receiver.
func errorCarriers(p *core.Program) map[*types.Named]bool {
	out := map[*types.Named]bool{}
	na := p.Iface("datamodel", "NodeAssembler")
	for _, im := range p.Implementers(na, libraryPkg) {
		st, ok := im.Named.Underlying().(*types.Struct)
		if !ok || st.NumFields() == 0 {
			continue
		}
		all, n := true, 0
		for i := 0; i < na.NumMethods(); i++ {
			mn := na.Method(i).Name()
			if !strings.HasPrefix(mn, "Assign") && !strings.HasPrefix(mn, "Begin") {
				continue
			}
			fn := p.Method(im.Type(), mn)
			if fn == nil || len(fn.Blocks) == 0 {
				all = false
				break
			}
			n++
			errIdx := core.ErrResultIndex(fn)
			for _, ret := range core.Returns(fn) {
				for _, v := range core.ResultValues(ret, errIdx) {
					// follow the pointer-receiver wrapper to the value method
					if cl, ok := core.Strip(v).(*ssa.Call); ok && cl.Call.StaticCallee() != nil {
						inner := cl.Call.StaticCallee()
						ok2 := true
						for _, r2 := range core.Returns(inner) {
							for _, v2 := range core.ResultValues(r2, core.ErrResultIndex(inner)) {
								if !isReceiverFieldLoad(v2) {
									ok2 = false
								}
							}
						}
						if !ok2 {
							all = false
						}
						continue
					}
					if e, ok := core.Strip(v).(*ssa.Extract); ok {
						if cl, ok := e.Tuple.(*ssa.Call); ok && cl.Call.StaticCallee() != nil {
							inner := cl.Call.StaticCallee()
							for _, r2 := range core.Returns(inner) {
								for _, v2 := range core.ResultValues(r2, core.ErrResultIndex(inner)) {
									if !isReceiverFieldLoad(v2) {
										all = false
									}
								}
							}
							continue
						}
					}
					if !isReceiverFieldLoad(v) {
						all = false
					}
				}
			}
		}
		if all && n >= 8 {
			out[im.Named] = true
		}
	}
	return out
}

func isReceiverFieldLoad(v ssa.Value) bool {
	switch x := v.(type) {
	case *ssa.Field:
		_, ok := x.X.(*ssa.Parameter)
		return ok
	case *ssa.UnOp:
		if fa, ok := x.X.(*ssa.FieldAddr); ok {
			switch b := fa.X.(type) {
			case *ssa.Parameter:
				return true
			case *ssa.Alloc:
				_ = b
				return true // by-value receiver spilled to a local
			}
		}
	}
	return false
}

// returnTypes collects the concrete named types a function may return in result 0 (through phis and static calls, depth <= 4).
func returnTypes(fn *ssa.Function, depth int, memo map[*ssa.Function]map[*types.Named]bool) map[*types.Named]bool {
	if m, ok := memo[fn]; ok {
		return m
	}
	out := map[*types.Named]bool{}
	memo[fn] = out
	if fn == nil || len(fn.Blocks) == 0 || depth > 4 || fn.Signature.Results().Len() == 0 {
		return out
	}
	var visit func(v ssa.Value, seen map[ssa.Value]bool)
	visit = func(v ssa.Value, seen map[ssa.Value]bool) {
		if seen[v] {
			return
		}
		seen[v] = true
		switch x := v.(type) {
		case *ssa.MakeInterface:
			if nt := namedOfType(x.X.Type()); nt != nil {
				out[nt] = true
			}
		case *ssa.ChangeInterface:
			visit(x.X, seen)
		case *ssa.Phi:
			for _, e := range x.Edges {
				visit(e, seen)
			}
		case *ssa.Call:
			if cal := x.Call.StaticCallee(); cal != nil {
				for t := range returnTypes(cal, depth+1, memo) {
					out[t] = true
				}
			}
		case *ssa.Extract:
			if x.Index == 0 {
				if cl, ok := x.Tuple.(*ssa.Call); ok && cl.Call.StaticCallee() != nil {
					for t := range returnTypes(cl.Call.StaticCallee(), depth+1, memo) {
						out[t] = true
					}
				}
			}
		}
	}
	for _, ret := range core.Returns(fn) {
		for _, v := range core.ResultValues(ret, 0) {
			visit(v, map[ssa.Value]bool{})
		}
	}
	return out
}
