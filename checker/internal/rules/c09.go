package rules

import (
	"fmt"
	"go/constant"
	"go/token"
	"go/types"
	"sort"
	"strings"

	"golang.org/x/tools/go/ssa"

	"verif/checker/internal/core"
)

func init() {
	register(&Def{
		ID: "C09",
		Explanation: "Structural necessary conditions of 'typed builders accept exactly conforming data', decided for every assembler implementation of the library (basicnode, bindnode type- and representation-level, generated demo code): (repeat) every map- or struct-typed MapAssembler can reject a repeated key on both key routes - a construction of ErrRepeatedMapKey is reachable in the assembler's local call closure from AssembleEntry, and from AssembleKey's key assembler / AssembleValue / Finish; (unionone) union map assemblers consult the already-set member before opening a second entry; (required) Finish of every struct assembler can report ErrMissingRequiredField; (fieldnil) the possibly-nil result of TypeStruct.Field is nil-tested before use in bindnode; (assert) a value that may be an error-carrying assembler is never force-asserted to another type; (kindgate) every mutation of the bound Go value in the reflection assembler's scalar Assign* is behind a passed kind-compatibility check.  (arity) a fixed-arity list assembler refuses to finish short; (enummember) a type-level AssignString consults the enum members; every successful return of a function that rejects a repeated key on an index look-up lies beyond that look-up." +
			"Acceptance <=> conformance in general and error quality are not decided.",
		NotCovered: []string{"acceptance <=> conformance in general", "error quality / which call reports the rejection", "the AssembleKey route of bindnode reports a repeated key at the first value assignment rather than when the key is supplied"},
		Trusted:    []string{"go/ssa, go/types, VTA call graph (used only to resolve interface calls that have a single module callee)"},
		Run:        runC09,
	})
}

// localClosure computes the functions reachable from the roots through static
// calls, closures, and interface calls that VTA resolves to exactly one module
// function (delegation to an embedded/owned assembler). It never follows
// invoke calls with several possible callees (that would reach every
// implementation through datamodel.Copy and hide everything).
func localClosure(p *core.Program, roots []*ssa.Function) map[*ssa.Function]bool {
	vta := p.VTA()
	seen := map[*ssa.Function]bool{}
	var st []*ssa.Function
	for _, r := range roots {
		if r != nil {
			st = append(st, r)
		}
	}
	for len(st) > 0 {
		f := st[len(st)-1]
		st = st[:len(st)-1]
		if f == nil || seen[f] || len(f.Blocks) == 0 || !p.InModule(f) {
			continue
		}
		seen[f] = true
		for _, a := range f.AnonFuncs {
			st = append(st, a)
		}
		node := vta.Nodes[f]
		bySite := map[ssa.CallInstruction][]*ssa.Function{}
		if node != nil {
			for _, e := range node.Out {
				if e.Site != nil {
					bySite[e.Site] = append(bySite[e.Site], e.Callee.Func)
				}
			}
		}
		for _, ci := range core.Calls(f) {
			if cal := ci.Common().StaticCallee(); cal != nil {
				st = append(st, cal)
				continue
			}
			if ci.Common().IsInvoke() {
				cs := bySite[ci]
				uniq := map[*ssa.Function]bool{}
				for _, c := range cs {
					if p.InModule(c) {
						uniq[c] = true
					}
				}
				if len(uniq) == 1 {
					for c := range uniq {
						st = append(st, c)
					}
				}
			}
		}
	}
	return seen
}

// constructs reports whether some function of the set builds a value of the named error type (pkgRel.name).
func constructs(set map[*ssa.Function]bool, pkgRel, name string) bool {
	for f := range set {
		found := false
		core.Instrs(f, func(in ssa.Instruction) {
			var t types.Type
			switch x := in.(type) {
			case *ssa.MakeInterface:
				t = x.X.Type()
			case *ssa.Alloc:
				t = x.Type().(*types.Pointer).Elem()
			default:
				return
			}
			if nt := namedOfType(t); nt != nil && nt.Obj().Name() == name && nt.Obj().Pkg() != nil && core.RelPkg(nt.Obj().Pkg().Path()) == pkgRel {
				found = true
			}
		})
		if found {
			return true
		}
	}
	return false
}

func callsMethodOn(set map[*ssa.Function]bool, typ, method string) bool {
	for f := range set {
		for _, ci := range core.Calls(f) {
			if core.IsMethod(ci, "", typ, method) {
				return true
			}
		}
	}
	return false
}

// keyAssemblerTypes: concrete types AssembleKey may return.
func keyAssemblerTypes(p *core.Program, fn *ssa.Function, depth int) []types.Type {
	var out []types.Type
	if fn == nil || depth > 3 {
		return nil
	}
	for _, ret := range core.Returns(fn) {
		for _, v := range core.ResultValues(ret, 0) {
			switch x := v.(type) {
			case *ssa.MakeInterface:
				out = append(out, x.X.Type())
			case *ssa.Call:
				if cal := x.Call.StaticCallee(); cal != nil {
					out = append(out, keyAssemblerTypes(p, cal, depth+1)...)
				}
			case *ssa.Phi:
				for _, e := range x.Edges {
					if mi, ok := e.(*ssa.MakeInterface); ok {
						out = append(out, mi.X.Type())
					}
				}
			}
		}
	}
	return out
}

var repeatExceptions = map[string]string{
	"node/bindnode.basicMapAssembler": "embeds the MapAssembler interface; its single construction site stores the map assembler of basicnode's Any builder, which rejects repeats (checked under its own name)",
}

func runC09(c *core.Ctx) {
	p := c.P
	maIface := p.Iface("datamodel", "MapAssembler")
	laIface := p.Iface("datamodel", "ListAssembler")
	impls := p.Implementers(maIface, libraryPkg)

	c.Rule("C09.repeat", "every map- or struct-typed MapAssembler implementation can reject a repeated key on both key routes: a construction of datamodel.ErrRepeatedMapKey is reachable (local call closure) from AssembleEntry, and from the route AssembleKey -> key assembler's AssignString/AssignNode -> AssembleValue / Finish", 30)
	var unions []core.Impl
	var structAsms []core.Impl
	for _, im := range impls {
		name := core.RelPkg(im.Named.Obj().Pkg().Path()) + "." + im.Named.Obj().Name()
		entry := p.Method(im.Type(), "AssembleEntry")
		key := p.Method(im.Type(), "AssembleKey")
		val := p.Method(im.Type(), "AssembleValue")
		fin := p.Method(im.Type(), "Finish")
		if entry == nil || key == nil {
			continue
		}
		whole := localClosure(p, []*ssa.Function{entry, key, val, fin})
		if constructs(whole, "schema", "ErrNotUnionStructure") {
			unions = append(unions, im)
			continue
		}
		if constructs(localClosure(p, []*ssa.Function{entry, val}), "schema", "ErrInvalidKey") || callsMethodOn(localClosure(p, []*ssa.Function{entry, val}), "TypeStruct", "Field") {
			structAsms = append(structAsms, im)
		}
		if why, ok := repeatExceptions[name]; ok {
			c.Info(name+"#repeat", p.Pos(entry.Pos()), "frozen exception: "+why)
			continue
		}
		routeE := constructs(localClosure(p, []*ssa.Function{entry}), "datamodel", "ErrRepeatedMapKey")
		c.Check(routeE, name+"#AssembleEntry-route", p.Pos(entry.Pos()), "can reject a repeated key", "no construction of ErrRepeatedMapKey is reachable from AssembleEntry: a key supplied twice through the entry shortcut is silently accepted")
		roots := []*ssa.Function{val, fin}
		for _, kt := range keyAssemblerTypes(p, key, 0) {
			roots = append(roots, p.Method(kt, "AssignString"), p.Method(kt, "AssignNode"))
		}
		routeK := constructs(localClosure(p, roots), "datamodel", "ErrRepeatedMapKey")
		c.Check(routeK, name+"#AssembleKey-route", p.Pos(key.Pos()), "can reject a repeated key", "no construction of ErrRepeatedMapKey is reachable from the key assembler, AssembleValue or Finish: a key supplied twice through AssembleKey/AssembleValue is silently accepted")
	}

	// ... and where the rejection hangs on a look-up of the key in the assembler's index (a comma-ok map read), that
	// look-up is made for every key: no way to a successful return goes around it
	for _, fn := range p.ModFns {
		pk := core.FuncPkg(fn)
		if pk == nil || !libraryPkg(core.RelPkg(pk.Path())) || len(fn.Blocks) == 0 || fn.Synthetic != "" {
			continue
		}
		if !constructs(map[*ssa.Function]bool{fn: true}, "datamodel", "ErrRepeatedMapKey") {
			continue
		}
		// the construction's block and the comma-ok look-ups whose outcome guards it
		var lookups []*ssa.Lookup
		core.Instrs(fn, func(in ssa.Instruction) {
			var t types.Type
			switch x := in.(type) {
			case *ssa.MakeInterface:
				t = x.X.Type()
			case *ssa.Alloc:
				t = x.Type().(*types.Pointer).Elem()
			default:
				return
			}
			if nt := namedOfType(t); nt == nil || nt.Obj().Name() != "ErrRepeatedMapKey" {
				return
			}
			for _, e := range core.IfEdges(fn) {
				if e.From.Parent() != fn || !core.EdgeDominates(e, in.Block()) {
					continue
				}
				ifi := core.BlockIf(e.From)
				for w := range core.BackSlice(ifi.Cond, core.SliceOpts{Local: true}) {
					ex, ok := w.(*ssa.Extract)
					if !ok || ex.Index != 1 {
						continue
					}
					if lk, ok := ex.Tuple.(*ssa.Lookup); ok && lk.CommaOk {
						dup := false
						for _, o := range lookups {
							dup = dup || o == lk
						}
						if !dup {
							lookups = append(lookups, lk)
						}
					}
				}
			}
		})
		if len(lookups) == 0 {
			continue // the rejection is decided some other way (a scan of the keys so far): not an instance
		}
		errIdx := core.ErrResultIndex(fn)
		isLookup := func(in ssa.Instruction) bool {
			for _, lk := range lookups {
				if in == ssa.Instruction(lk) {
					return true
				}
			}
			return false
		}
		bad := false
		var wp []string
		pos := fn.Pos()
		for _, ret := range core.Returns(fn) {
			if errIdx >= 0 && core.ResultNilness(ret, errIdx) == core.NonNil {
				continue
			}
			if path, reached := core.Reach(fn, nil, successReturn(ret, errIdx), nil, isLookup); reached {
				bad, wp, pos = true, p.Witness(path), ret.Pos()
			}
		}
		c.Check(!bad, core.FuncKey(fn)+"#repeat-lookup-on-every-path", p.Pos(pos), "every key is looked up in the index before it is accepted", "a key can be accepted (the function returns without error) on a path that does not look it up in the assembler's index: a shortcut decides from something else (order of arrival, a flag kept by another entry point) that the key is new, and a repeated key supplied by the route that does not keep that something up to date is accepted", wp...)
	}

	c.Rule("C09.unionone", "every union MapAssembler can refuse a second entry: from AssembleValue/AssembleEntry (or the key assembler) a construction of ErrNotUnionStructure is reachable that is guarded by the assembler's own already-set state (a test of the member index / state field dominates it), not only by the member-name lookup", 2)
	for _, im := range unions {
		name := core.RelPkg(im.Named.Obj().Pkg().Path()) + "." + im.Named.Obj().Name()
		entry := p.Method(im.Type(), "AssembleEntry")
		key := p.Method(im.Type(), "AssembleKey")
		val := p.Method(im.Type(), "AssembleValue")
		roots := []*ssa.Function{entry, val}
		for _, kt := range keyAssemblerTypes(p, key, 0) {
			roots = append(roots, p.Method(kt, "AssignString"), p.Method(kt, "AssignNode"))
		}
		ok := false
		// the union assembler's own reflect.Value field (not the key assembler's): in the reflection binding the state IS the bound Go value
		ownBoundValue := func(x *ssa.FieldAddr) bool {
			if !isReflectValueField(x) {
				return false
			}
			pt, isPtr := x.X.Type().Underlying().(*types.Pointer)
			if !isPtr {
				return false
			}
			nt := namedOfType(pt.Elem())
			return nt != nil && (nt.Obj() == im.Named.Obj() || types.ConvertibleTo(types.NewPointer(nt), types.NewPointer(im.Named)))
		}
		for f := range localClosure(p, roots) {
			// a construction of ErrNotUnionStructure behind a condition on receiver state (state field, or the bound value)
			core.Instrs(f, func(in ssa.Instruction) {
				mi, isMI := in.(*ssa.MakeInterface)
				if !isMI {
					return
				}
				nt := namedOfType(mi.X.Type())
				if nt == nil || nt.Obj().Name() != "ErrNotUnionStructure" {
					return
				}
				for d := mi.Block(); d != nil; d = d.Idom() {
					id := d.Idom()
					if id == nil {
						break
					}
					ifi := core.BlockIf(id)
					if ifi == nil {
						continue
					}
					for w := range core.BackSlice(ifi.Cond, core.SliceOpts{}) {
						switch x := w.(type) {
						case *ssa.Call:
							// reflection binding: the current member is read off the bound Go value by a helper
							// (its result is control-, not data-dependent on the value): a static call that is handed
							// the union assembler's own reflect.Value
							if x.Call.StaticCallee() != nil && !x.Call.IsInvoke() {
								for _, a := range x.Call.Args {
									for aw := range core.BackSlice(a, core.SliceOpts{Local: true}) {
										if fa, isFA := aw.(*ssa.FieldAddr); isFA && ownBoundValue(fa) {
											ok = true
										}
									}
								}
							}
						case *ssa.FieldAddr:
							fnm := core.FieldName(x)
							if isStateField(x) || strings.HasSuffix(fnm, ".tag") || strings.HasSuffix(fnm, ".ca") {
								ok = true
							}
							if ownBoundValue(x) {
								ok = true
							}
						}
					}
				}
			})
		}
		c.Check(ok, name+"#second-entry", p.Pos(entry.Pos()), "a second entry is refused on the assembler's own state", "the union assembler never consults whether a member is already set before opening another entry: a second entry silently replaces the first")
	}

	c.Rule("C09.required", "Finish of every struct assembler (type level and every representation: map, tuple, listpairs, stringjoin builders excluded) can report ErrMissingRequiredField: a construction of schema.ErrMissingRequiredField is reachable in Finish's local call closure", 6)
	// struct list-representation assemblers (tuple/listpairs) are ListAssemblers whose closure consults TypeStruct
	for _, im := range p.Implementers(laIface, libraryPkg) {
		valf := p.Method(im.Type(), "AssembleValue")
		// the method body itself consults the struct type (the inner pair assembler of listpairs only delegates to its parent)
		if valf != nil && (callsMethodOn(map[*ssa.Function]bool{valf: true}, "TypeStruct", "Fields") || callsMethodOn(map[*ssa.Function]bool{valf: true}, "TypeStruct", "Field")) {
			structAsms = append(structAsms, im)
		}
	}
	for _, im := range structAsms {
		name := core.RelPkg(im.Named.Obj().Pkg().Path()) + "." + im.Named.Obj().Name()
		fin := p.Method(im.Type(), "Finish")
		if fin == nil {
			continue
		}
		cl := localClosure(p, []*ssa.Function{fin})
		ok := constructs(cl, "schema", "ErrMissingRequiredField")
		// generated assemblers of structs whose fields are all optional have nothing to report
		if !ok && allOptionalStruct(p, im) {
			c.Info(name+"#Finish-required", p.Pos(fin.Pos()), "struct has no required field")
			continue
		}
		c.Check(ok, name+"#Finish-required", p.Pos(fin.Pos()), "Finish can report missing required fields", "Finish of a struct assembler cannot report ErrMissingRequiredField: a struct missing required fields is built silently")
	}

	c.Rule("C09.arity", "a list assembler that counts the values it hands out in a field of its own and refuses them beyond a constant number (an entry of fixed arity, such as the [key, value] pair of a listpairs struct) also refuses to finish below that number: its Finish compares the same counter and can return an error - otherwise an incomplete entry is accepted and vanishes", 1)
	for _, im := range p.Implementers(laIface, libraryPkg) {
		valf := p.Method(im.Type(), "AssembleValue")
		fin := p.Method(im.Type(), "Finish")
		if valf == nil || fin == nil || len(valf.Blocks) == 0 || len(fin.Blocks) == 0 {
			continue
		}
		// the counter: an integer field of the receiver that AssembleValue increments and compares with constants
		incremented := map[core.FieldID]bool{}
		core.Instrs(valf, func(in ssa.Instruction) {
			st, ok := in.(*ssa.Store)
			if !ok {
				return
			}
			fid, _, ok := core.FieldOfAddr(st.Addr)
			if !ok {
				return
			}
			if bo, ok := st.Val.(*ssa.BinOp); ok && bo.Op == token.ADD {
				if lf, _, ok := core.FieldOfLoad(bo.X); ok && lf == fid {
					if k, isK := core.ConstInt(bo.Y); isK && k == 1 {
						incremented[fid] = true
					}
				}
			}
		})
		if len(incremented) == 0 {
			continue
		}
		comparesCounter := func(fn *ssa.Function) map[core.Edge]bool {
			return core.EdgesWhere(fn, func(r core.Rel) bool {
				lf, _, ok := core.FieldOfLoad(core.Strip(r.X))
				if !ok || !incremented[lf] {
					return false
				}
				_, isK := core.ConstInt(r.Y)
				return isK
			})
		}
		if len(comparesCounter(valf)) == 0 {
			continue // the counter is not bounded by a constant here (a tuple counts against the number of fields)
		}
		name := core.RelPkg(im.Named.Obj().Pkg().Path()) + "." + im.Named.Obj().Name()
		errIdx := core.ErrResultIndex(fin)
		canFail := false
		for _, ret := range core.Returns(fin) {
			if errIdx >= 0 && core.ResultNilness(ret, errIdx) == core.NonNil {
				for e := range comparesCounter(fin) {
					if core.EdgeDominates(e, ret.Block()) {
						canFail = true
					}
				}
			}
			// ... or the error is made behind the comparison and returned once at the end (a named result, a collected err)
			if errIdx >= 0 {
				var flat []ssa.Value
				var walk func(v ssa.Value, d int)
				walk = func(v ssa.Value, d int) {
					if phi, ok := core.Strip(v).(*ssa.Phi); ok && d < 6 {
						for _, ev := range phi.Edges {
							walk(ev, d+1)
						}
						return
					}
					flat = append(flat, v)
				}
				for _, rv := range core.ResultValues(ret, errIdx) {
					walk(rv, 0)
				}
				for _, rv := range flat {
					in, ok := core.Strip(rv).(ssa.Instruction)
					if !ok || core.IsNilConst(rv) {
						continue
					}
					switch in.(type) {
					case *ssa.Call, *ssa.MakeInterface:
						for e := range comparesCounter(fin) {
							if core.EdgeDominates(e, in.Block()) {
								canFail = true
							}
						}
					}
				}
			}
		}
		c.Check(canFail, name+"#Finish-lower-bound", p.Pos(fin.Pos()), "Finish refuses an entry with too few values", "AssembleValue counts the values of the entry and refuses them beyond a constant number, but Finish never looks at the counter: an entry with fewer values than the representation requires (a listpairs pair with only a key, or empty) is accepted and silently dropped")
	}

	c.Rule("C09.enummember", "enum members valid at both levels: every AssignString of a reflection assembler of bindnode that can write the string into the bound Go value (reflect.Value.SetString in its region) consults (*schema.TypeEnum).Members on the way - the type-level assembler (which also serves the keys of maps keyed by an enum) as well as the representation-level one", 1)
	if naIface := p.Iface("datamodel", "NodeAssembler"); naIface != nil {
		for _, im := range p.Implementers(naIface, func(rel string) bool { return rel == "node/bindnode" }) {
			fn := p.Method(im.Type(), "AssignString")
			if fn == nil || len(fn.Blocks) == 0 {
				continue
			}
			writes, consults := false, false
			for _, ci := range core.CallsR(fn) {
				if core.IsMethod(ci, "reflect", "Value", "SetString") {
					writes = true
				}
				if core.IsMethod(ci, core.ModPath+"/schema", "TypeEnum", "Members") {
					consults = true
				}
			}
			if !writes {
				continue
			}
			name := core.RelPkg(im.Named.Obj().Pkg().Path()) + "." + im.Named.Obj().Name()
			c.Check(consults, name+"#AssignString-enum-members", p.Pos(fn.Pos()), "the members of an enum are consulted before a string is stored", "AssignString stores the string into the bound Go value and never consults the members of an enum type: a string that is not a member is accepted (at the type level, as a struct field or as a map key) and the node cannot be read back at the representation level")
		}
	}

	c.Rule("C09.shiftwidth", "a set kept in the bits of one machine word has room for every member: in node/bindnode and the basic node implementations, a shift by a variable amount (1 << i used as a membership bit) is dominated by an edge bounding the amount below the width of the word - in Go a shift by 64 or more gives 0, so the bit of the 65th field is never set and never found set: a repeated field there is accepted and a required one reported missing", 0)
	for _, fn := range p.ModFns {
		pk := core.FuncPkg(fn)
		if pk == nil || len(fn.Blocks) == 0 || fn.Synthetic != "" {
			continue
		}
		if rel := core.RelPkg(pk.Path()); rel != "node/bindnode" && rel != "node/basicnode" && rel != "datamodel" && rel != "schema" {
			continue
		}
		n := 0
		core.Instrs(fn, func(in ssa.Instruction) {
			bo, ok := in.(*ssa.BinOp)
			if !ok || bo.Op != token.SHL {
				return
			}
			if _, isK := core.ConstInt(bo.Y); isK {
				return
			}
			if one, isK := core.ConstInt(bo.X); !isK || one != 1 {
				return // only the membership-bit idiom
			}
			n++
			amount := core.Strip(bo.Y)
			if cv, ok := amount.(*ssa.Convert); ok {
				amount = core.Strip(cv.X)
			}
			bounded := false
			for e := range core.EdgesWhere(fn, func(r core.Rel) bool {
				x := core.Strip(r.X)
				if cv, ok := x.(*ssa.Convert); ok {
					x = core.Strip(cv.X)
				}
				if x != amount {
					return false
				}
				ub, ok := r.UpperBoundConst()
				return ok && constant.Compare(ub, token.LSS, constant.MakeInt64(64))
			}) {
				if core.EdgeDominates(e, bo.Block()) {
					bounded = true
				}
			}
			c.Check(bounded, fmt.Sprintf("%s#membership-bit%d", core.FuncKey(fn), n), p.Pos(bo.Pos()), "the shift amount is bounded below the word width", "1 << i with an i that was not found to be below 64 on this path: for the 65th member the bit is 0, so it is never recorded and never found - the set silently stops working for structs with more than 64 fields")
		})
	}

	c.Rule("C09.splitexact", "a stringjoin struct is taken apart without a limit on the number of parts: where bindnode splits the representation string by the strategy's delimiter (GetDelim) it uses strings.Split (or SplitN with a negative count), so that the comparison of the number of parts with the number of fields sees surplus components and rejects them", 1)
	{
		nsp := 0
		for _, fn := range p.ModFns {
			pk := core.FuncPkg(fn)
			if pk == nil || core.RelPkg(pk.Path()) != "node/bindnode" || len(fn.Blocks) == 0 {
				continue
			}
			for _, ci := range core.Calls(fn) {
				o := core.CalleeObj(ci)
				if o == nil || o.Pkg() == nil || o.Pkg().Path() != "strings" || len(ci.Common().Args) < 2 || o.Type().(*types.Signature).Recv() != nil {
					continue
				}
				if !strings.HasPrefix(o.Name(), "Split") && o.Name() != "Cut" {
					continue
				}
				byDelim := false
				for w := range core.BackSlice(ci.Common().Args[1], core.SliceOpts{Stores: true}) {
					if cl, ok := w.(*ssa.Call); ok && core.CalleeObj(cl) != nil && core.CalleeObj(cl).Name() == "GetDelim" {
						// the delimiter of a struct's stringjoin strategy (a stringprefix union splits off one prefix, by design)
						if rn := core.RecvNamed(core.CalleeObj(cl)); rn != nil && strings.HasPrefix(rn.Obj().Name(), "StructRepresentation") {
							byDelim = true
						}
					}
				}
				if !byDelim {
					continue
				}
				nsp++
				good := o.Name() == "Split"
				if o.Name() == "SplitN" && len(ci.Common().Args) == 3 {
					if k, isC := core.ConstInt(ci.Common().Args[2]); isC && k < 0 {
						good = true
					}
				}
				c.Check(good, fmt.Sprintf("%s#split-by-delim%d", core.FuncKey(fn), nsp), p.Pos(ci.Pos()), "split without a limit", "the representation string is split with strings."+o.Name()+" under a limit: surplus components are folded into the last part, the part count always matches, and input that does not conform to the schema is accepted")
			}
		}
		if nsp == 0 {
			c.Undecided("node/bindnode#stringjoin-split", "-", "no split of a representation string by the strategy's delimiter found")
		}
	}

	c.Rule("C09.materialised", "the slot of a reflection assembler may be a pointer (an optional or nullable position, an element of a list of nullable values) until its materialiser has run: in the methods (and closures) of every bindnode assembler type that has a materialiser - and of every type with the identical struct, which is the same assembler seen at representation level - no reflect.Value method that panics on a pointer (Field, FieldByIndex, FieldByName, NumField, Index, Len, MapIndex, MapKeys, SetMapIndex, the scalar getters and setters) is applied to a direct read of the assembler's reflect.Value field, nor is that read handed to a function of the package that applies one to its parameter: conforming data in such a position is accepted, not answered with a reflect panic", 6)
	{
		panicsOnPtr := map[string]bool{"Field": true, "FieldByIndex": true, "FieldByName": true, "NumField": true, "Index": true, "Len": true, "Cap": true, "MapIndex": true, "MapKeys": true, "MapRange": true, "SetMapIndex": true, "Bool": true, "Int": true, "Uint": true, "Float": true, "Bytes": true, "SetBool": true, "SetInt": true, "SetUint": true, "SetFloat": true, "SetString": true, "SetBytes": true, "SetLen": true, "Slice": true}
		isReflectValue := func(t types.Type) bool {
			nt := namedOfType(t)
			return nt != nil && nt.Obj().Pkg() != nil && nt.Obj().Pkg().Path() == "reflect" && nt.Obj().Name() == "Value"
		}
		// assembler types with a materialiser, and the types sharing their struct
		var slotTypes []*types.Named
		var materialisers []*types.Named
		all := p.ModuleTypes(func(rel string) bool { return rel == "node/bindnode" })
		for _, nt := range all {
			ms := p.SSA.MethodSets.MethodSet(types.NewPointer(nt))
			for i := 0; i < ms.Len(); i++ {
				f, ok := ms.At(i).Obj().(*types.Func)
				if !ok {
					continue
				}
				sig := f.Type().(*types.Signature)
				if sig.Params().Len() == 0 && sig.Results().Len() == 1 && isReflectValue(sig.Results().At(0).Type()) && assemblerRole(p, nt) {
					materialisers = append(materialisers, nt)
					break
				}
			}
		}
		for _, nt := range all {
			for _, m := range materialisers {
				if nt == m || types.Identical(nt.Underlying(), m.Underlying()) {
					slotTypes = append(slotTypes, nt)
					break
				}
			}
		}
		isSlotType := func(t types.Type) bool {
			if pt, ok := t.(*types.Pointer); ok {
				t = pt.Elem()
			}
			nt := namedOfType(t)
			for _, st := range slotTypes {
				if nt == st {
					return true
				}
			}
			return false
		}
		// usesRaw: fn applies a pointer-intolerant reflect method directly to its parameter idx
		usesRaw := func(g *ssa.Function, idx int) string {
			if g == nil || len(g.Blocks) == 0 || idx >= len(g.Params) {
				return ""
			}
			found := ""
			for _, ci := range core.Calls(g) {
				o := core.CalleeObj(ci)
				if o == nil || !panicsOnPtr[o.Name()] || !core.IsMethod(ci, "reflect", "Value", o.Name()) {
					continue
				}
				if core.Strip(core.Receiver(ci)) == ssa.Value(g.Params[idx]) {
					found = o.Name()
				}
			}
			return found
		}
		nslot := 0
		for _, fn := range p.ModFns {
			pk := core.FuncPkg(fn)
			if pk == nil || core.RelPkg(pk.Path()) != "node/bindnode" || len(fn.Blocks) == 0 || fn.Synthetic != "" {
				continue
			}
			top := fn
			for top.Parent() != nil {
				top = top.Parent()
			}
			if top.Signature.Recv() == nil || !isSlotType(top.Signature.Recv().Type()) {
				continue
			}
			// a direct read of the reflect.Value field of a slot-typed object (the receiver, or the captured receiver)
			isRawSlot1 := func(v ssa.Value) bool {
				u, ok := core.Strip(v).(*ssa.UnOp)
				if !ok || u.Op != token.MUL {
					return false
				}
				fa, ok := u.X.(*ssa.FieldAddr)
				if !ok || !isReflectValueField(fa) {
					return false
				}
				return isSlotType(fa.X.Type())
			}
			// ... also when it was first put into a local (a variable a closure captures lives in memory)
			isRawSlot := func(v ssa.Value) bool {
				if isRawSlot1(v) {
					return true
				}
				if u, ok := core.Strip(v).(*ssa.UnOp); ok && u.Op == token.MUL {
					if _, isAlloc := u.X.(*ssa.Alloc); isAlloc {
						for w := range core.BackSlice(v, core.SliceOpts{Local: true, Stores: true}) {
							if isRawSlot1(w) {
								return true
							}
						}
					}
				}
				return false
			}
			n := 0
			bad := ""
			var pos token.Pos
			for _, ci := range core.Calls(fn) {
				o := core.CalleeObj(ci)
				if o != nil && panicsOnPtr[o.Name()] && core.IsMethod(ci, "reflect", "Value", o.Name()) {
					n++
					if isRawSlot(core.Receiver(ci)) {
						bad, pos = "reflect.Value."+o.Name()+" is applied to the assembler's slot as it is", ci.Pos()
					}
					continue
				}
				if cal := ci.Common().StaticCallee(); cal != nil && core.FuncPkg(cal) == pk && cal.Signature.Recv() == nil {
					for j, a := range ci.Common().Args {
						if isRawSlot(a) {
							if m := usesRaw(cal, j); m != "" {
								bad, pos = "the assembler's slot is handed as it is to "+cal.Name()+", which applies reflect.Value."+m+" to it", ci.Pos()
							}
						}
					}
				}
			}
			if n == 0 && bad == "" {
				continue
			}
			nslot++
			if !pos.IsValid() {
				pos = fn.Pos()
			}
			c.Check(bad == "", core.FuncKey(fn)+"#slot-materialised", p.Pos(pos), "reflect accessors are applied to the materialised value", bad+": when the position is optional or nullable (a pointer that is still nil) this panics inside package reflect on data that conforms to the schema")
		}
		if nslot == 0 {
			c.Undecided("node/bindnode#slot-assemblers", "-", "no method of a slot assembler applies reflect accessors (the reflection assembler and its representation view were expected)")
		}
	}

	c.Rule("C09.reversekey", "a representation key is not a type-level name: in the functions of bindnode that map an incoming representation key back to a field or member name (they take a *schema.TypeStruct / *schema.TypeUnion and the key, ask the strategy for every field's key / member's discriminant, and return a name), the key itself is returned unchanged only where it has been found NOT to be the type-level name of a field or member (behind the nil edge of TypeStruct.Field(key), or with no path from a successful comparison with a member's Name()) - otherwise input that uses the type-level name of a renamed field is accepted although it does not conform, where generated code rejects it", 2)
	{
		nrk := 0
		roleHelper := map[*ssa.Function]bool{}
		for _, fn := range p.ModFns {
			pk := core.FuncPkg(fn)
			if pk == nil || core.RelPkg(pk.Path()) != "node/bindnode" || len(fn.Blocks) == 0 || fn.Synthetic != "" || fn.Parent() != nil || fn.Signature.Recv() != nil {
				continue
			}
			sig := fn.Signature
			if sig.Results().Len() != 1 || !isString(sig.Results().At(0).Type()) {
				continue
			}
			var key *ssa.Parameter
			hasType := false
			for _, prm := range fn.Params {
				if isString(prm.Type()) {
					key = prm
				}
				if pt, ok := prm.Type().(*types.Pointer); ok {
					if nt := namedOfType(pt.Elem()); nt != nil && (nt.Obj().Name() == "TypeStruct" || nt.Obj().Name() == "TypeUnion") {
						hasType = true
					}
				}
			}
			asksStrategy := false
			for _, ci := range core.Calls(fn) {
				if o := core.CalleeObj(ci); o != nil && (o.Name() == "GetFieldKey" || o.Name() == "GetDiscriminant") {
					asksStrategy = true
				}
			}
			if key == nil || !hasType || !asksStrategy {
				continue
			}
			roleHelper[fn] = true
			// returns of the key itself
			var idRets []*ssa.Return
			for _, ret := range core.Returns(fn) {
				for _, rv := range core.ResultValues(ret, 0) {
					if core.Strip(rv) == ssa.Value(key) {
						idRets = append(idRets, ret)
					}
				}
			}
			nrk++
			if len(idRets) == 0 {
				c.OK(core.FuncKey(fn)+"#no-identity-fallback", p.Pos(fn.Pos()), "the key is never returned unchanged")
				continue
			}
			// edges on which the key was found to be a type-level name: Field(key) != nil, or Name() == key
			found := core.EdgesWhere(fn, func(r core.Rel) bool {
				if r.Op == token.NEQ && core.IsNilConst(r.Y) {
					if cl, ok := core.Strip(r.X).(*ssa.Call); ok && core.CalleeObj(cl) != nil && core.CalleeObj(cl).Name() == "Field" {
						for _, a := range cl.Call.Args {
							if core.Strip(a) == ssa.Value(key) {
								return true
							}
						}
					}
				}
				if r.Op == token.EQL {
					for _, pair := range [][2]ssa.Value{{r.X, r.Y}, {r.Y, r.X}} {
						if core.Strip(pair[0]) != ssa.Value(key) {
							continue
						}
						if cl, ok := core.Strip(pair[1]).(*ssa.Call); ok && core.CalleeObj(cl) != nil && core.CalleeObj(cl).Name() == "Name" {
							return true
						}
					}
				}
				return false
			})
			bad := len(found) == 0
			for _, ret := range idRets {
				for e := range found {
					if reachFromBlock(fn, e.To(), func(in ssa.Instruction) bool { return in == ssa.Instruction(ret) }, nil) {
						bad = true
					}
				}
			}
			c.Check(!bad, core.FuncKey(fn)+"#no-identity-fallback", p.Pos(idRets[0].Pos()), "the key is returned unchanged only where it is not a type-level name", "the incoming key is handed back unchanged without having been found not to be a type-level field / member name: {\"foo\":1} is accepted for a field foo renamed to \"f\" (and the type name of a union member for a member with another discriminant), input that does not conform to the representation")
		}
		// the same mapping written out where it is used (no function of its own): the incoming key is compared with the
		// strategy's key of every field / discriminant of every member in the body of the caller. There the weaker,
		// path-insensitive form is decided: if the key itself can still flow on as a name, the function tests somewhere
		// whether it is a type-level name.
		for _, fn := range p.ModFns {
			pk := core.FuncPkg(fn)
			if pk == nil || core.RelPkg(pk.Path()) != "node/bindnode" || len(fn.Blocks) == 0 || fn.Synthetic != "" || roleHelper[fn] {
				continue
			}
			keys := map[ssa.Value]bool{}
			core.Instrs(fn, func(in ssa.Instruction) {
				bo, ok := in.(*ssa.BinOp)
				if !ok || bo.Op != token.EQL || !isString(bo.X.Type()) {
					return
				}
				for _, pair := range [][2]ssa.Value{{bo.X, bo.Y}, {bo.Y, bo.X}} {
					if cl, ok := core.Strip(pair[1]).(*ssa.Call); ok && core.CalleeObj(cl) != nil && (core.CalleeObj(cl).Name() == "GetFieldKey" || core.CalleeObj(cl).Name() == "GetDiscriminant") {
						if _, isC := core.Strip(pair[0]).(*ssa.Const); !isC {
							keys[core.Strip(pair[0])] = true
						}
					}
				}
			})
			nk := 0
			for key := range keys {
				isGuard := func(cl ssa.CallInstruction) bool {
					o := core.CalleeObj(cl)
					return o != nil && (o.Name() == "Field" || o.Name() == "GetFieldKey" || o.Name() == "GetDiscriminant")
				}
				flowsOn := false
				for _, ci := range core.Calls(fn) {
					if isGuard(ci) {
						continue
					}
					if o := core.CalleeObj(ci); o != nil && o.Pkg() != nil && (o.Pkg().Path() == "fmt" || o.Pkg().Path() == "errors") {
						continue
					}
					for _, a := range ci.Common().Args {
						if isString(a.Type()) && core.BackSlice(a, core.SliceOpts{Local: true})[key] {
							flowsOn = true
						}
					}
				}
				if !flowsOn {
					continue
				}
				nk++
				nrk++
				tested := false
				core.Instrs(fn, func(in ssa.Instruction) {
					switch x := in.(type) {
					case *ssa.Call:
						if o := core.CalleeObj(x); o != nil && o.Name() == "Field" {
							for _, a := range x.Call.Args {
								if core.Strip(a) == key {
									tested = true
								}
							}
						}
					case *ssa.BinOp:
						if x.Op == token.EQL || x.Op == token.NEQ {
							for _, pair := range [][2]ssa.Value{{x.X, x.Y}, {x.Y, x.X}} {
								if core.Strip(pair[0]) == key {
									if cl, ok := core.Strip(pair[1]).(*ssa.Call); ok && core.CalleeObj(cl) != nil && core.CalleeObj(cl).Name() == "Name" {
										tested = true
									}
								}
							}
						}
					}
				})
				c.Check(tested, fmt.Sprintf("%s#inline-reverse-mapping/%d#type-level-name-tested", core.FuncKey(fn), nk), p.Pos(fn.Pos()), "the key is tested for being a type-level name where it can flow on unchanged", "the incoming key is compared with the representation keys and can flow on unchanged as a name, but is nowhere tested for being the type-level name of a field / member: input that uses the type-level name of a renamed field is accepted although it does not conform")
			}
		}
		if nrk == 0 {
			c.Undecided("node/bindnode#reverse-key-mapping", "-", "no reverse key mapping found")
		}
	}

	c.Rule("C09.assignnodechecked", "assigning a whole node takes the checked route: the AssignNode methods of bindnode's slot assemblers (type level and representation level) never write the Go value of the slot in their own body (no reflect.Value.Set*): every value goes through the kind-specific assign / begin methods - directly or by way of datamodel.Copy - which carry the schema's checks (kind, nullability, enum members, repeated keys, required fields) and the finish hook; a shortcut that stores the node or copies the source's Go value accepts what the assemblers would refuse", 2)
	{
		nan := 0
		for _, tn := range []string{"_assembler", "_assemblerRepr"} {
			nt := p.NamedType("node/bindnode", tn)
			if nt == nil {
				continue
			}
			fn := p.Method(types.NewPointer(nt), "AssignNode")
			if fn == nil || len(fn.Blocks) == 0 {
				continue
			}
			nan++
			bad := ""
			var pos token.Pos = fn.Pos()
			for _, ci := range core.Calls(fn) {
				o := core.CalleeObj(ci)
				if o != nil && strings.HasPrefix(o.Name(), "Set") && core.IsMethod(ci, "reflect", "Value", o.Name()) {
					bad = "reflect.Value." + o.Name()
					pos = ci.Pos()
				}
			}
			c.Check(bad == "", core.FuncKey(fn)+"#no-direct-slot-write", p.Pos(pos), "AssignNode delegates to the checked assign methods", "AssignNode writes the slot itself ("+bad+") instead of going through the kind-specific assign methods or datamodel.Copy: the node (or the source's Go value) is accepted without the schema's checks - a null in a non-nullable position, a wrapped value with a repeated key - and without the finish hook")
		}
		if nan == 0 {
			c.Undecided("node/bindnode#AssignNode", "-", "the slot assemblers' AssignNode methods were not found")
		}
	}

	c.Rule("C09.fieldnil", "in node/bindnode every result of (*schema.TypeStruct).Field (nil for an unknown name) is compared with nil before any method is called on it", 2)
	for _, fn := range p.ModFns {
		pk := core.FuncPkg(fn)
		if pk == nil || core.RelPkg(pk.Path()) != "node/bindnode" || len(fn.Blocks) == 0 {
			continue
		}
		n := 0
		for _, ci := range core.Calls(fn) {
			cv := core.CallValue(ci)
			if cv == nil || !core.IsMethod(ci, "", "TypeStruct", "Field") {
				continue
			}
			n++
			nonNil := core.EdgesWhere(fn, func(r core.Rel) bool { return r.Op == token.NEQ && r.X == ssa.Value(cv) && core.IsNilConst(r.Y) })
			bad := false
			var path []string
			for _, use := range *cv.Referrers() {
				// dereferencing uses: a load through the pointer (value-receiver method calls copy *p first),
				// a field address, or a pointer-receiver method call
				deref := false
				switch x := use.(type) {
				case *ssa.UnOp:
					deref = x.Op == token.MUL && x.X == ssa.Value(cv)
				case *ssa.FieldAddr:
					deref = x.X == ssa.Value(cv)
				case ssa.CallInstruction:
					deref = len(x.Common().Args) > 0 && x.Common().Args[0] == ssa.Value(cv)
				}
				if !deref {
					continue
				}
				if pth, reached := core.Reach(fn, cv, isTarget(use), nonNil, nil); reached {
					bad = true
					path = p.Witness(pth)
				}
			}
			c.Check(!bad, fmt.Sprintf("%s#Field%d", core.FuncKey(fn), n), p.Pos(cv.Pos()), "nil-tested before use", "the result of TypeStruct.Field is used without a nil test: an unknown field name dereferences nil", path...)
		}
	}

	c.Rule("C09.assert", "no non-comma-ok type assertion in library code is applied to the result of a module function that may return an error-carrying assembler (a NodeAssembler whose every Assign*/Begin* returns an error held in the receiver): such an assertion turns a data-dependent rejection into a panic", 3)
	carriers := errorCarriers(p)
	var cnames []string
	for t := range carriers {
		cnames = append(cnames, t.Obj().Name())
	}
	sort.Strings(cnames)
	c.Note("C09.assert: error-carrier types discovered by shape: %v", cnames)
	if len(carriers) == 0 {
		c.Undecided("C09.assert#carriers", "-", "no error-carrying assembler type found")
	}
	memo := map[*ssa.Function]map[*types.Named]bool{}
	for _, fn := range p.ModFns {
		pk := core.FuncPkg(fn)
		if pk == nil || !libraryPkg(core.RelPkg(pk.Path())) || len(fn.Blocks) == 0 {
			continue
		}
		n := 0
		core.Instrs(fn, func(in ssa.Instruction) {
			ta, ok := in.(*ssa.TypeAssert)
			if !ok || ta.CommaOk {
				return
			}
			cv, ok := core.Strip(ta.X).(*ssa.Call)
			if !ok {
				return
			}
			cal := cv.Call.StaticCallee()
			if cal == nil || !p.InModule(cal) {
				return
			}
			rts := returnTypes(cal, 0, memo)
			hit := ""
			for t := range rts {
				if carriers[t] && !types.Identical(ta.AssertedType, t) {
					hit = t.Obj().Name()
				}
			}
			if len(rts) == 0 {
				return
			}
			n++
			c.Check(hit == "", fmt.Sprintf("%s#assert%d->%s", core.FuncKey(fn), n, cal.Name()), p.Pos(ta.Pos()), "callee never returns an error carrier (or the assertion is to the carrier itself)", fmt.Sprintf("forced assertion to %s of the result of %s, which may return the error carrier %s: a rejected input panics instead of returning the error", core.TypeString(ta.AssertedType), core.FuncKey(cal), hit))
		})
	}

	c.Rule("C09.childreset", "a container assembler of bindnode that hands out a child assembler it keeps inside itself (a reused field such as curKey) resets that child completely first: on every path to the return either the whole child struct is overwritten, or every one of its fields is stored - otherwise state of the previous entry (nullable, finish hook, schema type) carries over into the next entry and changes what it accepts", 3)
	for _, fn := range p.ModFns {
		pk := core.FuncPkg(fn)
		if pk == nil || core.RelPkg(pk.Path()) != "node/bindnode" || len(fn.Blocks) == 0 || fn.Synthetic != "" {
			continue
		}
		if fn.Name() != "AssembleKey" && fn.Name() != "AssembleValue" {
			continue
		}
		for _, ret := range core.Returns(fn) {
			for _, v := range core.ResultValues(ret, 0) {
				mi, ok := v.(*ssa.MakeInterface)
				if !ok {
					continue
				}
				fa, ok := mi.X.(*ssa.FieldAddr)
				if !ok {
					continue
				}
				if _, isParam := fa.X.(*ssa.Parameter); !isParam {
					continue
				}
				st, _ := fa.Type().(*types.Pointer).Elem().Underlying().(*types.Struct)
				if st == nil {
					continue
				}
				sameChild := func(a ssa.Value) bool {
					x, ok := a.(*ssa.FieldAddr)
					return ok && x.X == fa.X && x.Field == fa.Field
				}
				whole := func(in ssa.Instruction) bool {
					s2, ok := in.(*ssa.Store)
					return ok && sameChild(s2.Addr)
				}
				var missing []string
				if _, reached := core.Reach(fn, nil, isTarget(ret), nil, whole); reached {
					for i := 0; i < st.NumFields(); i++ {
						fi := i
						fieldStore := func(in ssa.Instruction) bool {
							if whole(in) {
								return true
							}
							s2, ok := in.(*ssa.Store)
							if !ok {
								return false
							}
							inner, ok := s2.Addr.(*ssa.FieldAddr)
							return ok && inner.Field == fi && sameChild(inner.X)
						}
						if _, r := core.Reach(fn, nil, isTarget(ret), nil, fieldStore); r {
							missing = append(missing, st.Field(i).Name())
						}
					}
				}
				c.Check(len(missing) == 0, fmt.Sprintf("%s#reused-child:%s", core.FuncKey(fn), core.FieldName(fa)), p.Pos(ret.Pos()), "reused child assembler is fully reset before it is handed out", fmt.Sprintf("the reused child assembler %s is handed out without its field(s) %v having been reset on every path: what the previous entry left there decides what this entry accepts", core.FieldName(fa), missing))
			}
		}
	}

	c.Rule("C09.kindgate", "in every scalar Assign* method of the reflection assembler (bindnode._assembler: AssignBool/Int/Float/String/Bytes, assignUInt) each mutation of the bound Go value (reflect.Value.Set*, createNonPtrVal) is dominated by the nil edge of the kind-compatibility check's result", 6)
	asmT := p.NamedType("node/bindnode", "_assembler")
	if asmT == nil {
		c.Undecided("node/bindnode._assembler", "-", "type not found")
	} else {
		for _, fn := range assignMethodsOf(p, asmT, false) {
			m := fn.Name()
			if m == "AssignNull" || m == "AssignLink" {
				continue // no scalar kind to check: null is decided by nullability, links by Go-type assignability (outside this rule's domain)
			}
			var gate *ssa.Call
			for _, ci := range core.CallsR(fn) {
				if isKindCheck(ci) {
					gate = core.CallValue(ci)
				}
			}
			if gate == nil {
				c.Fail("node/bindnode._assembler."+m+"#gate", p.Pos(fn.Pos()), "no kind-compatibility check in a scalar assign: any kind of data is stored into the bound value")
				continue
			}
			nilEdges := core.EdgesWhere(fn, func(r core.Rel) bool {
				return r.Op == token.EQL && core.Strip(r.X) == ssa.Value(gate) && core.IsNilConst(r.Y)
			})
			bad := false
			var path []string
			for _, ci := range core.Calls(fn) {
				o := core.CalleeObj(ci)
				if o == nil {
					continue
				}
				mut := false
				if rn := core.RecvNamed(o); rn != nil && rn.Obj().Pkg() != nil && rn.Obj().Pkg().Path() == "reflect" && strings.HasPrefix(o.Name(), "Set") {
					mut = true
				}
				if isValueMaterialiser(p, ci) {
					mut = true
				}
				if !mut {
					continue
				}
				if pth, reached := core.Reach(fn, nil, isTarget(ci), nilEdges, nil); reached {
					bad = true
					path = p.Witness(pth)
				}
			}
			c.Check(!bad && len(nilEdges) > 0, "node/bindnode._assembler."+m+"#gate", p.Pos(gate.Pos()), "mutations only behind the passed kind check", m+" can mutate the bound Go value without having passed the kind-compatibility check", path...)
		}
	}
}

// allOptionalStruct: generated struct assemblers whose Finish has no sufficiency test because no field is required.
func allOptionalStruct(p *core.Program, im core.Impl) bool {
	return false
}

// errorCarriers finds NodeAssembler implementations every Assign*/Begin* method of which returns an error loaded from the receiver.
func errorCarriers(p *core.Program) map[*types.Named]bool {
	out := map[*types.Named]bool{}
	na := p.Iface("datamodel", "NodeAssembler")
	for _, im := range p.Implementers(na, libraryPkg) {
		st, ok := im.Named.Underlying().(*types.Struct)
		if !ok || st.NumFields() == 0 {
			continue
		}
		all, n := true, 0
		for i := 0; i < na.NumMethods(); i++ {
			mn := na.Method(i).Name()
			if !strings.HasPrefix(mn, "Assign") && !strings.HasPrefix(mn, "Begin") {
				continue
			}
			fn := p.Method(im.Type(), mn)
			if fn == nil || len(fn.Blocks) == 0 {
				all = false
				break
			}
			n++
			errIdx := core.ErrResultIndex(fn)
			for _, ret := range core.Returns(fn) {
				for _, v := range core.ResultValues(ret, errIdx) {
					// follow the pointer-receiver wrapper to the value method
					if cl, ok := core.Strip(v).(*ssa.Call); ok && cl.Call.StaticCallee() != nil {
						inner := cl.Call.StaticCallee()
						ok2 := true
						for _, r2 := range core.Returns(inner) {
							for _, v2 := range core.ResultValues(r2, core.ErrResultIndex(inner)) {
								if !isReceiverFieldLoad(v2) {
									ok2 = false
								}
							}
						}
						if !ok2 {
							all = false
						}
						continue
					}
					if e, ok := core.Strip(v).(*ssa.Extract); ok {
						if cl, ok := e.Tuple.(*ssa.Call); ok && cl.Call.StaticCallee() != nil {
							inner := cl.Call.StaticCallee()
							for _, r2 := range core.Returns(inner) {
								for _, v2 := range core.ResultValues(r2, core.ErrResultIndex(inner)) {
									if !isReceiverFieldLoad(v2) {
										all = false
									}
								}
							}
							continue
						}
					}
					if !isReceiverFieldLoad(v) {
						all = false
					}
				}
			}
		}
		if all && n >= 8 {
			out[im.Named] = true
		}
	}
	return out
}

func isReceiverFieldLoad(v ssa.Value) bool {
	switch x := v.(type) {
	case *ssa.Field:
		_, ok := x.X.(*ssa.Parameter)
		return ok
	case *ssa.UnOp:
		if fa, ok := x.X.(*ssa.FieldAddr); ok {
			switch b := fa.X.(type) {
			case *ssa.Parameter:
				return true
			case *ssa.Alloc:
				_ = b
				return true // by-value receiver spilled to a local
			}
		}
	}
	return false
}

// returnTypes collects the concrete named types a function may return in result 0 (through phis and static calls, depth <= 4).
func returnTypes(fn *ssa.Function, depth int, memo map[*ssa.Function]map[*types.Named]bool) map[*types.Named]bool {
	if m, ok := memo[fn]; ok {
		return m
	}
	out := map[*types.Named]bool{}
	memo[fn] = out
	if fn == nil || len(fn.Blocks) == 0 || depth > 4 || fn.Signature.Results().Len() == 0 {
		return out
	}
	var visit func(v ssa.Value, seen map[ssa.Value]bool)
	visit = func(v ssa.Value, seen map[ssa.Value]bool) {
		if seen[v] {
			return
		}
		seen[v] = true
		switch x := v.(type) {
		case *ssa.MakeInterface:
			if nt := namedOfType(x.X.Type()); nt != nil {
				out[nt] = true
			}
		case *ssa.ChangeInterface:
			visit(x.X, seen)
		case *ssa.Phi:
			for _, e := range x.Edges {
				visit(e, seen)
			}
		case *ssa.Call:
			if cal := x.Call.StaticCallee(); cal != nil {
				for t := range returnTypes(cal, depth+1, memo) {
					out[t] = true
				}
			}
		case *ssa.Extract:
			if x.Index == 0 {
				if cl, ok := x.Tuple.(*ssa.Call); ok && cl.Call.StaticCallee() != nil {
					for t := range returnTypes(cl.Call.StaticCallee(), depth+1, memo) {
						out[t] = true
					}
				}
			}
		}
	}
	for _, ret := range core.Returns(fn) {
		for _, v := range core.ResultValues(ret, 0) {
			visit(v, map[ssa.Value]bool{})
		}
	}
	return out
}
