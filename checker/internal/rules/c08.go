package rules

import (
	"fmt"
	"go/token"
	"go/types"
	"sort"
	"strings"

	"golang.org/x/tools/go/ssa"

	"verif/checker/internal/core"
)

func init() {
	register(&Def{
		ID: "C08",
		Explanation: "Structural necessary conditions of 'type-level and representation views obey the strategy', decided as sibling agreement across the representation switches of bindnode: (matrix) the Kind() method of the representation node is itself the table 'strategy S presents as kind K(S)'; every strategy whose representation kind differs from its type-level kind (stringjoin, stringprefix, tuple, listpairs, int enum) or is dynamic (kinded) must be handled explicitly - by a type-switch arm - in Length and in the readers and writers of kind K(S); (finishhook) every representation-level assign reaches its finish hook or delegates; (maybeptr) the Go type inferred for an optional/nullable position is always a pointer, whatever the kind of the element; (generators) every exported generator constructor of schema/gen/go is referenced from Generate's dispatch and each dispatch default panics.  (nullsame) the routes of bindnode that answer Null / Absent for a nil Go value decide it under the same tests." +
			"That each arm computes the right view, build-route equality and encode/decode of representations are value-level and not decided.",
		NotCovered: []string{"that each arm computes the right view", "type-level vs representation builder produce the same node (as values)", "encode/decode of representations", "generated code (templates are strings; only the dispatch table is checked)"},
		Trusted:    []string{"go/ssa, go/types"},
		Run:        runC08,
	})
}

// assertedTypes: named types (package schema) tested by comma-ok type assertions / type switches in fn.
func assertedTypes(fn *ssa.Function) map[string]bool {
	out := map[string]bool{}
	if fn == nil {
		return out
	}
	core.Instrs(fn, func(in ssa.Instruction) {
		if ta, ok := in.(*ssa.TypeAssert); ok {
			if nt := namedOfType(ta.AssertedType); nt != nil && nt.Obj().Pkg() != nil && core.RelPkg(nt.Obj().Pkg().Path()) == "schema" {
				out[nt.Obj().Name()] = true
			}
		}
	})
	return out
}

func runC08(c *core.Ctx) {
	p := c.P
	nodeT := p.NamedType("node/bindnode", "_nodeRepr")
	asmT := p.NamedType("node/bindnode", "_assemblerRepr")

	c.Rule("C08.matrix", "for every representation strategy S listed in _nodeRepr.Kind(): if its representation kind K(S) is a scalar while the type-level kind is recursive, S has an explicit arm in Length; the readers of kind K(S) (AsString | AsInt | LookupByIndex+ListIterator) and the writers of kind K(S) on the representation assembler (AssignString | AssignInt | BeginList) have an explicit arm for S; the kinded strategy (dynamic kind) has an arm in every reader and every Assign*/Begin*", 20)
	if nodeT == nil || asmT == nil {
		c.Undecided("node/bindnode._nodeRepr", "-", "types not found")
	} else {
		kindFn := p.Method(types.NewPointer(nodeT), "Kind")
		kindT := p.NamedType("datamodel", "Kind")
		kname := map[string]string{}
		for n, v := range enumConsts(kindT) {
			kname[v.ExactString()] = strings.TrimPrefix(n, "Kind_")
		}
		// strategy -> representation kind ("dynamic" when not a constant)
		table := map[string]string{}
		if kindFn != nil {
			// for every type-switch arm (comma-ok assertion to a schema strategy type): follow its ok edge along
			// straight-line code to the return it leads to; several types sharing one arm all lead to the same return
			for _, blk := range kindFn.Blocks {
				ifi := core.BlockIf(blk)
				if ifi == nil {
					continue
				}
				e, ok := ifi.Cond.(*ssa.Extract)
				if !ok || e.Index != 1 {
					continue
				}
				ta, ok := e.Tuple.(*ssa.TypeAssert)
				if !ok {
					continue
				}
				nt := namedOfType(ta.AssertedType)
				if nt == nil || nt.Obj().Pkg() == nil || core.RelPkg(nt.Obj().Pkg().Path()) != "schema" {
					continue
				}
				k := "dynamic"
				cur := blk.Succs[0]
				for steps := 0; steps < 8 && cur != nil; steps++ {
					last := cur.Instrs[len(cur.Instrs)-1]
					if ret, isRet := last.(*ssa.Return); isRet {
						if cv := core.ConstVal(ret.Results[0]); cv != nil {
							k = kname[cv.ExactString()]
						}
						break
					}
					if _, isJump := last.(*ssa.Jump); isJump {
						cur = cur.Succs[0]
						continue
					}
					break // branches: the kind is computed, i.e. dynamic
				}
				table[nt.Obj().Name()] = k
			}
		}
		if len(table) < 6 {
			c.Undecided("node/bindnode._nodeRepr.Kind#table", "-", fmt.Sprintf("only %d strategies recognised in Kind()", len(table)))
		}
		typeLevel := func(s string) string {
			if strings.HasPrefix(s, "EnumRepresentation_") {
				return "String"
			}
			return "Map"
		}
		handlers := map[string]map[string]bool{}
		h := func(T *types.Named, m string) map[string]bool {
			key := T.Obj().Name() + "." + m
			if handlers[key] == nil {
				handlers[key] = assertedTypes(p.Method(types.NewPointer(T), m))
			}
			return handlers[key]
		}
		var strategies []string
		for s := range table {
			strategies = append(strategies, s)
		}
		sort.Strings(strategies)
		need := func(T *types.Named, method, s, why string) {
			fn := p.Method(types.NewPointer(T), method)
			pos := "-"
			if fn != nil {
				pos = p.Pos(fn.Pos())
			}
			c.Check(h(T, method)[s], fmt.Sprintf("node/bindnode.%s.%s[%s]", T.Obj().Name(), method, s), pos, "explicit arm present", fmt.Sprintf("%s.%s has no arm for %s although %s: the method answers with the type-level view for this strategy", T.Obj().Name(), method, s, why))
		}
		for _, s := range strategies {
			k := table[s]
			tl := typeLevel(s)
			if k == "dynamic" {
				for _, m := range []string{"Length", "AsBool", "AsInt", "AsFloat", "AsString", "AsBytes", "AsLink", "LookupByString", "LookupByIndex", "MapIterator", "ListIterator"} {
					need(nodeT, m, s, "its representation kind is decided at run time")
				}
				for _, m := range []string{"BeginMap", "BeginList", "AssignBool", "AssignInt", "AssignFloat", "AssignString", "AssignBytes", "AssignLink"} {
					need(asmT, m, s, "its representation kind is decided at run time")
				}
				continue
			}
			if k == tl {
				continue
			}
			why := fmt.Sprintf("Kind() presents it as %s while the type-level kind is %s", k, tl)
			if (k == "String" || k == "Int") && tl == "Map" {
				need(nodeT, "Length", s, why)
			}
			switch k {
			case "String":
				need(nodeT, "AsString", s, why)
				need(asmT, "AssignString", s, why)
			case "Int":
				need(nodeT, "AsInt", s, why)
				need(asmT, "AssignInt", s, why)
			case "List":
				need(nodeT, "Length", s, why)
				need(nodeT, "LookupByIndex", s, why)
				need(nodeT, "ListIterator", s, why)
				need(asmT, "BeginList", s, why)
			}
		}
	}

	c.Rule("C08.kindedrepr", "a kinded union presents its member at representation level: in the methods of bindnode's representation node (_nodeRepr), once the node has been re-pointed to the member (the result of a _nodeRepr method that returns *_nodeRepr), it is converted to the type-level node type only after the member's own representation strategy has been asked for again (a call of a RepresentationStrategy method, directly or through the package's helper, on the path from the re-pointing to the conversion) - otherwise the type-level answer ignores the member's strategy (absent optional fields, renames, tuples)", 4)
	if reprT := p.NamedType("node/bindnode", "_nodeRepr"); reprT != nil {
		// asks for a representation strategy: a RepresentationStrategy method call, or a function of the package whose
		// region makes one
		asksStrategy := func(ci ssa.CallInstruction) bool {
			if o := core.CalleeObj(ci); o != nil && o.Name() == "RepresentationStrategy" {
				return true
			}
			if cal := ci.Common().StaticCallee(); cal != nil && len(cal.Blocks) > 0 && core.FuncPkg(cal) != nil && core.RelPkg(core.FuncPkg(cal).Path()) == "node/bindnode" && cal.Signature.Recv() == nil {
				for _, cj := range core.Calls(cal) {
					if o := core.CalleeObj(cj); o != nil && o.Name() == "RepresentationStrategy" {
						return true
					}
				}
			}
			return false
		}
		ms := p.SSA.MethodSets.MethodSet(types.NewPointer(reprT))
		for i := 0; i < ms.Len(); i++ {
			fn := p.SSA.MethodValue(ms.At(i))
			if fn == nil || len(fn.Blocks) == 0 || fn.Synthetic != "" {
				continue
			}
			// the re-pointing calls of this method
			var repoints []*ssa.Call
			for _, ci := range core.Calls(fn) {
				cal := ci.Common().StaticCallee()
				cv := core.CallValue(ci)
				if cal == nil || cv == nil || cal.Signature.Recv() == nil || cal.Signature.Results().Len() != 1 || cal.Object() == nil {
					continue
				}
				rp, ok := cal.Signature.Results().At(0).Type().(*types.Pointer)
				if ok && namedOfType(rp.Elem()) == reprT && core.RecvNamed(cal.Object().(*types.Func)) == reprT {
					repoints = append(repoints, cv)
				}
			}
			if len(repoints) == 0 {
				continue
			}
			isConv := func(in ssa.Instruction) bool {
				ct, ok := in.(*ssa.ChangeType)
				if !ok {
					return false
				}
				pt, ok := ct.X.Type().(*types.Pointer)
				if !ok || namedOfType(pt.Elem()) != reprT {
					return false
				}
				for w := range core.BackSlice(ct.X, core.SliceOpts{Stores: true}) {
					for _, rpc := range repoints {
						if w == ssa.Value(rpc) {
							return true
						}
					}
				}
				return false
			}
			bad := false
			var wp []string
			pos := fn.Pos()
			for _, rpc := range repoints {
				path, reached := core.Reach(fn, rpc, isConv, nil, func(in ssa.Instruction) bool {
					ci, ok := in.(ssa.CallInstruction)
					return ok && asksStrategy(ci)
				})
				if reached {
					bad = true
					wp = p.Witness(path)
					pos = rpc.Pos()
				}
			}
			c.Check(!bad, core.FuncKey(fn)+"#member-strategy-consulted", p.Pos(pos), "after re-pointing to the member its strategy is consulted before any type-level use", "the member of a kinded union is converted to the type-level node and asked there without its own representation strategy having been consulted: the answer ignores it (a struct member with an absent optional field reports a Length its representation iterator does not deliver)", wp...)
		}
	} else {
		c.Undecided("node/bindnode._nodeRepr", "-", "type not found")
	}

	c.Rule("C08.finishhook", "every Assign* of the representation assembler (bindnode._assemblerRepr) reaches a possibly-successful return only after consulting the finish hook or delegating to another assign (of the type-level assembler, of a kinded member, or AssignString for string-represented enums): a value accepted at representation level is always committed into its parent", 8)
	if asmT != nil {
		for _, fn := range assignMethodsOf(p, asmT, true) {
			m := fn.Name()
			isHook := func(in ssa.Instruction) bool {
				switch x := in.(type) {
				case *ssa.UnOp:
					if fa, ok := x.X.(*ssa.FieldAddr); ok && x.Op == token.MUL && isFinishHookField(fa) {
						return true
					}
				case ssa.CallInstruction:
					n := ""
					// delegation: another assign (also of the same method on a narrowed copy of the assembler: by induction its
					// success returns satisfy this rule), or Finish of the map assembler a stringjoin value was spread into
					if cal := x.Common().StaticCallee(); cal != nil {
						n = cal.Name()
					} else if x.Common().IsInvoke() {
						n = x.Common().Method.Name()
					}
					if strings.HasPrefix(n, "Assign") || isAssignShaped(p, x.Common().StaticCallee()) || n == "Copy" || n == "Finish" {
						return true
					}
				}
				return false
			}
			errIdx := core.ErrResultIndex(fn)
			bad := false
			var wp []string
			for _, ret := range core.Returns(fn) {
				if core.ResultNilness(ret, errIdx) == core.NonNil {
					continue
				}
				if path, reached := core.Reach(fn, nil, successReturn(ret, errIdx), nil, isHook); reached {
					bad = true
					wp = p.Witness(path)
				}
			}
			c.Check(!bad, "node/bindnode._assemblerRepr."+m+"#finish-hook", p.Pos(fn.Pos()), "every success path consults the finish hook or delegates", m+" of the representation assembler can return success without running (or delegating to) the finish hook: the value is accepted but never committed into the enclosing map/union", wp...)
		}
	}

	c.Rule("C08.maybeptr", "in inferGoType every position that the schema marks optional or nullable gets a pointer type unconditionally: from the true edge of each IsOptional / IsNullable / ValueIsNullable test, the type reaches its use (StructField.Type, reflect.SliceOf/MapOf/StructOf) only through reflect.PointerTo - never depending on the element's own kind (a nilable slice or interface cannot distinguish 'present but empty' from absent/null)", 4)
	if fn := goTypeInferrer(p); fn != nil {
		isPtrTo := func(in ssa.Instruction) bool {
			ci, ok := in.(ssa.CallInstruction)
			return ok && (core.IsPkgFunc(ci, "reflect", "PointerTo") || core.IsPkgFunc(ci, "reflect", "PtrTo"))
		}
		isUse := func(in ssa.Instruction) bool {
			switch x := in.(type) {
			case *ssa.Store:
				if fa, ok := x.Addr.(*ssa.FieldAddr); ok && core.FieldName(fa) == "StructField.Type" {
					return true
				}
			case ssa.CallInstruction:
				return core.IsPkgFunc(x, "reflect", "SliceOf") || core.IsPkgFunc(x, "reflect", "MapOf") || core.IsPkgFunc(x, "reflect", "StructOf")
			}
			return false
		}
		n := 0
		for _, b := range fn.Blocks {
			ifi := core.BlockIf(b)
			if ifi == nil {
				continue
			}
			cnd, neg := core.CondPolarity(ifi.Cond)
			cl, ok := cnd.(*ssa.Call)
			if !ok {
				continue
			}
			o := core.CalleeObj(cl)
			if o == nil || (o.Name() != "IsOptional" && o.Name() != "IsNullable" && o.Name() != "ValueIsNullable") {
				continue
			}
			n++
			succ := 0
			if neg {
				succ = 1
			}
			reached := reachFromBlockBarrier(fn, b.Succs[succ], isUse, isPtrTo)
			c.Check(!reached, fmt.Sprintf("node/bindnode.inferGoType#%s%d", o.Name(), n), p.Pos(cl.Pos()), "always wrapped in a pointer", "an optional/nullable position can get a non-pointer Go type (the pointer is applied only under a further condition): 'present but empty' and absent/null become indistinguishable for nilable element types")
		}
	} else {
		c.Undecided("node/bindnode.inferGoType", "-", "not found")
	}

	c.Rule("C08.generators", "every exported New*Generator constructor of schema/gen/go is referenced from Generate (the (type kind x representation strategy) dispatch), and every default of that dispatch panics (no type is silently skipped)", 10)
	sp := p.Pkg("schema/gen/go")
	gen := p.Func("schema/gen/go", "", "Generate")
	if sp == nil || gen == nil {
		c.Undecided("schema/gen/go.Generate", "-", "not found")
	} else {
		used := map[*ssa.Function]bool{}
		for _, g := range append([]*ssa.Function{gen}, staticCalleesIn(gen, 2)...) {
			for _, ci := range core.Calls(g) {
				if cal := ci.Common().StaticCallee(); cal != nil {
					used[cal] = true
				}
			}
		}
		var names []string
		for n, m := range sp.Members {
			if f, ok := m.(*ssa.Function); ok && strings.HasPrefix(n, "New") && strings.HasSuffix(n, "Generator") && f.Object().Exported() {
				names = append(names, n)
			}
		}
		sort.Strings(names)
		for _, n := range names {
			f := sp.Members[n].(*ssa.Function)
			c.Check(used[f], "schema/gen/go."+n+"#dispatched", p.Pos(f.Pos()), "referenced from Generate", n+" is never reached from Generate: types of that (kind, strategy) are not generated")
		}
		for _, g := range append([]*ssa.Function{gen}, staticCalleesIn(gen, 1)...) {
			for _, si := range enumSwitchesTypeSwitchDefaults(p, "schema/gen/go", g.Name()) {
				c.Check(si, "schema/gen/go."+g.Name()+"#default-panics", p.Pos(g.Pos()), "dispatch default panics", "a dispatch default in "+g.Name()+" does not panic: an unsupported (kind, strategy) combination is skipped silently")
			}
		}
	}

	c.Rule("C08.begunexists", "a container that was begun exists, even when it stays empty: in bindnode, wherever a Begin* method creates the package's assembler for a schema list or map over a Go slice or map value, that Go value was made (reflect.MakeSlice / reflect.MakeMap) or found non-nil on every path - a nil slice or map is how an absent or null container is held in a field bound without a pointer, so an empty list left nil reads back as absent", 2)
	{
		isSchemaPtr := func(t types.Type, name string) bool {
			pt, ok := t.(*types.Pointer)
			if !ok {
				return false
			}
			nt := namedOfType(pt.Elem())
			return nt != nil && nt.Obj().Name() == name && nt.Obj().Pkg() != nil && core.RelPkg(nt.Obj().Pkg().Path()) == "schema"
		}
		for _, fn := range p.ModFns {
			pk := core.FuncPkg(fn)
			if pk == nil || core.RelPkg(pk.Path()) != "node/bindnode" || len(fn.Blocks) == 0 || fn.Synthetic != "" {
				continue
			}
			if fn.Name() != "BeginList" && fn.Name() != "BeginMap" {
				continue
			}
			n := 0
			core.Instrs(fn, func(in ssa.Instruction) {
				al, ok := in.(*ssa.Alloc)
				if !ok || !al.Heap {
					return
				}
				st, ok := al.Type().(*types.Pointer).Elem().Underlying().(*types.Struct)
				if !ok {
					return
				}
				maker := ""
				for i := 0; i < st.NumFields(); i++ {
					if isSchemaPtr(st.Field(i).Type(), "TypeList") {
						maker = "MakeSlice"
					}
					if isSchemaPtr(st.Field(i).Type(), "TypeMap") {
						maker = "MakeMap"
					}
				}
				if maker == "" {
					return
				}
				n++
				isMake := func(x ssa.Instruction) bool {
					ci, ok := x.(ssa.CallInstruction)
					return ok && core.IsPkgFunc(ci, "reflect", maker)
				}
				nonNil := core.BoolEdgesWhere(fn, func(v ssa.Value) bool {
					cl, ok := core.Strip(v).(*ssa.Call)
					return ok && core.IsMethod(cl, "reflect", "Value", "IsNil")
				}, false)
				path, reached := core.Reach(fn, nil, func(x ssa.Instruction) bool { return x == ssa.Instruction(al) }, nonNil, isMake)
				c.Check(!reached, fmt.Sprintf("%s#begun-%s/%d", core.FuncKey(fn), strings.TrimPrefix(maker, "Make"), n), p.Pos(al.Pos()), "the Go value is made or found non-nil before the assembler is handed out", "the assembler for a schema "+strings.ToLower(strings.TrimPrefix(maker, "Make"))+" is created over a Go value that may still be nil (no reflect."+maker+", no IsNil test on the way): when nothing is added the value stays nil, and a nil value in an optional or nullable position is read back as absent / null - the empty container does not survive a round trip", p.Witness(path)...)
			})
		}
	}

	c.Rule("C08.memberthenfinish", "the C19.memberthenfinish obligations, reported under this property as well (the two build routes give the same node: a stringprefix union decoded into a typed map is stored without a member when the enclosing finish hook runs before the member is set)", 2)
	{
		sub := &core.Ctx{P: p, Prop: "C08"}
		runC19(sub)
		for _, o := range sub.Obls {
			if o.Rule == "C19.memberthenfinish" && !strings.HasSuffix(o.Construct, "#instance-floor") {
				o.Rule = "C08.memberthenfinish"
				o.Property = "C08"
				c.Obls = append(c.Obls, o)
			}
		}
	}

	c.Rule("C08.nullsame", "the read routes of one node agree on what is null: in bindnode, every place that answers datamodel.Null (or datamodel.Absent) for a field or element because the schema says nullable (optional) and the Go value is nil decides it under the same kind of tests - a route that asks one question more (or less) than its siblings reads the same value differently by look-up and by iteration (a comparison among the sites that have this shape: no floor)", 0)
	{
		type site struct {
			fn   *ssa.Function
			ret  *ssa.Return
			what string
			sig  string
		}
		var sites []site
		for _, fn := range p.ModFns {
			pk := core.FuncPkg(fn)
			if pk == nil || core.RelPkg(pk.Path()) != "node/bindnode" || len(fn.Blocks) == 0 || fn.Synthetic != "" {
				continue
			}
			for _, ret := range core.Returns(fn) {
				what := ""
				for _, rv := range ret.Results {
					if u, ok := core.Strip(rv).(*ssa.UnOp); ok && u.Op == token.MUL {
						if g, ok := u.X.(*ssa.Global); ok && g.Pkg != nil && core.RelPkg(g.Pkg.Pkg.Path()) == "datamodel" && (g.Name() == "Null" || g.Name() == "Absent") {
							what = g.Name()
						}
					}
				}
				if what == "" {
					continue
				}
				// the questions asked on the way: callees of the calls in the conditions of the dominating edges
				asked := map[string]bool{}
				schemaSays := false
				for _, e := range core.IfEdges(fn) {
					if e.From.Parent() != fn || !core.EdgeDominates(e, ret.Block()) {
						continue
					}
					for w := range core.BackSlice(core.BlockIf(e.From).Cond, core.SliceOpts{}) {
						if cl, ok := w.(*ssa.Call); ok {
							if o := core.CalleeObj(cl); o != nil {
								asked[o.Name()] = true
								if o.Name() == "IsNullable" || o.Name() == "IsOptional" {
									schemaSays = true
								}
							}
						}
					}
				}
				if !schemaSays || !asked["IsNil"] {
					continue
				}
				// only the questions about the Go value (reflect) and the schema field matter
				var keep []string
				for n := range asked {
					switch n {
					case "IsNullable", "IsOptional", "IsNil", "Kind", "IsZero":
						keep = append(keep, n)
					}
				}
				sort.Strings(keep)
				sites = append(sites, site{fn, ret, what, strings.Join(keep, "+")})
			}
		}
		count := map[string]int{}
		for _, st := range sites {
			count[st.what+":"+st.sig]++
		}
		major := map[string]string{}
		for _, what := range []string{"Null", "Absent"} {
			best, bn := "", 0
			for k, n := range count {
				if strings.HasPrefix(k, what+":") && (n > bn || (n == bn && k < best)) {
					best, bn = k, n
				}
			}
			major[what] = strings.TrimPrefix(best, what+":")
		}
		nper := map[string]int{}
		for _, st := range sites {
			nper[core.FuncKey(st.fn)+st.what]++
			c.Check(st.sig == major[st.what], fmt.Sprintf("%s#answers-%s/%d", core.FuncKey(st.fn), st.what, nper[core.FuncKey(st.fn)+st.what]), p.Pos(st.ret.Pos()), "decided under the tests its siblings use ("+major[st.what]+")", "this route answers "+st.what+" under the tests "+st.sig+" where the other read routes of bindnode use "+major[st.what]+": the same Go value is "+st.what+" by one route and something else by the other (look-up versus iteration, type level versus representation)")
		}
	}
}

// reachFromBlockBarrier: target reachable from the start of blk without executing a barrier instruction.
func reachFromBlockBarrier(fn *ssa.Function, blk *ssa.BasicBlock, target, barrier func(ssa.Instruction) bool) bool {
	return reachFromBlock(fn, blk, target, barrier)
}
