package rules

import (
	"go/ast"
	"go/constant"
	"go/token"
	"go/types"
	"strings"

	"golang.org/x/tools/go/ssa"

	"verif/checker/internal/core"
)

// ---- shared view of a token-driven decoder function (dag-cbor style) ----

const tokPkg = "github.com/polydawn/refmt/tok"

// tokenConsumer describes a function that interprets refmt tokens held in a
// *tok.Token (parameter or local) and drives a NodeAssembler.
type tokenConsumer struct {
	fn     *ssa.Function
	tok    ssa.Value // the *tok.Token (Parameter or Alloc)
	steps  []*ssa.Call
	others map[*ssa.Function]bool // functions that belong to another consumer (analysed there, not as helpers of this one)
}

// calls lists the call instructions of the consumer and of the helpers expanded into it, leaving out what belongs to
// another consumer (the recursive decoder function is a consumer of its own even when the entry point that steps the
// first token calls it).
func (tc *tokenConsumer) calls() []ssa.CallInstruction {
	var out []ssa.CallInstruction
	for _, ci := range core.CallsR(tc.fn) {
		if g := ci.Parent(); g != tc.fn && tc.others[g] {
			continue
		}
		out = append(out, ci)
	}
	return out
}

func isTokenPtr(t types.Type) bool {
	p, ok := t.Underlying().(*types.Pointer)
	if !ok {
		return false
	}
	n, ok := types.Unalias(p.Elem()).(*types.Named)
	return ok && n.Obj().Name() == "Token" && n.Obj().Pkg() != nil && n.Obj().Pkg().Path() == tokPkg
}

// findTokenConsumers finds, in package rel, the functions holding a single
// *tok.Token as parameter or local.
func findTokenConsumers(p *core.Program, rel string) []*tokenConsumer {
	var out []*tokenConsumer
	for _, fn := range p.ModFns {
		pk := core.FuncPkg(fn)
		if pk == nil || core.RelPkg(pk.Path()) != rel || len(fn.Blocks) == 0 || fn.Synthetic != "" {
			continue
		}
		var tk ssa.Value
		for _, prm := range fn.Params {
			if isTokenPtr(prm.Type()) {
				tk = prm
			}
		}
		if tk == nil {
			core.Instrs(fn, func(in ssa.Instruction) {
				if al, ok := in.(*ssa.Alloc); ok && isTokenPtr(al.Type()) {
					tk = al
				}
			})
		}
		if tk == nil {
			continue
		}
		tc := &tokenConsumer{fn: fn, tok: tk}
		for _, ci := range core.CallsR(fn) {
			if cv := core.CallValue(ci); cv != nil && core.IsMethodNamed(ci, "Step") && len(core.Args(ci)) == 1 && tc.isTok(core.Args(ci)[0]) {
				tc.steps = append(tc.steps, cv)
			}
		}
		out = append(out, tc)
	}
	// a consumer that another consumer expands as a helper (an arm of the decoder split off into its own function) is
	// analysed as part of that consumer, with the token, budget and options of the real decoder function in view
	var roots []*tokenConsumer
	for _, tc := range out {
		absorbed := false
		for _, other := range out {
			// the recursive decoder function itself is never "a helper of its caller", whoever steps the first token
			if other != tc && core.RegionOf(other.fn).Has(tc.fn) && !selfRecursive(tc.fn) {
				absorbed = true
			}
		}
		if !absorbed {
			roots = append(roots, tc)
		}
	}
	for _, tc := range roots {
		tc.others = map[*ssa.Function]bool{}
		for _, other := range roots {
			if other == tc {
				continue
			}
			for _, g := range core.RegionOf(other.fn).Fns {
				if g != tc.fn {
					tc.others[g] = true
				}
			}
		}
		// what only this consumer expands stays its own
		for _, g := range core.RegionOf(tc.fn).Fns {
			owned := true
			for _, other := range roots {
				if other != tc && (g == other.fn || (core.RegionOf(other.fn).Has(g) && !core.RegionOf(tc.fn).Has(other.fn))) {
					owned = false
				}
				if other != tc && core.RegionOf(tc.fn).Has(other.fn) && core.RegionOf(other.fn).Has(g) {
					owned = false
				}
			}
			if owned {
				delete(tc.others, g)
			}
		}
		var steps []*ssa.Call
		for _, st := range tc.steps {
			if g := st.Parent(); g == tc.fn || !tc.others[g] {
				steps = append(steps, st)
			}
		}
		tc.steps = steps
	}
	return roots
}

func (tc *tokenConsumer) isTok(v ssa.Value) bool {
	return core.Strip(v) == tc.tok || core.RegionOf(tc.fn).Canon(v) == tc.tok
}

// fieldLoad: v is a load of token field name.
func (tc *tokenConsumer) fieldLoad(v ssa.Value, name string) bool {
	if core.IsLoadOfField(v, tc.isTok, name) {
		return true
	}
	// a helper's parameter that was handed the field's value at the call site
	if w := core.RegionOf(tc.fn).Canon(v); w != core.Strip(v) {
		return core.IsLoadOfField(w, tc.isTok, name)
	}
	return false
}

// derivesFromField: v's slice (through arithmetic, conversions, phis, len) contains a load of the token field.
func (tc *tokenConsumer) derivesFromField(v ssa.Value, names ...string) bool {
	sl := core.BackSlice(v, core.SliceOpts{Region: core.RegionOf(tc.fn), ThroughCallsIf: func(c *ssa.Call) bool {
		b, ok := c.Call.Value.(*ssa.Builtin)
		return ok && (b.Name() == "len" || b.Name() == "cap")
	}})
	for w := range sl {
		for _, n := range names {
			if tc.fieldLoad(w, n) {
				return true
			}
		}
	}
	return false
}

// epochStarts are the instructions after which a fresh token is in tok: the
// function entry for a primed parameter (nil) and every Step call.
func (tc *tokenConsumer) epochStarts() []ssa.Instruction {
	var out []ssa.Instruction
	if _, isParam := tc.tok.(*ssa.Parameter); isParam {
		out = append(out, nil)
	}
	for _, s := range tc.steps {
		out = append(out, s)
	}
	return out
}

func (tc *tokenConsumer) isStep(in ssa.Instruction) bool {
	for _, s := range tc.steps {
		if in == ssa.Instruction(s) {
			return true
		}
	}
	return false
}

// assemblerCall classifies invoke-mode calls on datamodel assembler interfaces.
func assemblerCall(ci ssa.CallInstruction) (string, bool) {
	cc := ci.Common()
	if !cc.IsInvoke() {
		return "", false
	}
	n, ok := types.Unalias(cc.Value.Type()).(*types.Named)
	if !ok || n.Obj().Pkg() == nil || core.RelPkg(n.Obj().Pkg().Path()) != "datamodel" {
		return "", false
	}
	switch n.Obj().Name() {
	case "NodeAssembler", "MapAssembler", "ListAssembler", "NodeBuilder":
		return cc.Method.Name(), true
	}
	return "", false
}

// isCommit: the call stores token data into the node being built or opens/extends a container.
func isCommit(name string) bool {
	return strings.HasPrefix(name, "Assign") || strings.HasPrefix(name, "Begin") || name == "AssembleEntry"
}

func epochName(in ssa.Instruction) string {
	if in == nil {
		return "entry"
	}
	return "step"
}

// ---- AST-level switch exhaustiveness (A11) ----

// enumConsts lists the constants of a named type declared in its package.
func enumConsts(t *types.Named) map[string]constant.Value {
	out := map[string]constant.Value{}
	pk := t.Obj().Pkg()
	if pk == nil {
		return out
	}
	for _, name := range pk.Scope().Names() {
		if c, ok := pk.Scope().Lookup(name).(*types.Const); ok && types.Identical(c.Type(), t) {
			out[name] = c.Val()
		}
	}
	return out
}

// switchInfo describes one expression switch over an enum-typed tag.
type switchInfo struct {
	Fn        string
	Pos       token.Pos
	TagType   *types.Named
	Cases     map[string]bool // constant values (ExactString) present as cases
	HasDef    bool
	DefPanics bool // default clause contains a call to builtin panic
	DefErrs   bool // default clause returns
	Stmt      *ast.SwitchStmt
}

// enumSwitches finds switches in package rel whose tag has named type satisfying keep.
func enumSwitches(p *core.Program, rel string, keep func(*types.Named) bool) []switchInfo {
	path := core.ModPath + "/" + rel
	if rel == "." {
		path = core.ModPath
	}
	pk := p.ByPath[path]
	if pk == nil {
		return nil
	}
	var out []switchInfo
	for _, f := range pk.Syntax {
		var fnName string
		ast.Inspect(f, func(n ast.Node) bool {
			switch x := n.(type) {
			case *ast.FuncDecl:
				fnName = x.Name.Name
				if x.Recv != nil && len(x.Recv.List) > 0 {
					fnName = types.ExprString(x.Recv.List[0].Type) + "." + fnName
				}
			case *ast.SwitchStmt:
				if x.Tag == nil {
					return true
				}
				tv, ok := pk.TypesInfo.Types[x.Tag]
				if !ok {
					return true
				}
				nt, ok := types.Unalias(tv.Type).(*types.Named)
				if !ok || !keep(nt) {
					return true
				}
				si := switchInfo{Fn: fnName, Pos: x.Pos(), TagType: nt, Cases: map[string]bool{}, Stmt: x}
				for _, st := range x.Body.List {
					cc := st.(*ast.CaseClause)
					if cc.List == nil {
						si.HasDef = true
						ast.Inspect(cc, func(m ast.Node) bool {
							switch y := m.(type) {
							case *ast.CallExpr:
								if id, ok := y.Fun.(*ast.Ident); ok && id.Name == "panic" {
									if _, isB := pk.TypesInfo.Uses[id].(*types.Builtin); isB {
										si.DefPanics = true
									}
								}
							case *ast.ReturnStmt:
								si.DefErrs = true
							}
							return true
						})
						continue
					}
					for _, e := range cc.List {
						if tv, ok := pk.TypesInfo.Types[e]; ok && tv.Value != nil {
							si.Cases[tv.Value.ExactString()] = true
						}
					}
				}
				out = append(out, si)
			}
			return true
		})
	}
	return out
}

// reachTyped is core.Reach made path-sensitive in one fact: the constant the
// token's Type field is known to equal. Edges of comparisons Token.Type ==/!= K
// that contradict the known constant are infeasible. The fact is dropped when
// the token is handed to an opaque call (which may refill it); Step calls are expected
// to be barriers. This is what lets `if tk.Tagged && tk.Type != TBytes
// {return}` be understood: the tagged edge carries Type == TBytes into the
// switch, where only the TBytes arm is feasible. Helpers of the decoder function are
// expanded (core/region.go), so an arm moved into a helper stays on the path.
func (tc *tokenConsumer) reachTyped(from ssa.Instruction, target func(ssa.Instruction) bool, blocked map[core.Edge]bool, barrier func(ssa.Instruction) bool) ([]*ssa.BasicBlock, bool) {
	isType := func(v ssa.Value) bool { return tc.fieldLoad(v, "Type") }
	drop := func(in ssa.Instruction) bool {
		ci, ok := in.(ssa.CallInstruction)
		if !ok {
			return false
		}
		for _, a := range ci.Common().Args {
			if tc.isTok(a) {
				return true
			}
		}
		return false
	}
	return core.ReachFactDrop(tc.fn, from, target, blocked, barrier, isType, "", drop)
}

// enumSwitchesTypeSwitchDefaults reports, for every type switch in the named function of package rel, whether its default clause panics.
func enumSwitchesTypeSwitchDefaults(p *core.Program, rel, fnName string) []bool {
	pk := p.ByPath[core.ModPath+"/"+rel]
	if pk == nil {
		return nil
	}
	var out []bool
	for _, f := range pk.Syntax {
		for _, d := range f.Decls {
			fd, ok := d.(*ast.FuncDecl)
			if !ok || fd.Body == nil || fd.Name.Name != fnName || fd.Recv != nil {
				continue
			}
			ast.Inspect(fd.Body, func(n ast.Node) bool {
				ts, ok := n.(*ast.TypeSwitchStmt)
				if !ok {
					return true
				}
				for _, st := range ts.Body.List {
					cc := st.(*ast.CaseClause)
					if cc.List != nil {
						continue
					}
					panics := false
					ast.Inspect(cc, func(m ast.Node) bool {
						if ce, ok := m.(*ast.CallExpr); ok {
							if id, ok := ce.Fun.(*ast.Ident); ok && id.Name == "panic" {
								panics = true
							}
						}
						return true
					})
					out = append(out, panics)
				}
				return true
			})
		}
	}
	return out
}

// selfRecursive: fn can reach itself through static calls inside its package.
func selfRecursive(fn *ssa.Function) bool {
	seen := map[*ssa.Function]bool{}
	work := []*ssa.Function{fn}
	for len(work) > 0 {
		f := work[len(work)-1]
		work = work[:len(work)-1]
		for _, ci := range core.Calls(f) {
			g := ci.Common().StaticCallee()
			if g == nil || len(g.Blocks) == 0 || core.FuncPkg(g) != core.FuncPkg(fn) {
				continue
			}
			if g == fn {
				return true
			}
			if !seen[g] {
				seen[g] = true
				work = append(work, g)
			}
		}
	}
	return false
}
