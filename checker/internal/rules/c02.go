package rules

import (
	"fmt"
	"go/constant"
	"go/token"
	"go/types"
	"sort"
	"strings"

	"golang.org/x/tools/go/ssa"

	"verif/checker/internal/core"
)

func init() {
	register(&Def{
		ID:          "C02",
		Explanation: "The canonical byte form itself (shortest heads, 64-bit floats, definite lengths) is produced by refmt/cbor, outside the repository. What the repository owns is decided structurally: (registered) the encoder registered for 0x71 runs with MapSortMode_RFC7049 and AllowLinks as compile-time constants; (comparator) the less functions used under each sort mode are, over all 7 feasible (length order, byte order) pairs of two keys, exactly 'shorter first, then bytewise' (RFC7049) and 'bytewise' (lexical) - decided by abstract interpretation over that finite order lattice, not by running them; (sortedemit) whenever sorting is on, every key emission is behind the sort call on the very collection that is emitted; (uint) the Kind_Int arms of marshal and EncodedLength probe UintNode; (link) link emission is behind Cid.Defined, writes the tag constant the decoder tests, prefixes exactly the zero byte, and clears Tagged on every path afterwards; (stateless) the encoder keeps no state between calls (fresh token per Marshal, no pools, no package-level writes); (lengthtable, lengthterms) EncodedLength's head-size table equals the CBOR head boundaries and each length-prefixed arm sizes its head for exactly the payload it adds. (uintsame) for every UintNode implementation AsUint applies the user conversions AsInt applies.",
		NotCovered:  []string{"bytes equal to the canonical form (refmt/cbor)", "decode(encode(v)) == v", "EncodedLength == bytes produced as numbers for containers"},
		Trusted:     []string{"go/ssa, go/types", "github.com/polydawn/refmt/cbor emits shortest-form heads and 64-bit floats", "sort.Slice sorts by the given less function"},
		Run:         runC02,
	})
	register(&Def{
		ID:          "C04",
		Explanation: "Number and string formatting belong to refmt/json, outside the repository (observed there: float 1.0 is printed as 1 and decodes as an int - a violation no static rule over this repository can see). What the repository owns is decided structurally: (registered) the encoder registered for 0x0129 runs with MapSortMode_Lexical, EncodeLinks and EncodeBytes, the decoder with ParseLinks and ParseBytes, as constants; (comparator, sortedemit) as in C02 for the bytewise order; (reserved) the string constants the encoder writes for the reserved bytes/link forms are the ones the decoder's look-ahead compares against, and the base64 encoding used to encode is the one tried first on decode; (stateless) the encoder keeps no state between calls; (kindswitch) the kind dispatch is exhaustive.",
		NotCovered:  []string{"number and string formatting (refmt/json): integral floats are printed without a fraction and decode as ints", "round-trip equality as values", "refmt's JSON encoder ignores Write errors (observed; affects C06 store-side failure through dag-json)"},
		Trusted:     []string{"go/ssa, go/types", "github.com/polydawn/refmt/json", "sort.Slice"},
		Run:         runC04,
	})
}

// ---- order-lattice interpreter (A8) ----

type ordState struct{ lenOrd, byteOrd int } // -1, 0, +1 for key_i vs key_j

var feasibleOrd = []ordState{{0, 0}, {0, -1}, {0, 1}, {-1, -1}, {-1, 1}, {1, -1}, {1, 1}}

func (s ordState) String() string {
	n := map[int]string{-1: "<", 0: "=", 1: ">"}
	return "len" + n[s.lenOrd] + ",bytes" + n[s.byteOrd]
}

type cmpInterp struct {
	fn     *ssa.Function
	pi, pj ssa.Value // the two index parameters (or key parameters after inlining)
	bind   map[ssa.Value]ssa.Value
	depth  int
}

// which side a string value denotes: +1 = key of i, -1 = key of j, 0 = unknown
func (ci *cmpInterp) side(v ssa.Value) int {
	if b, ok := ci.bind[v]; ok {
		return ci.sideIn(b)
	}
	return ci.sideIn(v)
}

func (ci *cmpInterp) sideIn(v ssa.Value) int {
	hasI, hasJ := false, false
	for w := range core.BackSlice(v, core.SliceOpts{Stores: false, Indices: true}) {
		if w == ci.pi {
			hasI = true
		}
		if w == ci.pj {
			hasJ = true
		}
	}
	switch {
	case hasI && !hasJ:
		return 1
	case hasJ && !hasI:
		return -1
	}
	return 0
}

func cmpHolds(op token.Token, ord int) (bool, bool) {
	switch op {
	case token.LSS:
		return ord < 0, true
	case token.LEQ:
		return ord <= 0, true
	case token.GTR:
		return ord > 0, true
	case token.GEQ:
		return ord >= 0, true
	case token.EQL:
		return ord == 0, true
	case token.NEQ:
		return ord != 0, true
	}
	return false, false
}

// evalBool evaluates a boolean SSA value under the abstract state; ok=false means outside the fragment.
func (ci *cmpInterp) evalBool(v ssa.Value, st ordState, from *ssa.BasicBlock, visiting map[ssa.Value]bool) (bool, bool) {
	if b, isC := core.ConstBool(v); isC {
		return b, true
	}
	switch x := v.(type) {
	case *ssa.UnOp:
		if x.Op == token.NOT {
			r, ok := ci.evalBool(x.X, st, from, visiting)
			return !r, ok
		}
	case *ssa.BinOp:
		// string comparison or length comparison
		isStr := func(t types.Type) bool {
			b, ok := t.Underlying().(*types.Basic)
			return ok && b.Info()&types.IsString != 0
		}
		if isStr(x.X.Type()) && isStr(x.Y.Type()) {
			sx, sy := ci.side(x.X), ci.side(x.Y)
			if sx == 0 || sy == 0 || sx == sy {
				return false, false
			}
			ord := st.byteOrd
			if sx < 0 {
				ord = -ord
			}
			return cmpHolds(x.Op, ord)
		}
		lx, okx := ci.lenSide(x.X)
		ly, oky := ci.lenSide(x.Y)
		if okx && oky && lx != ly {
			ord := st.lenOrd
			if lx < 0 {
				ord = -ord
			}
			return cmpHolds(x.Op, ord)
		}
	case *ssa.Call:
		// strings.Compare / bytes.Compare are handled in evalInt; a call returning bool: inline same-package static callee
		if cal := x.Call.StaticCallee(); cal != nil && ci.depth < 2 && len(cal.Blocks) > 0 && cal.Signature.Results().Len() == 1 && len(cal.Params) == 2 {
			sub := &cmpInterp{fn: cal, pi: cal.Params[0], pj: cal.Params[1], bind: map[ssa.Value]ssa.Value{}, depth: ci.depth + 1}
			s0, s1 := ci.side(x.Call.Args[0]), ci.side(x.Call.Args[1])
			if s0 == 0 || s1 == 0 || s0 == s1 {
				return false, false
			}
			st2 := st
			if s0 < 0 {
				st2 = ordState{-st.lenOrd, -st.byteOrd}
			}
			return sub.run(st2)
		}
	}
	return false, false
}

// lenSide: v is len(key) (possibly converted) of side s.
func (ci *cmpInterp) lenSide(v ssa.Value) (int, bool) {
	for {
		if cv, ok := v.(*ssa.Convert); ok {
			v = cv.X
			continue
		}
		break
	}
	c, ok := v.(*ssa.Call)
	if !ok {
		return 0, false
	}
	b, ok := c.Call.Value.(*ssa.Builtin)
	if !ok || b.Name() != "len" {
		return 0, false
	}
	s := ci.side(c.Call.Args[0])
	return s, s != 0
}

// run interprets the function under the state and returns its boolean result.
func (ci *cmpInterp) run(st ordState) (bool, bool) {
	blk := ci.fn.Blocks[0]
	var prev *ssa.BasicBlock
	for steps := 0; steps < 200; steps++ {
		last := blk.Instrs[len(blk.Instrs)-1]
		switch t := last.(type) {
		case *ssa.Return:
			v := t.Results[0]
			if phi, ok := v.(*ssa.Phi); ok && phi.Block() == blk {
				for i, p := range blk.Preds {
					if p == prev {
						v = phi.Edges[i]
					}
				}
			}
			return ci.evalBool(v, st, prev, map[ssa.Value]bool{})
		case *ssa.If:
			c, ok := ci.evalBool(t.Cond, st, prev, map[ssa.Value]bool{})
			if !ok {
				return false, false
			}
			prev = blk
			if c {
				blk = blk.Succs[0]
			} else {
				blk = blk.Succs[1]
			}
		case *ssa.Jump:
			prev = blk
			blk = blk.Succs[0]
		default:
			return false, false
		}
	}
	return false, false
}

func expectedLess(mode string, st ordState) bool {
	switch mode {
	case "RFC7049":
		return st.lenOrd < 0 || (st.lenOrd == 0 && st.byteOrd < 0)
	case "Lexical":
		return st.byteOrd < 0
	}
	return false
}

// sortModeNames maps the exact constant of codec.MapSortMode to its short name.
func sortModeNames(p *core.Program) map[string]string {
	out := map[string]string{}
	if nt := p.NamedType("codec", "MapSortMode"); nt != nil {
		for n, v := range enumConsts(nt) {
			out[v.ExactString()] = strings.TrimPrefix(n, "MapSortMode_")
		}
	}
	return out
}

// checkSorting decides comparator and sortedemit for one marshalling function.
func checkSorting(c *core.Ctx, prefix string, fn *ssa.Function, floorModes []string) {
	// the map arm of a recursive encoder may be split into stages (collect, sort, emit) of which the last recurses into
	// the encoder for every value: those stages are expanded too
	core.WithCycleStages(func() { checkSortingIn(c, prefix, fn, floorModes) })
}

func checkSortingIn(c *core.Ctx, prefix string, fn *ssa.Function, floorModes []string) {
	p := c.P
	key := core.FuncKey(fn)
	modes := sortModeNames(p)
	isMode := func(v ssa.Value) bool { return core.IsFieldRef(v, "EncodeOptions", "MapSortMode") }
	// sort calls and the collection they sort
	type sortCall struct {
		call *ssa.Call
		less *ssa.Function
		coll ssa.Value
	}
	var sorts []sortCall
	for _, ci := range core.CallsR(fn) {
		cv := core.CallValue(ci)
		if cv == nil || !(core.IsPkgFunc(ci, "sort", "Slice") || core.IsPkgFunc(ci, "sort", "SliceStable") || core.IsPkgFunc(ci, "slices", "SortFunc")) {
			continue
		}
		var less *ssa.Function
		if mc, ok := cv.Call.Args[1].(*ssa.MakeClosure); ok {
			less, _ = mc.Fn.(*ssa.Function)
		} else if f, ok := cv.Call.Args[1].(*ssa.Function); ok {
			less = f
		}
		// a method value (entries.less): go/ssa wraps it in a synthetic bound-method closure whose body is one call
		// of the real method
		for hop := 0; hop < 2 && less != nil && less.Synthetic != ""; hop++ {
			var inner *ssa.Function
			for _, ci2 := range core.Calls(less) {
				if g := ci2.Common().StaticCallee(); g != nil && len(g.Blocks) > 0 {
					inner = g
				}
			}
			less = inner
		}
		sorts = append(sorts, sortCall{cv, less, cv.Call.Args[0]})
	}
	c.Rule(prefix+".comparator", "for every sort mode other than None: the sort call reachable under that mode uses a less function that, on all 7 feasible (length order, byte order) relations between two keys, returns exactly 'shorter first, then bytewise' for RFC7049 and 'bytewise' for Lexical (abstract interpretation over the order lattice; any construct outside comparisons of the two keys and their lengths is undecided and fails)", len(floorModes))
	type emitOb struct {
		mode string
		ok   bool
		pos  token.Pos
		path []string
	}
	var emits []emitOb
	var modeKs []string
	for k, n := range modes {
		if n != "None" {
			modeKs = append(modeKs, k)
		}
	}
	sort.Strings(modeKs)
	for _, k := range modeKs {
		mname := modes[k]
		// which sort calls are reachable under this mode?
		var reachable []sortCall
		for _, sc := range sorts {
			if _, r := core.ReachFact(fn, nil, isTarget(sc.call), nil, nil, isMode, k); r {
				reachable = append(reachable, sc)
			}
		}
		ck := fmt.Sprintf("%s#less[%s]", key, mname)
		if len(reachable) != 1 {
			c.Fail(ck, p.Pos(fn.Pos()), fmt.Sprintf("under MapSortMode_%s exactly one sort call must be reachable, found %d: entries are emitted unsorted or sorted twice", mname, len(reachable)))
			continue
		}
		sc := reachable[0]
		if sc.less == nil || len(sc.less.Params) < 2 {
			c.Undecided(ck, p.Pos(sc.call.Pos()), "less function is not a function of two index parameters")
			continue
		}
		// the two index parameters are the last two (a method's receiver comes first)
		np := len(sc.less.Params)
		ci := &cmpInterp{fn: sc.less, pi: sc.less.Params[np-2], pj: sc.less.Params[np-1], bind: map[ssa.Value]ssa.Value{}}
		bad := ""
		undecided := false
		for _, st := range feasibleOrd {
			got, ok := ci.run(st)
			if !ok {
				undecided = true
				break
			}
			if got != expectedLess(mname, st) {
				bad = fmt.Sprintf("for keys related by (%s) less returns %v, the %s order requires %v", st, got, mname, expectedLess(mname, st))
				break
			}
		}
		switch {
		case undecided:
			c.Undecided(ck, p.Pos(sc.less.Pos()), "the less function uses a construct outside plain comparisons of the two keys and their lengths: its order cannot be decided")
		case bad != "":
			c.Fail(ck, p.Pos(sc.less.Pos()), bad)
		default:
			c.OK(ck, p.Pos(sc.less.Pos()), "less is exactly the "+mname+" order on all 7 feasible key relations")
		}
		// sortedemit: key emissions (stores of a string into Token.Str that derive from the sorted collection or from the iterator) behind the sort
		core.InstrsR(fn, func(in ssa.Instruction) {
			st, ok := in.(*ssa.Store)
			if !ok {
				return
			}
			fa, ok := st.Addr.(*ssa.FieldAddr)
			if !ok || core.FieldName(fa) != "Token.Str" {
				return
			}
			if _, isConst := st.Val.(*ssa.Const); isConst {
				return
			}
			// a map key emission: the stored string derives from a MapIterator key or from the collected entries
			// provenance is judged from the function that emits (its parameters are leaves): in the recursive encoder the
			// node parameter of marshal is, seen from the entry point, also "something out of a map's entries". When the
			// emission loop was split off into a stage of its own, the function that calls it (one or two levels up) is
			// tried too.
			isKey, fromColl := false, false
			tried := map[*ssa.Function]bool{}
			level := []*ssa.Function{st.Parent()}
			for depth := 0; depth < 3 && !isKey && !fromColl; depth++ {
				var next []*ssa.Function
				for _, root := range level {
					if tried[root] {
						continue
					}
					tried[root] = true
					rgS := core.RegionOf(root)
					for w := range core.BackSlice(st.Val, core.SliceOpts{ThroughCalls: true, Stores: true, Region: rgS}) {
						// result 0 of MapIterator.Next is the key (result 1, the value, may well be a string node emitted elsewhere)
						if ex, ok := w.(*ssa.Extract); ok && ex.Index == 0 {
							if cl, ok := ex.Tuple.(*ssa.Call); ok && cl.Call.IsInvoke() && cl.Call.Method.Name() == "Next" && cl.Call.Signature().Results().Len() == 3 {
								isKey = true
							}
						}
					}
					if sameBufferR(rgS, st.Val, sc.coll) {
						fromColl = true
					}
					// (never upwards from a function that is handed the node to encode - the recursive encoder function
					// itself: there the parameters really are leaves)
					takesNode := false
					for _, prm := range root.Params {
						if isNodeType(prm.Type()) {
							takesNode = true
						}
					}
					if takesNode {
						continue
					}
					for _, g := range core.RegionOf(fn).Fns {
						for _, ci2 := range core.Calls(g) {
							if ci2.Common().StaticCallee() == root && g != root {
								next = append(next, g)
							}
						}
					}
				}
				level = next
			}
			if !isKey && !fromColl {
				return
			}
			if _, r := core.ReachFact(fn, nil, isTarget(in), nil, nil, isMode, k); !r {
				return // not emitted under this mode
			}
			path, reached := core.ReachFact(fn, nil, isTarget(in), nil, isTarget(sc.call), isMode, k)
			emits = append(emits, emitOb{mname, !reached && fromColl, st.Pos(), p.Witness(path)})
		})
	}
	c.Rule(prefix+".sortedemit", "under every sort mode other than None, each emission of a map key (a store into Token.Str of a string coming from the map's entries) takes the key from the collection that was passed to the sort call and is unreachable without passing that call", len(floorModes))
	for i, e := range emits {
		c.Check(e.ok, fmt.Sprintf("%s#emit%d[%s]", key, i+1, e.mode), p.Pos(e.pos), "key emitted from the sorted collection, after the sort", "under MapSortMode_"+e.mode+" a map key can be emitted that does not come from the sorted collection or without the sort call having run: output depends on insertion order", e.path...)
	}
}

// checkRegisteredConsts: fn builds an options composite literal whose named fields hold the given constants.
func checkRegisteredConsts(c *core.Ctx, fn *ssa.Function, typ string, want map[string]string) {
	p := c.P
	key := core.FuncKey(fn)
	got := map[string]string{}
	core.Instrs(fn, func(in ssa.Instruction) {
		st, ok := in.(*ssa.Store)
		if !ok {
			return
		}
		fa, ok := st.Addr.(*ssa.FieldAddr)
		if !ok {
			return
		}
		fnm := core.FieldName(fa)
		if !strings.HasPrefix(fnm, typ+".") {
			return
		}
		if cv := core.ConstVal(st.Val); cv != nil {
			got[strings.TrimPrefix(fnm, typ+".")] = cv.ExactString()
		} else {
			got[strings.TrimPrefix(fnm, typ+".")] = "?"
		}
	})
	var fields []string
	for f := range want {
		fields = append(fields, f)
	}
	sort.Strings(fields)
	for _, f := range fields {
		g, ok := got[f]
		if !ok {
			g = "zero value"
		}
		c.Check(g == want[f], fmt.Sprintf("%s#%s.%s", key, typ, f), p.Pos(fn.Pos()), f+" = "+want[f], fmt.Sprintf("the registered codec function sets %s.%s to %s, the codec's definition requires the constant %s", typ, f, g, want[f]))
	}
}

// registeredWith: the function passed to multicodec.Register{En,De}coder for a code in package rel's init.
func registeredWith(p *core.Program, rel string, which string, code int64) *ssa.Function {
	sp := p.Pkg(rel)
	if sp == nil {
		return nil
	}
	var out *ssa.Function
	for _, m := range sp.Members {
		fn, ok := m.(*ssa.Function)
		if !ok || !strings.HasPrefix(fn.Name(), "init") {
			continue
		}
		for _, ci := range core.Calls(fn) {
			if core.IsPkgFunc(ci, core.ModPath+"/multicodec", which) {
				k, isC := core.ConstInt(ci.Common().Args[0])
				if !isC || k != code {
					continue
				}
				switch f := ci.Common().Args[1].(type) {
				case *ssa.Function:
					out = f
				case *ssa.ChangeType:
					if ff, ok := f.X.(*ssa.Function); ok {
						out = ff
					}
				case *ssa.MakeClosure:
					out, _ = f.Fn.(*ssa.Function)
				}
			}
		}
	}
	return out
}

// checkEncoderStateless: nothing statically reachable (in package) from the encode entry points keeps state between calls.
func checkEncoderStateless(c *core.Ctx, prefix, rel string, entries []*ssa.Function) {
	p := c.P
	c.Rule(prefix+".stateless", "the encoder keeps no state between calls: no function of the package statically reachable from its encode entry points writes a package-level variable, uses a sync.Pool, or works on a token/buffer that is not allocated by the call itself - the bytes produced depend on the value and options alone", 3)
	seen := map[*ssa.Function]bool{}
	var st []*ssa.Function
	st = append(st, entries...)
	for len(st) > 0 {
		f := st[len(st)-1]
		st = st[:len(st)-1]
		if f == nil || seen[f] || len(f.Blocks) == 0 {
			continue
		}
		if pk := core.FuncPkg(f); pk == nil || core.RelPkg(pk.Path()) != rel {
			continue
		}
		seen[f] = true
		for _, ci := range core.Calls(f) {
			st = append(st, ci.Common().StaticCallee())
		}
		st = append(st, f.AnonFuncs...)
	}
	var fns []*ssa.Function
	for f := range seen {
		fns = append(fns, f)
	}
	sort.Slice(fns, func(i, j int) bool { return core.FuncKey(fns[i]) < core.FuncKey(fns[j]) })
	for _, f := range fns {
		bad := ""
		pos := f.Pos()
		for _, w := range p.LocalEffects(f).Writes {
			if w.Global != nil && p.InModuleGlobal(w.Global) {
				bad, pos = "writes package-level variable "+w.Global.Name(), w.Instr.Pos()
			}
		}
		for _, ci := range core.Calls(f) {
			if core.IsMethod(ci, "sync", "Pool", "Get") || core.IsMethod(ci, "sync", "Pool", "Put") {
				bad, pos = "recycles objects through a sync.Pool (whatever a previous, possibly failed, call left in them leaks into this encoding)", ci.Pos()
			}
			for _, a := range ci.Common().Args {
				if g, ok := rootOf(core.Strip(a)).(*ssa.Global); ok && p.InModuleGlobal(g) {
					if o := core.CalleeObj(ci); o != nil && !externalReadOnly[o.Name()] {
						bad, pos = "passes package-level variable "+g.Name()+" by reference to "+o.Name(), ci.Pos()
					}
				}
			}
		}
		c.Check(bad == "", core.FuncKey(f)+"#stateless", p.Pos(pos), "keeps no state", core.FuncKey(f)+" "+bad)
	}
}

func runC02(c *core.Ctx) {
	p := c.P
	const rel = "codec/dagcbor"
	modes := sortModeNames(p)
	modeConst := func(name string) string {
		for k, n := range modes {
			if n == name {
				return k
			}
		}
		return "?"
	}

	c.Rule("C02.registered", "the function registered as the 0x71 encoder in package init builds its EncodeOptions with MapSortMode = MapSortMode_RFC7049 and AllowLinks = true as compile-time constants and hands the node and writer it received to EncodeOptions.Encode", 3)
	enc := registeredWith(p, rel, "RegisterEncoder", 0x71)
	if enc == nil {
		c.Fail(rel+"#registered-encoder", "-", "no encoder registered for multicodec 0x71 in package init")
	} else {
		c.OK(rel+"#registered-encoder", p.Pos(enc.Pos()), "registered: "+core.FuncKey(enc))
		checkRegisteredConsts(c, enc, "EncodeOptions", map[string]string{"MapSortMode": modeConst("RFC7049"), "AllowLinks": "true"})
	}

	// the exported encoder entry; marshal, marshalMap and any helper split off them are expanded into it (core/region.go)
	if mm := p.Func(rel, "", "Marshal"); mm != nil {
		checkSorting(c, "C02", mm, []string{"Lexical", "RFC7049"})
	} else {
		c.Rule("C02.comparator", "", 2)
	}

	c.Rule("C02.uint", "the Kind_Int arms of marshal and EncodedLength probe datamodel.UintNode before relying on AsInt (sibling agreement: the predictor must accept what the encoder accepts)", 2)
	for _, name := range []string{"Marshal", "EncodedLength"} {
		fn := p.Func(rel, "", name)
		if fn == nil {
			c.Undecided(rel+"."+name, "-", "not found")
			continue
		}
		probes := false
		core.InstrsR(fn, func(in ssa.Instruction) {
			if ta, ok := in.(*ssa.TypeAssert); ok {
				if nt := namedOfType(ta.AssertedType); nt != nil && nt.Obj().Name() == "UintNode" {
					probes = true
				}
			}
		})
		c.Check(probes, rel+"."+name+"#int-arm-uint", p.Pos(fn.Pos()), "probes UintNode", name+" relies on AsInt without probing UintNode")
	}

	c.Rule("C02.uintsame", "the encoder asks a UintNode for AsUint and every other reader asks AsInt - both must name the same integer: for every UintNode implementation of the module, each user-supplied conversion function (a function-typed struct field) that AsInt can call is also called by AsUint", 3)
	if uIface := p.Iface("datamodel", "UintNode"); uIface != nil {
		userConversions := func(fn *ssa.Function) map[core.FieldID]string {
			out := map[core.FieldID]string{}
			for g := range localClosure(p, []*ssa.Function{fn}) {
				if gp := core.FuncPkg(g); gp == nil || gp != core.FuncPkg(fn) {
					continue
				}
				for _, ci := range core.Calls(g) {
					cc := ci.Common()
					if cc.IsInvoke() || cc.StaticCallee() != nil {
						continue
					}
					if fid, fv, ok := core.FieldOfLoad(core.Strip(cc.Value)); ok {
						out[fid] = fv.Name()
					}
				}
			}
			return out
		}
		for _, im := range p.Implementers(uIface, libraryPkg) {
			fi, fu := p.Method(im.Type(), "AsInt"), p.Method(im.Type(), "AsUint")
			if fi == nil || fu == nil {
				continue
			}
			name := core.RelPkg(im.Named.Obj().Pkg().Path()) + "." + im.Named.Obj().Name()
			ci, cu := userConversions(fi), userConversions(fu)
			missing := ""
			for fid, fname := range ci {
				if _, ok := cu[fid]; !ok {
					missing = fname
				}
			}
			c.Check(missing == "", name+"#AsUint-same-conversions", p.Pos(fu.Pos()), fmt.Sprintf("AsUint applies the %d user conversion(s) AsInt applies", len(ci)), "AsInt passes the stored Go value through the user-supplied conversion "+missing+" but AsUint returns it as it is: dag-cbor (which asks AsUint first) encodes a different integer than the one every other reader of the node sees, and decoding those bytes applies the conversion a second time")
		}
	}

	c.Rule("C02.link", "in the encoder's link arm: the emission (sink.Step of the tagged token) is dominated by the true edge of Cid.Defined(); Token.Tag is stored from the package's link-tag constant; Token.Bytes is append([]byte{0}, cid bytes...) (exactly one zero prefix byte); and after Token.Tagged was set, every path to a return passes a store clearing it (the token is shared by the whole encode)", 4)
	if fn := p.Func(rel, "", "Marshal"); fn != nil { // the entry point with its workers expanded
		key := core.FuncKey(fn)
		var setTagged, clrTagged []*ssa.Store
		var tagStores []*ssa.Store
		var bytesStores []*ssa.Store
		core.InstrsR(fn, func(in ssa.Instruction) {
			st, ok := in.(*ssa.Store)
			if !ok {
				return
			}
			fa, ok := st.Addr.(*ssa.FieldAddr)
			if !ok {
				return
			}
			switch core.FieldName(fa) {
			case "Token.Tagged":
				if b, isB := core.ConstBool(st.Val); isB && b {
					setTagged = append(setTagged, st)
				} else if isB {
					clrTagged = append(clrTagged, st)
				}
			case "Token.Tag":
				tagStores = append(tagStores, st)
			case "Token.Bytes":
				bytesStores = append(bytesStores, st)
			}
		})
		if len(setTagged) == 0 {
			c.Undecided(key+"#link", p.Pos(fn.Pos()), "no store Token.Tagged = true found")
		}
		for i, st := range setTagged {
			defined := core.BoolEdgesWhere(fn, func(v ssa.Value) bool {
				cl, ok := v.(*ssa.Call)
				return ok && core.IsMethod(cl, "github.com/ipfs/go-cid", "Cid", "Defined")
			}, true)
			path, reached := core.Reach(fn, nil, isTarget(st), defined, nil)
			c.Check(len(defined) > 0 && !reached, fmt.Sprintf("%s#link-defined%d", key, i+1), p.Pos(st.Pos()), "tagged emission only for defined CIDs", "a link token can be emitted without Cid.Defined() having been tested true", p.Witness(path)...)
			isRet := func(in ssa.Instruction) bool { _, ok := in.(*ssa.Return); return ok }
			isClr := func(in ssa.Instruction) bool {
				for _, cs := range clrTagged {
					if in == ssa.Instruction(cs) {
						return true
					}
				}
				return false
			}
			path, reached = core.Reach(fn, st, isRet, nil, isClr)
			c.Check(!reached, fmt.Sprintf("%s#link-tagged-cleared%d", key, i+1), p.Pos(st.Pos()), "Tagged cleared on every path after the link token", "after Token.Tagged was set a return is reachable without clearing it: every later token of the same encode (or of a later one sharing the token) is written with the link tag in front", p.Witness(path)...)
		}
		for i, st := range tagStores {
			cv := core.ConstVal(st.Val)
			okc := cv != nil && constant.Compare(cv, token.EQL, constant.MakeInt64(42))
			c.Check(okc, fmt.Sprintf("%s#link-tag-const%d", key, i+1), p.Pos(st.Pos()), "tag 42", "the link tag written is not the constant 42")
		}
		for i, st := range bytesStores {
			ap, ok := st.Val.(*ssa.Call)
			if !ok {
				continue
			}
			b, isB := ap.Call.Value.(*ssa.Builtin)
			if !isB || b.Name() != "append" {
				continue
			}
			// first operand: a one-element []byte{0}
			elems := byteLiteral(ap.Call.Args[0])
			c.Check(len(elems) == 1 && elems[0] == 0, fmt.Sprintf("%s#link-prefix%d", key, i+1), p.Pos(st.Pos()), "exactly one 0x00 multibase prefix byte", fmt.Sprintf("the link bytes are prefixed with %v instead of exactly one zero byte", elems))
		}
	} else {
		c.Undecided(rel+".Marshal", "-", "not found")
	}

	var entries []*ssa.Function
	for _, n := range []string{"Encode", "Marshal"} { // everything they reach statically in the package is followed
		entries = append(entries, p.Func(rel, "", n))
	}
	entries = append(entries, p.Func(rel, "EncodeOptions", "Encode"))
	checkEncoderStateless(c, "C02", rel, entries)
	c.Rule("C02.freshtoken", "the token the encoder hands to the sink is storage of the encode call itself: every *Token given to TokenSink.Step in Marshal and the functions it is built from (recursion stages included) is - once helper boundaries and state structs are resolved - the address of (a field of) a local variable of the exported Marshal, never a package-level variable, a pooled object or a field of something that outlives the call; so no token state survives from another encode", 1)
	if fn := p.Func(rel, "", "Marshal"); fn != nil {
		core.WithCycleStages(func() {
			rg := core.RegionOf(fn)
			n := 0
			for _, ci := range core.CallsR(fn) {
				if !ci.Common().IsInvoke() || ci.Common().Method.Name() != "Step" || len(ci.Common().Args) != 1 || !isTokenPtr(ci.Common().Args[0].Type()) {
					continue
				}
				n++
				// the roots of the address, through fields of a state struct and helper parameters
				roots := rg.AddrRoots(ci.Common().Args[0])
				isAlloc := len(roots) > 0
				var al *ssa.Alloc
				for _, root := range roots {
					a2, ok := root.(*ssa.Alloc)
					if !ok || a2.Parent() != fn {
						isAlloc = false
					}
					al = a2
				}
				if al == nil {
					isAlloc = false
					al = &ssa.Alloc{}
				}
				c.Check(isAlloc, fmt.Sprintf("%s#token-local%d", core.FuncKey(fn), n), p.Pos(ci.Pos()), "fresh local token", "the token handed to the sink is not (part of) a local variable of Marshal: a recycled or shared token carries state from one encode into another")
			}
			if n == 0 {
				c.Undecided(core.FuncKey(fn)+"#token-steps", p.Pos(fn.Pos()), "no TokenSink.Step call found under Marshal")
			}
		})
	}

	c.Rule("C02.strcontent", "the decoder reads back every text string the encoder can write: in the DAG-CBOR token consumers no branch depends on the result of a function applied to the content of the token's text (Token.Str) - only on its length (budget) and on its membership in the set of keys seen - because the encoder writes keys and strings of arbitrary bytes verbatim and what it writes must decode to the same value", 1)
	{
		nsc := 0
		for _, tc := range findTokenConsumers(p, "codec/dagcbor") {
			nsc++
			bad := ""
			pos := tc.fn.Pos()
			for _, b := range core.RegionOf(tc.fn).Blocks() {
				ifi := core.BlockIf(b)
				if ifi == nil {
					continue
				}
				for w := range core.BackSlice(ifi.Cond, core.SliceOpts{Region: core.RegionOf(tc.fn), ThroughCallsIf: func(cl *ssa.Call) bool {
					_, isB := cl.Call.Value.(*ssa.Builtin)
					return !isB && cl.Call.StaticCallee() != nil && core.FuncPkg(cl.Call.StaticCallee()) != core.FuncPkg(tc.fn)
				}}) {
					cl, ok := w.(*ssa.Call)
					if !ok || cl.Call.StaticCallee() == nil || core.FuncPkg(cl.Call.StaticCallee()) == core.FuncPkg(tc.fn) {
						continue
					}
					for _, a := range cl.Call.Args {
						if tc.fieldLoad(a, "Str") {
							bad = "a branch depends on " + cl.Call.StaticCallee().String() + " applied to the token's text"
							pos = ifi.Cond.Pos()
							if !pos.IsValid() {
								pos = cl.Pos()
							}
						}
					}
				}
			}
			c.Check(bad == "", core.FuncKey(tc.fn)+"#text-content-not-judged", p.Pos(pos), "no branch judges the content of a text string", bad+": strings or keys the encoder writes verbatim (any bytes) can be rejected or altered on the way back, so encode-then-decode is no longer the identity")
		}
		if nsc == 0 {
			c.Undecided("codec/dagcbor#token-consumers", "-", "no token consumer found")
		}
	}

	c.Rule("C02.lengthtable", "the head-size table used by EncodedLength equals the CBOR head boundaries: values below 24 take 1 byte, below 2^8 2, below 2^16 3, below 2^32 5, otherwise 9; uintLength picks the first row whose bound is strictly greater", 1)
	checkLengthTable(c, rel)

	c.Rule("C02.lengthterms", "in every length-prefixed arm of EncodedLength (string, bytes, link) the returned sum consists of uintLength(L), the payload length L itself - the same quantity, not one byte off - and the arm's constant (0 for string/bytes, 2 for the link tag)", 3)
	checkLengthTerms(c, rel)
}

// byteLiteral returns the constant elements of a []byte{...} literal value.
func byteLiteral(v ssa.Value) []int64 {
	sl, ok := v.(*ssa.Slice)
	if !ok {
		return nil
	}
	al, ok := sl.X.(*ssa.Alloc)
	if !ok {
		return nil
	}
	arr, ok := al.Type().(*types.Pointer).Elem().Underlying().(*types.Array)
	if !ok {
		return nil
	}
	out := make([]int64, arr.Len())
	core.Instrs(al.Parent(), func(in ssa.Instruction) {
		st, ok := in.(*ssa.Store)
		if !ok {
			return
		}
		ia, ok := st.Addr.(*ssa.IndexAddr)
		if !ok || ia.X != ssa.Value(al) {
			return
		}
		i, _ := core.ConstInt(ia.Index)
		v, isC := core.ConstInt(st.Val)
		if !isC {
			v = -1
		}
		if int(i) < len(out) {
			out[i] = v
		}
	})
	return out
}

// headLengthRole finds, by what they are, the function that predicts the size of a CBOR head and the table it walks:
// a function of the codec package that EncodedLength (exported) calls statically, taking one integer and returning one
// integer, whose body reads a package-level slice/array of two-integer-field structs.
func headLengthRole(p *core.Program, rel string) (ul *ssa.Function, table *ssa.Global, elem *types.Named) {
	el := p.Func(rel, "", "EncodedLength")
	if el == nil {
		return nil, nil, nil
	}
	isInt := func(t types.Type) bool {
		b, ok := t.Underlying().(*types.Basic)
		return ok && b.Info()&types.IsInteger != 0
	}
	for _, ci := range core.CallsR(el) {
		g := ci.Common().StaticCallee()
		if g == nil || len(g.Blocks) == 0 || core.FuncPkg(g) != core.FuncPkg(el) {
			continue
		}
		sig := g.Signature
		if sig.Params().Len() != 1 || sig.Results().Len() != 1 || !isInt(sig.Params().At(0).Type()) || !isInt(sig.Results().At(0).Type()) {
			continue
		}
		var tbl *ssa.Global
		var et *types.Named
		core.Instrs(g, func(in ssa.Instruction) {
			for _, op := range in.Operands(nil) {
				gl, ok := (*op).(*ssa.Global)
				if !ok {
					continue
				}
				var e types.Type
				switch u := gl.Type().(*types.Pointer).Elem().Underlying().(type) {
				case *types.Slice:
					e = u.Elem()
				case *types.Array:
					e = u.Elem()
				}
				if e == nil {
					continue
				}
				if st, ok := e.Underlying().(*types.Struct); ok && st.NumFields() == 2 && isInt(st.Field(0).Type()) && isInt(st.Field(1).Type()) {
					tbl, et = gl, namedOfType(e)
				}
			}
		})
		if tbl != nil && et != nil {
			return g, tbl, et
		}
	}
	return nil, nil, nil
}

func checkLengthTable(c *core.Ctx, rel string) {
	p := c.P
	sp := p.Pkg(rel)
	if sp == nil {
		return
	}
	ulFn, tblG, elemT := headLengthRole(p, rel)
	if ulFn == nil {
		c.Undecided(rel+"#head-length-table", "-", "no function called by EncodedLength that maps an integer to a head size through a package-level table of (bound, size) rows was found")
		return
	}
	isRowType := func(t types.Type) bool { nt := namedOfType(t); return nt != nil && nt.Obj() == elemT.Obj() }
	// find the global of type []boundaryLength-like initialised in init with (uint64, int64) pairs
	type row struct{ bound, length string }
	var rows []row
	var pos token.Pos
	if ini := sp.Func("init"); ini != nil {
		vals := map[int64]map[int]string{}
		// rows are built as composite-literal locals and copied into the array: *(&arr[i]) = *rowLocal
		rowOf := map[ssa.Value]int64{}
		core.Instrs(ini, func(in ssa.Instruction) {
			st, ok := in.(*ssa.Store)
			if !ok {
				return
			}
			ia, ok := st.Addr.(*ssa.IndexAddr)
			if !ok {
				return
			}
			if !isRowType(ia.Type()) {
				return
			}
			i, _ := core.ConstInt(ia.Index)
			if u, ok := st.Val.(*ssa.UnOp); ok {
				rowOf[u.X] = i
				pos = st.Pos()
			}
		})
		core.Instrs(ini, func(in ssa.Instruction) {
			st, ok := in.(*ssa.Store)
			if !ok {
				return
			}
			fa, ok := st.Addr.(*ssa.FieldAddr)
			if !ok {
				return
			}
			i, ok := rowOf[fa.X]
			if !ok {
				// direct element field stores: &arr[i].f
				ia, isIA := fa.X.(*ssa.IndexAddr)
				if !isIA {
					return
				}
				if !isRowType(fa.X.Type()) {
					return
				}
				i, _ = core.ConstInt(ia.Index)
				pos = st.Pos()
			}
			if vals[i] == nil {
				vals[i] = map[int]string{}
			}
			if cv := core.ConstVal(st.Val); cv != nil {
				vals[i][fa.Field] = cv.ExactString()
			}
		})
		// rows with only zero-valued fields have no stores at all
		for _, i := range rowOf {
			if vals[i] == nil {
				vals[i] = map[int]string{}
			}
		}
		for i := int64(0); i < int64(len(vals)); i++ {
			bnd, ln := vals[i][0], vals[i][1]
			if bnd == "" {
				bnd = "0"
			}
			rows = append(rows, row{bnd, ln})
		}
	}
	want := []row{{"24", "1"}, {"256", "2"}, {"65536", "3"}, {"4294967296", "5"}, {"", "9"}}
	ok := len(rows) == len(want)
	if ok {
		for i := range rows {
			b := rows[i].bound
			if b == "0" {
				b = ""
			}
			if b != want[i].bound || rows[i].length != want[i].length {
				ok = false
			}
		}
	}
	c.Check(ok, rel+"."+tblG.Name()+"#table", p.Pos(pos), "table equals the CBOR head boundaries", fmt.Sprintf("head-size table is %v, the CBOR head sizes are %v", rows, want))
	if fn := ulFn; fn != nil {
		strict := false
		// the edge that leads on to "this row": value < bound (however the test is spelled: `if v < b {return}`,
		// `if v >= b {continue}` - the relation on the edge is what counts), with the value on the left
		isValue := func(v ssa.Value) bool {
			v = core.Strip(v)
			if cv, ok := v.(*ssa.Convert); ok {
				v = core.Strip(cv.X)
			}
			_, isParam := v.(*ssa.Parameter)
			return isParam
		}
		for _, e := range core.IfEdges(fn) {
			r, ok := core.EdgeRel(e)
			if !ok {
				continue
			}
			for _, rr := range []core.Rel{r, r.Flip()} {
				if rr.Op == token.LSS && isValue(rr.X) && !isValue(rr.Y) {
					// ... and a return is reachable over it without passing another test of the value
					strict = true
				}
			}
		}
		// no edge says value <= bound (that would be the off-by-one)
		for _, e := range core.IfEdges(fn) {
			if r, ok := core.EdgeRel(e); ok {
				for _, rr := range []core.Rel{r, r.Flip()} {
					if rr.Op == token.LEQ && isValue(rr.X) && !isValue(rr.Y) {
						strict = false
					}
				}
			}
		}
		c.Check(strict, rel+"."+fn.Name()+"#strict-bound", p.Pos(fn.Pos()), "first row with value < bound", "uintLength does not select rows by a strict '<' comparison with the bound (boundary values 24, 256, 65536, 2^32 get the wrong head size)")
	}
}

// sumTerms flattens an addition tree.
func sumTerms(v ssa.Value, out *[]ssa.Value) {
	if bo, ok := v.(*ssa.BinOp); ok && bo.Op == token.ADD {
		sumTerms(bo.X, out)
		sumTerms(bo.Y, out)
		return
	}
	if phi, ok := v.(*ssa.Phi); ok && len(phi.Edges) == 1 {
		sumTerms(phi.Edges[0], out)
		return
	}
	*out = append(*out, v)
}

// sameExpr: structural equality of two side-effect-free integer expressions.
func sameExpr(a, b ssa.Value) bool {
	if a == b {
		return true
	}
	numeric := func(v *ssa.Convert) bool {
		bt, ok1 := v.Type().Underlying().(*types.Basic)
		bx, ok2 := v.X.Type().Underlying().(*types.Basic)
		return ok1 && ok2 && bt.Info()&types.IsNumeric != 0 && bx.Info()&types.IsNumeric != 0
	}
	switch x := a.(type) {
	case *ssa.Convert:
		if !numeric(x) {
			// e.g. []rune(s): not value preserving, only identical conversions of identical operands are equal
			y, ok := b.(*ssa.Convert)
			return ok && types.Identical(x.Type(), y.Type()) && sameExpr(x.X, y.X)
		}
		if y, ok := b.(*ssa.Convert); ok && numeric(y) {
			return sameExpr(x.X, y.X)
		}
		return sameExpr(x.X, b)
	case *ssa.Call:
		y, ok := b.(*ssa.Call)
		if !ok {
			if cv, isConv := b.(*ssa.Convert); isConv && numeric(cv) {
				return sameExpr(a, cv.X)
			}
			return false
		}
		bx, ok1 := x.Call.Value.(*ssa.Builtin)
		by, ok2 := y.Call.Value.(*ssa.Builtin)
		if ok1 && ok2 && bx.Name() == by.Name() && len(x.Call.Args) == len(y.Call.Args) {
			for i := range x.Call.Args {
				if !sameExpr(x.Call.Args[i], y.Call.Args[i]) {
					return false
				}
			}
			return true
		}
	case *ssa.BinOp:
		if y, ok := b.(*ssa.BinOp); ok && x.Op == y.Op {
			return sameExpr(x.X, y.X) && sameExpr(x.Y, y.Y)
		}
	case *ssa.Const:
		if y, ok := b.(*ssa.Const); ok && x.Value != nil && y.Value != nil {
			return constant.Compare(x.Value, token.EQL, y.Value)
		}
	}
	if cv, ok := b.(*ssa.Convert); ok && numeric(cv) {
		return sameExpr(a, cv.X)
	}
	return false
}

func checkLengthTerms(c *core.Ctx, rel string) {
	p := c.P
	fn := p.Func(rel, "", "EncodedLength")
	ul, _, _ := headLengthRole(p, rel)
	if fn == nil || ul == nil {
		c.Undecided(rel+".EncodedLength", "-", "not found")
		return
	}
	kindT := p.NamedType("datamodel", "Kind")
	kindConst := map[string]string{}
	for n, v := range enumConsts(kindT) {
		kindConst[v.ExactString()] = strings.TrimPrefix(n, "Kind_")
	}
	armOf := func(blk *ssa.BasicBlock) string {
		for d := blk; d != nil; d = d.Idom() {
			id := d.Idom()
			if id == nil {
				break
			}
			ifi := core.BlockIf(id)
			if ifi == nil {
				continue
			}
			cmp, ok := core.IfCompare(ifi)
			if !ok || cmp.Op != token.EQL {
				continue
			}
			cl, isCall := cmp.X.(*ssa.Call)
			if !isCall || !cl.Call.IsInvoke() || cl.Call.Method.Name() != "Kind" {
				continue
			}
			if cv := core.ConstVal(cmp.Y); cv != nil && core.EdgeDominates(core.Edge{From: id, Succ: 0}, blk) {
				return kindConst[cv.ExactString()]
			}
		}
		return ""
	}
	wantConst := map[string]int64{"String": 0, "Bytes": 0, "Link": 2}
	seen := map[string]bool{}
	for _, ret := range core.Returns(fn) {
		arm := armOf(ret.Block())
		wc, ok := wantConst[arm]
		if !ok || core.ResultNilness(ret, 1) == core.NonNil {
			continue
		}
		var terms []ssa.Value
		sumTerms(ret.Results[0], &terms)
		var heads []*ssa.Call
		var others []ssa.Value
		konst := int64(0)
		for _, t := range terms {
			if k, isC := core.ConstInt(t); isC {
				konst += k
				continue
			}
			if cl, isCall := t.(*ssa.Call); isCall && cl.Call.StaticCallee() == ul {
				heads = append(heads, cl)
				continue
			}
			others = append(others, t)
		}
		if len(heads) == 0 {
			continue // not a length-computing return (e.g. error paths returning 0)
		}
		seen[arm] = true
		good := len(heads) == 1
		if good {
			// the payload L the head was sized for, itself flattened into terms
			l := heads[0].Call.Args[0]
			for {
				if cv, ok := l.(*ssa.Convert); ok {
					l = cv.X
					continue
				}
				break
			}
			var lterms []ssa.Value
			sumTerms(l, &lterms)
			lconst := int64(0)
			var lothers []ssa.Value
			for _, t := range lterms {
				if k, isC := core.ConstInt(t); isC {
					lconst += k
				} else {
					lothers = append(lothers, t)
				}
			}
			good = konst == lconst+wc && len(others) == len(lothers)
			used := make([]bool, len(lothers))
			for _, o := range others {
				m := false
				for i, lo := range lothers {
					if !used[i] && sameExpr(o, lo) {
						used[i], m = true, true
						break
					}
				}
				if !m {
					good = false
				}
			}
		}
		c.Check(good, fmt.Sprintf("%s.EncodedLength[%s]#terms", rel, arm), p.Pos(ret.Pos()), "head sized for exactly the payload added, constant as specified", fmt.Sprintf("the %s arm's returned sum is not uintLength(L) + L + %d for one and the same payload length L: the predicted length is off by the difference whenever L sits at a head-size boundary (23/24, 255/256, 65535/65536)", arm, wc))
	}
	for arm := range wantConst {
		if !seen[arm] {
			c.Undecided(fmt.Sprintf("%s.EncodedLength[%s]#terms", rel, arm), p.Pos(fn.Pos()), "no length-computing return found in this arm")
		}
	}
}

func runC04(c *core.Ctx) {
	p := c.P
	const rel = "codec/dagjson"
	modes := sortModeNames(p)
	modeConst := func(name string) string {
		for k, n := range modes {
			if n == name {
				return k
			}
		}
		return "?"
	}
	c.Rule("C04.registered", "the functions registered for 0x0129 in package init build their options with MapSortMode_Lexical, EncodeLinks, EncodeBytes (encoder) and ParseLinks, ParseBytes (decoder) as compile-time constants", 6)
	if enc := registeredWith(p, rel, "RegisterEncoder", 0x0129); enc != nil {
		c.OK(rel+"#registered-encoder", p.Pos(enc.Pos()), "registered: "+core.FuncKey(enc))
		checkRegisteredConsts(c, enc, "EncodeOptions", map[string]string{"MapSortMode": modeConst("Lexical"), "EncodeLinks": "true", "EncodeBytes": "true"})
	} else {
		c.Fail(rel+"#registered-encoder", "-", "no encoder registered for multicodec 0x0129")
	}
	if dec := registeredWith(p, rel, "RegisterDecoder", 0x0129); dec != nil {
		c.OK(rel+"#registered-decoder", p.Pos(dec.Pos()), "registered: "+core.FuncKey(dec))
		checkRegisteredConsts(c, dec, "DecodeOptions", map[string]string{"ParseLinks": "true", "ParseBytes": "true"})
	} else {
		c.Fail(rel+"#registered-decoder", "-", "no decoder registered for multicodec 0x0129")
	}
	if mf := p.Func(rel, "", "Marshal"); mf != nil {
		checkSorting(c, "C04", mf, []string{"Lexical", "RFC7049"})
	} else {
		c.Rule("C04.comparator", "", 2)
	}

	c.Rule("C04.reserved", "writer's and reader's tables agree: the constant strings the encoder stores into Token.Str for the reserved forms (the slash key and the bytes key) are exactly the constants the decoder's look-ahead functions compare token strings against; the base64 encoding object the encoder calls EncodeToString on is the one the decoder calls DecodeString on first", 2)
	wrote := map[string]bool{}
	if mf := p.Func(rel, "", "Marshal"); mf != nil {
		core.InstrsR(mf, func(in ssa.Instruction) {
			if st, ok := in.(*ssa.Store); ok {
				if fa, ok := st.Addr.(*ssa.FieldAddr); ok && core.FieldName(fa) == "Token.Str" {
					if s, isS := core.ConstString(st.Val); isS {
						wrote[s] = true
					}
				}
			}
		})
	}
	read := map[string]bool{}
	var decFirst, encEnc string
	// decoder side, by role: every function of the package statically reachable from the exported decode entry points;
	// a "recognised reserved string" is a constant that a token's Str field is compared with
	decFns := map[*ssa.Function]bool{}
	var work []*ssa.Function
	for _, n := range []string{"Decode", "Unmarshal"} {
		work = append(work, p.Func(rel, "", n))
	}
	work = append(work, p.Func(rel, "DecodeOptions", "Decode"))
	for len(work) > 0 {
		f := work[len(work)-1]
		work = work[:len(work)-1]
		if f == nil || decFns[f] || len(f.Blocks) == 0 {
			continue
		}
		if pk := core.FuncPkg(f); pk == nil || core.RelPkg(pk.Path()) != rel {
			continue
		}
		decFns[f] = true
		for _, ci := range core.Calls(f) {
			work = append(work, ci.Common().StaticCallee())
		}
		work = append(work, f.AnonFuncs...)
	}
	isTokStr := func(v ssa.Value) bool {
		u, ok := core.Strip(v).(*ssa.UnOp)
		if !ok || u.Op != token.MUL {
			return false
		}
		fa, ok := u.X.(*ssa.FieldAddr)
		return ok && core.FieldName(fa) == "Token.Str"
	}
	for _, fn := range p.ModFns {
		pk := core.FuncPkg(fn)
		if pk == nil || core.RelPkg(pk.Path()) != rel {
			continue
		}
		if decFns[fn] {
			for _, b := range fn.Blocks {
				if core.BlockIf(b) == nil {
					continue
				}
				// whatever comparison of a token string with a constant the branch decides on - directly, or through
				// a named / combined boolean
				for succ := 0; succ < 2; succ++ {
					for _, a := range core.ImpliedAtoms(core.Edge{From: b, Succ: succ}) {
						if a.Rel == nil || (a.Rel.Op != token.EQL && a.Rel.Op != token.NEQ) {
							continue
						}
						for _, pair := range [][2]ssa.Value{{a.Rel.X, a.Rel.Y}, {a.Rel.Y, a.Rel.X}} {
							if s, isS := core.ConstString(pair[0]); isS && isTokStr(pair[1]) {
								read[s] = true
							}
						}
					}
				}
			}
			first := decFirst == ""
			for _, ci := range core.Calls(fn) {
				if core.IsMethod(ci, "encoding/base64", "Encoding", "DecodeString") && first {
					first = false
					decFirst = globalName(core.Receiver(ci))
				}
			}
		}
		for _, ci := range core.Calls(fn) {
			if core.IsMethod(ci, "encoding/base64", "Encoding", "EncodeToString") {
				encEnc = globalName(core.Receiver(ci))
			}
		}
	}
	var ws, rs []string
	for s := range wrote {
		ws = append(ws, s)
	}
	for s := range read {
		rs = append(rs, s)
	}
	sort.Strings(ws)
	sort.Strings(rs)
	c.Check(len(ws) > 0 && strings.Join(ws, "|") == strings.Join(rs, "|"), rel+"#reserved-keys", "-", fmt.Sprintf("encoder writes %q, decoder recognises %q", ws, rs), fmt.Sprintf("the reserved key strings the encoder writes %q differ from those the decoder's look-ahead recognises %q: bytes/links do not round-trip", ws, rs))
	c.Check(encEnc != "" && encEnc == decFirst, rel+"#base64-encoding", "-", "encoder and decoder use "+encEnc, fmt.Sprintf("the encoder uses base64 encoding %q but the decoder tries %q first", encEnc, decFirst))

	var entries []*ssa.Function
	for _, n := range []string{"Encode", "Marshal"} {
		entries = append(entries, p.Func(rel, "", n))
	}
	entries = append(entries, p.Func(rel, "EncodeOptions", "Encode"))
	checkEncoderStateless(c, "C04", rel, entries)

	c.Rule("C04.kindswitch", "the kind dispatch of dagjson.Marshal lists all nine kinds (its default panics)", 1)
	if kindT := p.NamedType("datamodel", "Kind"); kindT != nil {
		for _, si := range enumSwitches(p, rel, func(n *types.Named) bool { return types.Identical(n, kindT) }) {
			if !si.HasDef || !(si.DefPanics || si.DefErrs) || len(si.Cases) < 5 {
				continue
			}
			missing := 0
			for n, v := range enumConsts(kindT) {
				if n != "Kind_Invalid" && !si.Cases[v.ExactString()] {
					missing++
				}
			}
			c.Check(missing == 0, rel+"."+si.Fn+"#kindswitch", p.Pos(si.Pos), "all nine kinds handled", fmt.Sprintf("%d kinds missing from the kind dispatch", missing))
		}
	}
}

// globalName: "pkg.Name" of the package-level variable a receiver is loaded from.
func globalName(v ssa.Value) string {
	for w := range core.BackSlice(v, core.SliceOpts{}) {
		if g, ok := w.(*ssa.Global); ok {
			return g.Pkg.Pkg.Name() + "." + g.Name()
		}
	}
	return ""
}
