package rules

import (
	"fmt"
	"go/constant"
	"go/token"
	"go/types"
	"sort"
	"strings"

	"golang.org/x/tools/go/ssa"

	"verif/checker/internal/core"
)

func init() {
	register(&Def{
		ID: "C03",
		Explanation: "Structural necessary conditions of DAG-CBOR decode strictness, decided on every path of the decoder functions in codec/dagcbor (found by role: functions interpreting a *tok.Token and driving a NodeAssembler):  (payload) every read of a token payload field lies, within its token epoch, beyond an edge on which Token.Type was found to be the type that field belongs to." +
			"strictness flags handed to the tokenizer are constant-true on every non-relaxed path and reach cbor.NewDecoder; every assembler call that commits token data is behind a test of Token.Tagged within that token's epoch (only AssignLink may be reached on the tagged edge); AssignLink is guarded by tag==link constant, AllowLinks, length>=1, zero prefix byte and cid.Cast of the remainder; " +
			"container Finish/entries are guarded by comparisons with the declared length; keys are string tokens and, in strict mode, pass a membership test on a set the key is then added to; a nil return of Decode is only possible behind err==io.EOF of a read after unmarshalling (or DontParseBeyondEnd / the assembler fast path); unsigned tokens reach AssignInt only below 2^63; the token switch is exhaustive. " +
			"The tokenizer itself (refmt) is trusted; value fidelity of accepted input is not decided.",
		NotCovered: []string{"refmt/cbor tokenizer strictness (minimal heads, NaN detection)", "value fidelity of accepted input", "relaxed-mode promises beyond indefinite-length rejection"},
		Trusted:    []string{"go/ssa, go/types", "github.com/polydawn/refmt/cbor honours its DecodeOptions", "cid.Cast validates CIDs"},
		Run:        runC03,
	})
}

// tokenTypeName maps a TokenType constant value to its name.
func tokenTypeNames(p *core.Program) (map[string]string, *types.Named) {
	sp := p.ExtPkg(tokPkg)
	if sp == nil {
		return nil, nil
	}
	t, ok := sp.Members["TokenType"].(*ssa.Type)
	if !ok {
		return nil, nil
	}
	nt := t.Type().(*types.Named)
	out := map[string]string{}
	for n, v := range enumConsts(nt) {
		out[v.ExactString()] = n
	}
	return out, nt
}

// armChain describes the token-type arms dominating instruction in.
func (tc *tokenConsumer) armChain(in ssa.Instruction, names map[string]string) string {
	var chain []string
	rg := core.RegionOf(tc.fn)
	blk := in.Block()
	for hop := 0; blk != nil && hop < 6; hop++ {
		for d := blk; d != nil; d = d.Idom() {
			id := d.Idom()
			if id == nil {
				break
			}
			ifi := core.BlockIf(id)
			if ifi == nil {
				continue
			}
			cmp, ok := core.IfCompare(ifi)
			if !ok || cmp.Op != token.EQL {
				continue
			}
			if !tc.fieldLoad(cmp.X, "Type") {
				continue
			}
			cv := core.ConstVal(cmp.Y)
			if cv == nil {
				continue
			}
			if core.EdgeDominates(core.Edge{From: id, Succ: 0}, blk) {
				n := names[cv.ExactString()]
				if n == "" {
					n = cv.ExactString()
				}
				chain = append([]string{n}, chain...)
			}
		}
		// an arm that was moved into a helper: continue with the arms around the helper's (single) call site
		g := blk.Parent()
		if g == tc.fn || !rg.Has(g) || len(rg.Sites(g)) != 1 {
			break
		}
		blk = rg.Sites(g)[0].Block()
	}
	if len(chain) == 0 {
		return "any"
	}
	return strings.Join(chain, "/")
}

func isTarget(x ssa.Instruction) func(ssa.Instruction) bool {
	return func(in ssa.Instruction) bool { return in == x }
}

// successReturn: the return instruction ret, reached on a path on which its error result (index errIdx) may be nil.
// The nil-ness is judged with what the path has established (core/pathfacts.go): `return err` on the branch taken
// because err != nil is not a success, and a single final `return verdict` is a success only on the paths that
// carried nil into verdict.
func successReturn(ret *ssa.Return, errIdx int) func(ssa.Instruction) bool {
	return func(in ssa.Instruction) bool {
		if in != ssa.Instruction(ret) {
			return false
		}
		return errIdx < 0 || errIdx >= len(ret.Results) || core.ResultNilness(ret, errIdx) != core.NonNil
	}
}

func union(ms ...map[core.Edge]bool) map[core.Edge]bool {
	out := map[core.Edge]bool{}
	for _, m := range ms {
		for e := range m {
			out[e] = true
		}
	}
	return out
}

// guardedBy: every path from `from` to target (not crossing barrier) passes a
// block ending in an If satisfying isGuard one of whose edges cannot reach
// target (before barrier). Returns (ok, witness path when not ok).
func guardedBy(fn *ssa.Function, from ssa.Instruction, target ssa.Instruction, barrier func(ssa.Instruction) bool, isGuard func(*ssa.If) bool) (bool, []*ssa.BasicBlock) {
	guards := map[*ssa.If]bool{}
	for _, b := range core.RegionOf(fn).Blocks() {
		ifi := core.BlockIf(b)
		if ifi == nil || !isGuard(ifi) {
			continue
		}
		// some edge must be unable to reach target
		for s := 0; s < 2; s++ {
			succ := b.Succs[s]
			if len(succ.Instrs) == 0 {
				continue
			}
			if !reachFromBlock(fn, succ, isTarget(target), barrier) {
				guards[ifi] = true
			}
		}
	}
	path, reached := core.Reach(fn, from, isTarget(target), nil, func(in ssa.Instruction) bool {
		if barrier != nil && barrier(in) {
			return true
		}
		if ifi, ok := in.(*ssa.If); ok && guards[ifi] {
			return true
		}
		return false
	})
	return !reached, path
}

// reachFromBlock: target reachable starting at the first instruction of blk.
func reachFromBlock(fn *ssa.Function, blk *ssa.BasicBlock, target func(ssa.Instruction) bool, barrier func(ssa.Instruction) bool) bool {
	_, r := core.ReachFromBlock(fn, blk, target, nil, barrier)
	return r
}

func runC03(c *core.Ctx) {
	p := c.P
	const rel = "codec/dagcbor"
	names, tokType := tokenTypeNames(p)
	consumers := findTokenConsumers(p, rel)
	sort.Slice(consumers, func(i, j int) bool { return core.FuncKey(consumers[i].fn) < core.FuncKey(consumers[j].fn) })

	// ---------- C03.flags ----------
	c.Rule("C03.flags", "the refmt cbor.DecodeOptions value that DecodeOptions.Decode hands to cbor.NewDecoder (built in a translation helper or inline) has received constant true in RejectIndefinite and CoerceUndefToNull on every path to that call, and in RejectNonMinimalInteger, RejectNaN, RejectInfinity on every path where RelaxedDecode is false; no other value is ever stored to those fields of it", 6)
	if dec := p.Func(rel, "DecodeOptions", "Decode"); dec == nil {
		c.Undecided(rel+".DecodeOptions.Decode", "-", "not found")
	} else {
		key := core.FuncKey(dec)
		rg := core.RegionOf(dec)
		var newDec ssa.CallInstruction
		for _, ci := range core.CallsR(dec) {
			if core.IsPkgFunc(ci, "github.com/polydawn/refmt/cbor", "NewDecoder") {
				newDec = ci
			}
		}
		isRefmtOpts := func(t types.Type) bool {
			n := namedOfType(t)
			return n != nil && n.Obj().Name() == "DecodeOptions" && n.Obj().Pkg() != nil && n.Obj().Pkg().Path() == "github.com/polydawn/refmt/cbor"
		}
		if newDec == nil {
			c.Undecided(key+"#newdecoder", p.Pos(dec.Pos()), "no cbor.NewDecoder call in DecodeOptions.Decode (or its helpers)")
		} else {
			// the locals the options value is built in: every cbor.DecodeOptions local the argument derives from
			// (the one NewDecoder is given, the one a translation helper returns by value, copies between them)
			opts := map[ssa.Value]bool{}
			for w := range core.BackSlice(newDec.Common().Args[0], core.SliceOpts{Stores: true, Region: rg}) {
				if al, ok := w.(*ssa.Alloc); ok && isRefmtOpts(al.Type()) {
					opts[al] = true
				}
			}
			// whole-value copies between such locals (opts := cbor.DecodeOptions{..} copies a literal into the variable)
			for changed := true; changed; {
				changed = false
				core.InstrsR(dec, func(in ssa.Instruction) {
					st, ok := in.(*ssa.Store)
					if !ok {
						return
					}
					dst, ok1 := st.Addr.(*ssa.Alloc)
					u, ok2 := st.Val.(*ssa.UnOp)
					if !ok1 || !ok2 || !isRefmtOpts(dst.Type()) {
						return
					}
					src, ok3 := u.X.(*ssa.Alloc)
					if !ok3 {
						return
					}
					if opts[src] != opts[dst] {
						opts[src], opts[dst] = true, true
						changed = true
					}
				})
			}
			if len(opts) == 0 {
				c.Undecided(key+"#opts", p.Pos(newDec.Pos()), "the options value given to cbor.NewDecoder is not built in a local")
			} else {
				c.OK(key+"#newdecoder-options", p.Pos(newDec.Pos()), fmt.Sprintf("cbor.NewDecoder receives an options value built in %d local(s) of the decoder", len(opts)))
				relaxedTrue := core.BoolEdgesWhere(dec, func(v ssa.Value) bool { return core.IsFieldRef(v, "DecodeOptions", "RelaxedDecode") }, true)
				// strictValue: the value is `!cfg.RelaxedDecode` (possibly kept in a variable): true exactly on the paths
				// that matter for the three flags that relaxed mode lifts
				strictValue := func(v ssa.Value) bool {
					w, neg := core.CondPolarity(v)
					if !neg {
						return false
					}
					return core.IsFieldRef(w, "DecodeOptions", "RelaxedDecode") || core.IsFieldRef(rg.Canon(w), "DecodeOptions", "RelaxedDecode")
				}
				relaxable := map[string]bool{"RejectNonMinimalInteger": true, "RejectNaN": true, "RejectInfinity": true}
				storeTrue := func(field string) func(ssa.Instruction) bool {
					return func(in ssa.Instruction) bool {
						st, ok := in.(*ssa.Store)
						if !ok {
							return false
						}
						fa, ok := st.Addr.(*ssa.FieldAddr)
						if !ok || !opts[fa.X] || core.FieldName(fa) != "DecodeOptions."+field {
							return false
						}
						if relaxable[field] && strictValue(st.Val) {
							return true
						}
						b, isB := core.ConstBool(st.Val)
						return isB && b
					}
				}
				for _, f := range []string{"RejectIndefinite", "CoerceUndefToNull"} {
					path, reached := core.Reach(dec, nil, isTarget(newDec), nil, storeTrue(f))
					c.Check(!reached, key+"#always-"+f, p.Pos(newDec.Pos()), f+"=true on every path", "the tokenizer can be created without "+f+" having been set to true", p.Witness(path)...)
				}
				for _, f := range []string{"RejectNonMinimalInteger", "RejectNaN", "RejectInfinity"} {
					path, reached := core.Reach(dec, nil, isTarget(newDec), relaxedTrue, storeTrue(f))
					c.Check(!reached, key+"#strict-"+f, p.Pos(newDec.Pos()), f+"=true on every non-relaxed path", "in strict mode (RelaxedDecode false) the tokenizer can be created without "+f+" having been set to true", p.Witness(path)...)
				}
				// no non-true store to any Reject*/Coerce* field
				core.InstrsR(dec, func(in ssa.Instruction) {
					st, ok := in.(*ssa.Store)
					if !ok {
						return
					}
					fa, ok := st.Addr.(*ssa.FieldAddr)
					if !ok || !opts[fa.X] {
						return
					}
					fname := core.FieldName(fa)
					if strings.HasPrefix(fname, "DecodeOptions.Reject") || fname == "DecodeOptions.CoerceUndefToNull" {
						if relaxable[strings.TrimPrefix(fname, "DecodeOptions.")] && strictValue(st.Val) {
							return
						}
						if b, isB := core.ConstBool(st.Val); !isB || !b {
							c.Fail(key+"#store-"+fname, p.Pos(st.Pos()), "a strictness flag is assigned something other than constant true")
						}
					}
				})
			}
		}
	}

	// ---------- C03.tag ----------
	c.Rule("C03.tag", "within each token epoch (function entry for a primed token, or a TokenSource.Step call) every assembler call that commits data (Assign*, Begin*, AssembleEntry) is unreachable once the UNTAGGED edges of tests on Token.Tagged are removed, except AssignLink: a tagged token can only become a link", 8)
	for _, tc := range consumers {
		key := core.FuncKey(tc.fn)
		untagged := core.BoolEdgesWhere(tc.fn, func(v ssa.Value) bool { return tc.fieldLoad(v, "Tagged") }, false)
		for _, ci := range tc.calls() {
			name, ok := assemblerCall(ci)
			if !ok || !isCommit(name) {
				continue
			}
			arm := tc.armChain(ci, names)
			for _, e := range tc.epochStarts() {
				if _, r := core.Reach(tc.fn, e, isTarget(ci), nil, tc.isStep); !r {
					continue
				}
				ck := fmt.Sprintf("%s#%s:%s[%s]", key, epochName(e), name, arm)
				path, reached := tc.reachTyped(e, isTarget(ci), untagged, tc.isStep)
				if reached && name != "AssignLink" {
					c.Fail(ck, p.Pos(ci.Pos()), name+" is reachable for a token whose Tagged flag was never tested (a CBOR tag in front of this item is silently ignored)", p.Witness(path)...)
				} else {
					c.OK(ck, p.Pos(ci.Pos()), "only reachable on the untagged edge of a Tagged test (or is AssignLink)")
				}
			}
		}
	}

	// ---------- C03.payload ----------
	c.Rule("C03.payload", "a token's payload is read only for the type it belongs to: refmt fills exactly the field that goes with Token.Type and leaves the others as the previous token left them (the decoder reuses one token), so every read of Token.Int / Uint / Str / Bytes / Float64 / Bool / Length in a decoder function is reachable, within a token epoch, only over an edge on which Token.Type was found equal to the matching constant(s)", 12)
	if tokType != nil {
		payload := map[string][]string{"Int": {"TInt"}, "Uint": {"TUint"}, "Str": {"TString"}, "Bytes": {"TBytes"}, "Float64": {"TFloat64"}, "Bool": {"TBool"}, "Length": {"TMapOpen", "TArrOpen"}}
		consts := enumConsts(tokType)
		for _, tc := range consumers {
			key := core.FuncKey(tc.fn)
			nload := map[string]int{}
			core.InstrsR(tc.fn, func(in ssa.Instruction) {
				if g := in.Parent(); g != tc.fn && tc.others[g] {
					return
				}
				u, ok := in.(*ssa.UnOp)
				if !ok || u.Op != token.MUL {
					return
				}
				for field, tnames := range payload {
					if !tc.fieldLoad(u, field) {
						continue
					}
					want := map[string]bool{}
					for _, tn := range tnames {
						if cv, ok := consts[tn]; ok {
							want[cv.ExactString()] = true
						}
					}
					established := core.EdgesWhere(tc.fn, func(r core.Rel) bool {
						if r.Op != token.EQL || !tc.fieldLoad(r.X, "Type") {
							return false
						}
						cv := core.ConstVal(r.Y)
						return cv != nil && want[cv.ExactString()]
					})
					nload[field]++
					ck := fmt.Sprintf("%s#read-%s/%d", key, field, nload[field])
					bad := false
					var wp []string
					for _, e := range tc.epochStarts() {
						if path, reached := tc.reachTyped(e, func(x ssa.Instruction) bool { return x == in }, established, tc.isStep); reached {
							bad, wp = true, p.Witness(path)
						}
					}
					c.Check(!bad, ck, p.Pos(u.Pos()), "read only where the token's type says the field is filled", "Token."+field+" is read on a path on which Token.Type was not found to be "+strings.Join(tnames, " / ")+": for a token of another type the field still holds what an earlier token left there (a huge unsigned value followed by a negative integer in one list decodes as the unsigned value twice)", wp...)
				}
			})
		}
	}

	// ---------- C03.link ----------
	c.Rule("C03.link", "every AssignLink in the decoder is dominated by: Token.Tag == the link-tag constant (the same constant the encoder stores into Token.Tag), DecodeOptions.AllowLinks true, len(Token.Bytes) >= 1, Token.Bytes[0] == 0; its argument wraps result 0 of cid.Cast(Token.Bytes[1:]) and the call is behind the nil edge of Cast's error", 6)
	encTags := map[string]bool{}
	for _, fn := range p.ModFns {
		pk := core.FuncPkg(fn)
		if pk == nil || core.RelPkg(pk.Path()) != rel {
			continue
		}
		core.Instrs(fn, func(in ssa.Instruction) {
			if st, ok := in.(*ssa.Store); ok {
				if fa, ok := st.Addr.(*ssa.FieldAddr); ok && core.FieldName(fa) == "Token.Tag" {
					if cv := core.ConstVal(st.Val); cv != nil {
						encTags[cv.ExactString()] = true
					}
				}
			}
		})
	}
	for _, tc := range consumers {
		key := core.FuncKey(tc.fn)
		for _, ci := range tc.calls() {
			name, ok := assemblerCall(ci)
			if !ok || name != "AssignLink" {
				continue
			}
			from := ssa.Instruction(nil)
			check := func(what string, edges map[core.Edge]bool, failMsg string) {
				if len(edges) == 0 {
					c.Fail(key+"#link-"+what, p.Pos(ci.Pos()), failMsg+" (no such test exists)")
					return
				}
				path, reached := core.Reach(tc.fn, from, isTarget(ci), edges, nil)
				c.Check(!reached, key+"#link-"+what, p.Pos(ci.Pos()), "AssignLink dominated by "+what, failMsg, p.Witness(path)...)
			}
			tagConst := ""
			tagEdges := core.EdgesWhere(tc.fn, func(r core.Rel) bool {
				if r.Op != token.EQL || !tc.fieldLoad(r.X, "Tag") {
					return false
				}
				cv := core.ConstVal(r.Y)
				if cv == nil {
					return false
				}
				if encTags[cv.ExactString()] {
					tagConst = cv.ExactString()
					return true
				}
				return false
			})
			check("tag-eq", tagEdges, fmt.Sprintf("AssignLink reachable without Token.Tag == link tag (encoder writes tag %v)", core.SortedKeys(encTags)))
			_ = tagConst
			check("allowlinks", core.BoolEdgesWhere(tc.fn, func(v ssa.Value) bool { return core.IsFieldRef(v, "DecodeOptions", "AllowLinks") }, true), "AssignLink reachable with AllowLinks false")
			isLenBytes := func(v ssa.Value) bool {
				cv, ok := v.(*ssa.Call)
				if !ok {
					return false
				}
				b, ok := cv.Call.Value.(*ssa.Builtin)
				return ok && b.Name() == "len" && tc.fieldLoad(cv.Call.Args[0], "Bytes")
			}
			check("len>=1", core.EdgesWhere(tc.fn, func(r core.Rel) bool {
				if !isLenBytes(r.X) {
					return false
				}
				lb, ok := r.LowerBoundConst()
				return ok && constant.Compare(lb, token.GEQ, constant.MakeInt64(1))
			}), "AssignLink reachable without len(Token.Bytes) >= 1")
			isByte0 := func(v ssa.Value) bool {
				u, ok := v.(*ssa.UnOp)
				if !ok || u.Op != token.MUL {
					return false
				}
				ia, ok := u.X.(*ssa.IndexAddr)
				if !ok || !tc.fieldLoad(ia.X, "Bytes") {
					return false
				}
				i, ok := core.ConstInt(ia.Index)
				return ok && i == 0
			}
			check("prefix-zero", core.EdgesWhere(tc.fn, func(r core.Rel) bool {
				if r.Op != token.EQL || !isByte0(r.X) {
					return false
				}
				i, ok := core.ConstInt(r.Y)
				return ok && i == 0
			}), "AssignLink reachable without Token.Bytes[0] == 0 (multibase identity prefix)")
			// argument provenance
			arg := ci.Common().Args[0]
			sl := core.BackSlice(arg, core.SliceOpts{Stores: true})
			var cast *ssa.Call
			for w := range sl {
				if e, ok := w.(*ssa.Extract); ok && e.Index == 0 {
					if cv, ok := e.Tuple.(*ssa.Call); ok && core.IsPkgFunc(cv, "github.com/ipfs/go-cid", "Cast") {
						cast = cv
					}
				}
			}
			if cast == nil {
				c.Fail(key+"#link-cast", p.Pos(ci.Pos()), "AssignLink's argument does not derive from cid.Cast")
			} else {
				s, ok := cast.Call.Args[0].(*ssa.Slice)
				good := ok && tc.fieldLoad(s.X, "Bytes") && s.High == nil
				if good {
					lo, isC := core.ConstInt(s.Low)
					good = isC && lo == 1
				}
				c.Check(good, key+"#link-cast-arg", p.Pos(cast.Pos()), "cid.Cast receives Token.Bytes[1:]", "cid.Cast does not receive exactly Token.Bytes[1:]")
				nilEdges := core.EdgesWhere(tc.fn, func(r core.Rel) bool { return r.Op == token.EQL && extractOf(r.X, cast, 1) && core.IsNilConst(r.Y) })
				check("cast-ok", nilEdges, "AssignLink reachable although cid.Cast failed")
			}
		}
	}

	// ---------- C03.length ----------
	c.Rule("C03.length", "within a container's loop, every path from a Step to Finish, AssembleEntry or AssembleValue passes a comparison involving the token's declared Length one of whose outcomes cannot reach that call (declared length is enforced both ways)", 4)
	for _, tc := range consumers {
		key := core.FuncKey(tc.fn)
		isLenGuard := func(ifi *ssa.If) bool {
			// one side derives from Length, the other side is not a constant (a counter) - the comparison may be the
			// branch condition itself or what a named condition (closedEarly := bounded && n != expectLen) implies
			isGuardRel := func(x, y ssa.Value) bool {
				dx, dy := tc.derivesFromField(x, "Length"), tc.derivesFromField(y, "Length")
				return (dx && core.ConstVal(y) == nil) || (dy && core.ConstVal(x) == nil)
			}
			if cmp, ok := core.IfCompare(ifi); ok && isGuardRel(cmp.X, cmp.Y) {
				return true
			}
			for succ := 0; succ < 2; succ++ {
				for _, a := range core.ImpliedAtoms(core.Edge{From: ifi.Block(), Succ: succ}) {
					if a.Rel != nil && isGuardRel(a.Rel.X, a.Rel.Y) {
						return true
					}
				}
			}
			return false
		}
		for _, ci := range tc.calls() {
			name, ok := assemblerCall(ci)
			if !ok || (name != "Finish" && name != "AssembleEntry" && name != "AssembleValue") {
				continue
			}
			arm := tc.armChain(ci, names)
			for _, st := range tc.steps {
				if _, r := core.Reach(tc.fn, st, isTarget(ci), nil, tc.isStep); !r {
					continue
				}
				// the "length unknown" sentinel (declared length compared equal to a constant) is the indefinite-length escape, which the tokenizer rejects (C03.flags)
				sentinel := core.EdgesWhere(tc.fn, func(r core.Rel) bool {
					return r.Op == token.EQL && tc.derivesFromField(r.X, "Length") && core.ConstVal(r.Y) != nil
				})
				okG, path := guardedByBlocked(tc.fn, st, ci, tc.isStep, isLenGuard, sentinel)
				c.Check(okG, fmt.Sprintf("%s#length:%s[%s]", key, name, arm), p.Pos(ci.Pos()), name+" guarded by a comparison with the declared length", name+" is reachable from the token read without passing a deciding comparison with the container's declared length", p.Witness(path)...)
			}
		}
	}

	// ---------- C03.keys ----------
	c.Rule("C03.keys", "AssembleEntry receives Token.Str of a token tested to be TString in the same epoch; on every path where RelaxedDecode is false it passes a comma-ok lookup of that key in a set whose hit cannot reach AssembleEntry, and an insertion of the same key into that set", 3)
	for _, tc := range consumers {
		key := core.FuncKey(tc.fn)
		for _, ci := range tc.calls() {
			name, ok := assemblerCall(ci)
			if !ok || name != "AssembleEntry" {
				continue
			}
			argOK := tc.fieldLoad(core.Strip(ci.Common().Args[0]), "Str")
			c.Check(argOK, key+"#key-arg", p.Pos(ci.Pos()), "AssembleEntry receives Token.Str", "AssembleEntry's key is not the token's string")
			tstr := ""
			for v, n := range names {
				if n == "TString" {
					tstr = v
				}
			}
			strEdges := core.EdgesWhere(tc.fn, func(r core.Rel) bool {
				cv := core.ConstVal(r.Y)
				return r.Op == token.EQL && tc.fieldLoad(r.X, "Type") && cv != nil && cv.ExactString() == tstr
			})
			relaxed := core.BoolEdgesWhere(tc.fn, func(v ssa.Value) bool { return core.IsFieldRef(v, "DecodeOptions", "RelaxedDecode") }, true)
			for _, st := range tc.steps {
				if _, r := core.Reach(tc.fn, st, isTarget(ci), nil, tc.isStep); !r {
					continue
				}
				path, reached := core.Reach(tc.fn, st, isTarget(ci), strEdges, tc.isStep)
				c.Check(!reached, key+"#key-is-string", p.Pos(ci.Pos()), "key token tested to be TString", "AssembleEntry reachable for a key token not tested to be a string", p.Witness(path)...)
				// duplicate detection in strict mode
				var sets []ssa.Value
				isInsert := func(in ssa.Instruction) bool {
					mu, ok := in.(*ssa.MapUpdate)
					if ok && tc.fieldLoad(core.Strip(mu.Key), "Str") {
						sets = append(sets, mu.Map)
						return true
					}
					return false
				}
				path, reached = core.Reach(tc.fn, st, isTarget(ci), relaxed, func(in ssa.Instruction) bool { return tc.isStep(in) || isInsert(in) })
				c.Check(!reached, key+"#key-recorded", p.Pos(ci.Pos()), "in strict mode the key is inserted into the seen-set before AssembleEntry", "in strict mode AssembleEntry is reachable without the key having been recorded in the seen-set", p.Witness(path)...)
				isDupGuard := func(ifi *ssa.If) bool {
					cnd, _ := core.CondPolarity(ifi.Cond)
					e, ok := cnd.(*ssa.Extract)
					if !ok || e.Index != 1 {
						return false
					}
					lk, ok := e.Tuple.(*ssa.Lookup)
					if !ok || !lk.CommaOk || !tc.fieldLoad(core.Strip(lk.Index), "Str") {
						return false
					}
					// same set as the insertion (share a root)
					rgT := core.RegionOf(tc.fn)
					ls := core.BackSlice(lk.X, core.SliceOpts{Region: rgT})
					for _, m := range sets {
						if core.Strip(m) == core.Strip(lk.X) {
							return true
						}
						for w := range core.BackSlice(m, core.SliceOpts{Region: rgT}) {
							if _, isPhi := w.(*ssa.Phi); isPhi && ls[w] {
								return true
							}
							if _, isMk := w.(*ssa.MakeMap); isMk && ls[w] {
								return true
							}
						}
					}
					return false
				}
				// strict paths only: treat relaxed edges as not part of the graph by making them barriers
				okG, gpath := guardedByBlocked(tc.fn, st, ci, tc.isStep, isDupGuard, relaxed)
				c.Check(okG, key+"#key-dup-test", p.Pos(ci.Pos()), "in strict mode a hit in the seen-set cannot reach AssembleEntry", "in strict mode AssembleEntry is reachable without a deciding membership test of the key in the seen-set (duplicate keys accepted)", p.Witness(gpath)...)
			}
		}
	}

	// ---------- C03.trailing ----------
	c.Rule("C03.trailing", "every possibly-nil return of DecodeOptions.Decode is behind the nil edge of the unmarshal call's error and behind err == io.EOF of a read of the input reader made after unmarshalling (exempt: DontParseBeyondEnd true edge; the assembler's own DecodeDagCbor fast path)", 2)
	checkTrailing(c, rel, "DecodeOptions", "Decode")

	// ---------- C03.uint ----------
	c.Rule("C03.uint", "AssignInt of a converted unsigned token value is dominated by an edge implying Token.Uint <= MaxInt64", 1)
	for _, tc := range consumers {
		key := core.FuncKey(tc.fn)
		for _, ci := range tc.calls() {
			name, ok := assemblerCall(ci)
			if !ok || name != "AssignInt" || !tc.derivesFromField(ci.Common().Args[0], "Uint") {
				continue
			}
			maxI64 := constant.MakeInt64(1<<63 - 1)
			edges := core.EdgesWhere(tc.fn, func(r core.Rel) bool {
				if !tc.fieldLoad(r.X, "Uint") {
					return false
				}
				ub, ok := r.UpperBoundConst()
				return ok && constant.Compare(ub, token.LEQ, maxI64)
			})
			path, reached := core.Reach(tc.fn, nil, isTarget(ci), edges, nil)
			c.Check(len(edges) > 0 && !reached, key+"#uint-range", p.Pos(ci.Pos()), "int64(Token.Uint) only when Token.Uint <= MaxInt64", "AssignInt(int64(Token.Uint)) reachable without a bound check: values above 2^63-1 would wrap negative", p.Witness(path)...)
		}
	}

	// ---------- C03.tokens ----------
	c.Rule("C03.tokens", "every switch over tok.TokenType whose default panics lists every TokenType constant (the panic is unreachable for well-typed tokens)", 1)
	if tokType != nil {
		all := enumConsts(tokType)
		for _, si := range enumSwitches(p, rel, func(n *types.Named) bool { return types.Identical(n, tokType) }) {
			if !si.DefPanics {
				continue
			}
			var missing []string
			for n, v := range all {
				if !si.Cases[v.ExactString()] {
					missing = append(missing, n)
				}
			}
			sort.Strings(missing)
			c.Check(len(missing) == 0, rel+"."+si.Fn+"#tokenswitch", p.Pos(si.Pos), "all token types handled; default panic unreachable", "token switch with panicking default lacks cases: "+strings.Join(missing, ","))
		}
	}
}

// guardedByBlocked is guardedBy on the sub-graph without the given edges.
func guardedByBlocked(fn *ssa.Function, from ssa.Instruction, target ssa.Instruction, barrier func(ssa.Instruction) bool, isGuard func(*ssa.If) bool, blocked map[core.Edge]bool) (bool, []*ssa.BasicBlock) {
	guards := map[*ssa.If]bool{}
	for _, b := range core.RegionOf(fn).Blocks() {
		ifi := core.BlockIf(b)
		if ifi == nil || !isGuard(ifi) {
			continue
		}
		for s := 0; s < 2; s++ {
			if !reachFromBlock(fn, b.Succs[s], isTarget(target), barrier) {
				guards[ifi] = true
			}
		}
	}
	path, reached := core.Reach(fn, from, isTarget(target), blocked, func(in ssa.Instruction) bool {
		if barrier != nil && barrier(in) {
			return true
		}
		if ifi, ok := in.(*ssa.If); ok && guards[ifi] {
			return true
		}
		return false
	})
	return !reached, path
}

// checkTrailing decides the trailing-content rule for a Decode method.
func checkTrailing(c *core.Ctx, rel, recv, name string) {
	p := c.P
	fn := p.Func(rel, recv, name)
	if fn == nil {
		c.Undecided(rel+"."+recv+"."+name, "-", "decode entry point not found")
		return
	}
	key := core.FuncKey(fn)
	var reader *ssa.Parameter
	for _, prm := range fn.Params {
		if n, ok := types.Unalias(prm.Type()).(*types.Named); ok && n.Obj().Name() == "Reader" && n.Obj().Pkg().Path() == "io" {
			reader = prm
		}
	}
	// unmarshal call: static callee in the same package with a TokenSource parameter
	var um *ssa.Call
	for _, ci := range core.Calls(fn) {
		cal := ci.Common().StaticCallee()
		if cal == nil || core.FuncPkg(cal) == nil || core.RelPkg(core.FuncPkg(cal).Path()) != rel {
			continue
		}
		for _, prm := range cal.Params {
			if n, ok := types.Unalias(prm.Type()).(*types.Named); ok && n.Obj().Name() == "TokenSource" {
				um = core.CallValue(ci)
			}
		}
	}
	if um == nil || reader == nil {
		c.Undecided(key+"#anchors", p.Pos(fn.Pos()), "unmarshal call or reader parameter not identified")
		return
	}
	// the tokenizer must read from the very reader that is probed afterwards: a
	// buffering wrapper in between reads ahead and hides trailing content from the probe
	nd := 0
	for _, ci := range core.Calls(fn) {
		o := core.CalleeObj(ci)
		if o == nil || o.Name() != "NewDecoder" || o.Pkg() == nil || !strings.HasPrefix(o.Pkg().Path(), "github.com/polydawn/refmt/") {
			continue
		}
		nd++
		args := ci.Common().Args
		last := args[len(args)-1]
		c.Check(core.Strip(last) == ssa.Value(reader), key+"#tokenizer-reads-probed-reader", p.Pos(ci.Pos()), "the tokenizer reads directly from the reader that is probed for trailing content", "the tokenizer reads from a different (wrapped/buffered) reader than the one probed for trailing content: read-ahead hides trailing bytes from the probe")
	}
	if nd == 0 {
		c.Undecided(key+"#tokenizer-reads-probed-reader", p.Pos(fn.Pos()), "no refmt NewDecoder call found")
	}
	fast := map[core.Edge]bool{}
	for _, b := range fn.Blocks {
		if ifi := core.BlockIf(b); ifi != nil {
			if s, ok := core.BoolTrueSucc(ifi, func(v ssa.Value) bool {
				e, ok := v.(*ssa.Extract)
				if !ok || e.Index != 1 {
					return false
				}
				ta, ok := e.Tuple.(*ssa.TypeAssert)
				return ok && ta.CommaOk && len(fn.Params) > 1 && core.Strip(ta.X) == ssa.Value(fn.Params[1])
			}); ok {
				fast[core.Edge{From: b, Succ: s}] = true
			}
		}
	}
	dontParse := core.BoolEdgesWhere(fn, func(v ssa.Value) bool { return core.IsFieldRef(v, "DecodeOptions", "DontParseBeyondEnd") }, true)
	umNil := core.EdgesWhere(fn, func(r core.Rel) bool {
		return r.Op == token.EQL && core.Strip(r.X) == ssa.Value(um) && core.IsNilConst(r.Y)
	})
	var isReadErr func(v ssa.Value) bool
	seenPhi := map[*ssa.Phi]bool{}
	isReadErr = func(v ssa.Value) bool {
		// a variable that holds the error of the last read (readErr := nil; for readErr == nil { _, readErr = r.Read(..) })
		if phi, ok := core.Strip(v).(*ssa.Phi); ok {
			if seenPhi[phi] {
				return true
			}
			seenPhi[phi] = true
			defer delete(seenPhi, phi)
			some := false
			for _, ev := range phi.Edges {
				if core.IsNilConst(ev) {
					continue
				}
				if !isReadErr(ev) {
					return false
				}
				some = true
			}
			return some
		}
		e, ok := core.Strip(v).(*ssa.Extract)
		if !ok || e.Index != 1 {
			return false
		}
		cv, ok := e.Tuple.(*ssa.Call)
		if !ok {
			return false
		}
		if core.IsPkgFunc(cv, "io", "ReadFull") || core.IsPkgFunc(cv, "io", "ReadAtLeast") {
			return core.Strip(cv.Call.Args[0]) == ssa.Value(reader)
		}
		return core.IsMethodNamed(cv, "Read") && core.Strip(core.Receiver(cv)) == ssa.Value(reader)
	}
	isEOF := func(v ssa.Value) bool {
		u, ok := v.(*ssa.UnOp)
		if !ok || u.Op != token.MUL {
			return false
		}
		g, ok := u.X.(*ssa.Global)
		return ok && g.Pkg.Pkg.Path() == "io" && g.Name() == "EOF"
	}
	eofEdges := core.EdgesWhere(fn, func(r core.Rel) bool { return r.Op == token.EQL && isReadErr(r.X) && isEOF(r.Y) })
	errIdx := core.ErrResultIndex(fn)
	n := 0
	for _, ret := range core.Returns(fn) {
		if core.ResultNilness(ret, errIdx) == core.NonNil {
			continue
		}
		// fast-path return: exempt
		if _, r := core.Reach(fn, nil, isTarget(ret), fast, nil); !r {
			c.Info(key+"#fastpath", p.Pos(ret.Pos()), "return on the assembler's own decode fast path: exempt")
			continue
		}
		n++
		rk := fmt.Sprintf("%s#return[%s]", key, describeReturn(ret, errIdx))
		path, reached := core.Reach(fn, nil, successReturn(ret, errIdx), union(fast, umNil), nil)
		c.Check(!reached, rk+"-after-unmarshal-ok", p.Pos(ret.Pos()), "behind the nil edge of the unmarshal error", "possibly-nil return reachable although unmarshalling failed", p.Witness(path)...)
		path, reached = core.Reach(fn, nil, successReturn(ret, errIdx), union(fast, dontParse, eofEdges), nil)
		c.Check(!reached, rk+"-eof", p.Pos(ret.Pos()), "behind err == io.EOF of a read after unmarshalling (or DontParseBeyondEnd)", "possibly-nil return reachable without having observed io.EOF on the input after the item: trailing bytes would be accepted", p.Witness(path)...)
	}
	if n == 0 {
		c.Undecided(key+"#returns", p.Pos(fn.Pos()), "no possibly-nil return found")
	}
}
