package rules

import (
	"fmt"
	"go/token"
	"go/types"
	"sort"
	"strings"

	"golang.org/x/tools/go/ssa"

	"verif/checker/internal/core"
)

func init() {
	register(&Def{
		ID: "C12",
		Explanation: "Structural necessary conditions of 'assemblers enforce their protocol': (automaton) the state machine of basicnode's map and list assemblers is extracted by abstract interpretation of the explicit state field (path-sensitive in that one enum) and compared, method by method and state by state, with the contract automaton of datamodel/nodeBuilder.go and HACKME_builderBehaviors.md - including that a repeated key is rejected with ErrRepeatedMapKey and leaves the assembler in the accept-keys state; (cleanreject) on every path that returns ErrRepeatedMapKey no entry was appended, no index updated and no bound value mutated; (repeat) both key routes of every map/struct assembler can reject a repeat (shared with C09); (client) library code that drives a MapAssembler keeps to the protocol on every path: after a key was assigned through AssembleKey the next assembler call is AssembleValue. " +
			"Exactness of results and the automata of bindnode (no explicit state) and generated code are not decided.",
		NotCovered: []string{"exactness of the produced entries", "bindnode's assemblers have no explicit state to extract", "generated assemblers' automata (state changes hidden in tidy helpers)"},
		Trusted:    []string{"go/ssa, go/types", "the contract automaton transcribed from datamodel/nodeBuilder.go and HACKME_builderBehaviors.md"},
		Run:        runC12,
	})
}

// ---- typestate extraction (A9) ----

type tsOutcome struct {
	Kind string // "ok", "reject:<type>", "panic"
	End  string // name of the state constant at exit, "?" if unknown
}

type tsExtractor struct {
	fn          *ssa.Function
	isStateAddr func(ssa.Value) bool
	constName   map[string]string // exact const -> name
	errIdx      int
}

// run explores fn from entry with the state known to be `start` (a constant name, or "?" for unknown). Helpers of
// fn are expanded at their call sites (core.Explorer), so a step of the protocol that was moved into a helper - the
// duplicate test, the store that commits a value and resets the state - is still a step of fn.
func (x *tsExtractor) run(start string) map[tsOutcome]bool {
	out := map[tsOutcome]bool{}
	ex := &core.Explorer{Root: x.fn}
	ex.Step = func(in ssa.Instruction, known string, expanded bool) (string, bool) {
		switch v := in.(type) {
		case *ssa.Store:
			if x.isStateAddr(v.Addr) {
				// the constant stored - also when it was picked earlier on this path and kept in a variable
				if k, ok := core.PathConst(v.Val); ok {
					known = x.constName[k]
					if known == "" {
						known = "?"
					}
				} else {
					known = "?"
				}
			}
		case *ssa.Panic:
			out[tsOutcome{"panic", ""}] = true
			return known, false
		case *ssa.Return:
			kind := "ok"
			if x.errIdx >= 0 {
				switch core.ResultNilness(v, x.errIdx) {
				case core.NonNil:
					ets := map[string]bool{}
					for _, rv := range core.ResultValues(v, x.errIdx) {
						valueErrorTypes(rv, 0, ets, map[ssa.Value]bool{})
					}
					var ns []string
					for n := range ets {
						ns = append(ns, n)
					}
					sort.Strings(ns)
					kind = "reject:" + strings.Join(ns, "|")
				case core.MaybeNil:
					kind = "maybe"
				}
			}
			out[tsOutcome{kind, known}] = true
			return known, false
		case ssa.CallInstruction:
			// an opaque static call that may write the state field makes it unknown
			if cal := v.Common().StaticCallee(); cal != nil && !expanded && x.writesState(cal, 0) {
				known = "?"
			}
		}
		return known, true
	}
	ex.Edge = func(e core.Edge, known string) (string, bool) {
		ifi := core.BlockIf(e.From)
		if ifi == nil || known == "?" {
			return known, true
		}
		cmp, ok := core.IfCompare(ifi)
		if !ok || (cmp.Op != token.EQL && cmp.Op != token.NEQ) {
			return known, true
		}
		xs, ys := cmp.X, cmp.Y
		isStateLoad := func(v ssa.Value) bool {
			u, isLoad := v.(*ssa.UnOp)
			return isLoad && x.isStateAddr(u.X)
		}
		if !isStateLoad(xs) {
			xs, ys = ys, xs
		}
		if !isStateLoad(xs) {
			return known, true
		}
		// the state is compared with a constant - written out, or looked up in a constant table of the package
		// (the state a step expects) under an index that is a constant in the current calling context
		k, isK := core.PathConst(ys)
		if !isK {
			return known, true
		}
		eq := x.constName[k] == known
		if cmp.Op == token.NEQ {
			eq = !eq
		}
		// Succs[0] is taken when the comparison holds
		return known, (e.Succ == 0) == eq
	}
	ex.Run(start)
	return out
}

func (x *tsExtractor) writesState(fn *ssa.Function, depth int) bool {
	if depth > 2 || len(fn.Blocks) == 0 {
		return false
	}
	found := false
	core.Instrs(fn, func(in ssa.Instruction) {
		if st, ok := in.(*ssa.Store); ok && x.isStateAddr(st.Addr) {
			found = true
		}
	})
	return found
}

func outcomesString(m map[tsOutcome]bool) string {
	var s []string
	for o := range m {
		if o.Kind == "panic" {
			s = append(s, "panic")
		} else {
			s = append(s, o.Kind+"->"+o.End)
		}
	}
	sort.Strings(s)
	return strings.Join(s, ", ")
}

// contract automata. Keys: role.method; per start state the exact set of outcomes.
// Map assembler states: initial midKey expectValue midValue finished. List: initial midValue finished.
var mapContract = map[string]map[string]string{
	"asm.AssembleKey":   {"initial": "ok->midKey", "*": "panic"},
	"asm.AssembleEntry": {"initial": "ok->midValue, reject:datamodel.ErrRepeatedMapKey->initial", "*": "panic"},
	"asm.AssembleValue": {"expectValue": "ok->midValue", "*": "panic"},
	"asm.Finish":        {"initial": "ok->finished", "*": "panic"},
	// the key assembler is handed out in midKey; it accepts (-> expectValue) or rejects a repeat (-> initial)
	"key.AssignString": {"midKey": "ok->expectValue, reject:datamodel.ErrRepeatedMapKey->initial"},
	// the value assembler is handed out in midValue and returns the parent to initial
	"val.AssignNode": {"midValue": "ok->initial"},
}

var listContract = map[string]map[string]string{
	"asm.AssembleValue": {"initial": "ok->midValue", "*": "panic"},
	"asm.Finish":        {"initial": "ok->finished", "*": "panic"},
	"val.AssignNode":    {"midValue": "ok->initial"},
}

func runC12(c *core.Ctx) {
	p := c.P

	c.Rule("C12.automaton", "for basicnode's map and list assemblers (and their key/value assemblers) the relation (method, state before) -> {(outcome, state after)} extracted from the code equals the contract automaton: legal calls succeed and move to the prescribed state, a repeated key is rejected with ErrRepeatedMapKey and returns to the accept-keys state, every other (method, state) pair panics (declared misuse) and never succeeds silently", 25)
	checkAutomaton(c, "plainMap__Assembler", "plainMap__KeyAssembler", "plainMap__ValueAssembler", "maState", mapContract)
	checkAutomaton(c, "plainList__Assembler", "", "plainList__ValueAssembler", "laState", listContract)

	c.Rule("C12.cleanreject", "on every path of an assembler method that returns a value of type ErrRepeatedMapKey (directly or wrapped in an error-carrying assembler), nothing has been committed before the return: no append/store into the entry table, no update of the lookup index, no reflect mutation of the bound value, no store to a done-fields marker", 8)
	for _, fn := range p.ModFns {
		pk := core.FuncPkg(fn)
		if pk == nil || len(fn.Blocks) == 0 || fn.Synthetic != "" {
			continue
		}
		rel := core.RelPkg(pk.Path())
		if rel != "node/basicnode" && rel != "node/bindnode" && rel != "node/gendemo" {
			continue
		}
		// sites constructing ErrRepeatedMapKey
		var sites []ssa.Instruction
		core.Instrs(fn, func(in ssa.Instruction) {
			if mi, ok := in.(*ssa.MakeInterface); ok {
				if nt := namedOfType(mi.X.Type()); nt != nil && nt.Obj().Name() == "ErrRepeatedMapKey" {
					sites = append(sites, in)
				}
			}
		})
		if len(sites) == 0 {
			continue
		}
		isCommit := func(in ssa.Instruction) bool {
			switch x := in.(type) {
			case *ssa.Store:
				if fa, ok := x.Addr.(*ssa.FieldAddr); ok {
					fnm := core.FieldName(fa)
					// the assembler's own bookkeeping of state / cursor fields is not a commit
					if isStateField(fa) || isAssemblerPtrField(p, fa) || strings.HasSuffix(fnm, ".cm") || strings.HasSuffix(fnm, ".f") || strings.HasSuffix(fnm, ".m") && !strings.HasPrefix(fnm, "plainMap.") {
						return false
					}
					if strings.HasSuffix(fnm, ".err") || strings.HasSuffix(fnm, ".Key") {
						return false // building the error value itself
					}
					if _, isAlloc := rootOf(fa.X).(*ssa.Alloc); isAlloc {
						return false
					}
					return true
				}
				if _, ok := x.Addr.(*ssa.IndexAddr); ok {
					if _, isAlloc := rootOf(x.Addr).(*ssa.Alloc); isAlloc {
						return false // varargs / local arrays
					}
					return true // doneFields[i] = true, table element stores
				}
			case *ssa.MapUpdate:
				return true
			case ssa.CallInstruction:
				if o := core.CalleeObj(x); o != nil {
					if rn := core.RecvNamed(o); rn != nil && rn.Obj().Pkg() != nil && rn.Obj().Pkg().Path() == "reflect" && strings.HasPrefix(o.Name(), "Set") {
						return true
					}
				}
			}
			return false
		}
		for i, s := range sites {
			// is any commit instruction on a path from entry to the rejection site?
			var hit ssa.Instruction
			core.Instrs(fn, func(in ssa.Instruction) {
				if hit != nil || !isCommit(in) {
					return
				}
				_, toCommit := core.Reach(fn, nil, isTarget(in), nil, nil)
				_, commitToSite := core.Reach(fn, in, isTarget(s), nil, nil)
				if toCommit && commitToSite {
					hit = in
				}
			})
			msg := ""
			pos := s.Pos()
			if hit != nil {
				msg = "a commit (" + hit.String() + " at " + p.Pos(hit.Pos()) + ") can happen before the repeated-key rejection is returned: the rejected key leaves a visible side effect"
			}
			c.Check(hit == nil, fmt.Sprintf("%s#reject%d", core.FuncKey(fn), i+1), p.Pos(pos), "nothing committed before the rejection", msg)
		}
	}

	c.Rule("C12.rejectclean", "a rejected key leaves no trace: in node/bindnode, in every function that reports a repeated key (it constructs datamodel.ErrRepeatedMapKey), no write of a bound Go value (reflect.Value.Set*) can precede that report within the activation - helpers expanded - so the field the repeated key names still holds what was assembled into it", 2)
	for _, fn := range p.ModFns {
		pk := core.FuncPkg(fn)
		if pk == nil || core.RelPkg(pk.Path()) != "node/bindnode" || len(fn.Blocks) == 0 || fn.Synthetic != "" || fn.Parent() != nil {
			continue
		}
		var rejects []ssa.Instruction
		core.Instrs(fn, func(in ssa.Instruction) {
			var t types.Type
			switch x := in.(type) {
			case *ssa.MakeInterface:
				t = x.X.Type()
			case *ssa.Alloc:
				t = x.Type().(*types.Pointer).Elem()
			default:
				return
			}
			if nt := namedOfType(t); nt != nil && nt.Obj().Name() == "ErrRepeatedMapKey" {
				rejects = append(rejects, in)
			}
		})
		if len(rejects) == 0 {
			continue
		}
		isReject := func(in ssa.Instruction) bool {
			for _, r := range rejects {
				if in == r {
					return true
				}
			}
			return false
		}
		bad := false
		var wp []string
		pos := fn.Pos()
		for _, ci := range core.CallsR(fn) {
			o := core.CalleeObj(ci)
			if o == nil || !strings.HasPrefix(o.Name(), "Set") || !core.IsMethod(ci, "reflect", "Value", o.Name()) {
				continue
			}
			if path, reached := core.Reach(fn, ci, isReject, nil, nil); reached {
				bad, wp, pos = true, p.Witness(path), ci.Pos()
			}
		}
		c.Check(!bad, core.FuncKey(fn)+"#no-write-before-repeat-report", p.Pos(pos), "nothing is written before the repeated key is reported", "a bound Go value is written on a path that goes on to report a repeated key: the rejection is reported at the right moment, but the field the key names was already reset (an optional field given fresh storage) - the node is not as if the rejected call had not happened", wp...)
	}

	c.Rule("C12.usableafterreject", "a rejected key leaves the assembler usable: for every string-key assigning method of a map/struct key assembler (basicnode, generated code) that tests the protocol state on entry, every return that rejects the key (a non-nil ErrRepeatedMapKey / ErrInvalidKey) leaves the state field at the assembler's initial (zero) state - the state in which AssembleKey, AssembleEntry and Finish are legal - and not in the mid-key state the method was entered in (the next call would panic)", 2)
	{
		nrej := 0
		for _, fn := range p.ModFns {
			pk := core.FuncPkg(fn)
			if pk == nil || len(fn.Blocks) == 0 || fn.Synthetic != "" || fn.Signature.Recv() == nil || fn.Name() != "AssignString" {
				continue
			}
			rel := core.RelPkg(pk.Path())
			if rel != "node/basicnode" && rel != "node/gendemo" {
				continue
			}
			errIdx := core.ErrResultIndex(fn)
			if errIdx < 0 {
				continue
			}
			// the state field this method tests on entry, and the constant it insists on
			var stateT *types.Named
			guard := ""
			core.InstrsR(fn, func(in ssa.Instruction) {
				ifi, ok := in.(*ssa.If)
				if !ok || guard != "" {
					return
				}
				cmp, ok := core.IfCompare(ifi)
				if !ok || (cmp.Op != token.EQL && cmp.Op != token.NEQ) {
					return
				}
				u, ok := cmp.X.(*ssa.UnOp)
				if !ok || u.Op != token.MUL {
					return
				}
				fa, ok := u.X.(*ssa.FieldAddr)
				if !ok || !isStateField(fa) {
					return
				}
				cv := core.ConstVal(cmp.Y)
				if cv == nil {
					return
				}
				guard = cv.ExactString()
				stateT, _ = types.Unalias(fieldVar(fa).Type()).(*types.Named)
			})
			if guard == "" || stateT == nil {
				continue
			}
			constName := map[string]string{}
			zero := ""
			for n, v := range enumConsts(stateT) {
				constName[v.ExactString()] = n
				if v.ExactString() == "0" {
					zero = n
				}
			}
			isStateAddr := func(v ssa.Value) bool {
				fa, ok := v.(*ssa.FieldAddr)
				if !ok || !isStateField(fa) {
					return false
				}
				ft, _ := types.Unalias(fieldVar(fa).Type()).(*types.Named)
				return ft == stateT
			}
			x := &tsExtractor{fn: fn, isStateAddr: isStateAddr, constName: constName, errIdx: errIdx}
			bad := ""
			rejects := 0
			for o := range x.run(constName[guard]) {
				if !strings.HasPrefix(o.Kind, "reject:") || !(strings.Contains(o.Kind, "ErrRepeatedMapKey") || strings.Contains(o.Kind, "ErrInvalidKey")) {
					continue
				}
				rejects++
				if o.End != zero {
					bad = fmt.Sprintf("a %s return leaves the state at %s", strings.TrimPrefix(o.Kind, "reject:"), o.End)
				}
			}
			if rejects == 0 {
				continue
			}
			nrej++
			c.Check(bad == "", core.FuncKey(fn)+"#usable-after-reject", p.Pos(fn.Pos()), "a rejected key leaves the assembler in its initial state", bad+" (entered in "+constName[guard]+", the initial state is "+zero+"): after a repeated or unknown key was rejected, the next AssembleKey / AssembleEntry / Finish on the same assembler panics instead of carrying on as if the rejected call had not happened")
		}
		if nrej == 0 {
			c.Undecided("node#key-assemblers", "-", "no key-assigning method with a state test and a key rejection found")
		}
	}

	c.Rule("C12.repeat", "both key routes of every map/struct assembler can reject a repeated key (the C09.repeat obligations, reported under this property as well)", 30)
	sub := &core.Ctx{P: p, Prop: "C12"}
	runC09(sub)
	for _, o := range sub.Obls {
		if o.Rule == "C09.repeat" || o.Rule == "C09.unionone" || (o.Rule == "C09.shiftwidth" && !strings.HasSuffix(o.Construct, "#instance-floor")) {
			o.Rule = "C12.repeat"
			o.Property = "C12"
			c.Obls = append(c.Obls, o)
		}
	}

	c.Rule("C12.memberthenfinish", "the C19.memberthenfinish obligations, reported under this property as well (a legal call sequence produces exactly the accepted entries: a union whose member is set after the enclosing map's finish hook ran is stored empty)", 2)
	{
		sub := &core.Ctx{P: p, Prop: "C12"}
		runC19(sub)
		for _, o := range sub.Obls {
			if o.Rule == "C19.memberthenfinish" && !strings.HasSuffix(o.Construct, "#instance-floor") {
				o.Rule = "C12.memberthenfinish"
				o.Property = "C12"
				c.Obls = append(c.Obls, o)
			}
		}
	}

	c.Rule("C12.finishhook", finishHookText, 10)
	checkFinishHook(c)

	c.Rule("C12.assignnodechecked", "the C09.assignnodechecked obligations, reported under this property as well (an assignment of a kind the position cannot hold is reported by an error from that call - also when the call is AssignNode)", 2)
	{
		sub := &core.Ctx{P: p, Prop: "C12"}
		runC09(sub)
		for _, o := range sub.Obls {
			if o.Rule == "C09.assignnodechecked" && !strings.HasSuffix(o.Construct, "#instance-floor") {
				o.Rule = "C12.assignnodechecked"
				o.Property = "C12"
				c.Obls = append(c.Obls, o)
			}
		}
	}

	c.Rule("C12.freshslot", freshSlotText, 6)
	checkFreshSlot(c)

	c.Rule("C12.client", "in library code that drives a datamodel.MapAssembler: on every path, after the assembler returned by AssembleKey() received an Assign*, the next call on that MapAssembler is AssembleValue() (not AssembleKey, AssembleEntry or Finish, and not a fresh loop iteration)", 6)
	checkClients(c)
}

func checkAutomaton(c *core.Ctx, asmName, keyName, valName, stateName string, contract map[string]map[string]string) {
	p := c.P
	asmT := p.NamedType("node/basicnode", asmName)
	if asmT == nil {
		c.Undecided("node/basicnode."+asmName, "-", "assembler type not found")
		return
	}
	// the protocol state: the assembler's field of an integer enum type (whatever the field, the type and its constants are called)
	var stateT *types.Named
	if st, ok := asmT.Underlying().(*types.Struct); ok {
		for i := 0; i < st.NumFields(); i++ {
			if isEnumType(st.Field(i).Type()) {
				stateT, _ = types.Unalias(st.Field(i).Type()).(*types.Named)
			}
		}
	}
	if stateT == nil {
		c.Undecided("node/basicnode."+asmName+"#state", "-", "the assembler has no field of an integer enum type holding its protocol state")
		return
	}
	constName := map[string]string{} // exact constant -> the constant's own name (only used to tell states apart)
	zero := ""
	for n, v := range enumConsts(stateT) {
		constName[v.ExactString()] = n
		if v.ExactString() == "0" {
			zero = n
		}
	}
	isStateAddr := func(v ssa.Value) bool {
		fa, ok := v.(*ssa.FieldAddr)
		return ok && isStateField(fa) && strings.HasPrefix(core.FieldName(fa), asmName+".")
	}
	method := func(typeName, m string) *ssa.Function {
		t := p.NamedType("node/basicnode", typeName)
		if t == nil {
			return nil
		}
		fn := p.Method(types.NewPointer(t), m)
		if fn == nil || len(fn.Blocks) == 0 {
			return nil
		}
		return fn
	}
	extract := func(fn *ssa.Function, start string) map[tsOutcome]bool {
		x := &tsExtractor{fn: fn, isStateAddr: isStateAddr, constName: constName, errIdx: core.ErrResultIndex(fn)}
		return x.run(start)
	}
	// The contract speaks of roles (initial, midKey, expectValue, midValue, finished). Which constant plays which role
	// is read off the code: initial is the zero value (a fresh assembler), the others are where the protocol's success
	// steps lead. The roles must come out pairwise distinct, and then EVERY (method, state) pair is compared with the
	// contract - so a step that leads to the wrong state shows up as a clash of roles or as a wrong transition elsewhere.
	okEnd := func(fn *ssa.Function, start string) string {
		if fn == nil || start == "" {
			return ""
		}
		end := ""
		for o := range extract(fn, start) {
			if o.Kind == "ok" || o.Kind == "maybe" {
				if end != "" && end != o.End {
					return ""
				}
				end = o.End
			}
		}
		return end
	}
	role := map[string]string{"initial": zero} // role -> constant name
	if keyName != "" {
		role["midKey"] = okEnd(method(asmName, "AssembleKey"), role["initial"])
		role["expectValue"] = okEnd(method(keyName, "AssignString"), role["midKey"])
		role["midValue"] = okEnd(method(asmName, "AssembleValue"), role["expectValue"])
	} else {
		role["midValue"] = okEnd(method(asmName, "AssembleValue"), role["initial"])
	}
	role["finished"] = okEnd(method(asmName, "Finish"), role["initial"])
	roleOf := map[string]string{}
	var roles []string
	clash := ""
	for r, cn := range role {
		if cn == "" || cn == "?" {
			clash = "the state reached by the protocol's success step into '" + r + "' could not be determined"
			continue
		}
		if other, dup := roleOf[cn]; dup {
			clash = fmt.Sprintf("the roles %s and %s are played by one and the same state %s", other, r, cn)
		}
		roleOf[cn] = r
		roles = append(roles, r)
	}
	sort.Strings(roles)
	if !c.Check(clash == "", "node/basicnode."+asmName+"#states", "-", fmt.Sprintf("protocol states identified: %v", role), "the assembler's protocol states do not map onto the contract: "+clash) {
		return
	}
	// states of the enum that play no role (none today) are still run: calling anything in them must be misuse
	for _, cn := range constName {
		if _, ok := roleOf[cn]; !ok {
			roleOf[cn] = cn
			roles = append(roles, cn)
			role[cn] = cn
		}
	}
	render := func(m map[tsOutcome]bool) string {
		mm := map[tsOutcome]bool{}
		for o := range m {
			if r, ok := roleOf[o.End]; ok {
				o.End = r
			}
			mm[o] = true
		}
		return outcomesString(mm)
	}
	run := func(who, typeName, m string) {
		fn := method(typeName, m)
		if fn == nil {
			c.Undecided("node/basicnode."+typeName+"."+m, "-", "method not found")
			return
		}
		want := contract[who+"."+m]
		for _, r := range roles {
			exp, ok := want[r]
			if !ok {
				exp, ok = want["*"]
				if !ok {
					continue // the contract says nothing about calling it in this state
				}
			}
			got := render(extract(fn, role[r]))
			c.Check(got == exp, fmt.Sprintf("node/basicnode.%s.%s[%s]", typeName, m, r), p.Pos(fn.Pos()), "matches the contract: "+exp, fmt.Sprintf("in state %s the method does {%s} but the assembler contract prescribes {%s}", r, got, exp))
		}
	}
	for _, m := range []string{"AssembleKey", "AssembleEntry", "AssembleValue", "Finish"} {
		if _, ok := contract["asm."+m]; ok {
			run("asm", asmName, m)
		}
	}
	if keyName != "" {
		run("key", keyName, "AssignString")
	}
	run("val", valName, "AssignNode")
}

// checkClients: typestate over client code driving a MapAssembler.
func checkClients(c *core.Ctx) {
	p := c.P
	for _, fn := range p.ModFns {
		pk := core.FuncPkg(fn)
		if pk == nil || len(fn.Blocks) == 0 || fn.Synthetic != "" || !libraryPkg(core.RelPkg(pk.Path())) {
			continue
		}
		// AssembleKey() calls on a MapAssembler-typed interface value
		for _, ci := range core.Calls(fn) {
			cv := core.CallValue(ci)
			if cv == nil || !cv.Call.IsInvoke() || cv.Call.Method.Name() != "AssembleKey" {
				continue
			}
			nt := namedOfType(cv.Call.Value.Type())
			if nt == nil || nt.Obj().Name() != "MapAssembler" {
				continue
			}
			ma := core.Strip(cv.Call.Value)
			// the Assign* call on the key assembler
			var assigns []*ssa.Call
			for _, ref := range *cv.Referrers() {
				if ac, ok := ref.(*ssa.Call); ok && ac.Call.IsInvoke() && core.Strip(ac.Call.Value) == ssa.Value(cv) && strings.HasPrefix(ac.Call.Method.Name(), "Assign") {
					assigns = append(assigns, ac)
				}
			}
			for i, ac := range assigns {
				// from the nil edge of the assign's error: the next call on ma must be AssembleValue
				nilEdges := core.EdgesWhere(fn, func(r core.Rel) bool {
					return r.Op == token.EQL && core.Strip(r.X) == ssa.Value(ac) && core.IsNilConst(r.Y)
				})
				isAV := func(in ssa.Instruction) bool {
					x, ok := in.(ssa.CallInstruction)
					return ok && x.Common().IsInvoke() && core.Strip(x.Common().Value) == ma && x.Common().Method.Name() == "AssembleValue"
				}
				isOther := func(in ssa.Instruction) bool {
					x, ok := in.(ssa.CallInstruction)
					if !ok || !x.Common().IsInvoke() || core.Strip(x.Common().Value) != ma {
						return false
					}
					switch x.Common().Method.Name() {
					case "AssembleKey", "AssembleEntry", "Finish":
						return true
					}
					return false
				}
				// explore only the success continuation: block the non-nil edges
				nonNil := map[core.Edge]bool{}
				for e := range nilEdges {
					nonNil[core.Edge{From: e.From, Succ: 1 - e.Succ}] = true
				}
				path, reached := core.Reach(fn, ac, isOther, nonNil, isAV)
				c.Check(!reached, fmt.Sprintf("%s#key-then-value%d", core.FuncKey(fn), i+1), p.Pos(ac.Pos()), "AssembleValue follows the assigned key on every path", "after a key was assigned through AssembleKey a path reaches AssembleKey/AssembleEntry/Finish on the same map assembler without AssembleValue in between (the entry is left dangling; basicnode panics with misuse, others corrupt the entry table)", p.Witness(path)...)
			}
		}
	}
}

// checkSlotSetThenFinish extends the finish-hook rule from the assembler's own Assign methods to every function of
// bindnode that completes a value for an assembler's position: whoever writes the Go value of the slot of a reflection
// assembler that has a finish hook (reflect.Value.Set* on the value obtained from that assembler's materialiser - the
// Finish of the map/list wrappers an Any position is filled through, a helper shared by them) consults that hook on
// every path from the write to a return that can report success.
func checkSlotSetThenFinish(c *core.Ctx, prop string) {
	p := c.P
	n := 0
	for _, fn := range p.ModFns {
		pk := core.FuncPkg(fn)
		if pk == nil || core.RelPkg(pk.Path()) != "node/bindnode" || len(fn.Blocks) == 0 || fn.Synthetic != "" || fn.Parent() != nil {
			continue
		}
		errIdx := core.ErrResultIndex(fn)
		if errIdx < 0 {
			continue
		}
		// the assembler methods themselves are decided above; here: functions that write somebody else's slot
		if rcv := fn.Signature.Recv(); rcv != nil {
			rt := rcv.Type()
			if pt, ok := rt.(*types.Pointer); ok {
				rt = pt.Elem()
			}
			if nt := namedOfType(rt); nt != nil && hasFinishHookField(nt) {
				continue
			}
		}
		var sets []ssa.CallInstruction
		for _, ci := range core.CallsR(fn) {
			o := core.CalleeObj(ci)
			if o == nil || !strings.HasPrefix(o.Name(), "Set") || !core.IsMethod(ci, "reflect", "Value", o.Name()) {
				continue
			}
			// the receiver of Set comes out of the materialiser of an assembler that has a finish hook
			fromSlot := false
			for w := range core.BackSlice(core.Receiver(ci), core.SliceOpts{ThroughCalls: true, Stores: true}) {
				cl, ok := w.(*ssa.Call)
				if !ok || !isValueMaterialiser(p, cl) {
					continue
				}
				if g := cl.Call.StaticCallee(); g != nil {
					rt := g.Signature.Recv().Type()
					if pt, ok := rt.(*types.Pointer); ok {
						rt = pt.Elem()
					}
					if nt := namedOfType(rt); nt != nil && hasFinishHookField(nt) {
						fromSlot = true
					}
				}
			}
			if fromSlot {
				sets = append(sets, ci)
			}
		}
		if len(sets) == 0 {
			continue
		}
		isHook := func(in ssa.Instruction) bool {
			switch x := in.(type) {
			case *ssa.UnOp:
				if fa, ok := x.X.(*ssa.FieldAddr); ok && x.Op == token.MUL && isFinishHookField(fa) {
					return true
				}
			case ssa.CallInstruction:
				if cal := x.Common().StaticCallee(); cal != nil && cal != fn {
					nm := cal.Name()
					if strings.HasPrefix(nm, "Assign") || isAssignShaped(p, cal) {
						return true
					}
				}
			}
			return false
		}
		bad := false
		var wp []string
		pos := fn.Pos()
		for _, st := range sets {
			for _, ret := range core.Returns(fn) {
				if core.ResultNilness(ret, errIdx) == core.NonNil {
					continue
				}
				if path, reached := core.Reach(fn, st, successReturn(ret, errIdx), nil, isHook); reached {
					bad = true
					wp = p.Witness(path)
					pos = st.Pos()
				}
			}
		}
		n++
		c.Check(!bad, core.FuncKey(fn)+"#slot-set-then-finish", p.Pos(pos), "after writing the assembler's slot every success path consults its finish hook", fn.Name()+" writes the Go value of an assembler's slot and can then return success without running that assembler's finish hook: the value is accepted but never committed into the enclosing map/union", wp...)
	}
	if n == 0 {
		c.Undecided("node/bindnode#slot-writers", "-", "no function outside the assembler writes an assembler's slot through its materialiser (the map/list wrappers for Any positions were expected)")
	}
	_ = prop
}

// hasFinishHookField: the struct has a field of type func() error (the step that commits a finished value into its parent).
func hasFinishHookField(nt *types.Named) bool {
	st, ok := nt.Underlying().(*types.Struct)
	if !ok {
		return false
	}
	for i := 0; i < st.NumFields(); i++ {
		if sig, ok := st.Field(i).Type().Underlying().(*types.Signature); ok && sig.Params().Len() == 0 && sig.Results().Len() == 1 && core.IsErrorType(sig.Results().At(0).Type()) {
			return true
		}
	}
	return false
}

const finishHookText = "every scalar/node assign of the reflection assembler (bindnode._assembler: AssignNull/Bool/Int/Float/String/Bytes/Link/Node, assignUInt) reaches a possibly-successful return only after consulting its finish hook (the step that commits the entry into the parent map / union) or after delegating to another assign that does; and every other function of bindnode that writes the Go value of such an assembler's slot (the Finish of the map/list wrappers an Any position is filled through) consults that hook on every path from the write to a success return"

// checkFinishHook decides the finish-hook rule (shared by C12 - exactly the accepted entries - and C01 - what is built
// reads back).
func checkFinishHook(c *core.Ctx) {
	p := c.P
	if asmT := p.NamedType("node/bindnode", "_assembler"); asmT != nil {
		for _, fn := range assignMethodsOf(p, asmT, true) {
			m := fn.Name()
			isHook := func(in ssa.Instruction) bool {
				switch x := in.(type) {
				case *ssa.UnOp:
					if fa, ok := x.X.(*ssa.FieldAddr); ok && x.Op == token.MUL && isFinishHookField(fa) {
						return true
					}
				case ssa.CallInstruction:
					if cal := x.Common().StaticCallee(); cal != nil {
						n := cal.Name()
						if (strings.HasPrefix(n, "Assign") || isAssignShaped(p, cal) || n == "Copy") && cal != fn {
							return true
						}
					}
				}
				return false
			}
			errIdx := core.ErrResultIndex(fn)
			bad := false
			var wp []string
			for _, ret := range core.Returns(fn) {
				if core.ResultNilness(ret, errIdx) == core.NonNil {
					continue
				}
				if path, reached := core.Reach(fn, nil, successReturn(ret, errIdx), nil, isHook); reached {
					bad = true
					wp = p.Witness(path)
				}
			}
			c.Check(!bad, "node/bindnode._assembler."+m+"#finish-hook", p.Pos(fn.Pos()), "every success path consults the finish hook", m+" can return success without running (or delegating to) the finish hook: the value is accepted but never committed into the enclosing map/union", wp...)
		}
	} else {
		c.Undecided("node/bindnode._assembler", "-", "type not found")
	}
	checkSlotSetThenFinish(c, "")
}
