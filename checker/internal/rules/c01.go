package rules

import (
	"fmt"
	"go/constant"
	"go/token"
	"go/types"
	"math"
	"sort"
	"strings"

	"golang.org/x/tools/go/ssa"

	"verif/checker/internal/core"
)

func init() {
	register(&Def{
		ID: "C01",
		Explanation: "Structural necessary conditions of 'what is built is what is read back': (wrongkind) for every concrete Node type whose Kind() is a constant, every accessor inappropriate for that kind returns on every path a non-nil error of dynamic type ErrWrongKind and contains no explicit panic; wrong-kind iterators return nil and Length of a non-recursive kind returns -1; (kindswitch) every kind dispatch of the generic algorithms (Copy, DeepEqual, both encoders, EncodedLength) that has an erroring/panicking default lists all nine kinds; (uint) every Kind_Int arm of those algorithms probes UintNode before relying on AsInt; (pairedwrite) basicnode's map commits a value into the ordered entry table and into the lookup index together, and nothing else writes either; (writeback) a child container assembler's Finish hands its node to the parent's value assembler on every nil-error path. " +
			"Equality of contents, order and lengths as values is not decided.",
		NotCovered: []string{"equality of contents, order, numeric agreement of Length with iteration", "AssignNode/Copy content fidelity", "size-hint independence", "types whose Kind() is dynamic (bindnode._node, _nodeRepr, kinded-union representations) are outside wrongkind"},
		Trusted:    []string{"go/ssa, go/types"},
		Run:        runC01,
	})
}

var kindNames = []string{"Map", "List", "Null", "Bool", "Int", "Float", "String", "Bytes", "Link"}

// accessor -> kinds for which it is appropriate
var accessorKinds = map[string][]string{
	"LookupByString":  {"Map"},
	"LookupByIndex":   {"List"},
	"LookupByNode":    {"Map", "List"},
	"LookupBySegment": {"Map", "List"},
	"AsBool":          {"Bool"},
	"AsInt":           {"Int"},
	"AsFloat":         {"Float"},
	"AsString":        {"String"},
	"AsBytes":         {"Bytes"},
	"AsLink":          {"Link"},
}

// constResult: every return of fn (following one static delegation level) yields the same constant for result idx.
func constResult(fn *ssa.Function, idx int, depth int) (constant.Value, bool) {
	if fn == nil || len(fn.Blocks) == 0 || depth > 3 {
		return nil, false
	}
	var out constant.Value
	for _, ret := range core.Returns(fn) {
		for _, v := range core.ResultValues(ret, idx) {
			var cv constant.Value
			switch x := core.Strip(v).(type) {
			case *ssa.Const:
				cv = x.Value
				if cv == nil {
					cv = constant.MakeString("<nil>")
				}
			case *ssa.Call:
				cal := x.Call.StaticCallee()
				if cal == nil {
					return nil, false
				}
				c2, ok := constResult(cal, idx, depth+1)
				if !ok {
					return nil, false
				}
				cv = c2
			case *ssa.Extract:
				cl, ok := x.Tuple.(*ssa.Call)
				if !ok || cl.Call.StaticCallee() == nil {
					return nil, false
				}
				c2, ok := constResult(cl.Call.StaticCallee(), x.Index, depth+1)
				if !ok {
					return nil, false
				}
				cv = c2
			default:
				return nil, false
			}
			if out == nil {
				out = cv
			} else if out.ExactString() != cv.ExactString() {
				return nil, false
			}
		}
	}
	return out, out != nil
}

// errorTypes collects the dynamic types result idx of fn may have: named type names, "nil", or "?" when unknown.
func errorTypes(fn *ssa.Function, idx int, depth int, out map[string]bool) {
	if fn == nil || len(fn.Blocks) == 0 || depth > 3 {
		out["?"] = true
		return
	}
	for _, ret := range core.Returns(fn) {
		for _, v := range core.ResultValues(ret, idx) {
			valueErrorTypes(v, depth, out, map[ssa.Value]bool{})
		}
	}
}

func valueErrorTypes(v ssa.Value, depth int, out map[string]bool, seen map[ssa.Value]bool) {
	if seen[v] {
		return
	}
	seen[v] = true
	switch x := v.(type) {
	case *ssa.Const:
		if x.IsNil() {
			out["nil"] = true
		} else {
			out["?"] = true
		}
	case *ssa.MakeInterface:
		out[core.TypeString(x.X.Type())] = true
	case *ssa.ChangeInterface:
		valueErrorTypes(x.X, depth, out, seen)
	case *ssa.Phi:
		// inside a path exploration the path knows which value the phi carries (result := ...; return result)
		if w := core.PathValue(x); w != ssa.Value(x) {
			valueErrorTypes(w, depth, out, seen)
			return
		}
		for _, e := range x.Edges {
			valueErrorTypes(e, depth, out, seen)
		}
	case *ssa.Call:
		if cal := x.Call.StaticCallee(); cal != nil && cal.Signature.Results().Len() == 1 {
			errorTypes(cal, 0, depth+1, out)
		} else {
			out["?"] = true
		}
	case *ssa.Extract:
		if cl, ok := x.Tuple.(*ssa.Call); ok && cl.Call.StaticCallee() != nil {
			errorTypes(cl.Call.StaticCallee(), x.Index, depth+1, out)
		} else {
			out["?"] = true
		}
	default:
		if core.IsZeroMarker(v) {
			out["nil"] = true
		} else {
			out["?"] = true
		}
	}
}

// hasPanic: fn or the static callees it delegates to (bounded) contain an explicit panic.
func hasPanic(fn *ssa.Function, depth int) bool {
	if fn == nil || depth > 3 {
		return false
	}
	found := false
	core.Instrs(fn, func(in ssa.Instruction) {
		if _, ok := in.(*ssa.Panic); ok {
			found = true
		}
	})
	if found {
		return true
	}
	for _, ci := range core.Calls(fn) {
		if cal := ci.Common().StaticCallee(); cal != nil && cal != fn && cal.Pkg != nil && strings.HasPrefix(cal.Pkg.Pkg.Path(), core.ModPath) {
			// only follow delegation into wrappers/mixins: single-block functions
			if len(fn.Blocks) <= 2 && hasPanic(cal, depth+1) {
				return true
			}
		}
	}
	return false
}

func runC01(c *core.Ctx) {
	p := c.P
	kindT := p.NamedType("datamodel", "Kind")
	kindConst := map[string]string{} // exact value -> short name
	if kindT != nil {
		for n, v := range enumConsts(kindT) {
			kindConst[v.ExactString()] = strings.TrimPrefix(n, "Kind_")
		}
	}

	c.Rule("C01.wrongkind", "for every concrete Node type with constant Kind(): each accessor inappropriate for that kind returns a non-nil error of dynamic type ErrWrongKind on every path and reaches no explicit panic; MapIterator/ListIterator of the wrong kind return nil; Length of a non-recursive kind returns -1", 250)
	impls := nodeImpls(p, libraryPkg)
	dynamic := 0
	for _, im := range impls {
		kfn := p.Method(im.Type(), "Kind")
		kv, ok := constResult(kfn, 0, 0)
		tname := im.rel + "." + im.Named.Obj().Name()
		if !ok {
			dynamic++
			c.Info(tname+"#Kind", "-", "Kind() is not a compile-time constant: outside the domain of this rule")
			continue
		}
		kind := kindConst[kv.ExactString()]
		if kind == "" || kind == "Invalid" {
			c.Info(tname+"#Kind", "-", "Kind() constant "+kv.ExactString()+" is not one of the nine kinds")
			continue
		}
		var accs []string
		for a := range accessorKinds {
			accs = append(accs, a)
		}
		sort.Strings(accs)
		for _, a := range accs {
			appropriate := false
			for _, k := range accessorKinds[a] {
				if k == kind {
					appropriate = true
				}
			}
			if appropriate {
				continue
			}
			fn := p.Method(im.Type(), a)
			if fn == nil {
				continue
			}
			errIdx := core.ErrResultIndex(fn)
			ets := map[string]bool{}
			errorTypes(fn, errIdx, 0, ets)
			var names []string
			for n := range ets {
				names = append(names, n)
			}
			sort.Strings(names)
			good := len(ets) == 1 && ets["datamodel.ErrWrongKind"]
			key := fmt.Sprintf("%s[%s]#%s", tname, kind, a)
			if !good {
				c.Fail(key, p.Pos(fn.Pos()), fmt.Sprintf("%s on a %s-kind node may return %v instead of always a non-nil ErrWrongKind", a, kind, names))
				continue
			}
			c.Check(!hasPanic(fn, 0), key, p.Pos(fn.Pos()), "always ErrWrongKind, no panic", a+" on a "+kind+"-kind node can reach an explicit panic")
		}
		// iterators and Length
		if kind != "Map" {
			fn := p.Method(im.Type(), "MapIterator")
			cv, ok := constResult(fn, 0, 0)
			c.Check(ok && cv.ExactString() == `"<nil>"`, tname+"["+kind+"]#MapIterator", p.Pos(fn.Pos()), "returns nil", "MapIterator of a non-map node does not return nil on every path")
		}
		if kind != "List" {
			fn := p.Method(im.Type(), "ListIterator")
			cv, ok := constResult(fn, 0, 0)
			c.Check(ok && cv.ExactString() == `"<nil>"`, tname+"["+kind+"]#ListIterator", p.Pos(fn.Pos()), "returns nil", "ListIterator of a non-list node does not return nil on every path")
		}
		if kind != "Map" && kind != "List" {
			fn := p.Method(im.Type(), "Length")
			cv, ok := constResult(fn, 0, 0)
			c.Check(ok && cv.ExactString() == "-1", tname+"["+kind+"]#Length", p.Pos(fn.Pos()), "returns -1", "Length of a non-recursive node does not return -1 on every path")
		}
	}
	c.Note("C01.wrongkind: %d Node implementations, %d with dynamic Kind() (out of domain)", len(impls), dynamic)

	c.Rule("C01.kindswitch", "every switch over datamodel.Kind in the generic algorithms (packages datamodel, codec/dagcbor, codec/dagjson, printer) whose default clause only errs or panics lists all nine kinds", 5)
	if kindT != nil {
		for _, rel := range []string{"datamodel", "codec/dagcbor", "codec/dagjson", "printer"} {
			for _, si := range enumSwitches(p, rel, func(n *types.Named) bool { return types.Identical(n, kindT) }) {
				if !si.HasDef || !(si.DefPanics || si.DefErrs) || len(si.Cases) < 5 {
					continue // does not claim exhaustiveness
				}
				var missing []string
				for v, n := range kindConst {
					if n == "Invalid" {
						continue
					}
					if !si.Cases[v] {
						missing = append(missing, n)
					}
				}
				sort.Strings(missing)
				c.Check(len(missing) == 0, rel+"."+si.Fn+"#kindswitch", p.Pos(si.Pos), "all nine kinds handled", "kind dispatch with an erroring default lacks cases: "+strings.Join(missing, ","))
			}
		}
	}

	c.Rule("C01.uint", "sibling agreement across the generic algorithms: wherever a Kind_Int arm calls AsInt (datamodel.Copy, datamodel.DeepEqual, dagcbor marshal, dagcbor.EncodedLength) the function also probes the node for datamodel.UintNode, so that unsigned values beyond int64 (which basicnode and dag-cbor support) are not failed or panicked on", 4)
	for _, spec := range []struct{ rel, name string }{{"datamodel", "Copy"}, {"datamodel", "DeepEqual"}, {"codec/dagcbor", "Marshal"}, {"codec/dagcbor", "EncodedLength"}} {
		fn := p.Func(spec.rel, "", spec.name)
		if fn == nil {
			c.Undecided(spec.rel+"."+spec.name, "-", "not found")
			continue
		}
		callsAsInt, probes := false, false
		// the exported algorithm together with the unexported workers it is built from (core/region.go)
		core.InstrsR(fn, func(in ssa.Instruction) {
			switch x := in.(type) {
			case ssa.CallInstruction:
				if x.Common().IsInvoke() && x.Common().Method.Name() == "AsInt" {
					callsAsInt = true
				}
			case *ssa.TypeAssert:
				if nt := namedOfType(x.AssertedType); nt != nil && nt.Obj().Name() == "UintNode" {
					probes = true
				}
			}
		})
		if !callsAsInt {
			continue
		}
		c.Check(probes, spec.rel+"."+spec.name+"#int-arm-uint", p.Pos(fn.Pos()), "probes UintNode", spec.name+" relies on AsInt for integer nodes without probing UintNode: unsigned values above MaxInt64 fail or panic here although sibling algorithms handle them")
	}

	c.Rule("C01.pairedwrite", "basicnode.plainMap: every function that stores a value into an entry of the ordered table (plainMap__Entry.v) also updates the lookup index (plainMap.m) with a key loaded from that same entry, on every path to a return; and every update of the index is in such a function", 1)
	var tblWriters, idxWriters []*ssa.Function
	mr := findBasicMapRoles(p)
	if mr == nil {
		c.Undecided("node/basicnode.plainMap#shape", "-", "basicnode's map storage no longer has the shape one map-typed index + one slice of (string key, Node value) entries")
		mr = &basicMapRoles{}
	}
	for _, fn := range p.ModFns {
		pk := core.FuncPkg(fn)
		if pk == nil || core.RelPkg(pk.Path()) != "node/basicnode" {
			continue
		}
		for _, w := range p.LocalEffects(fn).Writes {
			if w.Class == core.RootFresh {
				continue
			}
			if w.Struct != nil && mr.Entry != nil && w.Struct.Obj() == mr.Entry.Obj() && w.Field == mr.EntryVF {
				tblWriters = append(tblWriters, fn)
			}
			if w.Kind == "mapupdate" && w.Struct != nil && mr.Map != nil && w.Struct.Obj() == mr.Map.Obj() && w.Field == mr.IndexF {
				idxWriters = append(idxWriters, fn)
			}
		}
	}
	inSet := func(fs []*ssa.Function, f *ssa.Function) bool {
		for _, x := range fs {
			if x == f {
				return true
			}
		}
		return false
	}
	seenFn := map[*ssa.Function]bool{}
	for _, fn := range append(append([]*ssa.Function{}, tblWriters...), idxWriters...) {
		if seenFn[fn] {
			continue
		}
		seenFn[fn] = true
		key := core.FuncKey(fn) + "#paired"
		if !inSet(tblWriters, fn) || !inSet(idxWriters, fn) {
			c.Fail(key, p.Pos(fn.Pos()), "writes only one of the two structures that must hold the same entries (ordered table / lookup index)")
			continue
		}
		// every path from the table store to a return passes the index update, keyed by the entry's key
		var tstore *ssa.Store
		var upd *ssa.MapUpdate
		core.Instrs(fn, func(in ssa.Instruction) {
			switch x := in.(type) {
			case *ssa.Store:
				if fa, ok := x.Addr.(*ssa.FieldAddr); ok && core.FieldName(fa) == mr.EntryV {
					tstore = x
				}
			case *ssa.MapUpdate:
				upd = x
			}
		})
		good := tstore != nil && upd != nil
		if good {
			isRet := func(in ssa.Instruction) bool { _, ok := in.(*ssa.Return); return ok }
			_, reached := core.Reach(fn, tstore, isRet, nil, isTarget(upd))
			good = !reached && upd.Value == tstore.Val
			keyFromEntry := false
			for w := range core.BackSlice(upd.Key, core.SliceOpts{}) {
				if fa, ok := w.(*ssa.FieldAddr); ok && core.FieldName(fa) == mr.EntryK {
					keyFromEntry = true
				}
			}
			good = good && keyFromEntry
		}
		c.Check(good, key, p.Pos(fn.Pos()), "table value and index are written together with the same value, keyed by the entry's own key", "the value is not committed to both the ordered table and the lookup index together (same value, key taken from the entry) on every path: lookups and iteration can disagree")
	}

	c.Rule("C01.writeback", "every child container assembler of basicnode (a type holding a child assembler and a pointer to its parent) hands the child's node to the parent's value assembler (AssignNode) on every path of Finish that can return nil", 4)
	for _, nt := range p.ModuleTypes(func(rel string) bool { return rel == "node/basicnode" }) {
		st, ok := nt.Underlying().(*types.Struct)
		if !ok || st.NumFields() != 2 {
			continue
		}
		hasParentPtr, hasChild := false, false
		for i := 0; i < st.NumFields(); i++ {
			ft := st.Field(i).Type()
			if pt, ok := ft.(*types.Pointer); ok {
				if n := namedOfType(pt); n != nil && assemblerRole(p, n) {
					hasParentPtr = true
				}
			} else if n := namedOfType(ft); n != nil && assemblerRole(p, n) {
				hasChild = true
			}
		}
		if !hasParentPtr || !hasChild {
			continue
		}
		fn := p.Method(types.NewPointer(nt), "Finish")
		if fn == nil || len(fn.Blocks) == 0 {
			continue
		}
		isWB := func(in ssa.Instruction) bool {
			ci, ok := in.(ssa.CallInstruction)
			if !ok {
				return false
			}
			cal := ci.Common().StaticCallee()
			return cal != nil && cal.Name() == "AssignNode" && cal.Signature.Recv() != nil
		}
		okAll := true
		var wpath []string
		for _, ret := range core.Returns(fn) {
			if core.ResultNilness(ret, 0) == core.NonNil {
				continue
			}
			// a return that forwards the write-back's own result is behind it by construction
			if path, reached := core.Reach(fn, nil, successReturn(ret, 0), nil, isWB); reached {
				okAll = false
				wpath = p.Witness(path)
			}
		}
		// the node handed over is the child's work-in-progress node
		argOK := false
		for _, ci := range core.Calls(fn) {
			if isWB(ci) {
				for w := range core.BackSlice(ci.Common().Args[len(ci.Common().Args)-1], core.SliceOpts{}) {
					if fa, ok := w.(*ssa.FieldAddr); ok && isPtrToNodeField(p, fa) {
						argOK = true
					}
				}
			}
		}
		c.Check(okAll && argOK, "node/basicnode."+nt.Obj().Name()+"#Finish-writeback", p.Pos(fn.Pos()), "Finish writes the child node back into the parent", "a child container assembler can finish successfully without assigning its node to the parent's value assembler (the nested map/list is silently lost)", wpath...)
	}

	c.Rule("C01.beginfresh", "BeginMap / BeginList of basicnode's container assemblers store freshly made storage (make) into every storage field of the node under construction on every path to a return, whatever the size hint: a node never starts out on storage left over from (or shared with) an earlier node", 2)
	for _, spec := range []struct {
		typ, method string
		fields      []string
	}{{"plainMap__Assembler", "BeginMap", []string{mr.Table, mr.Index}}, {"plainList__Assembler", "BeginList", []string{findBasicListStorage(p)}}} {
		t := p.NamedType("node/basicnode", spec.typ)
		if t == nil {
			c.Undecided("node/basicnode."+spec.typ, "-", "type not found")
			continue
		}
		fn := p.Method(types.NewPointer(t), spec.method)
		if fn == nil || len(fn.Blocks) == 0 {
			c.Undecided("node/basicnode."+spec.typ+"."+spec.method, "-", "method not found")
			continue
		}
		for _, f := range spec.fields {
			if f == "" {
				c.Undecided("node/basicnode."+spec.typ+"."+spec.method+"#storage-field", "-", "storage field of the node under construction not identified by shape")
				continue
			}
			isFreshStore := func(in ssa.Instruction) bool {
				st, ok := in.(*ssa.Store)
				if !ok {
					return false
				}
				fa, ok := st.Addr.(*ssa.FieldAddr)
				if !ok || core.FieldName(fa) != f {
					return false
				}
				switch st.Val.(type) {
				case *ssa.MakeSlice, *ssa.MakeMap:
					return true
				}
				return false
			}
			isRet := func(in ssa.Instruction) bool {
				r, ok := in.(*ssa.Return)
				return ok && core.ResultNilness(r, 1) != core.NonNil
			}
			path, reached := core.Reach(fn, nil, isRet, nil, isFreshStore)
			c.Check(!reached, fmt.Sprintf("node/basicnode.%s.%s#fresh-%s", spec.typ, spec.method, f), p.Pos(fn.Pos()), "fresh storage on every path", "a successful "+spec.method+" can return without having stored freshly made storage into "+f+": the new node may reuse storage of a node built earlier", p.Witness(path)...)
		}
	}

	c.Rule("C01.builderfresh", resetText, 10)
	checkReset(c)

	c.Rule("C01.freshslot", freshSlotText, 6)
	checkFreshSlot(c)

	c.Rule("C01.begincopy", beginCopyText, 3)
	checkBeginCopy(c)

	c.Rule("C01.finishhook", finishHookText, 10)
	checkFinishHook(c)

	c.Rule("C01.comparable", "nodes can be compared for identity: every concrete type that library code places into a datamodel.Node interface value (or an interface that includes it) is comparable in Go's sense - a pointer, or a type without slice, map or function parts - because library code compares nodes with == / != (the transforming walk asks whether the callback returned the node it was given, selectors and tests do alike) and Go panics at run time when the dynamic types of such a comparison are not comparable", 1)
	{
		nodeI := p.Iface("datamodel", "Node")
		nmi := 0
		for _, fn := range p.ModFns {
			pk := core.FuncPkg(fn)
			if pk == nil || !libraryPkg(core.RelPkg(pk.Path())) || len(fn.Blocks) == 0 || nodeI == nil {
				continue
			}
			nbad := 0
			core.Instrs(fn, func(in ssa.Instruction) {
				mi, ok := in.(*ssa.MakeInterface)
				if !ok {
					return
				}
				it, ok := mi.Type().Underlying().(*types.Interface)
				if !ok || !types.Implements(mi.Type(), nodeI) && !types.AssignableTo(mi.Type(), types.NewInterfaceType(nil, nil)) {
					return
				}
				_ = it
				if !types.Implements(mi.Type(), nodeI) {
					return
				}
				nmi++
				if !types.Comparable(mi.X.Type()) {
					nbad++
					c.Fail(fmt.Sprintf("%s#node-of-uncomparable-type%d", core.FuncKey(fn), nbad), p.Pos(mi.Pos()), "a value of type "+core.TypeString(mi.X.Type())+", which is not comparable, is made into a datamodel.Node: comparing two such nodes with == or != panics ('comparing uncomparable type') - the transforming walk does so with every node the callback returns")
				}
			})
		}
		if nmi > 0 {
			c.OK("library#node-values-comparable", "-", fmt.Sprintf("%d conversions of concrete values to datamodel.Node examined", nmi))
		} else {
			c.Undecided("library#node-conversions", "-", "no conversion to datamodel.Node found")
		}
	}

	c.Rule("C01.copyabsent", "sibling agreement between the generic copies of a map: every function of the library that walks a node's MapIterator and assembles the entries into a map assembler (datamodel.Copy and the AssignNode copy paths of basicnode and of generated code) asks the value IsAbsent() and reaches the assembling of that entry only over the not-absent edge - an unset optional field of a typed struct is not an entry, and a copy that keeps it disagrees with datamodel.Copy and with equality", 3)
	{
		ncp := 0
		for _, fn := range p.ModFns {
			pk := core.FuncPkg(fn)
			if pk == nil || len(fn.Blocks) == 0 || fn.Synthetic != "" {
				continue
			}
			rel := core.RelPkg(pk.Path())
			if rel != "datamodel" && rel != "node/basicnode" && rel != "node/gendemo" {
				continue
			}
			nloop := 0
			for _, ci := range core.Calls(fn) {
				nx := core.CallValue(ci)
				if nx == nil || !nx.Call.IsInvoke() || nx.Call.Method.Name() != "Next" {
					continue
				}
				if nt := namedOfType(nx.Call.Value.Type()); nt == nil || nt.Obj().Name() != "MapIterator" {
					continue
				}
				// the value of this entry is handed to an assembler (AssignNode / Copy) in this function
				var uses []ssa.CallInstruction
				for _, cj := range core.Calls(fn) {
					o := core.CalleeObj(cj)
					if o == nil || (o.Name() != "AssignNode" && o.Name() != "Copy") {
						continue
					}
					for _, a := range core.Args(cj) {
						if extractOf(a, nx, 1) {
							uses = append(uses, cj)
						}
					}
				}
				if len(uses) == 0 {
					continue
				}
				ncp++
				nloop++
				// edges on which the value was found absent
				absent := core.BoolEdgesWhere(fn, func(v ssa.Value) bool {
					cl, ok := core.Strip(v).(*ssa.Call)
					return ok && cl.Call.IsInvoke() && cl.Call.Method.Name() == "IsAbsent" && extractOf(cl.Call.Value, nx, 1)
				}, false)
				bad := len(absent) == 0
				var wp []string
				for _, u := range uses {
					if path, reached := core.Reach(fn, nx, isTarget(u), absent, func(in ssa.Instruction) bool { return in == ssa.Instruction(nx) }); reached {
						bad = true
						wp = p.Witness(path)
					}
				}
				c.Check(!bad, fmt.Sprintf("%s#absent-skipped%d", core.FuncKey(fn), nloop), p.Pos(nx.Pos()), "an absent value is not copied as an entry", "the entry's value is handed to the assembler without IsAbsent() having been found false: the unset optional field of a typed struct is copied as an entry holding the Absent pseudo-node (datamodel.Copy of the same node leaves it out, and the two copies are not equal)", wp...)
			}
		}
		if ncp == 0 {
			c.Undecided("library#map-copy-loops", "-", "no map copy loop found")
		}
	}

	c.Rule("C01.uintnarrow", "an unsigned value is not squeezed into a signed one: in library packages, every conversion to a signed integer type of a value obtained from AsUint() is dominated by an edge on which that value was found not to exceed MaxInt64 - otherwise a node holding 2^63 or more is copied, encoded or compared as a negative number while the call reports success", 2)
	{
		nconv := 0
		for _, fn := range p.ModFns {
			pk := core.FuncPkg(fn)
			if pk == nil || !libraryPkg(core.RelPkg(pk.Path())) || len(fn.Blocks) == 0 || fn.Synthetic != "" {
				continue
			}
			n := 0
			core.Instrs(fn, func(in ssa.Instruction) {
				cv, ok := in.(*ssa.Convert)
				if !ok {
					return
				}
				tb, ok1 := cv.Type().Underlying().(*types.Basic)
				fb, ok2 := cv.X.Type().Underlying().(*types.Basic)
				if !ok1 || !ok2 || tb.Info()&types.IsInteger == 0 || fb.Info()&types.IsInteger == 0 || tb.Info()&types.IsUnsigned != 0 || fb.Info()&types.IsUnsigned == 0 {
					return
				}
				var src *ssa.Extract
				for w := range core.BackSlice(cv.X, core.SliceOpts{Local: true}) {
					if e, ok := w.(*ssa.Extract); ok && e.Index == 0 {
						if cl, ok := e.Tuple.(*ssa.Call); ok {
							if o := core.CalleeObj(cl); o != nil && o.Name() == "AsUint" {
								src = e
							}
						}
					}
				}
				if src == nil {
					return
				}
				n++
				nconv++
				about := func(v ssa.Value) bool {
					v = core.Strip(v)
					return v == core.Strip(cv.X) || v == ssa.Value(src)
				}
				// no way to the conversion goes around every edge that bounds the value (path-sensitive: the bound may be
				// folded into a flag that is tested later)
				bounding := core.EdgesWhere(fn, func(r core.Rel) bool {
					if !about(r.X) {
						return false
					}
					ub, ok := r.UpperBoundConst()
					return ok && constant.Compare(ub, token.LEQ, constant.MakeInt64(math.MaxInt64))
				})
				_, reached := core.Reach(fn, nil, func(x ssa.Instruction) bool { return x == ssa.Instruction(cv) }, bounding, nil)
				bounded := len(bounding) > 0 && !reached
				c.Check(bounded, fmt.Sprintf("%s#unsigned-to-signed/%d", core.FuncKey(fn), n), p.Pos(cv.Pos()), "converted only where it was found to fit", "a value read with AsUint() is converted to a signed integer without having been found <= MaxInt64 on this path: 2^63 and above become negative numbers, and the operation that uses the result succeeds with a different value than the node holds")
			})
		}
		_ = nconv
	}

	c.Rule("C01.intcompare", "deep equality compares integers in the domain they were read in: in datamodel.DeepEqual (helpers expanded) no operand of an integer ==/!= derives from a conversion between a signed and an unsigned integer type applied to what AsInt / AsUint returned (after such a conversion -1 and 2^64-1, or MinInt64 and 2^63, compare equal although the abstract values differ)", 1)
	if fn := p.Func("datamodel", "", "DeepEqual"); fn != nil {
		isIntT := func(t types.Type) (signed, ok bool) {
			b, isB := t.Underlying().(*types.Basic)
			if !isB || b.Info()&types.IsInteger == 0 {
				return false, false
			}
			return b.Info()&types.IsUnsigned == 0, true
		}
		bad := ""
		pos := fn.Pos()
		ncmp := 0
		core.InstrsR(fn, func(in ssa.Instruction) {
			bo, ok := in.(*ssa.BinOp)
			if !ok || (bo.Op != token.EQL && bo.Op != token.NEQ) {
				return
			}
			if _, isInt := isIntT(bo.X.Type()); !isInt {
				return
			}
			fromAs := false
			conv := false
			for _, opnd := range []ssa.Value{bo.X, bo.Y} {
				for w := range core.BackSlice(opnd, core.SliceOpts{Stores: true}) {
					switch x := w.(type) {
					case *ssa.Call:
						if x.Call.IsInvoke() && (x.Call.Method.Name() == "AsInt" || x.Call.Method.Name() == "AsUint") {
							fromAs = true
						}
					case *ssa.Convert:
						s1, ok1 := isIntT(x.X.Type())
						s2, ok2 := isIntT(x.Type())
						if ok1 && ok2 && s1 != s2 {
							conv = true
						}
					}
				}
			}
			if !fromAs {
				return
			}
			ncmp++
			if conv {
				bad = "an integer comparison's operand went through a signed/unsigned conversion"
				pos = bo.Pos()
			}
		})
		c.Check(ncmp > 0 && bad == "", "datamodel.DeepEqual#int-compare-domain", p.Pos(pos), "integers are compared as read", bad+": values that differ as integers (-1 and 18446744073709551615) compare equal")
	} else {
		c.Undecided("datamodel.DeepEqual", "-", "not found")
	}
}

const beginCopyText = "sibling agreement between the two ways a fresh recursive assembler is started: for every type that is both a NodeAssembler and a MapAssembler/ListAssembler, whatever storage its BeginMap/BeginList sets up before entries can be added (a map made with make, a node allocated where the parent has not provided one) is also set up on every path of its AssignNode that goes on to add entries through the assembler's own AssembleKey/AssembleValue/AssembleEntry - by calling that Begin method or making the same stores - so that copying a node of another implementation in does not write into storage that was never allocated"

// checkBeginCopy decides C01.begincopy.
func checkBeginCopy(c *core.Ctx) {
	p := c.P
	naI := p.Iface("datamodel", "NodeAssembler")
	maI := p.Iface("datamodel", "MapAssembler")
	laI := p.Iface("datamodel", "ListAssembler")
	if naI == nil || maI == nil || laI == nil {
		c.Undecided("datamodel#assembler-interfaces", "-", "NodeAssembler/MapAssembler/ListAssembler not found")
		return
	}
	// what a Begin method establishes - (kind, field) pairs
	setupsOf := func(fn *ssa.Function) []fieldSetup {
		var out []fieldSetup
		core.InstrsR(fn, func(in ssa.Instruction) {
			st, ok := in.(*ssa.Store)
			if !ok {
				return
			}
			id, _, ok := core.FieldOfAddr(st.Addr)
			if !ok {
				return
			}
			kind := ""
			switch v := core.Strip(st.Val).(type) {
			case *ssa.MakeMap:
				kind = "makemap"
			case *ssa.Alloc:
				if v.Heap {
					kind = "alloc"
				}
			}
			if kind == "" {
				return
			}
			// (a store under a condition - allocate the node if the parent has not provided one - counts as well: the
			// copy path runs on the same assembler, for which the condition may hold)
			out = append(out, fieldSetup{kind, id})
		})
		return out
	}
	for _, im := range p.Implementers(naI, libraryPkg) {
		T := im.Type()
		for _, rec := range []struct {
			iface *types.Interface
			begin string
			steps []string
		}{{maI, "BeginMap", []string{"AssembleKey", "AssembleValue", "AssembleEntry"}}, {laI, "BeginList", []string{"AssembleValue"}}} {
			if !types.Implements(T, rec.iface) {
				continue
			}
			begin, assign := p.Method(T, rec.begin), p.Method(T, "AssignNode")
			if begin == nil || assign == nil || len(begin.Blocks) == 0 || len(assign.Blocks) == 0 || begin.Synthetic != "" || assign.Synthetic != "" {
				continue
			}
			need := setupsOf(begin)
			key := core.TypeString(im.Named) + "#AssignNode-" + rec.begin
			if len(need) == 0 {
				c.Info(key, p.Pos(assign.Pos()), rec.begin+" sets up no storage that adding entries depends on")
				continue
			}
			recv := assign.Params[0]
			onSelf := func(ci ssa.CallInstruction, names ...string) bool {
				cal := ci.Common().StaticCallee()
				if cal == nil || cal.Signature.Recv() == nil || len(ci.Common().Args) == 0 {
					return false
				}
				hit := false
				for _, n := range names {
					if cal.Name() == n {
						hit = true
					}
				}
				if !hit {
					return false
				}
				a := ci.Common().Args[0]
				return core.Strip(a) == ssa.Value(recv) || core.SameValue(a, recv)
			}
			// barrier: the Begin method on the same assembler, or every store Begin would have made
			isBegin := func(in ssa.Instruction) bool {
				if ci, ok := in.(ssa.CallInstruction); ok && onSelf(ci, rec.begin) {
					return true
				}
				return false
			}
			var steps []ssa.CallInstruction
			for _, ci := range core.CallsR(assign) {
				if onSelf(ci, rec.steps...) {
					steps = append(steps, ci)
				}
			}
			if len(steps) == 0 {
				c.Info(key, p.Pos(assign.Pos()), "AssignNode does not add entries through the assembler's own steps")
				continue
			}
			ok := true
			var wit []string
			pos := assign.Pos()
			for _, stp := range steps {
				// equivalent stores on the way count setup by setup: block paths that made all of them
				path, reached := core.Reach(assign, nil, isTarget(stp), nil, func(in ssa.Instruction) bool {
					return isBegin(in)
				})
				if reached && !storesAllSetups(assign, stp, need) {
					ok = false
					wit = p.Witness(path)
					pos = stp.Pos()
				}
			}
			var kinds []string
			for _, s := range need {
				kinds = append(kinds, s.kind)
			}
			c.Check(ok, key, p.Pos(pos), "the copy path sets up what "+rec.begin+" sets up before adding entries", "AssignNode can add entries through its own "+strings.Join(rec.steps, "/")+" without "+rec.begin+" having run on this assembler: the storage "+rec.begin+" sets up ("+strings.Join(kinds, ", ")+") was never allocated - copying a node of another implementation writes into a nil map or through a nil node pointer", wit...)
		}
	}
}

// fieldSetup: a store that prepares storage - kind "makemap" (a made map) or "alloc" (a fresh heap allocation).
type fieldSetup struct {
	kind  string
	field core.FieldID
}

// storesAllSetups: on every path from fn's entry to target, each setup store (a made map / a fresh allocation stored to
// the field) has been executed.
func storesAllSetups(fn *ssa.Function, target ssa.CallInstruction, need []fieldSetup) bool {
	for _, s := range need {
		s := s
		does := func(in ssa.Instruction) bool {
			st, ok := in.(*ssa.Store)
			if !ok {
				return false
			}
			id, _, ok := core.FieldOfAddr(st.Addr)
			if !ok || id != s.field {
				return false
			}
			switch v := core.Strip(st.Val).(type) {
			case *ssa.MakeMap:
				return s.kind == "makemap"
			case *ssa.Alloc:
				return s.kind == "alloc" && v.Heap
			}
			return false
		}
		if _, reached := core.Reach(fn, nil, isTarget(target), nil, does); reached {
			return false
		}
	}
	return true
}
