package rules

// Roles in package traversal. The walk engine is a handful of unexported, mutually recursive methods whose names are
// nobody's API; the rules find them by what they do: which control field they decrement, whether they invoke the
// user's callback, whether they load blocks, whether they lead back to themselves.

import (
	"go/token"
	"go/types"
	"sort"

	"golang.org/x/tools/go/ssa"

	"verif/checker/internal/core"
)

type travRoles struct {
	p   *core.Program
	fns []*ssa.Function // functions of package traversal with bodies (closures included), sorted by key
	rec map[*ssa.Function]bool
}

func newTravRoles(p *core.Program) *travRoles {
	tr := &travRoles{p: p, rec: map[*ssa.Function]bool{}}
	for _, fn := range p.ModFns {
		pk := core.FuncPkg(fn)
		if pk == nil || core.RelPkg(pk.Path()) != "traversal" || len(fn.Blocks) == 0 || fn.Synthetic != "" {
			continue
		}
		tr.fns = append(tr.fns, fn)
	}
	sort.Slice(tr.fns, func(i, j int) bool { return core.FuncKey(tr.fns[i]) < core.FuncKey(tr.fns[j]) })
	for _, fn := range tr.fns {
		tr.rec[fn] = tr.reaches(fn, fn)
	}
	return tr
}

// succs: functions of the package that fn may enter: static callees and the closures it creates.
func (tr *travRoles) succs(fn *ssa.Function) []*ssa.Function {
	var out []*ssa.Function
	for _, ci := range core.Calls(fn) {
		if g := ci.Common().StaticCallee(); g != nil && len(g.Blocks) > 0 && core.FuncPkg(g) == core.FuncPkg(fn) {
			out = append(out, g)
		}
	}
	out = append(out, fn.AnonFuncs...)
	return out
}

func (tr *travRoles) reaches(from, to *ssa.Function) bool {
	seen := map[*ssa.Function]bool{}
	work := tr.succs(from)
	for len(work) > 0 {
		f := work[len(work)-1]
		work = work[:len(work)-1]
		if f == to {
			return true
		}
		if seen[f] {
			continue
		}
		seen[f] = true
		work = append(work, tr.succs(f)...)
	}
	return false
}

// recursive: fn lies on a cycle of static calls / closures inside the package (it is part of a recursive walk).
func (tr *travRoles) recursive(fn *ssa.Function) bool { return tr.rec[fn] }

// cycleOf lists the functions on fn's cycle (its strongly connected component), fn included.
func (tr *travRoles) cycleOf(fn *ssa.Function) []*ssa.Function {
	var out []*ssa.Function
	for _, g := range tr.fns {
		if g == fn || (tr.reaches(fn, g) && tr.reaches(g, fn)) {
			out = append(out, g)
		}
	}
	return out
}

// counterLoad: v is a load of Budget.<field>.
func counterLoad(v ssa.Value, field string) bool {
	u, ok := core.Strip(v).(*ssa.UnOp)
	if !ok || u.Op != token.MUL {
		return false
	}
	fa, ok := u.X.(*ssa.FieldAddr)
	return ok && core.FieldName(fa) == "Budget."+field
}

// isSpend: the instruction stores Budget.<field> - k (k a positive constant) back into Budget.<field>.
func isSpend(in ssa.Instruction, field string) (int64, bool) {
	st, ok := in.(*ssa.Store)
	if !ok {
		return 0, false
	}
	fa, ok := st.Addr.(*ssa.FieldAddr)
	if !ok || core.FieldName(fa) != "Budget."+field {
		return 0, false
	}
	bo, ok := st.Val.(*ssa.BinOp)
	if !ok || bo.Op != token.SUB || !counterLoad(bo.X, field) {
		return 0, false
	}
	k, isC := core.ConstInt(bo.Y)
	return k, isC && k > 0
}

// spendsIn lists the spend instructions of a counter in fn's own body.
func spendsIn(fn *ssa.Function, field string) []ssa.Instruction {
	var out []ssa.Instruction
	core.Instrs(fn, func(in ssa.Instruction) {
		if _, ok := isSpend(in, field); ok {
			out = append(out, in)
		}
	})
	return out
}

// userCallback: the call invokes a function value whose type is one of the package's callback types (VisitFn,
// AdvVisitFn, TransformFn) and that is not a function of the package itself (after resolving the helper boundaries of
// root's region): wherever the value travels - a parameter, a field of a state struct, a captured variable - calling it
// is invoking the user.
func userCallback(root *ssa.Function, ci ssa.CallInstruction) bool {
	return callbackType(root, ci) != ""
}

// callbackType: the name of the callback type the call invokes, "" when it is not a user callback.
func callbackType(root *ssa.Function, ci ssa.CallInstruction) string {
	cc := ci.Common()
	if cc.IsInvoke() || cc.StaticCallee() != nil {
		return ""
	}
	if _, isB := cc.Value.(*ssa.Builtin); isB {
		return ""
	}
	v := core.RegionOf(root).Canon(cc.Value)
	switch v.(type) {
	case *ssa.Function, *ssa.MakeClosure:
		return "" // code of the package (an adapter closure): analysed as code
	}
	for _, t := range []types.Type{v.Type(), cc.Value.Type()} {
		nt := namedOfType(t)
		if nt == nil || nt.Obj().Pkg() == nil || core.RelPkg(nt.Obj().Pkg().Path()) != "traversal" {
			continue
		}
		if _, isSig := nt.Underlying().(*types.Signature); isSig {
			return nt.Obj().Name()
		}
	}
	return ""
}

// carriesType: fn receives a value of the named type (package traversal) - as a parameter, or as a field of a struct
// (or pointer to struct) parameter.
func carriesType(fn *ssa.Function, name string) bool {
	is := func(t types.Type) bool {
		nt := namedOfType(t)
		return nt != nil && nt.Obj().Name() == name && nt.Obj().Pkg() != nil && core.RelPkg(nt.Obj().Pkg().Path()) == "traversal"
	}
	for _, prm := range fn.Params {
		t := prm.Type()
		if is(t) {
			return true
		}
		if pt, ok := t.Underlying().(*types.Pointer); ok {
			t = pt.Elem()
		}
		if st, ok := t.Underlying().(*types.Struct); ok {
			if nt := namedOfType(t); nt != nil && nt.Obj().Exported() {
				continue // Progress, Config: the API's own structs do not carry the callback
			}
			for i := 0; i < st.NumFields(); i++ {
				if is(st.Field(i).Type()) {
					return true
				}
			}
		}
	}
	return false
}

// descent: the call statically enters a function of the package that leads back to root (the recursion of the walk),
// or root itself.
func (tr *travRoles) descent(root *ssa.Function, ci ssa.CallInstruction) bool {
	g := ci.Common().StaticCallee()
	if g == nil || len(g.Blocks) == 0 || core.FuncPkg(g) != core.FuncPkg(root) {
		return false
	}
	return g == root || tr.reaches(g, root)
}

// isBlockLoad: a call of LinkSystem.Load / Fill / LoadRaw / LoadPlusRaw.
func isBlockLoad(ci ssa.CallInstruction) bool {
	for _, m := range []string{"Load", "Fill", "LoadRaw", "LoadPlusRaw"} {
		if core.IsMethod(ci, "", "LinkSystem", m) {
			return true
		}
	}
	return false
}

// isPhaseType: the package's walk-phase enum (an unexported integer enum of package traversal).
func isPhaseType(t types.Type) bool {
	nt := namedOfType(t)
	return nt != nil && nt.Obj().Pkg() != nil && core.RelPkg(nt.Obj().Pkg().Path()) == "traversal" && !nt.Obj().Exported() && isEnumType(t)
}

// hasPhase: fn is told the walk phase - by a parameter of the phase enum type, or by a field of that type in an
// unexported struct parameter (the values of one pass bundled together).
func hasPhase(fn *ssa.Function) bool {
	for _, prm := range fn.Params {
		t := prm.Type()
		if isPhaseType(t) {
			return true
		}
		if pt, ok := t.Underlying().(*types.Pointer); ok {
			t = pt.Elem()
		}
		if st, ok := t.Underlying().(*types.Struct); ok {
			if nt := namedOfType(t); nt != nil && nt.Obj().Exported() {
				continue
			}
			for i := 0; i < st.NumFields(); i++ {
				if isPhaseType(st.Field(i).Type()) {
					return true
				}
			}
		}
	}
	return false
}

// isPhaseValue: v is the phase an activation was told (any value of the phase enum type that is not a constant).
func isPhaseValue(v ssa.Value) bool {
	v = core.Strip(v)
	if _, isC := v.(*ssa.Const); isC {
		return false
	}
	return isPhaseType(v.Type())
}

// byRole helpers used by several properties --------------------------------------------------------------------

// visitingWalk: the recursive function behind the exported WalkAdv - the static callee (through helpers such as
// walkBlock) of (Progress).WalkAdv that is recursive and, in its region, invokes the AdvVisitFn callback.
func (tr *travRoles) walkersWithCallback() []*ssa.Function {
	var out []*ssa.Function
	for _, fn := range tr.fns {
		if !tr.recursive(fn) || fn.Parent() != nil {
			continue
		}
		has := false
		for _, ci := range core.CallsR(fn) {
			if userCallback(fn, ci) {
				has = true
			}
		}
		if has {
			out = append(out, fn)
		}
	}
	return out
}

// underWalkAPI: fn is, or is statically reachable inside the package from, an exported Walk* function or method
// (the walks of the property; Focus / Get / FocusedTransform address one path and are not walks).
func (tr *travRoles) underWalkAPI(fn *ssa.Function) bool {
	for _, g := range tr.fns {
		if g.Parent() == nil && token.IsExported(g.Name()) && len(g.Name()) >= 4 && g.Name()[:4] == "Walk" {
			if g == fn || tr.reaches(g, fn) {
				return true
			}
		}
	}
	return false
}

// absorbed: fn is a non-recursive helper that some other top-level function of the package expands at a call site;
// it is analysed there, with its caller's values in view.
func (tr *travRoles) absorbed(fn *ssa.Function) bool {
	if tr.recursive(fn) {
		return false
	}
	for _, other := range tr.fns {
		if other != fn && other.Parent() == nil && core.RegionOf(other).Has(fn) {
			return true
		}
	}
	return false
}

// isIterNext: a call of Next on a map/list/segment iterator: the walk moves on to the next child.
func isIterNext(in ssa.Instruction) bool {
	ci, ok := in.(ssa.CallInstruction)
	if !ok {
		return false
	}
	cc := ci.Common()
	if cc.IsInvoke() {
		return cc.Method.Name() == "Next"
	}
	if g := cc.StaticCallee(); g != nil && g.Name() == "Next" && g.Signature.Recv() != nil {
		return true
	}
	return false
}

// transformFn: a function of the transform machinery with the label the rules name it by.
type transformFn struct {
	fn    *ssa.Function
	label string // "FocusedTransform", "WalkTransforming", "WalkTransforming/list", "WalkTransforming/map"
}

// transformFns finds, by role, the recursive functions of package traversal that carry the user's TransformFn:
// the focused transform (reached from the exported FocusedTransform) and the transforming walk (reached from the
// exported WalkTransforming) with its list- and map-rebuilding iterators (the ones that open a list / a map on a builder).
func (tr *travRoles) transformFns() []transformFn {
	var out []transformFn
	used := map[string]int{}
	for _, fn := range tr.fns {
		if fn.Parent() != nil || !tr.recursive(fn) {
			continue
		}
		has := carriesType(fn, "TransformFn")
		if !has || token.IsExported(fn.Name()) {
			continue
		}
		label := "FocusedTransform"
		if tr.underWalkAPI(fn) {
			label = "WalkTransforming"
			for _, ci := range core.Calls(fn) {
				cc := ci.Common()
				if cc.IsInvoke() && cc.Method.Name() == "BeginList" {
					label = "WalkTransforming/list"
				}
				if cc.IsInvoke() && cc.Method.Name() == "BeginMap" {
					label = "WalkTransforming/map"
				}
			}
		}
		used[label]++
		out = append(out, transformFn{fn, label})
	}
	// labels must name one function each; when a role is split over several functions, tell them apart by name
	for i := range out {
		if used[out[i].label] > 1 {
			out[i].label += ":" + out[i].fn.Name()
		}
	}
	return out
}

// loadsBlock: g (a function of the package that is not part of a recursion) loads a block somewhere in its region.
func (tr *travRoles) loadsBlock(g *ssa.Function) bool {
	if g == nil || len(g.Blocks) == 0 || tr.recursive(g) || core.FuncPkg(g) == nil || core.RelPkg(core.FuncPkg(g).Path()) != "traversal" {
		return false
	}
	for _, ci := range core.CallsR(g) {
		if isBlockLoad(ci) {
			return true
		}
	}
	return false
}

// isTransformCallee: the callee is (an exported wrapper of) a recursive function carrying the TransformFn.
func (tr *travRoles) isTransformCallee(cal *ssa.Function) bool {
	if cal == nil || len(cal.Blocks) == 0 || core.FuncPkg(cal) == nil || core.RelPkg(core.FuncPkg(cal).Path()) != "traversal" || !tr.recursive(cal) {
		return false
	}
	return carriesType(cal, "TransformFn")
}
