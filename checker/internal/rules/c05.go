package rules

import (
	"fmt"
	"go/token"
	"go/types"
	"sort"
	"strings"

	"golang.org/x/tools/go/ssa"

	"verif/checker/internal/core"
)

func init() {
	register(&Def{
		ID: "C05",
		Explanation: "Structural necessary conditions of 'links are a function of value and prototype': Store and ComputeLink derive the link identically (encoder and hasher chosen from the same prototype parameter in this activation, the encoder's writer reaches that hasher, link = lp.BuildLink(H.Sum()), the committed link is the returned link); the multicodec-registry choosers look codecs/hashers up only by the link/prototype they are given; load-side choosers are asked about the requested link; storage is keyed by lnk.Binary() on both sides; no operational LinkSystem method or chooser writes a LinkSystem field or package-level variable (nothing depends on previous operations).  (chooserrefuses) the choosers of the registry-based link system refuse only what the registry refuses or a foreign prototype type." +
			"Codec determinism (C02/C04) and BuildLink arithmetic are not decided.",
		NotCovered: []string{"determinism of the codecs themselves", "BuildLink truncation / CID version arithmetic", "equality of loaded node with stored node"},
		Trusted:    []string{"go/ssa, go/types", "hash.Hash, io.MultiWriter semantics", "multicodec.Registry lookups are pure (C20.globals)"},
		Run:        runC05,
	})
}

func runC05(c *core.Ctx) {
	p := c.P
	c.Rule("C05.decoderbytes", decoderBytesText, 4)
	checkDecoderBytes(c)

	c.Rule("C05.samederivation", "Store and ComputeLink: encoder = EncoderChooser(lp) and hasher = HasherChooser(lp) with lp the prototype parameter, both obtained in this activation and never stored to a field or global; the encoder's writer argument is the hasher or an io.MultiWriter containing it; the link is lp.BuildLink(hasher.Sum(..)) with the same lp and hasher; in Store the value passed to the committer is the value returned", 10)
	for _, name := range []string{"Store", "ComputeLink"} {
		fn := p.Func("linking", "*LinkSystem", name)
		if fn == nil {
			c.Undecided("linking.(*LinkSystem)."+name, "-", "not found")
			continue
		}
		key := core.FuncKey(fn)
		rg := core.RegionOf(fn)
		lp := paramOfType(fn, "datamodel", "LinkPrototype")
		node := paramOfType(fn, "datamodel", "Node")
		var encCh, hashCh []*ssa.Call
		for _, ci := range core.CallsR(fn) {
			if cv := core.CallValue(ci); cv != nil {
				if fieldFuncCall(ci, "LinkSystem", "EncoderChooser") {
					encCh = append(encCh, cv)
				}
				if fieldFuncCall(ci, "LinkSystem", "HasherChooser") {
					hashCh = append(hashCh, cv)
				}
			}
		}
		if lp == nil || len(encCh) != 1 || len(hashCh) != 1 {
			c.Fail(key+"#choosers", p.Pos(fn.Pos()), fmt.Sprintf("expected exactly one EncoderChooser and one HasherChooser call on the prototype parameter (found %d, %d)", len(encCh), len(hashCh)))
			continue
		}
		c.Check(core.SameValue(encCh[0].Call.Args[0], lp), key+"#encoder-from-lp", p.Pos(encCh[0].Pos()), "encoder chosen from the prototype parameter", "EncoderChooser is not asked about the prototype parameter")
		c.Check(core.SameValue(hashCh[0].Call.Args[0], lp), key+"#hasher-from-lp", p.Pos(hashCh[0].Pos()), "hasher chosen from the prototype parameter", "HasherChooser is not asked about the prototype parameter")
		isH := func(v ssa.Value) bool { return extractOf(v, hashCh[0], 0) }
		// hasher never stored to field/global
		escaped := false
		core.InstrsR(fn, func(in ssa.Instruction) {
			if st, ok := in.(*ssa.Store); ok && isH(st.Val) {
				w := p.LocalEffects(fn)
				_ = w
				if _, isAlloc := rootOf(st.Addr).(*ssa.Alloc); !isAlloc {
					escaped = true
				}
			}
		})
		c.Check(!escaped, key+"#hasher-per-call", p.Pos(hashCh[0].Pos()), "hasher is local to this activation", "the hasher is stored outside this activation (shared between operations)")
		// encoder calls
		var encCalls []*ssa.Call
		for _, ci := range core.CallsR(fn) {
			cv := core.CallValue(ci)
			if cv != nil && !cv.Call.IsInvoke() && cv.Call.StaticCallee() == nil && extractOf(cv.Call.Value, encCh[0], 0) {
				encCalls = append(encCalls, cv)
			}
		}
		if len(encCalls) != 1 {
			c.Fail(key+"#encode", p.Pos(fn.Pos()), fmt.Sprintf("expected exactly one call of the chosen encoder, found %d", len(encCalls)))
			continue
		}
		ec := encCalls[0]
		c.Check(node != nil && core.SameValue(ec.Call.Args[0], node), key+"#encode-node", p.Pos(ec.Pos()), "the encoder is given the node parameter", "the encoder is not given the node parameter")
		wsl := core.BackSlice(ec.Call.Args[1], core.SliceOpts{Stores: true, ThroughCallsIf: func(cl *ssa.Call) bool { return core.IsPkgFunc(cl, "io", "MultiWriter") }})
		reaches := false
		for w := range wsl {
			if isH(w) {
				reaches = true
			}
		}
		c.Check(reaches, key+"#writer-reaches-hasher", p.Pos(ec.Pos()), "the encoder writes into the chosen hasher (directly or through io.MultiWriter)", "the encoder's writer does not reach the hasher whose Sum builds the link")
		// link
		errIdx := core.ErrResultIndex(fn)
		var builds []*ssa.Call
		for _, ci := range core.CallsR(fn) {
			if cv := core.CallValue(ci); cv != nil && core.IsMethodNamed(ci, "BuildLink") {
				builds = append(builds, cv)
			}
		}
		goodBuild := func(v ssa.Value) bool {
			bl, ok := rg.Canon(v).(*ssa.Call)
			if !ok || !core.IsMethodNamed(bl, "BuildLink") || !core.SameValue(core.Receiver(bl), lp) {
				return false
			}
			sum, ok := rg.Canon(core.Args(bl)[0]).(*ssa.Call)
			return ok && core.IsMethodNamed(sum, "Sum") && isH(core.Receiver(sum))
		}
		for _, ret := range core.Returns(fn) {
			if core.ResultNilness(ret, errIdx) == core.NonNil {
				// the commit's own failure is reported together with the link it was asked to commit (`return lnk,
				// commitFn(lnk)`, or the same spelled out): the error derives from a call that was given that very link
				commitFailure := false
				if errIdx < len(ret.Results) && len(ret.Results) > 0 {
					for w := range core.BackSlice(ret.Results[errIdx], core.SliceOpts{Local: true}) {
						if cl, ok := w.(*ssa.Call); ok {
							for _, a := range cl.Call.Args {
								if core.Strip(a) == core.Strip(ret.Results[0]) && !core.IsNilConst(a) {
									commitFailure = true
								}
							}
						}
					}
				}
				if commitFailure {
					continue
				}
				c.Check(core.ResultNilness(ret, 0) == core.IsNil, key+"#fail-return-nil-link", p.Pos(ret.Pos()), "failure returns no link", "a failure return carries a link")
				continue
			}
			vals := core.ResultValues(ret, 0)
			ok := len(vals) == 1 && goodBuild(vals[0])
			c.Check(ok, key+"#link-derivation", p.Pos(ret.Pos()), "returned link = lp.BuildLink(hasher.Sum(..)) of the same prototype and hasher", "the returned link is not lp.BuildLink(H.Sum()) of the prototype parameter and the hasher the encoder wrote into")
			// ordering: encode happens before Sum on every path
			if ok {
				bl := rg.Canon(vals[0]).(*ssa.Call)
				sum := rg.Canon(core.Args(bl)[0]).(*ssa.Call)
				_, r := core.Reach(fn, nil, isTarget(sum), nil, isTarget(ec))
				c.Check(!r, key+"#encode-before-sum", p.Pos(sum.Pos()), "Sum is taken only after the encoder ran", "hasher.Sum reachable before the encoder has written")
			}
		}
		if name == "Store" {
			var opener *ssa.Call
			for _, ci := range core.CallsR(fn) {
				if fieldFuncCall(ci, "LinkSystem", "StorageWriteOpener") {
					opener = core.CallValue(ci)
				}
			}
			n := 0
			for _, ci := range core.CallsR(fn) {
				cc := ci.Common()
				if opener != nil && !cc.IsInvoke() && cc.StaticCallee() == nil && extractOf(cc.Value, opener, 1) {
					n++
					okArg := goodBuild(cc.Args[0])
					same := false
					for _, ret := range core.Returns(fn) {
						for _, v := range core.ResultValues(ret, 0) {
							if core.SameValue(v, cc.Args[0]) {
								same = true
							}
						}
					}
					c.Check(okArg && same, key+"#commit-same-link", p.Pos(ci.Pos()), "the block is committed under the very link that is returned", "the committer receives a different link than the one returned / derived")
				}
			}
			if n == 0 {
				c.Undecided(key+"#commit-same-link", p.Pos(fn.Pos()), "committer call not found")
			}
			// writer given to MultiWriter is the storage writer
			if opener != nil {
				has := false
				for w := range wsl {
					if extractOf(w, opener, 0) {
						has = true
					}
				}
				c.Check(has, key+"#writer-reaches-storage", p.Pos(ec.Pos()), "the encoder also writes into the storage writer", "the encoder's output does not reach the storage writer")
			}
		}
		_ = builds
	}

	c.Rule("C05.choosers", "in LinkSystemUsingMulticodecRegistry each chooser closure passes to LookupEncoder/LookupDecoder/GetHasher a value derived only from its own link/prototype parameter (codec / multihash code of that prototype)", 3)
	if fn, chs := linkSystemChoosers(p); fn != nil {
		var names []string
		for n := range chs {
			names = append(names, n)
		}
		sort.Strings(names)
		if len(names) < 3 {
			c.Undecided(core.FuncKey(fn)+"#choosers", p.Pos(fn.Pos()), fmt.Sprintf("only %v of the three chooser fields are given a locally decidable function", names))
		}
		for _, n := range names {
			cl := chs[n]
			prm := chooserParam(cl)
			for _, ci := range core.CallsR(cl) {
				o := core.CalleeObj(ci)
				if o == nil {
					continue
				}
				switch o.Name() {
				case "LookupEncoder", "LookupDecoder", "GetHasher":
				default:
					continue
				}
				args := core.Args(ci)
				if len(args) != 1 || cl.Signature.Params().Len() != 1 || prm == nil {
					c.Undecided(core.FuncKey(fn)+"#"+o.Name(), p.Pos(ci.Pos()), "unexpected chooser shape")
					continue
				}
				sl := core.BackSlice(args[0], core.SliceOpts{ThroughCalls: true, Stores: true, Region: core.RegionOf(cl)})
				onlyParam := sl[prm]
				for w := range sl {
					switch w.(type) {
					case *ssa.FreeVar, *ssa.Global:
						onlyParam = false
					case *ssa.Parameter:
						if w != ssa.Value(prm) && w.(*ssa.Parameter).Parent() == cl {
							onlyParam = false
						}
					}
				}
				c.Check(onlyParam, core.FuncKey(fn)+"#"+o.Name(), p.Pos(ci.Pos()), o.Name()+" keyed only by the given link/prototype", o.Name()+" is keyed by something other than the chooser's own link/prototype parameter")
			}
		}
	} else {
		c.Undecided("linking/cid.LinkSystemUsingMulticodecRegistry", "-", "not found")
	}

	c.Rule("C05.freshhasher", freshHasherText, 1)
	checkFreshHasher(c)

	c.Rule("C05.chooserrefuses", "what can be stored can be loaded back with every hash and codec the registries know: each chooser the registry-based link system installs (encoder, decoder, hasher) returns an error only where it hands on the error of the registry look-up, or where the prototype is not of the package's own type (the failed arm of the type switch) - it adds no refusal of its own (a plausibility test on digest length refuses identity links, whose 'digest' is the block)", 6)
	if _, chs := linkSystemChoosers(p); chs != nil {
		for _, name := range []string{"EncoderChooser", "DecoderChooser", "HasherChooser"} {
			cl := chs[name]
			if cl == nil || len(cl.Blocks) == 0 {
				continue
			}
			errIdx := core.ErrResultIndex(cl)
			if errIdx < 0 {
				continue
			}
			foreign := core.BoolEdgesWhere(cl, func(v ssa.Value) bool {
				e, ok := core.Strip(v).(*ssa.Extract)
				if !ok || e.Index != 1 {
					return false
				}
				ta, ok := e.Tuple.(*ssa.TypeAssert)
				return ok && ta.CommaOk
			}, false)
			n := 0
			for _, ret := range core.Returns(cl) {
				if core.ResultNilness(ret, errIdx) == core.IsNil {
					continue
				}
				n++
				ok := false
				for _, ev := range core.ResultValues(ret, errIdx) {
					for w := range core.BackSlice(ev, core.SliceOpts{Local: true}) {
						if e, isE := w.(*ssa.Extract); isE {
							if cv, isC := e.Tuple.(*ssa.Call); isC && core.IsErrorType(e.Type()) {
								if o := core.CalleeObj(cv); o != nil && (o.Name() == "GetHasher" || o.Name() == "LookupEncoder" || o.Name() == "LookupDecoder") {
									ok = true
								}
							}
						}
					}
				}
				for e := range foreign {
					if core.EdgeDominates(e, ret.Block()) {
						ok = true
					}
				}
				// ... or wraps it: the return lies beyond the non-nil edge of the look-up's error
				for e := range core.EdgesWhere(cl, func(r core.Rel) bool {
					if r.Op != token.NEQ || !core.IsNilConst(r.Y) {
						return false
					}
					ex, isE := core.Strip(r.X).(*ssa.Extract)
					if !isE {
						return false
					}
					cv, isC := ex.Tuple.(*ssa.Call)
					if !isC {
						return false
					}
					o := core.CalleeObj(cv)
					return o != nil && (o.Name() == "GetHasher" || o.Name() == "LookupEncoder" || o.Name() == "LookupDecoder")
				}) {
					if core.EdgeDominates(e, ret.Block()) {
						ok = true
					}
				}
				c.Check(ok, fmt.Sprintf("%s#refusal%d", core.FuncKey(cl), n), p.Pos(ret.Pos()), "hands on the registry's error, or the prototype is of a foreign type", "the "+name+" refuses a prototype of its own type although the registry did not: links with that hash / codec / length can no longer be loaded (or stored) by this link system while ComputeLink and other link systems still produce them")
			}
		}
	}

	c.Rule("C05.storecommits", putStoresText, 1)
	checkPutStores(c, []struct{ rel, typ string }{{"linking/cid", "Memory"}})

	c.Rule("C05.loadside", "every load function asks DecoderChooser about the requested link and HasherChooser about lnk.Prototype()", 4)
	lsT := p.NamedType("linking", "LinkSystem")
	if lsT != nil {
		ms := p.SSA.MethodSets.MethodSet(types.NewPointer(lsT))
		for i := 0; i < ms.Len(); i++ {
			fn := p.SSA.MethodValue(ms.At(i))
			if fn == nil || len(fn.Blocks) == 0 {
				continue
			}
			lnk := paramOfType(fn, "datamodel", "Link")
			if lnk == nil {
				continue
			}
			for _, ci := range core.Calls(fn) {
				cv := core.CallValue(ci)
				if cv == nil {
					continue
				}
				if fieldFuncCall(ci, "LinkSystem", "DecoderChooser") {
					c.Check(core.Strip(cv.Call.Args[0]) == ssa.Value(lnk), core.FuncKey(fn)+"#decoder-from-lnk", p.Pos(ci.Pos()), "decoder chosen from the requested link", "DecoderChooser is not asked about the requested link")
				}
				if fieldFuncCall(ci, "LinkSystem", "HasherChooser") {
					pr, ok := core.Strip(cv.Call.Args[0]).(*ssa.Call)
					c.Check(ok && core.IsMethodNamed(pr, "Prototype") && core.Strip(core.Receiver(pr)) == ssa.Value(lnk), core.FuncKey(fn)+"#hasher-from-lnk", p.Pos(ci.Pos()), "hasher chosen from lnk.Prototype()", "HasherChooser is not asked about the requested link's prototype")
				}
			}
		}
	}

	c.Rule("C05.key", "SetReadStorage and SetWriteStorage key the storage by Binary() of the link their callback receives (same key function on both sides)", 2)
	for _, name := range []string{"SetReadStorage", "SetWriteStorage"} {
		fn := p.Func("linking", "*LinkSystem", name)
		if fn == nil {
			c.Undecided("linking.(*LinkSystem)."+name, "-", "not found")
			continue
		}
		found := false
		for _, cl := range core.WithClosures(fn) {
			lnk := paramOfType(cl, "datamodel", "Link")
			if lnk == nil {
				continue
			}
			for _, ci := range core.Calls(cl) {
				cc := ci.Common()
				// storage call: static call into package storage, or a call of a function value (the committer)
				isStorage := false
				if cal := cc.StaticCallee(); cal != nil && core.FuncPkg(cal) != nil && core.RelPkg(core.FuncPkg(cal).Path()) == "storage" {
					isStorage = true
				}
				if !cc.IsInvoke() && cc.StaticCallee() == nil {
					if _, isB := cc.Value.(*ssa.Builtin); !isB {
						isStorage = true
					}
				}
				if !isStorage {
					continue
				}
				for _, a := range cc.Args {
					if b, ok := a.Type().Underlying().(*types.Basic); ok && b.Kind() == types.String {
						found = true
						bc, ok := core.Strip(a).(*ssa.Call)
						c.Check(ok && core.IsMethodNamed(bc, "Binary") && core.Strip(core.Receiver(bc)) == ssa.Value(lnk), core.FuncKey(fn)+"#key", p.Pos(ci.Pos()), "storage keyed by lnk.Binary()", "storage key is not Binary() of the callback's link")
					}
				}
			}
		}
		if !found {
			c.Undecided(core.FuncKey(fn)+"#key", p.Pos(fn.Pos()), "no keyed storage call found")
		}
	}

	c.Rule("C05.stateless", "no operational LinkSystem method (Load*, Fill, Store, ComputeLink, Must*), no function they statically call inside package linking, and no chooser closure writes a field of LinkSystem or a package-level variable (results never depend on previous operations); the only LinkSystem writers are the Set*Storage configuration methods", 9)
	if lsT != nil {
		ms := p.SSA.MethodSets.MethodSet(types.NewPointer(lsT))
		var fns []*ssa.Function
		for i := 0; i < ms.Len(); i++ {
			fn := p.SSA.MethodValue(ms.At(i))
			if fn == nil || len(fn.Blocks) == 0 || strings.HasPrefix(fn.Name(), "Set") {
				continue
			}
			fns = append(fns, core.WithClosures(fn)...)
		}
		if _, chs := linkSystemChoosers(p); chs != nil {
			for _, n := range []string{"DecoderChooser", "EncoderChooser", "HasherChooser"} {
				if chs[n] != nil {
					fns = append(fns, chs[n])
				}
			}
		}
		isChooser := map[*ssa.Function]bool{}
		if _, chs := linkSystemChoosers(p); chs != nil {
			for _, a := range chs {
				isChooser[a] = true
			}
		}
		for _, fn := range fns {
			bad := ""
			for _, w := range p.LocalEffects(fn).Writes {
				if w.Class == core.RootFresh {
					continue
				}
				if isChooser[fn] {
					// a chooser is a pure lookup: any write to captured or shared memory (caches, counters) makes
					// results depend on previous operations
					bad = "chooser writes non-local memory (" + w.Kind + " " + fieldDesc(w) + ", root " + w.Class.String() + ")"
				}
				if w.Global != nil {
					bad = "writes package-level variable " + w.Global.Name()
				}
				for _, st := range w.Chain {
					if st.Struct != nil && st.Struct.Obj().Name() == "LinkSystem" {
						bad = "writes LinkSystem." + st.Field
					}
				}
			}
			c.Check(bad == "", core.FuncKey(fn)+"#stateless", p.Pos(fn.Pos()), "writes no LinkSystem field and no global", bad)
		}
	}
}

// rootOf strips field/index address steps.
func rootOf(a ssa.Value) ssa.Value {
	for {
		switch x := a.(type) {
		case *ssa.FieldAddr:
			a = x.X
		case *ssa.IndexAddr:
			a = x.X
		default:
			return a
		}
	}
}

const freshHasherText = "the registry HasherChooser returns, on every success return, a hasher obtained from GetHasher in that very activation (never an instance kept in a captured variable, map or global): each operation hashes into its own state"

// checkFreshHasher is shared by C05 (links do not depend on previous operations) and C20 (hashers are per call).
func checkFreshHasher(c *core.Ctx) {
	p := c.P
	if _, chs := linkSystemChoosers(p); chs != nil {
		for _, name := range []string{"HasherChooser"} {
			cl := chs[name]
			if cl == nil {
				c.Undecided("linking/cid.LinkSystemUsingMulticodecRegistry#HasherChooser", "-", "the function installed as HasherChooser is not locally decidable")
				continue
			}
			res := cl.Signature.Results()
			if res.Len() != 2 {
				continue
			}
			nt := namedOfType(res.At(0).Type())
			if nt == nil || nt.Obj().Name() != "Hash" || nt.Obj().Pkg().Path() != "hash" {
				continue
			}
			for _, ret := range core.Returns(cl) {
				if core.ResultNilness(ret, 1) == core.NonNil {
					continue
				}
				for _, v := range core.ResultValues(ret, 0) {
					ok := false
					if e, isE := core.Strip(v).(*ssa.Extract); isE && e.Index == 0 {
						if cv, isC := e.Tuple.(*ssa.Call); isC {
							if o := core.CalleeObj(cv); o != nil && o.Name() == "GetHasher" {
								ok = true
							}
						}
					}
					c.Check(ok, core.FuncKey(cl)+"#fresh-hasher", p.Pos(ret.Pos()), "returns the hasher GetHasher produced in this activation", "the chooser returns a hasher that was not obtained from GetHasher in this activation (a cached/shared instance): overlapping operations of the same multihash type corrupt each other's digests")
				}
			}
		}
	}

}
