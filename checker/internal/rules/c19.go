package rules

import (
	"fmt"
	"go/token"
	"go/types"
	"sort"
	"strings"

	"golang.org/x/tools/go/ssa"

	"verif/checker/internal/core"
)

func init() {
	register(&Def{
		ID: "C19",
		Explanation: "Structural necessary conditions of 'binding is faithful and a pure function of its inputs': (pure) no function reachable (CHA) from bindnode.Wrap / Prototype / Unwrap writes a package-level variable outside initialisation (no state is left behind by a binding call); (verify) every normal return of Wrap and Prototype passes verifyCompatibility or one of the two inference functions; (overflow) every reflect.Value.SetInt / SetUint in bindnode is behind the no-overflow edge of the matching OverflowInt / OverflowUint test on the same destination and operand; (unwrap) Unwrap returns the address of the node's own value, not of a copy.  Shallow copies of package-level structs with reference fields count as the package variable when written through." +
			"Faithfulness of the reflection walk and marshal/unmarshal round trips are value-level and not decided.",
		NotCovered: []string{"faithfulness of the reflection walk over arbitrary Go values", "Marshal/Unmarshal round trip", "SetFloat into float32 (inherently lossy)", "repeated field types inside one inferred schema (observed: struct{X B; Y B} still panics with duplicate type name)"},
		Trusted:    []string{"go/ssa, go/types, CHA call graph", "package reflect"},
		Run:        runC19,
	})
}

// hasReferenceField: a struct type with a field through which a copy still reaches the original's storage.
func hasReferenceField(t types.Type) bool {
	st, ok := t.Underlying().(*types.Struct)
	if !ok {
		return false
	}
	for i := 0; i < st.NumFields(); i++ {
		switch st.Field(i).Type().Underlying().(type) {
		case *types.Map, *types.Slice, *types.Pointer, *types.Chan:
			return true
		}
	}
	return false
}

func runC19(c *core.Ctx) {
	p := c.P
	wtp := writesThroughParam(p)
	cg := p.CHA()

	c.Rule("C19.pure", "no function reachable from bindnode.Wrap, Prototype or Unwrap writes a package-level variable of the module (direct store, map update, or by reference through a callee that writes its parameter) outside package initialisation", 3)
	for _, name := range []string{"Wrap", "Prototype", "Unwrap"} {
		fn := p.Func("node/bindnode", "", name)
		if fn == nil {
			c.Undecided("node/bindnode."+name, "-", "not found")
			continue
		}
		pred := chaReach(p, cg, []*ssa.Function{fn})
		var fns []*ssa.Function
		for f := range pred {
			fns = append(fns, f)
		}
		sort.Slice(fns, func(i, j int) bool { return core.FuncKey(fns[i]) < core.FuncKey(fns[j]) })
		bad := 0
		for _, f := range fns {
			if isInit(f) {
				continue
			}
			report := func(g *ssa.Global, pos token.Pos, how string) {
				bad++
				gname := core.RelPkg(g.Pkg.Pkg.Path()) + "." + g.Name()
				c.Fail(fmt.Sprintf("bindnode.%s=>%s#writes:%s", name, core.FuncKey(f), gname), p.Pos(pos), fmt.Sprintf("bindnode.%s reaches a write (%s) to package-level variable %s: repeated or interleaved binding calls observe state left behind by earlier ones", name, how, gname), chainTo(pred, f)...)
			}
			for _, w := range p.LocalEffects(f).Writes {
				if w.Global != nil && p.InModuleGlobal(w.Global) {
					report(w.Global, w.Instr.Pos(), w.Kind)
				}
			}
			for _, ci := range core.Calls(f) {
				// a package-level variable handed by reference to a function outside the module (sync.Map.Store,
				// atomic.Add..., (*bytes.Buffer).Write ...): state is kept across calls unless the callee is known read-only
				if o := core.CalleeObj(ci); o != nil && o.Pkg() != nil && !strings.HasPrefix(o.Pkg().Path(), core.ModPath) {
					for _, a := range ci.Common().Args {
						if g, ok := rootOf(core.Strip(a)).(*ssa.Global); ok && p.InModuleGlobal(g) && !externalReadOnly[o.Name()] {
							report(g, ci.Pos(), "call "+o.FullName())
						}
					}
				}
				cal := ci.Common().StaticCallee()
				if cal == nil || wtp[cal] == nil {
					continue
				}
				for j, a := range ci.Common().Args {
					if wtp[cal][j] {
						if g := globalRoot(a); g != nil && p.InModuleGlobal(g) {
							report(g, ci.Pos(), "call "+core.FuncKey(cal))
						}
						// a local that was filled by copying a package-level struct: the copy is shallow, its maps,
						// slices and pointers are still the package's
						if al, ok := classifyForParam(a).(*ssa.Alloc); ok && hasReferenceField(al.Type().(*types.Pointer).Elem()) {
							for _, ref := range *al.Referrers() {
								st, ok := ref.(*ssa.Store)
								if !ok || st.Addr != ssa.Value(al) {
									continue
								}
								if u, ok := core.Strip(st.Val).(*ssa.UnOp); ok && u.Op == token.MUL {
									if g, ok := u.X.(*ssa.Global); ok && p.InModuleGlobal(g) {
										report(g, ci.Pos(), "call "+core.FuncKey(cal)+" on a shallow copy")
									}
								}
							}
						}
					}
				}
			}
		}
		if bad == 0 {
			c.OK("bindnode."+name+"#pure", p.Pos(fn.Pos()), fmt.Sprintf("%d reachable functions, no package-level write", len(pred)))
		}
	}

	c.Rule("C19.verify", "every normal return of bindnode.Wrap and bindnode.Prototype passes a call of verifyCompatibility, inferSchema or inferGoType: a (Go type, schema type) pair is never bound unchecked", 2)
	for _, name := range []string{"Wrap", "Prototype"} {
		fn := p.Func("node/bindnode", "", name)
		if fn == nil {
			continue
		}
		isCheck := func(in ssa.Instruction) bool {
			ci, ok := in.(ssa.CallInstruction)
			if !ok {
				return false
			}
			cal := ci.Common().StaticCallee()
			if cal == nil {
				return false
			}
			// by role: the compatibility check (Go type and schema type in) or one of the two inference directions
			return core.FuncPkg(cal) == core.FuncPkg(fn) && isTypeBridge(cal) && cal != fn && !token.IsExported(cal.Name())
		}
		for _, ret := range core.Returns(fn) {
			path, reached := core.Reach(fn, nil, isTarget(ret), nil, isCheck)
			c.Check(!reached, "node/bindnode."+name+"#verified", p.Pos(ret.Pos()), "every path passes verification or inference", "a node/prototype can be returned for a Go type and schema type that were neither verified against each other nor inferred", p.Witness(path)...)
		}
	}

	c.Rule("C19.overflow", "every (reflect.Value).SetInt / SetUint call in node/bindnode is dominated by the not-overflowing edge of OverflowInt / OverflowUint called on the same destination value with the same operand", 6)
	for _, fn := range p.ModFns {
		pk := core.FuncPkg(fn)
		if pk == nil || core.RelPkg(pk.Path()) != "node/bindnode" || len(fn.Blocks) == 0 {
			continue
		}
		n := 0
		for _, ci := range core.Calls(fn) {
			var ovf string
			switch {
			case core.IsMethod(ci, "reflect", "Value", "SetInt"):
				ovf = "OverflowInt"
			case core.IsMethod(ci, "reflect", "Value", "SetUint"):
				ovf = "OverflowUint"
			default:
				continue
			}
			n++
			recv, arg := ci.Common().Args[0], ci.Common().Args[1]
			isOvf := func(v ssa.Value) bool {
				oc, ok := v.(*ssa.Call)
				if !ok || !core.IsMethod(oc, "reflect", "Value", ovf) {
					return false
				}
				return sameValueShallow(oc.Call.Args[0], recv) && sameValueShallow(oc.Call.Args[1], arg)
			}
			// the test's result may be kept in a boolean before it is branched on (overflows := ...; if overflows {..}):
			// a phi of boolean values one of which is the matching test counts as that test
			var viaPhi func(v ssa.Value, seen map[ssa.Value]bool) bool
			viaPhi = func(v ssa.Value, seen map[ssa.Value]bool) bool {
				if isOvf(v) {
					return true
				}
				phi, ok := v.(*ssa.Phi)
				if !ok || seen[v] {
					return false
				}
				seen[v] = true
				for _, e := range phi.Edges {
					if viaPhi(e, seen) {
						return true
					}
				}
				return false
			}
			edges := core.BoolEdgesWhere(fn, func(v ssa.Value) bool { return viaPhi(v, map[ssa.Value]bool{}) }, false)
			path, reached := core.Reach(fn, nil, isTarget(ci), edges, nil)
			c.Check(len(edges) > 0 && !reached, fmt.Sprintf("%s#%s%d", core.FuncKey(fn), ci.Common().StaticCallee().Name(), n), p.Pos(ci.Pos()), "guarded by "+ovf, "an integer is stored into a Go value of possibly narrower width without the matching "+ovf+" test: out-of-range data is silently truncated", p.Witness(path)...)
		}
	}

	c.Rule("C19.freshslot", freshSlotText, 6)
	checkFreshSlot(c)

	c.Rule("C19.memberthenfinish", "a union's member is in place before anybody is told the union is complete: in node/bindnode, a call of the package's function that sets a union's member (it resets the union value and stores the member pointer into one of its fields) is never reachable, within one activation, after a step that can run the enclosing finish hook - a read of a finish-hook field, or a delegating Assign* call on an assembler (a copy of an assembler carries the original's hook) - the hook of a typed map copies the union by value, so a member set afterwards is lost", 2)
	{
		// the member setter by role: a package-level function of bindnode with two reflect.Value parameters and an int
		// that calls reflect.Value.Set on a Field(i) of the first
		var setters []*ssa.Function
		for _, fn := range p.ModFns {
			pk := core.FuncPkg(fn)
			if pk == nil || core.RelPkg(pk.Path()) != "node/bindnode" || len(fn.Blocks) == 0 || fn.Signature.Recv() != nil || fn.Parent() != nil || fn.Signature.Results().Len() != 0 {
				continue
			}
			nrv := 0
			for _, prm := range fn.Params {
				if nt := namedOfType(prm.Type()); nt != nil && nt.Obj().Pkg() != nil && nt.Obj().Pkg().Path() == "reflect" && nt.Obj().Name() == "Value" {
					nrv++
				}
			}
			setsField := false
			for _, ci := range core.Calls(fn) {
				if core.IsMethod(ci, "reflect", "Value", "Set") {
					if rc, ok := core.Strip(core.Receiver(ci)).(*ssa.Call); ok && core.IsMethod(rc, "reflect", "Value", "Field") {
						setsField = true
					}
				}
			}
			if nrv == 2 && setsField {
				setters = append(setters, fn)
			}
		}
		nsite := 0
		for _, fn := range p.ModFns {
			pk := core.FuncPkg(fn)
			if pk == nil || core.RelPkg(pk.Path()) != "node/bindnode" || len(fn.Blocks) == 0 || fn.Synthetic != "" {
				continue
			}
			for _, ci := range core.Calls(fn) {
				cal := ci.Common().StaticCallee()
				isSetter := false
				for _, g := range setters {
					isSetter = isSetter || cal == g
				}
				if !isSetter {
					continue
				}
				nsite++
				canFinish := func(in ssa.Instruction) bool {
					switch x := in.(type) {
					case *ssa.UnOp:
						if fa, ok := x.X.(*ssa.FieldAddr); ok && x.Op == token.MUL && isFinishHookField(fa) {
							return true
						}
					case ssa.CallInstruction:
						if g := x.Common().StaticCallee(); g != nil && g.Signature.Recv() != nil && strings.HasPrefix(g.Name(), "Assign") {
							return true
						}
						if x.Common().IsInvoke() && strings.HasPrefix(x.Common().Method.Name(), "Assign") {
							return true
						}
					}
					return false
				}
				bad := false
				var wp []string
				core.Instrs(fn, func(in ssa.Instruction) {
					if !canFinish(in) || bad {
						return
					}
					if path, reached := core.ReachLocal(fn, in, func(x ssa.Instruction) bool { return x == ci.(ssa.Instruction) }, nil, nil); reached {
						bad, wp = true, p.Witness(path)
					}
				})
				c.Check(!bad, fmt.Sprintf("%s#member-set%d-before-finish", core.FuncKey(fn), nsite), p.Pos(ci.Pos()), "the member is set before anything that can run the enclosing finish hook", "the union's member is set after a step that can already have run the enclosing finish hook (a delegating Assign* on an assembler that carries it, or the hook itself): an enclosing map that copies the union by value in its hook stores the union without a member", wp...)
			}
		}
		if len(setters) == 0 {
			c.Undecided("node/bindnode#union-member-setter", "-", "the function that sets a union's member was not found")
		}
	}

	c.Rule("C19.infermemo", "schema inference infers each Go type once per call: in every recursive function of bindnode that takes a reflect.Type and accumulates a freshly spawned composite type into a TypeSystem, the Accumulate call is only reachable past the miss edge of a comma-ok lookup in a map keyed by that reflect.Type, and every path from the Accumulate to a return records the type in that map - so a Go type mentioned twice (two fields of one struct type, two []string fields) is not accumulated twice (TypeSystem.Accumulate panics on a duplicate name), and two different Go types are never merged by name", 2)
	checkInferMemo(c)

	c.Rule("C19.uintkinds", "every Go integer kind that can hold a value above MaxInt64 is presented as an unsigned node: the function of bindnode that chooses the node implementation for a Go value creates the node type implementing datamodel.UintNode behind a test of the value's reflect.Kind that admits reflect.Uint64 and reflect.Uint alike (the assembler stores into both without an upper bound, so a Go uint field can hold what only AsUint can report)", 1)
	{
		uintI := p.Iface("datamodel", "UintNode")
		nfound := 0
		for _, fn := range p.ModFns {
			pk := core.FuncPkg(fn)
			if pk == nil || core.RelPkg(pk.Path()) != "node/bindnode" || len(fn.Blocks) == 0 || fn.Synthetic != "" || uintI == nil {
				continue
			}
			// allocates a UintNode implementation and returns it as a node
			var allocs []*ssa.Alloc
			core.Instrs(fn, func(in ssa.Instruction) {
				al, ok := in.(*ssa.Alloc)
				if !ok || !al.Heap {
					return
				}
				if types.Implements(al.Type(), uintI) {
					allocs = append(allocs, al)
				}
			})
			if len(allocs) == 0 {
				continue
			}
			kinds := map[int64]bool{}
			for _, e := range core.IfEdges(fn) {
				for _, a := range core.ImpliedAtoms(e) {
					if a.Rel == nil || a.Rel.Op != token.EQL {
						continue
					}
					x, y := a.Rel.X, a.Rel.Y
					if core.ConstVal(x) != nil {
						x, y = y, x
					}
					nt := namedOfType(x.Type())
					if nt == nil || nt.Obj().Pkg() == nil || nt.Obj().Pkg().Path() != "reflect" || nt.Obj().Name() != "Kind" {
						continue
					}
					if k, ok := core.ConstInt(y); ok {
						kinds[k] = true
					}
				}
			}
			// ... and the comparisons that are not branch conditions themselves (a named `wide := k == Uint64 || k == Uint`)
			core.Instrs(fn, func(in ssa.Instruction) {
				bo, ok := in.(*ssa.BinOp)
				if !ok || bo.Op != token.EQL {
					return
				}
				x, y := bo.X, bo.Y
				if core.ConstVal(x) != nil {
					x, y = y, x
				}
				nt := namedOfType(x.Type())
				if nt == nil || nt.Obj().Pkg() == nil || nt.Obj().Pkg().Path() != "reflect" || nt.Obj().Name() != "Kind" {
					return
				}
				if k, ok := core.ConstInt(y); ok {
					kinds[k] = true
				}
			})
			nfound++
			const kUint, kUint64 = 7, 11 // reflect.Uint, reflect.Uint64
			c.Check(kinds[kUint] && kinds[kUint64], core.FuncKey(fn)+"#unsigned-kinds", p.Pos(allocs[0].Pos()), "reflect.Uint and reflect.Uint64 both get the unsigned node", "the unsigned node is chosen for some 64-bit unsigned Go kinds only: a Go uint (or uint64) field holding a value above MaxInt64 - which the assembler accepts - is presented as a plain int node whose AsInt fails, so the value that was unmarshalled cannot be marshalled again")
		}
		if nfound == 0 {
			c.Undecided("node/bindnode#uint-node-chooser", "-", "no function creates a node type implementing datamodel.UintNode")
		}
	}

	c.Rule("C19.unwrap", "Unwrap returns Addr().Interface() of the reflect.Value held in the node (field val of _node / _nodeRepr), never of a copy", 1)
	if fn := p.Func("node/bindnode", "", "Unwrap"); fn != nil {
		for _, ret := range core.Returns(fn) {
			for _, v := range core.ResultValues(ret, 0) {
				if core.IsNilConst(v) {
					continue
				}
				ic, ok := core.Strip(v).(*ssa.Call)
				good := ok && core.IsMethod(ic, "reflect", "Value", "Interface")
				if good {
					ac, ok := core.Strip(ic.Call.Args[0]).(*ssa.Call)
					good = ok && core.IsMethod(ac, "reflect", "Value", "Addr")
					if good {
						sl := core.BackSlice(ac.Call.Args[0], core.SliceOpts{Stores: true})
						fromField, other := false, false
						for w := range sl {
							switch x := w.(type) {
							case *ssa.FieldAddr:
								if isReflectValueField(x) {
									fromField = true
								}
							case *ssa.Call:
								other = true
								_ = x
							}
						}
						good = fromField && !other
					}
				}
				c.Check(good, "node/bindnode.Unwrap#addr-of-node-value", p.Pos(ret.Pos()), "returns the address of the node's own value", "Unwrap does not return Addr().Interface() of the node's own reflect.Value")
			}
		}
	} else {
		c.Undecided("node/bindnode.Unwrap", "-", "not found")
	}
}

// externalReadOnly: methods/functions of packages outside the module that do
// not change the state of an object passed by reference.
var externalReadOnly = map[string]bool{
	"Load": true, "Range": true, "Lock": true, "Unlock": true, "RLock": true, "RUnlock": true,
	"String": true, "Len": true, "Error": true, "EncodeToString": true, "DecodeString": true, "Bytes": true,
}

// sameValueShallow: identical SSA value, or the same conversion applied to identical operands.
func sameValueShallow(a, b ssa.Value) bool {
	if a == b || core.SameLoad(a, b) {
		return true
	}
	ca, ok1 := a.(*ssa.Convert)
	cb, ok2 := b.(*ssa.Convert)
	if ok1 && ok2 && ca.Type() == cb.Type() {
		return sameValueShallow(ca.X, cb.X)
	}
	return false
}

const freshSlotText = "every container assembler of bindnode hands each new entry its own Go value: the reflect.Value placed in the child assembler's val field by AssembleValue / AssembleKey is the result of a reflect call made in that activation (reflect.New(..).Elem(), Index, FieldByIndex, Elem ...), never a value kept in the assembler between entries"

// checkFreshSlot is shared by C19 (unwrap/round trip faithfulness), C01 (what is built reads back) and C12 (exact results).
func checkFreshSlot(c *core.Ctx) {
	p := c.P
	for _, fn := range p.ModFns {
		pk := core.FuncPkg(fn)
		if pk == nil || core.RelPkg(pk.Path()) != "node/bindnode" || len(fn.Blocks) == 0 || fn.Synthetic != "" {
			continue
		}
		if fn.Name() != "AssembleValue" && fn.Name() != "AssembleKey" {
			continue
		}
		n := 0
		core.Instrs(fn, func(in ssa.Instruction) {
			st, ok := in.(*ssa.Store)
			if !ok {
				return
			}
			fa, ok := st.Addr.(*ssa.FieldAddr)
			if !ok || !isReflectValueField(fa) || !strings.HasSuffix(core.TypeString(fa.X.Type()), "_assembler") {
				return
			}
			n++
			good := true
			var check func(v ssa.Value, depth int)
			// what a helper of the package hands back (a stage of AssembleValue split off into its own function) is
			// judged by what the helper returns
			helperResult := func(cl *ssa.Call, idx int, depth int) bool {
				g := core.HelperCallee(cl.Parent(), cl)
				if g == nil || depth > 4 {
					return false
				}
				for _, ret := range core.Returns(g) {
					if idx >= len(ret.Results) {
						return false
					}
					if ei := core.ErrResultIndex(g); ei >= 0 && ei != idx && core.ResultNilness(ret, ei) == core.NonNil {
						continue
					}
					for _, rv := range core.ResultValues(ret, idx) {
						if core.IsZeroMarker(rv) {
							continue
						}
						if cst, isC := rv.(*ssa.Const); isC && cst.Value == nil {
							continue // the zero reflect.Value of a failure return
						}
						check(rv, depth+1)
					}
				}
				return true
			}
			check = func(v ssa.Value, depth int) {
				switch x := v.(type) {
				case *ssa.Extract:
					if cl, ok := x.Tuple.(*ssa.Call); ok && helperResult(cl, x.Index, depth) {
						return
					}
					good = false
				case *ssa.Call:
					if o := core.CalleeObj(x); o != nil && o.Pkg() != nil && o.Pkg().Path() == "reflect" {
						return
					}
					if !helperResult(x, 0, depth) {
						good = false
					}
				case *ssa.Phi:
					if depth > 4 {
						good = false
						return
					}
					for _, e := range x.Edges {
						check(e, depth+1)
					}
				case *ssa.UnOp:
					// a local variable of this activation (possibly captured by the finish closure): look at what it was assigned
					if al, ok := x.X.(*ssa.Alloc); ok && al.Parent() != nil && depth <= 6 {
						found := 0
						for _, g := range core.WithClosures(al.Parent()) {
							core.Instrs(g, func(in2 ssa.Instruction) {
								if s2, ok := in2.(*ssa.Store); ok {
									root := s2.Addr
									if fv, isFV := root.(*ssa.FreeVar); isFV {
										if b := boundAlloc(fv); b != nil {
											root = b
										}
									}
									if root == ssa.Value(al) {
										found++
										check(s2.Val, depth+1)
									}
								}
							})
						}
						if found == 0 {
							good = false
						}
						return
					}
					good = false
				default:
					good = false // a load from the assembler, a parameter, ...
				}
			}
			check(st.Val, 0)
			c.Check(good, fmt.Sprintf("%s#slot%d", core.FuncKey(fn), n), p.Pos(st.Pos()), "entry slot computed afresh by a reflect call", "the Go value handed to the child assembler is not computed by a reflect call in this activation (it is kept in the assembler across entries): data assembled into one entry leaks into the next")
		})
	}

}

// checkInferMemo decides C19.infermemo.
func checkInferMemo(c *core.Ctx) {
	p := c.P
	found := 0
	for _, fn := range p.ModFns {
		pk := core.FuncPkg(fn)
		if pk == nil || core.RelPkg(pk.Path()) != "node/bindnode" || len(fn.Blocks) == 0 || fn.Synthetic != "" || fn.Parent() != nil {
			continue
		}
		var typ *ssa.Parameter
		for _, prm := range fn.Params {
			if n := namedOfType(prm.Type()); n != nil && n.Obj().Pkg() != nil && n.Obj().Pkg().Path() == "reflect" && n.Obj().Name() == "Type" {
				typ = prm
			}
		}
		if typ == nil {
			continue
		}
		// recursive: fn leads back to itself through static calls inside the package (directly, or through a helper
		// that infers the fields / the elements)
		selfRec := false
		{
			seenF := map[*ssa.Function]bool{}
			work := []*ssa.Function{fn}
			for len(work) > 0 && !selfRec {
				g := work[len(work)-1]
				work = work[:len(work)-1]
				for _, ci := range core.Calls(g) {
					cal := ci.Common().StaticCallee()
					if cal == nil || core.FuncPkg(cal) != pk || len(cal.Blocks) == 0 {
						continue
					}
					if cal == fn {
						selfRec = true
					}
					if !seenF[cal] {
						seenF[cal] = true
						work = append(work, cal)
					}
				}
			}
		}
		var accs []ssa.CallInstruction
		for _, ci := range core.CallsR(fn) {
			if core.IsMethod(ci, core.ModPath+"/schema", "TypeSystem", "Accumulate") {
				// a type spawned in this activation (not the fixed prelude of scalar types a non-recursive entry adds)
				fresh := false
				for w := range core.BackSlice(ci.Common().Args[len(ci.Common().Args)-1], core.SliceOpts{Region: core.RegionOf(fn)}) {
					if cl, ok := w.(*ssa.Call); ok {
						if cal := cl.Call.StaticCallee(); cal != nil && core.FuncPkg(cal) != nil && core.RelPkg(core.FuncPkg(cal).Path()) == "schema" && strings.HasPrefix(cal.Name(), "Spawn") {
							fresh = true
						}
					}
				}
				if fresh {
					accs = append(accs, ci)
				}
			}
		}
		if !selfRec || len(accs) == 0 {
			continue
		}
		rg := core.RegionOf(fn)
		isKey := func(v ssa.Value) bool { return core.Strip(v) == ssa.Value(typ) || rg.Canon(v) == ssa.Value(typ) }
		isGuard := func(ifi *ssa.If) bool {
			cnd, _ := core.CondPolarity(ifi.Cond)
			e, ok := rg.Canon(cnd).(*ssa.Extract)
			if !ok || e.Index != 1 {
				return false
			}
			lk, ok := e.Tuple.(*ssa.Lookup)
			return ok && lk.CommaOk && isKey(lk.Index)
		}
		isRecord := func(in ssa.Instruction) bool {
			mu, ok := in.(*ssa.MapUpdate)
			return ok && isKey(mu.Key)
		}
		for i, acc := range accs {
			found++
			key := fmt.Sprintf("%s#accumulate%d", core.FuncKey(fn), i+1)
			okG, path := guardedByBlocked(fn, nil, acc, nil, isGuard, nil)
			if !okG {
				// a stage of the inference that is entered only from behind the look-up: every call of fn in the package
				// passes the caller's own Go type on and lies behind the caller's look-up of it
				sites, allBehind := 0, true
				for _, g := range p.ModFns {
					if core.FuncPkg(g) != pk || len(g.Blocks) == 0 || g == fn {
						continue
					}
					var gtyp *ssa.Parameter
					for _, prm := range g.Params {
						if n := namedOfType(prm.Type()); n != nil && n.Obj().Pkg() != nil && n.Obj().Pkg().Path() == "reflect" && n.Obj().Name() == "Type" {
							gtyp = prm
						}
					}
					for _, ci := range core.Calls(g) {
						if ci.Common().StaticCallee() != fn {
							continue
						}
						sites++
						passes := false
						if gtyp != nil {
							if a := core.ArgForParam(ci, core.ParamIndex(typ)); a != nil && core.Strip(a) == ssa.Value(gtyp) {
								passes = true
							}
						}
						grg := core.RegionOf(g)
						gGuard := func(ifi *ssa.If) bool {
							cnd, _ := core.CondPolarity(ifi.Cond)
							e, ok := grg.Canon(cnd).(*ssa.Extract)
							if !ok || e.Index != 1 {
								return false
							}
							lk, ok := e.Tuple.(*ssa.Lookup)
							return ok && lk.CommaOk && gtyp != nil && (core.Strip(lk.Index) == ssa.Value(gtyp) || grg.Canon(lk.Index) == ssa.Value(gtyp))
						}
						behind, _ := guardedByBlocked(g, nil, ci.(ssa.Instruction), nil, gGuard, nil)
						if !passes || !behind {
							allBehind = false
						}
					}
				}
				if sites > 0 && allBehind {
					okG = true
				}
			}
			c.Check(okG, key+"-memo", p.Pos(acc.Pos()), "behind a lookup of the Go type in the per-call memo", "a composite type is accumulated without first looking the Go type up in a map keyed by reflect.Type: a Go type mentioned twice in one inferred schema is accumulated twice and TypeSystem.Accumulate panics (duplicate type name)", p.Witness(path)...)
			path2, reached := core.Reach(fn, acc, func(in ssa.Instruction) bool { _, isRet := in.(*ssa.Return); return isRet }, nil, isRecord)
			c.Check(!reached, key+"-recorded", p.Pos(acc.Pos()), "recorded in the memo before returning", "the accumulated type is not recorded under its Go type on every path to a return: the next mention of the same Go type accumulates it again", p.Witness(path2)...)
		}
	}
	if found == 0 {
		c.Undecided("node/bindnode#schema-inference", "-", "no recursive function taking a reflect.Type and accumulating spawned types was found")
	}
}
