package rules

import (
	"fmt"
	"go/constant"
	"go/token"
	"go/types"
	"strings"

	"golang.org/x/tools/go/ssa"

	"verif/checker/internal/core"
)

func init() {
	register(&Def{
		ID: "C16",
		Explanation: "Structural necessary conditions of 'transforms are pure functional updates': (relink) content obtained by loading a link never flows into the parent's assembler as a node - it reaches the parent only as the link returned by LinkSystem.Store of the rebuilt block (same link prototype), and that store's error is tested before the link is assigned; (protocol) the rebuild loops keep to the assembler protocol on every path (key assigned => value assembled); (copyall) in the rebuild loops every path through an iteration assembles exactly one value (and, for maps, the key) unless it is the documented delete; (segmenteq) PathSegment values are compared with Equals, never with ==, outside package datamodel; (perchild) in the transforming walk the selector used for a child is the result of Explore asked about that child's own segment.  (createparents) create mode is entered only with the flag true or at the last step; (sentinel) a parsed list position cannot equal the internal append marker." +
			"Equality of untouched entries and order as values, and input immutability (C11), are not decided here.",
		NotCovered: []string{"equality and order of untouched entries as values", "input unchanged (covered structurally by C11)", "sequences of transforms"},
		Trusted:    []string{"go/ssa, go/types"},
		Run:        runC16,
	})
}

func runC16(c *core.Ctx) {
	p := c.P
	const rel = "traversal"

	c.Rule("C16.relink", "in the transform functions of package traversal a node loaded from a link (result of LinkSystem.Load/Fill via a builder, or of the loadLink helper) - and anything rebuilt from it - is never handed to AssignNode / Assemble* of the enclosing container: it re-enters the parent only through AssignLink of the link returned by LinkSystem.Store", 2)
	tr := newTravRoles(p)
	tfns := tr.transformFns()
	if len(tfns) < 3 {
		c.Undecided(rel+"#transform-functions", "-", fmt.Sprintf("only %d recursive functions carrying a TransformFn found in package traversal", len(tfns)))
	}
	for _, tf := range tfns {
		fn := tf.fn
		key := rel + "." + tf.label
		// loaded values: results of a loading helper, and Build() of a builder that was handed to Fill
		isLoaded := func(v ssa.Value) (bool, string) {
			for w := range core.BackSlice(v, core.SliceOpts{Stores: true, ThroughCallsIf: func(cl *ssa.Call) bool {
				// through the recursive transform (the rebuilt block is still block content)
				return tr.isTransformCallee(cl.Call.StaticCallee())
			}}) {
				if cl, ok := w.(*ssa.Call); ok {
					if cal := cl.Call.StaticCallee(); cal != nil && tr.loadsBlock(cal) {
						return true, "the loading helper " + cal.Name()
					}
					if cl.Call.IsInvoke() && cl.Call.Method.Name() == "Build" {
						// builder filled from a link?
						for _, ci := range core.CallsR(fn) {
							if core.IsMethod(ci, "", "LinkSystem", "Fill") || core.IsMethod(ci, "", "LinkSystem", "Load") {
								for _, a := range ci.Common().Args {
									if core.Strip(a) == core.Strip(cl.Call.Value) {
										return true, "LinkSystem.Fill"
									}
								}
							}
						}
					}
				}
			}
			return false, ""
		}
		n := 0
		for _, ci := range core.CallsR(fn) {
			cc := ci.Common()
			if !cc.IsInvoke() || cc.Method.Name() != "AssignNode" || len(cc.Args) != 1 {
				continue
			}
			if g := ci.Parent(); g != fn && tr.recursive(g) {
				continue
			}
			n++
			loaded, via := isLoaded(cc.Args[0])
			ck := fmt.Sprintf("%s#AssignNode%d", key, n)
			if loaded {
				ck = key + "#inlines-loaded-block"
			}
			c.Check(!loaded, ck, p.Pos(ci.Pos()), "assigned node is not block content", "a node loaded from a link (via "+via+") is assigned into the parent as a node: the linked block is inlined into its parent instead of being stored and re-linked, so the result is not equal to the input and loading from the new root does not reproduce the graph")
		}
	}

	c.Rule("C16.storeerr", "in focusedTransform the link handed to AssignLink is result 0 of LinkSystem.Store called with the original link's prototype, and AssignLink is reachable only over the nil edge of that Store's error", 2)
	for _, tf := range tfns {
		fn := tf.fn
		key := rel + "." + tf.label
		for _, ci := range core.CallsR(fn) {
			cc := ci.Common()
			if !cc.IsInvoke() || cc.Method.Name() != "AssignLink" {
				continue
			}
			if g := ci.Parent(); g != fn && tr.recursive(g) {
				continue
			}
			var store *ssa.Call
			for w := range core.BackSlice(cc.Args[0], core.SliceOpts{Stores: true}) {
				if e, ok := w.(*ssa.Extract); ok && e.Index == 0 {
					if cl, ok := e.Tuple.(*ssa.Call); ok && core.IsMethod(cl, "", "LinkSystem", "Store") {
						store = cl
					}
				}
			}
			if store == nil {
				c.Fail(key+"#relink-from-store", p.Pos(ci.Pos()), "the link assigned into the parent is not the one returned by LinkSystem.Store of the rebuilt block")
				continue
			}
			c.OK(key+"#relink-from-store", p.Pos(ci.Pos()), "assigned link comes from LinkSystem.Store")
			nilEdges := core.EdgesWhere(fn, func(r core.Rel) bool { return r.Op == token.EQL && extractOf(r.X, store, 1) && core.IsNilConst(r.Y) })
			path, reached := core.Reach(fn, store, isTarget(ci), nilEdges, nil)
			c.Check(len(nilEdges) > 0 && !reached, key+"#store-error-tested", p.Pos(store.Pos()), "AssignLink only after a successful Store", "AssignLink is reachable without the error of LinkSystem.Store having been tested nil: a failed block write still yields a 'successful' transform whose new root cannot be loaded", p.Witness(path)...)
			// prototype of the original link
			protoOK := false
			if pr, ok := core.RegionOf(fn).Canon(store.Call.Args[2]).(*ssa.Call); ok && pr.Call.IsInvoke() && pr.Call.Method.Name() == "Prototype" {
				protoOK = true
			}
			c.Check(protoOK, key+"#store-same-prototype", p.Pos(store.Pos()), "stored under the original link's prototype", "the rebuilt block is not stored under the prototype of the link it replaces")
		}
	}

	c.Rule("C16.rawload", "a transform function that stores rebuilt blocks back (it calls LinkSystem.Store) loads the blocks it rebuilds with LinkSystem.Fill into a builder - the block as stored - and never through LinkSystem.Load or a helper built on it, which hands out the NodeReifier's view of the block: what is stored back is the old block with only the target replaced", 1)
	for _, tf := range tfns {
		fn := tf.fn
		stores := false
		var loads []ssa.CallInstruction
		var walk func(g *ssa.Function, depth int, seen map[*ssa.Function]bool)
		walk = func(g *ssa.Function, depth int, seen map[*ssa.Function]bool) {
			if seen[g] || depth > 3 {
				return
			}
			seen[g] = true
			for _, ci := range core.Calls(g) {
				if core.IsMethod(ci, "", "LinkSystem", "Store") {
					stores = true
				}
				if isBlockLoad(ci) {
					loads = append(loads, ci)
				}
				// helpers of the package that are not part of a recursion (loadLink and the like)
				if cal := ci.Common().StaticCallee(); cal != nil && cal != fn && len(cal.Blocks) > 0 && core.FuncPkg(cal) == core.FuncPkg(fn) && !tr.recursive(cal) {
					walk(cal, depth+1, seen)
				}
			}
			for _, an := range g.AnonFuncs {
				walk(an, depth+1, seen)
			}
		}
		walk(fn, 0, map[*ssa.Function]bool{})
		if !stores {
			continue
		}
		key := rel + "." + tf.label
		bad := ""
		pos := fn.Pos()
		for _, ld := range loads {
			if !core.IsMethod(ld, "", "LinkSystem", "Fill") {
				bad = core.CalleeObj(ld).Name()
				pos = ld.Pos()
			}
		}
		c.Check(len(loads) > 0 && bad == "", key+"#loads-raw-block", p.Pos(pos), "blocks to be rebuilt are loaded with Fill", "the transform loads a block it is going to rebuild and store back through LinkSystem."+bad+" (directly or via a helper): with a NodeReifier configured the reified view is rebuilt and stored, and whatever the view hides is lost from the stored block")
	}

	c.Rule("C16.onecall", "the callback runs once per target: in the focused transform no recursive descent (which ends in another invocation of the TransformFn for the same target) is reachable, within one activation, after the activation has invoked the TransformFn itself - the value the first invocation returned is the one that is placed, and a callback that is not idempotent (hands out ids, appends) is not run twice for one insert", 1)
	for _, tf := range tfns {
		fn := tf.fn
		if tr.underWalkAPI(fn) {
			continue // the transforming walk calls back at every matched node by design
		}
		var cbs []ssa.CallInstruction
		for _, ci := range core.CallsR(fn) {
			if g := ci.Parent(); g != fn && tr.recursive(g) {
				continue
			}
			if callbackType(fn, ci) == "TransformFn" {
				cbs = append(cbs, ci)
			}
		}
		if len(cbs) == 0 {
			continue
		}
		key := rel + "." + tf.label
		isDescent := func(in ssa.Instruction) bool {
			ci, ok := in.(ssa.CallInstruction)
			return ok && tr.descent(fn, ci)
		}
		bad := false
		var wp []string
		pos := fn.Pos()
		for _, cb := range cbs {
			if path, reached := core.Reach(fn, cb, isDescent, nil, nil); reached {
				bad = true
				wp = p.Witness(path)
				pos = cb.Pos()
			}
		}
		c.Check(!bad, key+"#callback-then-no-descent", p.Pos(pos), "after the callback ran, the activation places its result and does not descend again", "a recursive descent is reachable after the TransformFn was invoked in the same activation: for a target that does not exist yet the callback runs a second time in the descent and the result of the first run is thrown away", wp...)
	}

	c.Rule("C16.callbacknode", "the callback sees the node at the target: the node handed to the TransformFn by a transform function never derives from the result of Selector.Match (for a subset matcher that is a sliced copy, so an identity transform would truncate the node and an update would be computed from the slice)", 2)
	for _, tf := range tfns {
		fn := tf.fn
		ncb := 0
		for _, ci := range core.CallsR(fn) {
			if g := ci.Parent(); g != fn && tr.recursive(g) {
				continue
			}
			if callbackType(fn, ci) != "TransformFn" {
				continue
			}
			ncb++
			args := ci.Common().Args
			bad := false
			for _, a := range args {
				if !isNodeType(a.Type()) {
					continue
				}
				for w := range core.BackSlice(a, core.SliceOpts{Stores: true}) {
					if e, ok := w.(*ssa.Extract); ok {
						w = e.Tuple
					}
					if cl, ok := w.(*ssa.Call); ok && cl.Call.IsInvoke() && cl.Call.Method.Name() == "Match" {
						bad = true
					}
				}
			}
			c.Check(!bad, fmt.Sprintf("%s.%s#callback-node%d", rel, tf.label, ncb), p.Pos(ci.Pos()), "the callback is given the node at the position", "the node handed to the TransformFn derives from Selector.Match: with a subset matcher the callback sees (and an identity transform stores) only the matched slice of a string or bytes node")
		}
	}

	c.Rule("C16.handled", "the focused transform reports success only after it has dealt with the target: every return of the focused transform with a nil error is reachable only through an invocation of the TransformFn or a recursive descent towards the target - there is no way out that leaves the tree as it was and says the update happened", 1)
	for _, tf := range tfns {
		fn := tf.fn
		if tr.underWalkAPI(fn) {
			continue
		}
		errIdx := core.ErrResultIndex(fn)
		if errIdx < 0 {
			continue
		}
		handled := func(in ssa.Instruction) bool {
			ci, ok := in.(ssa.CallInstruction)
			if !ok {
				return false
			}
			return callbackType(fn, ci) == "TransformFn" || tr.descent(fn, ci)
		}
		bad := false
		var wp []string
		pos := fn.Pos()
		for _, ret := range core.Returns(fn) {
			if core.ResultNilness(ret, errIdx) == core.NonNil {
				continue
			}
			if path, reached := core.Reach(fn, nil, successReturn(ret, errIdx), nil, handled); reached {
				bad = true
				wp = p.Witness(path)
				pos = ret.Pos()
			}
		}
		c.Check(!bad, rel+"."+tf.label+"#success-only-after-target-handled", p.Pos(pos), "success is reported only after the callback ran or the descent towards the target was made", "the focused transform can return nil without having invoked the TransformFn or descended towards the target: the update is silently lost (for example behind a link whose loader declines) while the caller is told it happened", wp...)
	}

	c.Rule("C16.createparents", "missing parents are created only when asked to: in the focused transform, every recursive descent that enters create mode (it hands down a nil node from an activation that has a node of its own) is reachable only over an edge on which the create-parents flag is true or the remaining path is known to end here (its length compared against a constant that bounds it to this step) - on every kind of container, not only maps", 2)
	nCreate := 0
	for _, tf := range tfns {
		fn := tf.fn
		if tr.underWalkAPI(fn) {
			continue
		}
		// the flag: a boolean parameter, or a boolean field of an unexported struct parameter (the values of one edit
		// bundled together)
		var node *ssa.Parameter
		flagParams := map[ssa.Value]bool{}
		flagFields := map[core.FieldID]bool{}
		for _, prm := range fn.Params {
			t := prm.Type()
			if b, ok := t.Underlying().(*types.Basic); ok && b.Kind() == types.Bool {
				flagParams[prm] = true
			}
			if node == nil && isNodeType(t) {
				node = prm
			}
			if pt, ok := t.Underlying().(*types.Pointer); ok {
				t = pt.Elem()
			}
			if st, ok := t.Underlying().(*types.Struct); ok {
				nt := namedOfType(t)
				if nt == nil || nt.Obj().Exported() || nt.Obj().Pkg() != fn.Pkg.Pkg {
					continue
				}
				for i := 0; i < st.NumFields(); i++ {
					if b, ok := st.Field(i).Type().Underlying().(*types.Basic); ok && b.Kind() == types.Bool {
						flagFields[core.FieldID{Type: nt.Obj(), Index: i}] = true
					}
				}
			}
		}
		if len(flagParams)+len(flagFields) == 0 || node == nil {
			continue
		}
		isFlag := func(v ssa.Value) bool {
			v = core.Strip(v)
			if flagParams[v] {
				return true
			}
			if fid, _, ok := core.FieldOfLoad(v); ok && flagFields[fid] {
				return true
			}
			return false
		}
		inCreateMode := core.EdgesWhere(fn, func(r core.Rel) bool {
			return r.Op == token.EQL && core.Strip(r.X) == ssa.Value(node) && core.IsNilConst(r.Y)
		})
		permitted := core.BoolEdgesWhere(fn, isFlag, true)
		for e := range core.EdgesWhere(fn, func(r core.Rel) bool {
			lc, ok := core.Strip(r.X).(*ssa.Call)
			if !ok || !core.IsMethod(lc, core.ModPath+"/datamodel", "Path", "Len") {
				return false
			}
			ub, ok := r.UpperBoundConst()
			return ok && constant.Compare(ub, token.LEQ, constant.MakeInt64(1))
		}) {
			permitted[e] = true
		}
		n := 0
		for _, ci := range core.CallsR(fn) {
			if !tr.descent(fn, ci) {
				continue
			}
			g := ci.Common().StaticCallee()
			// the node handed down
			enters := false
			for i, prm := range g.Params {
				if isNodeType(prm.Type()) && i < len(ci.Common().Args) && core.IsNilConst(ci.Common().Args[i]) {
					enters = true
				}
				if isNodeType(prm.Type()) {
					break
				}
			}
			if !enters {
				continue
			}
			already := false
			for e := range inCreateMode {
				if core.EdgeDominates(e, ci.Block()) {
					already = true
				}
			}
			if already {
				continue
			}
			n++
			// asked as: assuming the flag is false, can the entry be reached without passing an edge that bounds the
			// remaining path? (the assumption makes every edge contradictory that implies the flag true - also through a
			// named condition such as parentMissing := p.Len() > 1 && !createParents)
			assume := map[ssa.Value]bool{}
			core.InstrsR(fn, func(in ssa.Instruction) {
				if v, ok := in.(ssa.Value); ok && isFlag(v) {
					assume[v] = false
				}
			})
			for fp := range flagParams {
				assume[fp] = false
			}
			path, reached := core.ReachAssuming(fn, nil, func(in ssa.Instruction) bool { return in == ssa.Instruction(ci) }, permitted, nil, assume)
			c.Check(!reached, fmt.Sprintf("%s.%s#create-mode-entry/%d#only-when-permitted", rel, tf.label, n), p.Pos(ci.Pos()), "create mode is entered only with the flag set or at the last step", "the focused transform hands a nil node down (create mode) on a path on which the create-parents flag was not found true and the remaining path was not found to end here: missing parents are created although the caller did not ask for it", p.Witness(path)...)
		}
		nCreate += n
	}
	if nCreate == 0 {
		c.Undecided(rel+"#create-mode-entry", "-", "no descent that enters create mode found in the transform functions that take a create-parents flag")
	}

	c.Rule("C16.sentinel", "a list position taken from the path is not mistaken for the append marker: where a transform function merges the number parsed from a segment (PathSegment.Index) with a constant it uses internally for 'no position' (append), the parsed number reaches the merge only over an edge that excludes that constant - otherwise the segment \"-1\" (or any negative number) is an append", 1)
	for _, tf := range tfns {
		fn := tf.fn
		n := 0
		for _, g := range core.RegionOf(fn).Fns {
			core.Instrs(g, func(in ssa.Instruction) {
				phi, ok := in.(*ssa.Phi)
				if !ok {
					return
				}
				var parsed *ssa.Extract
				var marks []constant.Value
				parsedPred := -1
				for i, ev := range phi.Edges {
					switch x := ev.(type) {
					case *ssa.Extract:
						if cl, ok := x.Tuple.(*ssa.Call); ok && x.Index == 0 && core.IsMethod(cl, core.ModPath+"/datamodel", "PathSegment", "Index") {
							parsed, parsedPred = x, i
						}
					case *ssa.Const:
						if x.Value != nil && x.Value.Kind() == constant.Int {
							marks = append(marks, x.Value)
						}
					}
				}
				if parsed == nil || len(marks) == 0 {
					return
				}
				n++
				pred := phi.Block().Preds[parsedPred]
				for _, k := range marks {
					excl := core.EdgesWhere(g, func(r core.Rel) bool {
						if core.Strip(r.X) != ssa.Value(parsed) {
							return false
						}
						cv := core.ConstVal(r.Y)
						if cv == nil || cv.Kind() != constant.Int {
							return false
						}
						switch r.Op {
						case token.GEQ:
							return constant.Compare(cv, token.GTR, k)
						case token.GTR:
							return constant.Compare(cv, token.GEQ, k)
						case token.LEQ:
							return constant.Compare(cv, token.LSS, k)
						case token.LSS:
							return constant.Compare(cv, token.LEQ, k)
						case token.NEQ:
							return constant.Compare(cv, token.EQL, k)
						case token.EQL:
							return constant.Compare(cv, token.NEQ, k)
						}
						return false
					})
					// is there a way from the parse to the merge, arriving with the parsed number, that passes no such test?
					blocked := map[core.Edge]bool{}
					for e := range excl {
						blocked[e] = true
					}
					for _, q := range phi.Block().Preds {
						if q == pred {
							continue
						}
						for si, sb := range q.Succs {
							if sb == phi.Block() {
								blocked[core.Edge{From: q, Succ: si}] = true
							}
						}
					}
					direct := false
					for si, sb := range pred.Succs {
						if sb == phi.Block() && excl[core.Edge{From: pred, Succ: si}] {
							direct = true
						}
					}
					_, reached := core.Reach(g, parsed.Tuple.(*ssa.Call), func(in ssa.Instruction) bool { return in == ssa.Instruction(phi) }, blocked, nil)
					ok := len(excl) > 0 && (direct || !reached)
					c.Check(ok, fmt.Sprintf("%s.%s#position-or-marker/%d#marker-%s-excluded", rel, tf.label, n, k.ExactString()), p.Pos(parsed.Tuple.(*ssa.Call).Pos()), "the parsed position cannot equal the internal marker", "the number parsed from the path segment is merged with the internal marker "+k.ExactString()+" without a test that keeps the two apart: a segment that spells that number is treated as the marker (an append) instead of being refused as out of range")
				}
			})
		}
	}

	c.Rule("C16.siblingselect", "the per-kind steps of the transforming walk select children the same way: the functions of the walk's recursion that iterate a node's children (one for lists, one for maps) decide whether a child is transformed or copied through the same helpers of the package - a step that replaces the membership test over the selector's interests by something of its own (a cursor that assumes ascending order) transforms a different set of positions than the walk visits", 1)
	{
		type step struct {
			fn      *ssa.Function
			helpers string
		}
		var steps []step
		for _, tf := range tfns {
			fn := tf.fn
			if !tr.underWalkAPI(fn) {
				continue
			}
			iterates := false
			for _, ci := range core.Calls(fn) {
				if cc := ci.Common(); cc.IsInvoke() && cc.Method.Name() == "Next" {
					iterates = true
				}
			}
			if !iterates {
				continue
			}
			used := map[string]bool{}
			// the package-level helpers its branch conditions are computed with (a short-circuit condition has no single
			// dominating edge, so every condition of the function counts)
			for _, b := range fn.Blocks {
				ifi := core.BlockIf(b)
				if ifi == nil {
					continue
				}
				for w := range core.BackSlice(ifi.Cond, core.SliceOpts{Local: true}) {
					cl, ok := w.(*ssa.Call)
					if !ok {
						continue
					}
					if cal := cl.Call.StaticCallee(); cal != nil && core.FuncPkg(cal) == core.FuncPkg(fn) && !tr.recursive(cal) && cal.Signature.Recv() == nil {
						used[cal.Name()] = true
					}
				}
			}
			steps = append(steps, step{fn, strings.Join(core.SortedKeys(used), "+")})
		}
		if len(steps) >= 2 {
			agree := true
			for _, st := range steps[1:] {
				if st.helpers != steps[0].helpers {
					agree = false
				}
			}
			desc := ""
			for _, st := range steps {
				desc += st.fn.Name() + ": {" + st.helpers + "} "
			}
			c.Check(agree, rel+"#transform-steps-select-alike", p.Pos(steps[0].fn.Pos()), "the child-iterating steps decide through the same helpers ("+steps[0].helpers+")", "the child-iterating steps of the transforming walk decide which children to transform through different means - "+desc+"- so for some selectors (interests not in ascending order) the list step and the map step, and the transforming walk and the visiting walk, select different children")
		} else {
			c.Info(rel+"#transform-steps-select-alike", "-", "fewer than two child-iterating steps: nothing to compare")
		}
	}

	c.Rule("C16.protocol", "the transform functions keep to the map-assembler protocol on every path: after a key was assigned through AssembleKey the next call on that assembler is AssembleValue (C12.client restricted to package traversal)", 4)
	sub := &core.Ctx{P: p, Prop: "C16"}
	sub.Rule("C12.client", "", 0)
	checkClients(sub)
	for _, o := range sub.Obls {
		if strings.Contains(o.Construct, "traversal.") {
			o.Rule = "C16.protocol"
			c.Obls = append(c.Obls, o)
		}
	}

	c.Rule("C16.copyall", "in the rebuild loops of the transform functions every path from the iterator's Next() through one iteration to the next iteration (or the loop exit) passes at least one value assembly - AssignNode on AssembleValue(), or a recursive transform into AssembleValue() - except the documented delete (end of path and the replacement is nil); no sibling is silently dropped", 4)
	for _, tf := range tfns {
		fn := tf.fn
		key := rel + "." + tf.label
		n := 0
		for _, ci := range core.Calls(fn) {
			cv := core.CallValue(ci)
			if cv == nil || !cv.Call.IsInvoke() || cv.Call.Method.Name() != "Next" {
				continue
			}
			// only iterators over the node being rebuilt (inside a loop)
			inLoop := false
			for _, lp := range core.LoopBlocks(fn) {
				for _, b := range lp {
					if b == cv.Block() {
						inLoop = true
					}
				}
			}
			if !inLoop {
				continue
			}
			n++
			isValue := func(in ssa.Instruction) bool {
				x, ok := in.(ssa.CallInstruction)
				if !ok || !x.Common().IsInvoke() {
					return false
				}
				return x.Common().Method.Name() == "AssembleValue"
			}
			// the delete exemption: edges on which the replacement node is nil
			deleteEdges := core.EdgesWhere(fn, func(r core.Rel) bool {
				if r.Op != token.EQL || !core.IsNilConst(r.Y) {
					return false
				}
				// a Node-typed value that is the result of the transform callback (phi of nil and fn(...) result)
				if !isNodeType(r.X.Type()) {
					return false
				}
				for w := range core.BackSlice(r.X, core.SliceOpts{Stores: true}) {
					if e, ok := w.(*ssa.Extract); ok && e.Index == 0 {
						if cl, ok := e.Tuple.(*ssa.Call); ok && !cl.Call.IsInvoke() && cl.Call.StaticCallee() == nil {
							return true // result of calling the TransformFn value
						}
					}
				}
				return false
			})
			nextErrIdx := cv.Type().(*types.Tuple).Len() - 1
			nilErr := core.EdgesWhere(fn, func(r core.Rel) bool {
				return r.Op == token.EQL && extractOf(r.X, cv, nextErrIdx) && core.IsNilConst(r.Y)
			})
			// target: the same Next() call again, or leaving the loop towards Finish
			target := func(in ssa.Instruction) bool {
				if in == ssa.Instruction(cv) {
					return true
				}
				if x, ok := in.(ssa.CallInstruction); ok && x.Common().IsInvoke() && x.Common().Method.Name() == "Finish" {
					return true
				}
				return false
			}
			// explore the success continuation after Next: block the error edge of Next and all return-with-error paths
			errEdges := map[core.Edge]bool{}
			for e := range nilErr {
				errEdges[core.Edge{From: e.From, Succ: 1 - e.Succ}] = true
			}
			// leaving the loop straight after Next via Done() is not a dropped sibling: start after the Next call
			path, reached := core.Reach(fn, cv, target, union(errEdges, deleteEdges), isValue)
			c.Check(!reached, fmt.Sprintf("%s#iteration%d", key, n), p.Pos(cv.Pos()), "every iteration assembles a value (or is the documented delete)", "an iteration of the rebuild loop can complete without assembling a value for the sibling it read: that entry is missing from the result", p.Witness(path)...)
		}
	}

	c.Rule("C16.segmenteq", "outside package datamodel no two PathSegment values are compared with == or != (a segment has a string and an integer spelling of the same position; Equals compares them properly)", 1)
	nseg := 0
	for _, fn := range p.ModFns {
		pk := core.FuncPkg(fn)
		if pk == nil || !libraryPkg(core.RelPkg(pk.Path())) || core.RelPkg(pk.Path()) == "datamodel" || len(fn.Blocks) == 0 {
			continue
		}
		core.Instrs(fn, func(in ssa.Instruction) {
			bo, ok := in.(*ssa.BinOp)
			if !ok || (bo.Op != token.EQL && bo.Op != token.NEQ) {
				return
			}
			if isPathSegment(bo.X.Type()) && isPathSegment(bo.Y.Type()) {
				nseg++
				c.Fail(fmt.Sprintf("%s#segment-compare%d", core.FuncKey(fn), nseg), p.Pos(bo.Pos()), "PathSegment values are compared with "+bo.Op.String()+": the string spelling \"0\" and the integer spelling 0 of the same position compare unequal, so selectors naming list positions are ignored here")
			}
		})
	}
	if nseg == 0 {
		c.OK("module#no-segment-operator-compare", "-", "no ==/!= on PathSegment outside datamodel")
	}

	c.Rule("C16.perchild", "in the transforming walk the selector handed to the recursive transform of a child is result 0 of Explore called in the same loop iteration with that child's own segment (never a selector computed for a sibling)", 2)
	for _, tf := range tfns {
		fn := tf.fn
		if !tr.underWalkAPI(fn) {
			continue
		}
		key := rel + "." + tf.label
		n := 0
		for _, ci := range core.Calls(fn) {
			cal := ci.Common().StaticCallee()
			if !tr.isTransformCallee(cal) {
				continue
			}
			// only descents into a child: a call that hands on this activation's own node (the walk's entry stepping into
			// its list / map rebuilding part) explores nothing
			handsOwn := false
			for _, a := range ci.Common().Args {
				if !isNodeType(a.Type()) {
					continue
				}
				for w := range core.BackSlice(a, core.SliceOpts{Stores: true}) {
					if prm, isParam := w.(*ssa.Parameter); isParam && prm.Parent() == fn && isNodeType(prm.Type()) {
						handsOwn = true
					}
				}
				break
			}
			if handsOwn {
				continue
			}
			n++
			args := ci.Common().Args
			var sel, node ssa.Value
			for i, a := range args {
				if i == 0 {
					continue
				}
				if isNodeType(a.Type()) && node == nil {
					node = a
				}
				if nt := namedOfType(a.Type()); nt != nil && nt.Obj().Name() == "Selector" {
					sel = a
				}
			}
			good := false
			why := "the child selector is not the result of an Explore call"
			if sel != nil && node != nil {
				if e, ok := core.Strip(sel).(*ssa.Extract); ok && e.Index == 0 {
					if ex, ok := e.Tuple.(*ssa.Call); ok && ex.Call.IsInvoke() && ex.Call.Method.Name() == "Explore" {
						okc, w := coupledAt(p, fn, ex.Call.Args[1], node, 0, ci)
						good, why = okc, w
					}
				}
			}
			c.Check(good, fmt.Sprintf("%s#child-selector%d", key, n), p.Pos(ci.Pos()), "selector explored for this child's segment: "+why, "the selector used for a child's transform was not obtained by Explore for that child's own segment ("+why+"): siblings are transformed under the wrong selector")
		}
	}
}
