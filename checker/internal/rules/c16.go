package rules

import (
	"fmt"
	"go/token"
	"go/types"
	"strings"

	"golang.org/x/tools/go/ssa"

	"verif/checker/internal/core"
)

func init() {
	register(&Def{
		ID: "C16",
		Explanation: "Structural necessary conditions of 'transforms are pure functional updates': (relink) content obtained by loading a link never flows into the parent's assembler as a node - it reaches the parent only as the link returned by LinkSystem.Store of the rebuilt block (same link prototype), and that store's error is tested before the link is assigned; (protocol) the rebuild loops keep to the assembler protocol on every path (key assigned => value assembled); (copyall) in the rebuild loops every path through an iteration assembles exactly one value (and, for maps, the key) unless it is the documented delete; (segmenteq) PathSegment values are compared with Equals, never with ==, outside package datamodel; (perchild) in the transforming walk the selector used for a child is the result of Explore asked about that child's own segment. " +
			"Equality of untouched entries and order as values, and input immutability (C11), are not decided here.",
		NotCovered: []string{"equality and order of untouched entries as values", "input unchanged (covered structurally by C11)", "sequences of transforms"},
		Trusted:    []string{"go/ssa, go/types"},
		Run:        runC16,
	})
}

func runC16(c *core.Ctx) {
	p := c.P
	const rel = "traversal"

	c.Rule("C16.relink", "in the transform functions of package traversal a node loaded from a link (result of LinkSystem.Load/Fill via a builder, or of the loadLink helper) - and anything rebuilt from it - is never handed to AssignNode / Assemble* of the enclosing container: it re-enters the parent only through AssignLink of the link returned by LinkSystem.Store", 2)
	tr := newTravRoles(p)
	tfns := tr.transformFns()
	if len(tfns) < 3 {
		c.Undecided(rel+"#transform-functions", "-", fmt.Sprintf("only %d recursive functions carrying a TransformFn found in package traversal", len(tfns)))
	}
	for _, tf := range tfns {
		fn := tf.fn
		key := rel + "." + tf.label
		// loaded values: results of a loading helper, and Build() of a builder that was handed to Fill
		isLoaded := func(v ssa.Value) (bool, string) {
			for w := range core.BackSlice(v, core.SliceOpts{Stores: true, ThroughCallsIf: func(cl *ssa.Call) bool {
				// through the recursive transform (the rebuilt block is still block content)
				return tr.isTransformCallee(cl.Call.StaticCallee())
			}}) {
				if cl, ok := w.(*ssa.Call); ok {
					if cal := cl.Call.StaticCallee(); cal != nil && tr.loadsBlock(cal) {
						return true, "the loading helper " + cal.Name()
					}
					if cl.Call.IsInvoke() && cl.Call.Method.Name() == "Build" {
						// builder filled from a link?
						for _, ci := range core.CallsR(fn) {
							if core.IsMethod(ci, "", "LinkSystem", "Fill") || core.IsMethod(ci, "", "LinkSystem", "Load") {
								for _, a := range ci.Common().Args {
									if core.Strip(a) == core.Strip(cl.Call.Value) {
										return true, "LinkSystem.Fill"
									}
								}
							}
						}
					}
				}
			}
			return false, ""
		}
		n := 0
		for _, ci := range core.CallsR(fn) {
			cc := ci.Common()
			if !cc.IsInvoke() || cc.Method.Name() != "AssignNode" || len(cc.Args) != 1 {
				continue
			}
			if g := ci.Parent(); g != fn && tr.recursive(g) {
				continue
			}
			n++
			loaded, via := isLoaded(cc.Args[0])
			ck := fmt.Sprintf("%s#AssignNode%d", key, n)
			if loaded {
				ck = key + "#inlines-loaded-block"
			}
			c.Check(!loaded, ck, p.Pos(ci.Pos()), "assigned node is not block content", "a node loaded from a link (via "+via+") is assigned into the parent as a node: the linked block is inlined into its parent instead of being stored and re-linked, so the result is not equal to the input and loading from the new root does not reproduce the graph")
		}
	}

	c.Rule("C16.storeerr", "in focusedTransform the link handed to AssignLink is result 0 of LinkSystem.Store called with the original link's prototype, and AssignLink is reachable only over the nil edge of that Store's error", 2)
	for _, tf := range tfns {
		fn := tf.fn
		key := rel + "." + tf.label
		for _, ci := range core.CallsR(fn) {
			cc := ci.Common()
			if !cc.IsInvoke() || cc.Method.Name() != "AssignLink" {
				continue
			}
			if g := ci.Parent(); g != fn && tr.recursive(g) {
				continue
			}
			var store *ssa.Call
			for w := range core.BackSlice(cc.Args[0], core.SliceOpts{Stores: true}) {
				if e, ok := w.(*ssa.Extract); ok && e.Index == 0 {
					if cl, ok := e.Tuple.(*ssa.Call); ok && core.IsMethod(cl, "", "LinkSystem", "Store") {
						store = cl
					}
				}
			}
			if store == nil {
				c.Fail(key+"#relink-from-store", p.Pos(ci.Pos()), "the link assigned into the parent is not the one returned by LinkSystem.Store of the rebuilt block")
				continue
			}
			c.OK(key+"#relink-from-store", p.Pos(ci.Pos()), "assigned link comes from LinkSystem.Store")
			nilEdges := core.EdgesWhere(fn, func(r core.Rel) bool { return r.Op == token.EQL && extractOf(r.X, store, 1) && core.IsNilConst(r.Y) })
			path, reached := core.Reach(fn, store, isTarget(ci), nilEdges, nil)
			c.Check(len(nilEdges) > 0 && !reached, key+"#store-error-tested", p.Pos(store.Pos()), "AssignLink only after a successful Store", "AssignLink is reachable without the error of LinkSystem.Store having been tested nil: a failed block write still yields a 'successful' transform whose new root cannot be loaded", p.Witness(path)...)
			// prototype of the original link
			protoOK := false
			if pr, ok := core.RegionOf(fn).Canon(store.Call.Args[2]).(*ssa.Call); ok && pr.Call.IsInvoke() && pr.Call.Method.Name() == "Prototype" {
				protoOK = true
			}
			c.Check(protoOK, key+"#store-same-prototype", p.Pos(store.Pos()), "stored under the original link's prototype", "the rebuilt block is not stored under the prototype of the link it replaces")
		}
	}

	c.Rule("C16.rawload", "a transform function that stores rebuilt blocks back (it calls LinkSystem.Store) loads the blocks it rebuilds with LinkSystem.Fill into a builder - the block as stored - and never through LinkSystem.Load or a helper built on it, which hands out the NodeReifier's view of the block: what is stored back is the old block with only the target replaced", 1)
	for _, tf := range tfns {
		fn := tf.fn
		stores := false
		var loads []ssa.CallInstruction
		var walk func(g *ssa.Function, depth int, seen map[*ssa.Function]bool)
		walk = func(g *ssa.Function, depth int, seen map[*ssa.Function]bool) {
			if seen[g] || depth > 3 {
				return
			}
			seen[g] = true
			for _, ci := range core.Calls(g) {
				if core.IsMethod(ci, "", "LinkSystem", "Store") {
					stores = true
				}
				if isBlockLoad(ci) {
					loads = append(loads, ci)
				}
				// helpers of the package that are not part of a recursion (loadLink and the like)
				if cal := ci.Common().StaticCallee(); cal != nil && cal != fn && len(cal.Blocks) > 0 && core.FuncPkg(cal) == core.FuncPkg(fn) && !tr.recursive(cal) {
					walk(cal, depth+1, seen)
				}
			}
			for _, an := range g.AnonFuncs {
				walk(an, depth+1, seen)
			}
		}
		walk(fn, 0, map[*ssa.Function]bool{})
		if !stores {
			continue
		}
		key := rel + "." + tf.label
		bad := ""
		pos := fn.Pos()
		for _, ld := range loads {
			if !core.IsMethod(ld, "", "LinkSystem", "Fill") {
				bad = core.CalleeObj(ld).Name()
				pos = ld.Pos()
			}
		}
		c.Check(len(loads) > 0 && bad == "", key+"#loads-raw-block", p.Pos(pos), "blocks to be rebuilt are loaded with Fill", "the transform loads a block it is going to rebuild and store back through LinkSystem."+bad+" (directly or via a helper): with a NodeReifier configured the reified view is rebuilt and stored, and whatever the view hides is lost from the stored block")
	}

	c.Rule("C16.protocol", "the transform functions keep to the map-assembler protocol on every path: after a key was assigned through AssembleKey the next call on that assembler is AssembleValue (C12.client restricted to package traversal)", 4)
	sub := &core.Ctx{P: p, Prop: "C16"}
	sub.Rule("C12.client", "", 0)
	checkClients(sub)
	for _, o := range sub.Obls {
		if strings.Contains(o.Construct, "traversal.") {
			o.Rule = "C16.protocol"
			c.Obls = append(c.Obls, o)
		}
	}

	c.Rule("C16.copyall", "in the rebuild loops of the transform functions every path from the iterator's Next() through one iteration to the next iteration (or the loop exit) passes at least one value assembly - AssignNode on AssembleValue(), or a recursive transform into AssembleValue() - except the documented delete (end of path and the replacement is nil); no sibling is silently dropped", 4)
	for _, tf := range tfns {
		fn := tf.fn
		key := rel + "." + tf.label
		n := 0
		for _, ci := range core.Calls(fn) {
			cv := core.CallValue(ci)
			if cv == nil || !cv.Call.IsInvoke() || cv.Call.Method.Name() != "Next" {
				continue
			}
			// only iterators over the node being rebuilt (inside a loop)
			inLoop := false
			for _, lp := range core.LoopBlocks(fn) {
				for _, b := range lp {
					if b == cv.Block() {
						inLoop = true
					}
				}
			}
			if !inLoop {
				continue
			}
			n++
			isValue := func(in ssa.Instruction) bool {
				x, ok := in.(ssa.CallInstruction)
				if !ok || !x.Common().IsInvoke() {
					return false
				}
				return x.Common().Method.Name() == "AssembleValue"
			}
			// the delete exemption: edges on which the replacement node is nil
			deleteEdges := core.EdgesWhere(fn, func(r core.Rel) bool {
				if r.Op != token.EQL || !core.IsNilConst(r.Y) {
					return false
				}
				// a Node-typed value that is the result of the transform callback (phi of nil and fn(...) result)
				if !isNodeType(r.X.Type()) {
					return false
				}
				for w := range core.BackSlice(r.X, core.SliceOpts{Stores: true}) {
					if e, ok := w.(*ssa.Extract); ok && e.Index == 0 {
						if cl, ok := e.Tuple.(*ssa.Call); ok && !cl.Call.IsInvoke() && cl.Call.StaticCallee() == nil {
							return true // result of calling the TransformFn value
						}
					}
				}
				return false
			})
			nextErrIdx := cv.Type().(*types.Tuple).Len() - 1
			nilErr := core.EdgesWhere(fn, func(r core.Rel) bool {
				return r.Op == token.EQL && extractOf(r.X, cv, nextErrIdx) && core.IsNilConst(r.Y)
			})
			// target: the same Next() call again, or leaving the loop towards Finish
			target := func(in ssa.Instruction) bool {
				if in == ssa.Instruction(cv) {
					return true
				}
				if x, ok := in.(ssa.CallInstruction); ok && x.Common().IsInvoke() && x.Common().Method.Name() == "Finish" {
					return true
				}
				return false
			}
			// explore the success continuation after Next: block the error edge of Next and all return-with-error paths
			errEdges := map[core.Edge]bool{}
			for e := range nilErr {
				errEdges[core.Edge{From: e.From, Succ: 1 - e.Succ}] = true
			}
			// leaving the loop straight after Next via Done() is not a dropped sibling: start after the Next call
			path, reached := core.Reach(fn, cv, target, union(errEdges, deleteEdges), isValue)
			c.Check(!reached, fmt.Sprintf("%s#iteration%d", key, n), p.Pos(cv.Pos()), "every iteration assembles a value (or is the documented delete)", "an iteration of the rebuild loop can complete without assembling a value for the sibling it read: that entry is missing from the result", p.Witness(path)...)
		}
	}

	c.Rule("C16.segmenteq", "outside package datamodel no two PathSegment values are compared with == or != (a segment has a string and an integer spelling of the same position; Equals compares them properly)", 1)
	nseg := 0
	for _, fn := range p.ModFns {
		pk := core.FuncPkg(fn)
		if pk == nil || !libraryPkg(core.RelPkg(pk.Path())) || core.RelPkg(pk.Path()) == "datamodel" || len(fn.Blocks) == 0 {
			continue
		}
		core.Instrs(fn, func(in ssa.Instruction) {
			bo, ok := in.(*ssa.BinOp)
			if !ok || (bo.Op != token.EQL && bo.Op != token.NEQ) {
				return
			}
			if isPathSegment(bo.X.Type()) && isPathSegment(bo.Y.Type()) {
				nseg++
				c.Fail(fmt.Sprintf("%s#segment-compare%d", core.FuncKey(fn), nseg), p.Pos(bo.Pos()), "PathSegment values are compared with "+bo.Op.String()+": the string spelling \"0\" and the integer spelling 0 of the same position compare unequal, so selectors naming list positions are ignored here")
			}
		})
	}
	if nseg == 0 {
		c.OK("module#no-segment-operator-compare", "-", "no ==/!= on PathSegment outside datamodel")
	}

	c.Rule("C16.perchild", "in the transforming walk the selector handed to the recursive transform of a child is result 0 of Explore called in the same loop iteration with that child's own segment (never a selector computed for a sibling)", 2)
	for _, tf := range tfns {
		fn := tf.fn
		if !tr.underWalkAPI(fn) {
			continue
		}
		key := rel + "." + tf.label
		n := 0
		for _, ci := range core.Calls(fn) {
			cal := ci.Common().StaticCallee()
			if !tr.isTransformCallee(cal) {
				continue
			}
			// only descents into a child: a call that hands on this activation's own node (the walk's entry stepping into
			// its list / map rebuilding part) explores nothing
			handsOwn := false
			for _, a := range ci.Common().Args {
				if !isNodeType(a.Type()) {
					continue
				}
				for w := range core.BackSlice(a, core.SliceOpts{Stores: true}) {
					if prm, isParam := w.(*ssa.Parameter); isParam && prm.Parent() == fn && isNodeType(prm.Type()) {
						handsOwn = true
					}
				}
				break
			}
			if handsOwn {
				continue
			}
			n++
			args := ci.Common().Args
			var sel, node ssa.Value
			for i, a := range args {
				if i == 0 {
					continue
				}
				if isNodeType(a.Type()) && node == nil {
					node = a
				}
				if nt := namedOfType(a.Type()); nt != nil && nt.Obj().Name() == "Selector" {
					sel = a
				}
			}
			good := false
			why := "the child selector is not the result of an Explore call"
			if sel != nil && node != nil {
				if e, ok := core.Strip(sel).(*ssa.Extract); ok && e.Index == 0 {
					if ex, ok := e.Tuple.(*ssa.Call); ok && ex.Call.IsInvoke() && ex.Call.Method.Name() == "Explore" {
						okc, w := coupledAt(p, fn, ex.Call.Args[1], node, 0, ci)
						good, why = okc, w
					}
				}
			}
			c.Check(good, fmt.Sprintf("%s#child-selector%d", key, n), p.Pos(ci.Pos()), "selector explored for this child's segment: "+why, "the selector used for a child's transform was not obtained by Explore for that child's own segment ("+why+"): siblings are transformed under the wrong selector")
		}
	}
}
