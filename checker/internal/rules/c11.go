package rules

import (
	"fmt"
	"go/token"
	"go/types"
	"sort"
	"strings"

	"golang.org/x/tools/go/ssa"

	"verif/checker/internal/core"
)

func init() {
	register(&Def{
		ID: "C11",
		Explanation: "Structural necessary conditions of 'a finished node never changes and reads are repeatable': (confine) the storage of every struct-based Node implementation of basicnode and the generated demo package is written only by methods of builder/assembler types (types implementing NodeAssembler, MapAssembler, ListAssembler or NodeBuilder) or into objects fresh in the writing activation - no Node method, iterator, codec or traversal function writes node storage; (reset) a builder's Reset never writes through its old work-in-progress pointer; (sealed) the same-type AssignNode shortcut that shares slices/maps is followed on every path by the store of the finished state; (pure) the read API of every Node implementation performs no non-fresh heap write, no reflect.Set*, and consumes a receiver-held reader only after repositioning it to the start. " +
			"Aliasing of caller-supplied byte slices is excluded by the property; user mutation of bound Go values is out of scope.",
		NotCovered: []string{"aliasing of caller-supplied byte slices (excluded by the property)", "user mutation of Go values bound by bindnode", "concurrent reads of a reader-backed bytes node (shared stream position)", "equality of repeated reads as values"},
		Trusted:    []string{"go/ssa, go/types", "io.Seeker semantics"},
		Run:        runC11,
	})
}

// nodeImpl is one concrete datamodel.Node implementation.
type nodeImpl struct {
	core.Impl
	rel string
}

func nodeImpls(p *core.Program, keep func(rel string) bool) []nodeImpl {
	iface := p.Iface("datamodel", "Node")
	var out []nodeImpl
	for _, im := range p.Implementers(iface, keep) {
		out = append(out, nodeImpl{im, core.RelPkg(im.Named.Obj().Pkg().Path())})
	}
	return out
}

// assemblerRole: T or *T implements one of the four building interfaces.
func assemblerRole(p *core.Program, t *types.Named) bool {
	for _, n := range []string{"NodeAssembler", "MapAssembler", "ListAssembler", "NodeBuilder"} {
		if it := p.Iface("datamodel", n); it != nil {
			if types.Implements(t, it) || types.Implements(types.NewPointer(t), it) {
				return true
			}
		}
	}
	return false
}

func runC11(c *core.Ctx) {
	p := c.P
	storagePkgs := func(rel string) bool { return rel == "node/basicnode" || rel == "node/gendemo" }

	// node storage types: struct-based Node implementations and the struct element types of their slice/map fields
	storage := map[*types.TypeName]string{}
	for _, im := range nodeImpls(p, storagePkgs) {
		st, ok := im.Named.Underlying().(*types.Struct)
		if !ok {
			continue
		}
		if assemblerRole(p, im.Named) {
			continue // a type that is both (none today)
		}
		storage[im.Named.Obj()] = "node"
		for i := 0; i < st.NumFields(); i++ {
			ft := st.Field(i).Type()
			var el types.Type
			switch u := ft.Underlying().(type) {
			case *types.Slice:
				el = u.Elem()
			case *types.Map:
				el = u.Elem()
			}
			if el != nil {
				if nt, ok := types.Unalias(el).(*types.Named); ok && nt.Obj().Pkg() == im.Named.Obj().Pkg() {
					if _, isStruct := nt.Underlying().(*types.Struct); isStruct {
						storage[nt.Obj()] = "entry of " + im.Named.Obj().Name()
					}
				}
			}
		}
	}

	c.Rule("C11.confine", "every non-fresh write to a field (or element reached through a field) of a node storage type is performed by a method of a type implementing NodeAssembler/MapAssembler/ListAssembler/NodeBuilder (or a closure/helper of such a method taking the assembler), never by a Node method, iterator, codec or traversal function", 15)
	type site struct {
		fn  *ssa.Function
		w   core.Write
		hit core.FieldStep
	}
	var sites []site
	for _, fn := range p.ModFns {
		pk := core.FuncPkg(fn)
		if pk == nil || !libraryPkg(core.RelPkg(pk.Path())) {
			continue
		}
		for _, w := range p.LocalEffects(fn).Writes {
			if w.Class == core.RootFresh {
				continue
			}
			for _, st := range w.Chain {
				if st.Struct != nil && storage[st.Struct.Obj()] != "" {
					sites = append(sites, site{fn, w, st})
					break
				}
			}
		}
	}
	seen := map[string]bool{}
	for _, s := range sites {
		key := fmt.Sprintf("%s#writes:%s.%s", core.FuncKey(s.fn), s.hit.Struct.Obj().Name(), s.hit.Field)
		if seen[key] {
			continue
		}
		seen[key] = true
		base := s.fn
		for base.Parent() != nil {
			base = base.Parent()
		}
		ok := false
		why := ""
		if recv := base.Signature.Recv(); recv != nil {
			if nt := core.RecvNamed(base.Object().(*types.Func)); nt != nil && assemblerRole(p, nt) {
				ok = true
				why = "method of assembler/builder type " + nt.Obj().Name()
			}
		}
		if !ok {
			// helper functions taking an assembler as first parameter (generated code uses none today)
			for _, prm := range base.Params {
				if nt := namedOfType(prm.Type()); nt != nil && assemblerRole(p, nt) {
					ok = true
					why = "helper operating on assembler " + nt.Obj().Name()
				}
			}
		}
		c.Check(ok, key, p.Pos(s.w.Instr.Pos()), why, fmt.Sprintf("node storage %s.%s is written by %s, which is not a builder/assembler: a finished node can change after it was returned", s.hit.Struct.Obj().Name(), s.hit.Field, core.FuncKey(s.fn)))
	}

	c.Rule("C11.reset", resetText, 10)
	checkReset(c)

	c.Rule("C11.nodeoutside", "a builder, assembler or iterator never makes a node out of its own memory: no method of a NodeBuilder/NodeAssembler/MapAssembler/ListAssembler/MapIterator/ListIterator type converts the address of one of the receiver's own fields (at any depth, without loading a pointer on the way) into a datamodel.Node - such a node would change when the builder is reset or reused, or when the iterator moves on", 1)
	{
		nodeI := p.Iface("datamodel", "Node")
		var roles []*types.Interface
		for _, n := range []string{"NodeBuilder", "NodeAssembler", "MapAssembler", "ListAssembler", "MapIterator", "ListIterator"} {
			if i := p.Iface("datamodel", n); i != nil {
				roles = append(roles, i)
			}
		}
		nchecked := 0
		for _, fn := range p.ModFns {
			pk := core.FuncPkg(fn)
			if pk == nil || !libraryPkg(core.RelPkg(pk.Path())) || len(fn.Blocks) == 0 || fn.Synthetic != "" || fn.Signature.Recv() == nil || nodeI == nil {
				continue
			}
			rt := fn.Signature.Recv().Type()
			isRole := false
			for _, ri := range roles {
				if types.Implements(rt, ri) {
					isRole = true
				} else if _, isPtr := rt.(*types.Pointer); !isPtr && types.Implements(types.NewPointer(rt), ri) {
					isRole = true
				}
			}
			if !isRole || len(fn.Params) == 0 {
				continue
			}
			recv := fn.Params[0]
			if _, isPtr := recv.Type().Underlying().(*types.Pointer); !isPtr {
				continue
			}
			nchecked++
			bad := ""
			var pos token.Pos
			core.Instrs(fn, func(in ssa.Instruction) {
				mi, ok := in.(*ssa.MakeInterface)
				if !ok || !types.Implements(mi.X.Type(), nodeI) {
					return
				}
				if !types.Implements(mi.Type(), nodeI) && !types.IsInterface(mi.Type()) {
					return
				}
				// the converted pointer is the address of a field of the receiver
				a := mi.X
				steps := 0
				for {
					if fa, ok := a.(*ssa.FieldAddr); ok {
						a = fa.X
						steps++
						continue
					}
					break
				}
				if steps > 0 && a == ssa.Value(recv) {
					bad = "the address of the receiver's field " + core.FieldName(mi.X)
					pos = mi.Pos()
				}
			})
			if bad != "" {
				c.Fail(core.FuncKey(fn)+"#node-from-own-field", p.Pos(pos), "a node is made of "+bad+": the node handed out lives inside the builder and changes when the builder is reset or used again")
			}
		}
		c.Check(nchecked > 50, "library#builder-methods-scanned", "-", fmt.Sprintf("%d builder/assembler methods scanned, none makes a node out of its own fields", nchecked), "fewer builder/assembler methods than expected were found")
	}

	c.Rule("C11.sealed", "in every assembler AssignNode that copies a same-type node by value into its work-in-progress node (sharing slices and maps), every path from that copy to a return stores the finished state (the constant Finish stores) into the assembler's state field", 2)
	naIface := p.Iface("datamodel", "NodeAssembler")
	for _, im := range p.Implementers(naIface, storagePkgs) {
		fn := p.Method(im.Type(), "AssignNode")
		if fn == nil || len(fn.Blocks) == 0 || fn.Synthetic != "" {
			continue
		}
		var copies []*ssa.Store
		core.Instrs(fn, func(in ssa.Instruction) {
			st, ok := in.(*ssa.Store)
			if !ok {
				return
			}
			// *recv.w = *v2 : address is a pointer loaded from the receiver, value is a whole struct load of a node storage type
			u, ok := st.Val.(*ssa.UnOp)
			if !ok || u.Op != token.MUL {
				return
			}
			nt := namedOfType(u.Type())
			if nt == nil || storage[nt.Obj()] != "node" {
				return
			}
			if _, isLoad := st.Addr.(*ssa.UnOp); !isLoad {
				return
			}
			copies = append(copies, st)
		})
		if len(copies) == 0 {
			continue
		}
		fin := finishedConst(p, im)
		maybeValue := ""
		if sp := p.Pkg("schema"); sp != nil {
			if cn, ok := sp.Members["Maybe_Value"].(*ssa.NamedConst); ok {
				maybeValue = cn.Value.Value.ExactString()
			}
		}
		for _, cp := range copies {
			isSeal := func(in ssa.Instruction) bool {
				st, ok := in.(*ssa.Store)
				if !ok {
					return false
				}
				// basicnode style: assembler.state = <the constant Finish stores> (written out, or taken from a constant
				// table under an index known on this path)
				if fa, ok := st.Addr.(*ssa.FieldAddr); ok && isStateField(fa) {
					k, isK := core.PathConst(st.Val)
					return isK && fin != "" && k == fin
				}
				cv := core.ConstVal(st.Val)
				if cv == nil {
					return false
				}
				// generated style: *assembler.m = schema.Maybe_Value (the slot's completion marker)
				if u, ok := st.Addr.(*ssa.UnOp); ok {
					if fa, ok := u.X.(*ssa.FieldAddr); ok && strings.HasSuffix(core.FieldName(fa), ".m") {
						if nt := namedOfType(st.Val.Type()); nt != nil && nt.Obj().Name() == "Maybe" {
							return maybeValue != "" && cv.ExactString() == maybeValue
						}
					}
				}
				return false
			}
			isRet := func(in ssa.Instruction) bool { _, ok := in.(*ssa.Return); return ok }
			path, reached := core.Reach(fn, cp, isRet, nil, isSeal)
			c.Check(!reached, core.FuncKey(fn)+"#sealed", p.Pos(cp.Pos()), "structure-sharing copy is immediately sealed", "after sharing another node's slices/maps by value copy a return is reachable without the assembler being marked finished: the builder can go on appending into storage shared with a finished node", p.Witness(path)...)
		}
	}

	c.Rule("C11.decoderbytes", decoderBytesText, 4)
	checkDecoderBytes(c)

	c.Rule("C11.afterfinish", "a finished assembler cannot be made to write again: for every assembler type whose only completion marker is an enum state field (basicnode's recursive assemblers), no method of the assembler - entered with the state equal to the constant its Finish stores - can reach a store into the node under construction (through the assembler's pointer to that node): every writing method tests the state first, so that calling it on a builder whose node was already handed out panics instead of changing that node", 4)
	{
		naI := p.Iface("datamodel", "NodeAssembler")
		nAsm := 0
		for _, im := range p.Implementers(naI, func(rel string) bool { return rel == "node/basicnode" }) {
			st, ok := im.Named.Underlying().(*types.Struct)
			if !ok {
				continue
			}
			hasState, hasMaybe, hasNodePtr := false, false, false
			for i := 0; i < st.NumFields(); i++ {
				ft := st.Field(i).Type()
				if isEnumType(ft) {
					hasState = true
				}
				if pt, ok := ft.Underlying().(*types.Pointer); ok {
					if nt := namedOfType(pt.Elem()); nt != nil {
						if nt.Obj().Name() == "Maybe" {
							hasMaybe = true
						}
						if node := p.Iface("datamodel", "Node"); node != nil && (types.Implements(nt, node) || types.Implements(types.NewPointer(nt), node)) {
							hasNodePtr = true
						}
					}
				}
			}
			if !hasState || hasMaybe || !hasNodePtr {
				continue
			}
			fin := finishedConst(p, im)
			if fin == "" {
				continue
			}
			nAsm++
			ms := p.SSA.MethodSets.MethodSet(types.NewPointer(im.Named))
			for i := 0; i < ms.Len(); i++ {
				fn := p.SSA.MethodValue(ms.At(i))
				if fn == nil || len(fn.Blocks) == 0 || fn.Synthetic != "" || len(fn.Params) == 0 {
					continue
				}
				if !ms.At(i).Obj().Exported() {
					// not callable by a user of the builder: an unexported method is a step of the exported ones (where it
					// is looked at as part of their regions) or of a child assembler, which runs while this one is mid-way
					continue
				}
				recv := fn.Params[0]
				rg := core.RegionOf(fn)
				isStateLoad := func(v ssa.Value) bool {
					u, ok := core.Strip(v).(*ssa.UnOp)
					if !ok || u.Op != token.MUL {
						return false
					}
					fa, ok := u.X.(*ssa.FieldAddr)
					return ok && isStateField(fa) && (core.Strip(fa.X) == ssa.Value(recv) || rg.Canon(fa.X) == ssa.Value(recv))
				}
				isNodeWrite := func(in ssa.Instruction) bool {
					var addr ssa.Value
					switch x := in.(type) {
					case *ssa.Store:
						addr = x.Addr
					case *ssa.MapUpdate:
						addr = x.Map
					default:
						return false
					}
					// the address goes through a load of the receiver's pointer-to-node field
					for w := range core.BackSlice(addr, core.SliceOpts{Region: rg}) {
						u, ok := w.(*ssa.UnOp)
						if !ok || u.Op != token.MUL {
							continue
						}
						if fa, ok := u.X.(*ssa.FieldAddr); ok && isPtrToNodeField(p, fa) && (core.Strip(fa.X) == ssa.Value(recv) || rg.Canon(fa.X) == ssa.Value(recv)) {
							return true
						}
					}
					return false
				}
				writes := false
				core.InstrsR(fn, func(in ssa.Instruction) {
					if isNodeWrite(in) {
						writes = true
					}
				})
				if !writes {
					continue
				}
				path, reached := core.ReachFact(fn, nil, isNodeWrite, nil, nil, isStateLoad, fin)
				c.Check(!reached, core.FuncKey(fn)+"#no-write-when-finished", p.Pos(fn.Pos()), "writes the node only while the assembler is not finished", fn.Name()+" can write into the node under construction although the assembler is in its finished state: called on a builder after Build() it changes (empties, overwrites) the node that was already handed out", p.Witness(path)...)
			}
		}
		if nAsm == 0 {
			c.Undecided("node/basicnode#state-marked-assemblers", "-", "no assembler with an enum state field and a pointer to its node found")
		}
	}

	c.Rule("C11.sharedseeker", "an io.ReadSeeker kept in a field is shared (the node it came from, other views of it, hand out the same one), so its position is nobody's: every method of a library type that calls Read on a ReadSeeker held in a field of its receiver does so only after a Seek on that same field in the same activation, on every path; and no method returns the held ReadSeeker itself as an io.ReadSeeker result (a caller gets a reader with a position of its own)", 2)
	{
		nrs := 0
		for _, fn := range p.ModFns {
			pk := core.FuncPkg(fn)
			if pk == nil || !libraryPkg(core.RelPkg(pk.Path())) || len(fn.Blocks) == 0 || fn.Synthetic != "" || fn.Signature.Recv() == nil || len(fn.Params) == 0 {
				continue
			}
			recv := fn.Params[0]
			// the ReadSeeker-typed field a call's receiver is loaded from
			heldField := func(v ssa.Value) string {
				v = core.Strip(v)
				u, ok := v.(*ssa.UnOp)
				if ok && u.Op == token.MUL {
					if fa, ok := u.X.(*ssa.FieldAddr); ok {
						if root, _ := rootOfAddr(fa); core.RegionOf(fn).Canon(root) == ssa.Value(recv) {
							return core.FieldName(fa)
						}
					}
				}
				if f, ok := v.(*ssa.Field); ok {
					if core.RegionOf(fn).Canon(f.X) == ssa.Value(recv) || core.Strip(f.X) == ssa.Value(recv) {
						return core.FieldName(f)
					}
				}
				return ""
			}
			isSeeker := func(t types.Type) bool {
				nt := namedOfType(t)
				return nt != nil && nt.Obj().Pkg() != nil && nt.Obj().Pkg().Path() == "io" && (nt.Obj().Name() == "ReadSeeker" || nt.Obj().Name() == "ReadSeekCloser")
			}
			for _, ci := range core.Calls(fn) {
				cc := ci.Common()
				if !cc.IsInvoke() || cc.Method.Name() != "Read" || !isSeeker(cc.Value.Type()) {
					continue
				}
				fld := heldField(cc.Value)
				if fld == "" {
					continue
				}
				nrs++
				isSeek := func(in ssa.Instruction) bool {
					cj, ok := in.(ssa.CallInstruction)
					return ok && cj.Common().IsInvoke() && cj.Common().Method.Name() == "Seek" && heldField(cj.Common().Value) == fld
				}
				path, reached := core.Reach(fn, nil, isTarget(ci), nil, isSeek)
				c.Check(!reached, fmt.Sprintf("%s#seek-before-read:%s", core.FuncKey(fn), fld), p.Pos(ci.Pos()), "positions the shared reader before reading", "Read on the ReadSeeker held in "+fld+" is reachable without a Seek on it in this activation: the reader is shared with the node it came from, so after that node (or another view of it) was read this view returns other bytes than before - reads of a finished node are not repeatable", p.Witness(path)...)
			}
		}
		// ... and it is never handed out as it is: whoever asks a node for a reader gets one of his own
		for _, fn := range p.ModFns {
			pk := core.FuncPkg(fn)
			if pk == nil || !libraryPkg(core.RelPkg(pk.Path())) || len(fn.Blocks) == 0 || fn.Synthetic != "" || fn.Signature.Recv() == nil || len(fn.Params) == 0 {
				continue
			}
			res := fn.Signature.Results()
			if res.Len() == 0 {
				continue
			}
			if nt := namedOfType(res.At(0).Type()); nt == nil || nt.Obj().Pkg() == nil || nt.Obj().Pkg().Path() != "io" || nt.Obj().Name() != "ReadSeeker" {
				continue
			}
			recv := fn.Params[0]
			bad := false
			held := false
			pos := fn.Pos()
			for _, ret := range core.Returns(fn) {
				for _, rv := range core.ResultValues(ret, 0) {
					v := core.Strip(rv)
					// a field of the receiver (value receiver: ssa.Field / load of the spilled copy; pointer receiver: load)
					switch x := v.(type) {
					case *ssa.Field:
						if core.Strip(x.X) == ssa.Value(recv) || core.RegionOf(fn).Canon(x.X) == ssa.Value(recv) {
							bad, held, pos = true, true, ret.Pos()
						}
					case *ssa.UnOp:
						if fa, ok := x.X.(*ssa.FieldAddr); ok && x.Op == token.MUL {
							root, _ := rootOfAddr(fa)
							if core.RegionOf(fn).Canon(root) == ssa.Value(recv) || func() bool { al, ok := root.(*ssa.Alloc); return ok && al.Parent() == fn && len(fn.Params) > 0 }() {
								bad, held, pos = true, true, ret.Pos()
							}
						}
					}
				}
			}
			// only methods of types that do hold a reader are of interest
			if !held {
				if st, ok := recv.Type().Underlying().(*types.Struct); ok {
					for i := 0; i < st.NumFields(); i++ {
						if nt := namedOfType(st.Field(i).Type()); nt != nil && nt.Obj().Pkg() != nil && nt.Obj().Pkg().Path() == "io" && nt.Obj().Name() == "ReadSeeker" {
							held = true
						}
					}
				}
			}
			if !held {
				continue
			}
			nrs++
			c.Check(!bad, core.FuncKey(fn)+"#reader-not-handed-out", p.Pos(pos), "hands out a reader of the caller's own", "the ReadSeeker the node holds is returned as it is: every caller gets the same instance at whatever position the last one left it - a second AsLargeBytes read returns nothing, and a reader handed out earlier is moved by later reads of the node")
		}
		if nrs == 0 {
			c.Undecided("library#held-readseekers", "-", "no method reads from a ReadSeeker held in its receiver (the subset view of large bytes was expected)")
		}
	}

	c.Rule("C11.pure", "every method of the datamodel.Node read API (plus AsLargeBytes / AsUint) of every Node implementation in library packages - and what it statically calls in its own package - performs no non-fresh heap write except into a value it allocated, calls no reflect.Value.Set*, and reads a receiver-held io.Reader only after Seek(0, io.SeekStart) on it", 300)
	nodeIface := p.Iface("datamodel", "Node")
	impls := nodeImpls(p, libraryPkg)
	for _, im := range impls {
		var methods []string
		for i := 0; i < nodeIface.NumMethods(); i++ {
			methods = append(methods, nodeIface.Method(i).Name())
		}
		methods = append(methods, "AsLargeBytes", "AsUint", "Representation", "Type")
		sort.Strings(methods)
		for _, m := range methods {
			fn := p.Method(im.Type(), m)
			if fn == nil || len(fn.Blocks) == 0 {
				continue
			}
			key := fmt.Sprintf("%s.%s#%s", im.rel, im.Named.Obj().Name(), m)
			pw := &pureWalker{p: p, root: fn, memo: map[string]bool{}}
			pw.walk(fn, map[int]bool{}, 0)
			pos := fn.Pos()
			if pw.badPos.IsValid() {
				pos = pw.badPos
			}
			c.Check(pw.bad == "", key, p.Pos(pos), "read method is effect-free", pw.bad)
		}
	}
}

// pureWalker checks a read method and its same-package static callees for
// effects on non-fresh memory. freshSet holds the parameter indices of the
// function being walked that denote objects allocated by a caller inside the
// walk (so writing through them is not an effect on the node).
type pureWalker struct {
	p      *core.Program
	root   *ssa.Function
	memo   map[string]bool
	bad    string
	badPos token.Pos
}

func (pw *pureWalker) fail(pos token.Pos, format string, a ...any) {
	if pw.bad == "" {
		pw.bad = fmt.Sprintf(format, a...)
		pw.badPos = pos
	}
}

func (pw *pureWalker) walk(g *ssa.Function, freshSet map[int]bool, depth int) {
	var ks []string
	for i := range freshSet {
		ks = append(ks, fmt.Sprint(i))
	}
	sort.Strings(ks)
	mk := fmt.Sprintf("%p/%s", g, strings.Join(ks, ","))
	if pw.memo[mk] || depth > 4 {
		return
	}
	pw.memo[mk] = true
	p := pw.p
	isFreshVal := func(v ssa.Value) bool {
		r := rootOf(core.Strip(v))
		if ct, ok := r.(*ssa.ChangeType); ok {
			r = rootOf(ct.X)
		}
		switch x := r.(type) {
		case *ssa.Alloc:
			return true
		case *ssa.Parameter:
			return x.Parent() == g && freshSet[core.ParamIndex(x)]
		}
		return false
	}
	for _, w := range p.LocalEffects(g).Writes {
		if w.Class == core.RootFresh {
			continue
		}
		if w.Class == core.RootParam {
			if prm, ok := w.Root.(*ssa.Parameter); ok && prm.Parent() == g {
				if freshSet[core.ParamIndex(prm)] && w.Loads == 0 {
					continue
				}
				if _, isPtr := prm.Type().Underlying().(*types.Pointer); !isPtr && w.Loads == 0 {
					continue // by-value copy
				}
			}
		}
		if w.Class == core.RootCall {
			if cv, ok := w.Root.(*ssa.Call); ok {
				if cal := cv.Call.StaticCallee(); cal != nil && returnsFresh(cal) && w.Loads == 0 {
					continue // writing a field of an object the callee just allocated (e.g. tuning a new iterator)
				}
			}
		}
		pw.fail(w.Instr.Pos(), "%s performs a non-fresh heap write (%s %s)", core.FuncKey(g), w.Kind, fieldDesc(w))
	}
	for _, ci := range core.Calls(g) {
		o := core.CalleeObj(ci)
		if o != nil {
			if rn := core.RecvNamed(o); rn != nil && rn.Obj().Pkg() != nil && rn.Obj().Pkg().Path() == "reflect" && rn.Obj().Name() == "Value" && strings.HasPrefix(o.Name(), "Set") {
				if !reflectTargetFresh(ci) {
					pw.fail(ci.Pos(), "%s calls reflect.Value.%s on a value that is not freshly allocated by it", core.FuncKey(g), o.Name())
				}
			}
			consuming := core.IsPkgFunc(ci, "io", "ReadAll") || core.IsPkgFunc(ci, "io", "Copy") || core.IsPkgFunc(ci, "io", "ReadFull") || (o.Name() == "Read" && core.IsMethodNamed(ci, "Read"))
			if consuming {
				isSeekStart := func(in ssa.Instruction) bool {
					sc, ok := in.(ssa.CallInstruction)
					if !ok || !core.IsMethodNamed(sc, "Seek") {
						return false
					}
					a := core.Args(sc)
					off, ok1 := core.ConstInt(a[0])
					wh, ok2 := core.ConstInt(a[1])
					return ok1 && ok2 && off == 0 && wh == 0
				}
				if _, reached := core.Reach(g, nil, isTarget(ci), nil, isSeekStart); reached {
					pw.fail(ci.Pos(), "%s consumes a reader held by the node without first seeking to its start: a second read of the node returns different bytes", core.FuncKey(g))
				}
			}
		}
		cal := ci.Common().StaticCallee()
		if cal == nil || len(cal.Blocks) == 0 || core.FuncPkg(cal) != core.FuncPkg(pw.root) {
			continue
		}
		args := ci.Common().Args
		if cal.Signature.Recv() != nil {
			if nt := core.RecvNamed(cal.Object().(*types.Func)); nt != nil && assemblerRole(p, nt) {
				// building into a scratch assembler is fine when the assembler is this activation's own
				if len(args) == 0 || !isFreshVal(args[0]) {
					pw.fail(ci.Pos(), "%s drives assembler %s that it did not allocate itself", core.FuncKey(g), nt.Obj().Name())
				}
				continue
			}
		}
		fs := map[int]bool{}
		for j, a := range args {
			if isFreshVal(a) {
				fs[j] = true
			}
		}
		pw.walk(cal, fs, depth+1)
	}
	for _, a := range g.AnonFuncs {
		pw.walk(a, map[int]bool{}, depth+1)
	}
}

// returnsFresh: every non-nil result 0 of fn is an allocation of fn's own activation - directly, or as the result of
// a constructor-like helper with the same property (newThing() { t := new(T); t.Init(); return t }).
func returnsFresh(fn *ssa.Function) bool { return returnsFreshDepth(fn, 0) }

func returnsFreshDepth(fn *ssa.Function, depth int) bool {
	if fn == nil || depth > 3 || len(fn.Blocks) == 0 || fn.Signature.Results().Len() == 0 {
		return false
	}
	n := 0
	for _, ret := range core.Returns(fn) {
		for _, v := range core.ResultValues(ret, 0) {
			if core.IsNilConst(v) {
				continue
			}
			r := core.Strip(v)
			if ct, ok := r.(*ssa.ChangeType); ok {
				r = core.Strip(ct.X)
			}
			switch x := r.(type) {
			case *ssa.Alloc:
			case *ssa.Call:
				if !returnsFreshDepth(x.Call.StaticCallee(), depth+1) {
					return false
				}
			default:
				return false
			}
			n++
		}
	}
	return n > 0
}

func namedOfType(t types.Type) *types.Named {
	if t == nil {
		return nil
	}
	if p, ok := t.Underlying().(*types.Pointer); ok {
		t = p.Elem()
	}
	n, _ := types.Unalias(t).(*types.Named)
	return n
}

func fieldDesc(w core.Write) string {
	if w.Struct != nil {
		return w.Struct.Obj().Name() + "." + w.Field
	}
	if w.Field != "" {
		return "." + w.Field
	}
	return "element/pointee"
}

// staticCalleesIn lists same-package static callees (transitively, bounded depth).
func staticCalleesIn(fn *ssa.Function, depth int) []*ssa.Function {
	seen := map[*ssa.Function]bool{fn: true}
	var out []*ssa.Function
	var walk func(f *ssa.Function, d int)
	walk = func(f *ssa.Function, d int) {
		if d == 0 {
			return
		}
		for _, ci := range core.Calls(f) {
			cal := ci.Common().StaticCallee()
			if cal == nil || seen[cal] || len(cal.Blocks) == 0 || core.FuncPkg(cal) != core.FuncPkg(fn) {
				continue
			}
			seen[cal] = true
			out = append(out, cal)
			walk(cal, d-1)
		}
		for _, a := range f.AnonFuncs {
			if !seen[a] {
				seen[a] = true
				out = append(out, a)
				walk(a, d-1)
			}
		}
	}
	walk(fn, depth)
	return out
}

// classifyLoaded: the value is (derived from) a load through a pointer held in a parameter.
func classifyLoaded(v ssa.Value) bool {
	loads := 0
	for depth := 0; depth < 16; depth++ {
		switch x := v.(type) {
		case *ssa.UnOp:
			if x.Op == token.MUL {
				loads++
			}
			v = x.X
		case *ssa.FieldAddr:
			v = x.X
		case *ssa.Field:
			v = x.X
		case *ssa.Slice:
			v = x.X
		case *ssa.Parameter:
			return loads >= 2
		default:
			return false
		}
	}
	return false
}

// finishedConst returns the constant (ExactString) that the Finish method of
// the assembler type stores into its state field.
func finishedConst(p *core.Program, im core.Impl) string {
	fn := p.Method(im.Type(), "Finish")
	if fn == nil {
		return ""
	}
	out := ""
	for _, g := range append([]*ssa.Function{fn}, staticCalleesIn(fn, 2)...) {
		core.Instrs(g, func(in ssa.Instruction) {
			if st, ok := in.(*ssa.Store); ok {
				if fa, ok := st.Addr.(*ssa.FieldAddr); ok && isStateField(fa) {
					if cv := core.ConstVal(st.Val); cv != nil {
						out = cv.ExactString()
					}
				}
			}
		})
	}
	if out == "" && len(fn.Blocks) > 0 {
		// the state is set through a helper that takes it from a constant table (a transition table indexed by the
		// step): the constant is known along each path of Finish
		seen := map[string]bool{}
		core.Reach(fn, nil, func(in ssa.Instruction) bool {
			if st, ok := in.(*ssa.Store); ok {
				if fa, ok := st.Addr.(*ssa.FieldAddr); ok && isStateField(fa) {
					if k, ok := core.PathConst(st.Val); ok {
						seen[k] = true
					} else {
						seen["?"] = true
					}
				}
			}
			return false
		}, nil, nil)
		if len(seen) == 1 && !seen["?"] {
			for k := range seen {
				out = k
			}
		}
	}
	return out
}

// reflectTargetFresh: the reflect.Value receiving Set* was produced by reflect.New / reflect.MakeMap... in this function.
func reflectTargetFresh(ci ssa.CallInstruction) bool {
	recv := ci.Common().Args[0]
	sl := core.BackSlice(recv, core.SliceOpts{ThroughCalls: true, Stores: true})
	fresh, foreign := false, false
	for w := range sl {
		switch x := w.(type) {
		case *ssa.Call:
			if core.IsPkgFunc(x, "reflect", "New") || core.IsPkgFunc(x, "reflect", "MakeMap") || core.IsPkgFunc(x, "reflect", "MakeSlice") || core.IsPkgFunc(x, "reflect", "Zero") {
				fresh = true
			}
		case *ssa.Parameter:
			if nt := namedOfType(x.Type()); nt != nil && nt.Obj().Name() == "Value" {
				foreign = true
			}
		case *ssa.FieldAddr:
			if isReflectValueField(x) {
				foreign = true
			}
		}
	}
	return fresh && !foreign
}

const resetText = "a NodeBuilder's Reset writes only the builder's own fields (re-pointing its work-in-progress pointer to a fresh allocation); it performs no write that goes through a pointer loaded from the builder (the node built so far stays untouched)"

// checkReset is shared by C11 and C01 (a reused builder must not alias the node it built before).
func checkReset(c *core.Ctx) {
	p := c.P
	nbIface := p.Iface("datamodel", "NodeBuilder")
	for _, im := range p.Implementers(nbIface, func(rel string) bool { return libraryPkg(rel) && rel != "node/bindnode" }) {
		fn := p.Method(im.Type(), "Reset")
		if fn == nil || len(fn.Blocks) == 0 {
			continue
		}
		// follow promoted wrappers to the declared method
		bad := ""
		for _, g := range append([]*ssa.Function{fn}, staticCalleesIn(fn, 2)...) {
			for _, w := range p.LocalEffects(g).Writes {
				if w.Class == core.RootFresh {
					continue
				}
				if w.Loads > 0 {
					bad = fmt.Sprintf("%s writes %s through a pointer loaded from the builder", core.FuncKey(g), fieldDesc(w))
				}
				if w.Kind != "store" {
					bad = fmt.Sprintf("%s performs %s on builder-reachable storage", core.FuncKey(g), w.Kind)
				}
			}
			// slicing the old storage to length zero and keeping it
			core.Instrs(g, func(in ssa.Instruction) {
				if st, ok := in.(*ssa.Store); ok {
					for v := range core.BackSlice(st.Val, core.SliceOpts{}) {
						if sl, ok := v.(*ssa.Slice); ok {
							_ = sl
							if cw := classifyLoaded(sl.X); cw {
								bad = core.FuncKey(g) + " keeps (a reslice of) the old node's storage"
							}
						}
					}
				}
			})
		}
		c.Check(bad == "", core.FuncKey(fn)+"#reset", p.Pos(fn.Pos()), "Reset only re-points the builder", bad)
	}
	// bindnode's builders hold their storage as a reflect.Value - a handle to the very memory the built node reads.
	// Writing through that handle (Value.Set and friends) is the reflect spelling of a write through a pointer loaded
	// from the builder; re-pointing the builder is a store of a fresh reflect.Value into its field.
	for _, im := range p.Implementers(nbIface, func(rel string) bool { return rel == "node/bindnode" }) {
		fn := p.Method(im.Type(), "Reset")
		if fn == nil || len(fn.Blocks) == 0 || len(fn.Params) == 0 {
			continue
		}
		bad := ""
		for _, g := range append([]*ssa.Function{fn}, staticCalleesIn(fn, 2)...) {
			if len(g.Params) == 0 {
				continue
			}
			for _, ci := range core.Calls(g) {
				cal := ci.Common().StaticCallee()
				if cal == nil || cal.Pkg == nil || cal.Pkg.Pkg.Path() != "reflect" || cal.Signature.Recv() == nil || !strings.HasPrefix(cal.Name(), "Set") {
					continue
				}
				if nt := namedOfType(cal.Signature.Recv().Type()); nt == nil || nt.Obj().Name() != "Value" {
					continue
				}
				if builderHandle(ci.Common().Args[0], g.Params[0], 0) {
					bad = fmt.Sprintf("%s calls reflect.Value.%s on a value held by the builder: the storage of the node built so far is overwritten in place", core.FuncKey(g), cal.Name())
				}
			}
		}
		c.Check(bad == "", core.FuncKey(fn)+"#reset", p.Pos(fn.Pos()), "Reset does not write through the builder's reflect handle", bad)
	}
}

const decoderBytesText = "the byte slices (and strings) that the bundled decoders hand to AssignBytes never come out of storage that is kept and reused: the value does not derive from a sync.Pool, a package-level variable or a captured buffer (basicnode keeps the slice without copying, so a recycled buffer would change a finished node); and the reader the link system hands to a decoder is not such recycled storage either (a decoder may keep the bytes of a reader that exposes them: codec/raw does)"

// checkDecoderBytes decides the decoderbytes rule (shared by C11 - a finished node never changes - and C05 - what is
// loaded equals what was stored, also for the node loaded before the next load).
func checkDecoderBytes(c *core.Ctx) {
	p := c.P
	recycled := func(v ssa.Value) string {
		bad := ""
		for w := range core.BackSlice(v, core.SliceOpts{ThroughCalls: true, Stores: true}) {
			switch x := w.(type) {
			case *ssa.Call:
				if core.IsMethod(x, "sync", "Pool", "Get") {
					bad = "a sync.Pool"
				}
			case *ssa.Global:
				if p.InModuleGlobal(x) {
					bad = "package-level variable " + x.Name()
				}
			case *ssa.FreeVar:
				bad = "a captured variable"
			}
		}
		return bad
	}
	for _, fn := range p.ModFns {
		pk := core.FuncPkg(fn)
		if pk == nil || !strings.HasPrefix(core.RelPkg(pk.Path()), "codec") || len(fn.Blocks) == 0 {
			continue
		}
		n := 0
		for _, ci := range core.Calls(fn) {
			name, ok := assemblerCall(ci)
			if !ok || name != "AssignBytes" {
				continue
			}
			n++
			bad := recycled(ci.Common().Args[0])
			c.Check(bad == "", fmt.Sprintf("%s#AssignBytes%d", core.FuncKey(fn), n), p.Pos(ci.Pos()), "assigned bytes are owned by the decode call", "the bytes handed to the assembler come from "+bad+": the buffer is reused by a later decode while the finished node still refers to it")
		}
	}
	// the input of a decoder chosen by the link system
	nd := 0
	for _, fn := range p.ModFns {
		pk := core.FuncPkg(fn)
		if pk == nil || core.RelPkg(pk.Path()) != "linking" || len(fn.Blocks) == 0 || fn.Synthetic != "" {
			continue
		}
		for _, ci := range core.Calls(fn) {
			cc := ci.Common()
			if cc.IsInvoke() || cc.StaticCallee() != nil || len(cc.Args) != 2 {
				continue
			}
			nt := namedOfType(cc.Value.Type())
			if nt == nil || nt.Obj().Name() != "Decoder" || nt.Obj().Pkg() == nil || core.RelPkg(nt.Obj().Pkg().Path()) != "codec" {
				continue
			}
			nd++
			bad := recycled(cc.Args[1])
			c.Check(bad == "", fmt.Sprintf("%s#decoder-input%d", core.FuncKey(fn), nd), p.Pos(ci.Pos()), "the decoder reads from storage owned by this load", "the reader handed to the decoder comes from "+bad+": a decoder that keeps the reader's bytes (codec/raw does for readers exposing Bytes()) makes the loaded node alias a buffer the next load overwrites")
		}
	}
	if nd == 0 {
		c.Undecided("linking#decoder-call", "-", "no call of a codec.Decoder value found in package linking")
	}
}

// builderHandle: v is a reflect.Value read out of the builder recv (a field, at any depth), or a handle to part of
// the same storage derived from one (Elem, Field, Index ...). A value made by reflect.New / reflect.Zero from the
// builder's type is fresh and is not one.
func builderHandle(v ssa.Value, recv ssa.Value, depth int) bool {
	if depth > 8 {
		return false
	}
	switch x := core.Strip(v).(type) {
	case *ssa.UnOp:
		if x.Op != token.MUL {
			return false
		}
		a := x.X
		for {
			if fa, ok := a.(*ssa.FieldAddr); ok {
				a = fa.X
				continue
			}
			break
		}
		if a == recv {
			return true
		}
		if al, ok := a.(*ssa.Alloc); ok {
			// a local copy of the handle
			for _, r := range *al.Referrers() {
				if st, ok := r.(*ssa.Store); ok && st.Addr == ssa.Value(al) && builderHandle(st.Val, recv, depth+1) {
					return true
				}
			}
		}
	case *ssa.Phi:
		for _, e := range x.Edges {
			if builderHandle(e, recv, depth+1) {
				return true
			}
		}
	case *ssa.Call:
		cal := x.Call.StaticCallee()
		if cal == nil || cal.Pkg == nil || cal.Pkg.Pkg.Path() != "reflect" || cal.Signature.Recv() == nil || len(x.Call.Args) == 0 {
			return false
		}
		switch cal.Name() {
		case "Elem", "Field", "FieldByIndex", "FieldByName", "Index", "Addr", "Slice", "Slice3", "MapIndex":
			return builderHandle(x.Call.Args[0], recv, depth+1)
		}
	}
	return false
}
