package rules

import (
	"fmt"
	"go/token"
	"go/types"

	"golang.org/x/tools/go/ssa"

	"verif/checker/internal/core"
)

func init() {
	register(&Def{
		ID: "C06",
		Explanation: "Structural necessary conditions of 'no load returns unverified data', decided on every path of every load function of linking.LinkSystem (found by role: exported methods that call the StorageReadOpener field, and exported methods that call those): " +
			"every return reachable after storage was opened either reports an I/O/setup/mismatch error or is dominated by the EQUAL edge of the comparison lnk.Binary() vs lnk.Prototype().BuildLink(H.Sum()).Binary() (or by the true edge of TrustedStorage); the decoder's error is returned only behind that edge; " +
			"the hasher compared is the one the storage reader is teed into and the rest of the stream is drained into it after the decoder ran; LoadRaw hashes and returns the same whole buffer; I/O errors are tested and returned; error returns carry no data; Store commits only after a successful encode; each bundled decoder consumes or rejects trailing input. " +
			"This decides the mechanism on all paths; it does not execute loads and does not decide hash or codec arithmetic.",
		NotCovered: []string{"user-supplied codecs that stop reading early", "correctness of hash.Hash, io.TeeReader, io.Copy, LinkPrototype.BuildLink (trusted)", "bytes actually read at run time"},
		Trusted:    []string{"go/ssa, go/types (x/tools v0.50.0)", "hash.Hash, io.TeeReader, io.Copy, io.MultiWriter, bytes.Buffer semantics", "datamodel.LinkPrototype.BuildLink, Link.Binary implementations"},
		Run:        runC06,
	})
}

// ---- helpers shared by C05/C06 ----

// fieldFuncCall reports a call of the function value stored in field tname.fname.
func fieldFuncCall(c ssa.CallInstruction, tname, fname string) bool {
	cc := c.Common()
	if cc.IsInvoke() {
		return false
	}
	return core.IsFieldRef(cc.Value, tname, fname)
}

// extractOf reports whether v (conversions stripped) is result #idx of call.
func extractOf(v ssa.Value, call ssa.Value, idx int) bool {
	if extractOfLocal(v, call, idx) {
		return true
	}
	// the same question with helper boundaries resolved (the call may sit in a helper that hands its result up,
	// or v may be a helper's parameter that receives the result)
	for _, root := range []*ssa.Function{valueParent(v), valueParent(call)} {
		if root == nil {
			continue
		}
		if w := core.RegionOf(root).Canon(v); w != core.Strip(v) && extractOfLocal(w, call, idx) {
			return true
		}
	}
	return false
}

func extractOfLocal(v ssa.Value, call ssa.Value, idx int) bool {
	v = core.Strip(v)
	if e, ok := v.(*ssa.Extract); ok {
		return e.Tuple == call && e.Index == idx
	}
	// single-result call
	return idx == 0 && v == call
}

func valueParent(v ssa.Value) *ssa.Function {
	switch x := v.(type) {
	case ssa.Instruction:
		return x.Parent()
	case *ssa.Parameter:
		return x.Parent()
	case *ssa.FreeVar:
		return x.Parent()
	}
	return nil
}

// paramOfType returns the first parameter of fn whose type is the named type pkgRel.name.
func paramOfType(fn *ssa.Function, pkgRel, name string) *ssa.Parameter {
	for _, p := range fn.Params {
		if n, ok := types.Unalias(p.Type()).(*types.Named); ok && n.Obj().Name() == name && n.Obj().Pkg() != nil && core.RelPkg(n.Obj().Pkg().Path()) == pkgRel {
			return p
		}
	}
	return nil
}

func findCalls(fn *ssa.Function, pred func(ssa.CallInstruction) bool) []ssa.CallInstruction {
	var out []ssa.CallInstruction
	for _, c := range core.CallsR(fn) {
		if pred(c) {
			out = append(out, c)
		}
	}
	return out
}

// derivesFromCallResult: v's backward slice (not through calls) contains result idx of call.
func derivesFromCallResult(v ssa.Value, call ssa.Value, idx int) bool {
	sl := core.BackSlice(v, core.SliceOpts{Stores: true})
	for w := range sl {
		if extractOf(w, call, idx) {
			return true
		}
	}
	return false
}

// loaderFacts gathers the values a direct load function is made of.
type loaderFacts struct {
	rg          *core.Region
	fn          *ssa.Function
	lsys        *ssa.Parameter
	lnk         *ssa.Parameter
	opener      *ssa.Call          // lsys.StorageReadOpener(...)
	hasherCalls []*ssa.Call        // lsys.HasherChooser(...) calls
	compared    map[*ssa.Call]bool // hasher calls whose Sum feeds the comparison
	sums        []*ssa.Call        // H.Sum(...)
	equalEdges  map[core.Edge]bool
	trusted     map[core.Edge]bool
	compareDesc []string
}

// isHasher: v is the hasher whose Sum is compared (or, before the comparison
// has been identified, any hasher chosen in this activation).
func isHasher(lf *loaderFacts, v ssa.Value) bool {
	for _, hc := range lf.hasherCalls {
		if (extractOf(v, hc, 0) || extractOf(lf.rg.Canon(v), hc, 0)) && (lf.compared == nil || lf.compared[hc]) {
			return true
		}
	}
	return false
}

func gatherLoader(p *core.Program, fn *ssa.Function) *loaderFacts {
	rg := core.RegionOf(fn)
	lf := &loaderFacts{rg: rg, fn: fn, equalEdges: map[core.Edge]bool{}, trusted: map[core.Edge]bool{}}
	if len(fn.Params) > 0 {
		lf.lsys = fn.Params[0]
	}
	lf.lnk = paramOfType(fn, "datamodel", "Link")
	for _, c := range core.CallsR(fn) {
		call := core.CallValue(c)
		if call == nil {
			continue
		}
		switch {
		case fieldFuncCall(c, "LinkSystem", "StorageReadOpener"):
			lf.opener = call
		case fieldFuncCall(c, "LinkSystem", "HasherChooser"):
			lf.hasherCalls = append(lf.hasherCalls, call)
		}
	}
	for _, c := range core.CallsR(fn) {
		call := core.CallValue(c)
		if call == nil {
			continue
		}
		if core.IsMethodNamed(c, "Sum") && isHasher(lf, core.Receiver(c)) {
			lf.sums = append(lf.sums, call)
		}
	}
	comparedNow := map[*ssa.Call]bool{}
	isLnkBinary := func(v ssa.Value) bool {
		c, ok := v.(*ssa.Call)
		return ok && core.IsMethodNamed(c, "Binary") && lf.lnk != nil && rg.Canon(core.Receiver(c)) == ssa.Value(lf.lnk)
	}
	isComputedBinary := func(v ssa.Value) bool {
		c, ok := v.(*ssa.Call)
		if !ok || !core.IsMethodNamed(c, "Binary") {
			return false
		}
		// receiver must be the result of BuildLink(H.Sum(..)) on lnk.Prototype()
		r := core.Strip(core.Receiver(c))
		bl, ok := r.(*ssa.Call)
		if !ok || !core.IsMethodNamed(bl, "BuildLink") {
			return false
		}
		pr, ok := core.Strip(core.Receiver(bl)).(*ssa.Call)
		if !ok || !core.IsMethodNamed(pr, "Prototype") || lf.lnk == nil || rg.Canon(core.Receiver(pr)) != ssa.Value(lf.lnk) {
			return false
		}
		args := core.Args(bl)
		if len(args) != 1 {
			return false
		}
		sum, ok := core.Strip(args[0]).(*ssa.Call)
		if !ok {
			return false
		}
		for _, s := range lf.sums {
			if s == sum {
				for _, hc := range lf.hasherCalls {
					if extractOf(core.Receiver(s), hc, 0) || extractOf(rg.Canon(core.Receiver(s)), hc, 0) {
						comparedNow[hc] = true
					}
				}
				return true
			}
		}
		return false
	}
	defer func() { lf.compared = comparedNow }()
	for _, b := range rg.Blocks() {
		ifi := core.BlockIf(b)
		if ifi == nil {
			continue
		}
		if s, ok := core.EqualSucc(ifi, isLnkBinary, isComputedBinary); ok {
			lf.equalEdges[core.Edge{From: b, Succ: s}] = true
			lf.compareDesc = append(lf.compareDesc, p.Pos(ifi.Cond.Pos()))
		}
		if s, ok := core.BoolTrueSucc(ifi, func(v ssa.Value) bool { return core.IsFieldRef(v, "LinkSystem", "TrustedStorage") }); ok {
			lf.trusted[core.Edge{From: b, Succ: s}] = true
		}
	}
	return lf
}

// errorOrigin classifies where a NonNil error value comes from.
func allowedPreCheckError(lf *loaderFacts, v ssa.Value, copyCalls []*ssa.Call) (bool, string) {
	sl := core.BackSlice(v, core.SliceOpts{Stores: true, Region: lf.rg, Stop: func(w ssa.Value) bool {
		switch w.(type) {
		case *ssa.MakeInterface:
			return true
		case *ssa.Extract, *ssa.Call:
			return !lf.rg.IsHelperResult(w) // the error a helper returns is classified by what the helper returns
		}
		return false
	}})
	okAll := true
	why := ""
	leaf := 0
	for w := range sl {
		switch x := w.(type) {
		case *ssa.MakeInterface:
			leaf++
			n, _ := types.Unalias(x.X.Type()).(*types.Named)
			if n == nil || (n.Obj().Name() != "ErrLinkingSetup" && n.Obj().Name() != "ErrHashMismatch") {
				okAll = false
				why = "error value of type " + core.TypeString(x.X.Type())
			}
		case *ssa.Extract:
			if lf.rg.IsHelperResult(x) {
				continue
			}
			leaf++
			switch {
			case lf.opener != nil && x.Tuple == ssa.Value(lf.opener):
			default:
				isCopy := false
				for _, hc := range lf.hasherCalls {
					if x.Tuple == ssa.Value(hc) {
						isCopy = true
					}
				}
				for _, cc := range copyCalls {
					if x.Tuple == ssa.Value(cc) {
						isCopy = true
					}
				}
				if !isCopy {
					okAll = false
					why = "error produced by " + x.Tuple.String()
				}
			}
		case *ssa.Call:
			if lf.rg.IsHelperResult(x) {
				continue
			}
			leaf++
			okAll = false
			why = "error produced by " + x.String()
		case *ssa.Parameter, *ssa.Global, *ssa.FreeVar:
			if pa, ok := w.(*ssa.Parameter); ok && pa.Parent() != lf.fn && lf.rg.Has(pa.Parent()) {
				continue // a helper's parameter: its arguments are in the slice
			}
			leaf++
			okAll = false
			why = "error from " + w.String()
		}
	}
	if leaf == 0 {
		return false, "origin unknown"
	}
	return okAll, why
}

func runC06(c *core.Ctx) {
	p := c.P
	lsT := p.NamedType("linking", "LinkSystem")
	if lsT == nil {
		c.Rule("C06.check", "", 1)
		return
	}
	// Discover load functions by role.
	var direct, derived []*ssa.Function
	isDirect := map[*ssa.Function]bool{}
	ms := p.SSA.MethodSets.MethodSet(types.NewPointer(lsT))
	var methods []*ssa.Function
	for i := 0; i < ms.Len(); i++ {
		if fn := p.SSA.MethodValue(ms.At(i)); fn != nil && len(fn.Blocks) > 0 {
			methods = append(methods, fn)
		}
	}
	for _, fn := range methods {
		if len(findCalls(fn, func(ci ssa.CallInstruction) bool { return fieldFuncCall(ci, "LinkSystem", "StorageReadOpener") })) > 0 {
			direct = append(direct, fn)
			isDirect[fn] = true
		}
	}
	callsLoader := func(fn *ssa.Function, set map[*ssa.Function]bool) []*ssa.Call {
		var out []*ssa.Call
		for _, ci := range core.Calls(fn) {
			if cal := ci.Common().StaticCallee(); cal != nil && set[cal] {
				if cv := core.CallValue(ci); cv != nil {
					out = append(out, cv)
				}
			}
		}
		return out
	}
	loaderSet := map[*ssa.Function]bool{}
	for f := range isDirect {
		loaderSet[f] = true
	}
	for changed := true; changed; {
		changed = false
		for _, fn := range methods {
			if loaderSet[fn] {
				continue
			}
			if len(callsLoader(fn, loaderSet)) > 0 {
				loaderSet[fn] = true
				derived = append(derived, fn)
				changed = true
			}
		}
	}

	verified := map[*ssa.Function]bool{} // functions all of whose non-failure returns are verified

	c.Rule("C06.check", "every return of a direct load function that is reachable after the storage reader was opened either returns a non-nil setup/I-O/hash-mismatch error, or is dominated by the EQUAL edge of lnk.Binary() == lnk.Prototype().BuildLink(H.Sum(..)).Binary() or by the true edge of lsys.TrustedStorage (this covers success returns and returns of the decoder's error: mismatch takes precedence)", 4)
	facts := map[*ssa.Function]*loaderFacts{}
	for _, fn := range direct {
		key := core.FuncKey(fn)
		lf := gatherLoader(p, fn)
		facts[fn] = lf
		if lf.opener == nil || lf.lnk == nil {
			c.Undecided(key+"#anchors", p.Pos(fn.Pos()), "could not identify opener call / link parameter")
			continue
		}
		if len(lf.equalEdges) == 0 {
			c.Fail(key+"#compare", p.Pos(fn.Pos()), "no comparison of lnk.Binary() with lnk.Prototype().BuildLink(H.Sum()).Binary() where H is the hasher chosen for lnk.Prototype() in this activation")
			continue
		}
		c.OK(key+"#compare", lf.compareDesc[0], "hash comparison identified: both sides are Binary() of the requested link and of the link rebuilt from the per-call hasher's Sum")
		var copyCalls []*ssa.Call
		for _, ci := range core.CallsR(fn) {
			if core.IsPkgFunc(ci, "io", "Copy") || core.IsPkgFunc(ci, "io", "ReadAll") {
				if cv := core.CallValue(ci); cv != nil {
					copyCalls = append(copyCalls, cv)
				}
			}
		}
		blocked := map[core.Edge]bool{}
		for e := range lf.equalEdges {
			blocked[e] = true
		}
		for e := range lf.trusted {
			blocked[e] = true
		}
		errIdx := core.ErrResultIndex(fn)
		allOK := true
		for ri, ret := range core.Returns(fn) {
			// only returns reachable after the opener call matter
			if _, r := core.Reach(fn, lf.opener, func(in ssa.Instruction) bool { return in == ssa.Instruction(ret) }, nil, nil); !r {
				continue
			}
			rkey := fmt.Sprintf("%s#return[%s]", key, describeReturn(ret, errIdx))
			_ = ri
			vals := core.ResultValues(ret, errIdx)
			preOK := true
			why := ""
			for _, v := range vals {
				if core.NilnessAt(v, ret.Block()) != core.NonNil {
					preOK = false
					why = "error result may be nil (success)"
					break
				}
				if ok, w := allowedPreCheckError(lf, v, copyCalls); !ok {
					preOK = false
					why = w
					break
				}
			}
			if preOK {
				c.OK(rkey, p.Pos(ret.Pos()), "failure return carrying a setup / I-O / hash-mismatch error")
				continue
			}
			path, reached := core.Reach(fn, nil, func(in ssa.Instruction) bool {
				if in != ssa.Instruction(ret) {
					return false
				}
				// one return statement fed by a result variable: what it returns on this path
				rv := unspill(ret.Results[errIdx], ret)
				if pv := core.PathValue(rv); pv != rv && core.NilnessAt(pv, ret.Block()) == core.NonNil {
					if ok, _ := allowedPreCheckError(lf, pv, copyCalls); ok {
						return false
					}
				}
				return true
			}, blocked, nil)
			if reached {
				allOK = false
				c.Fail(rkey, p.Pos(ret.Pos()), "return ("+why+") is reachable without passing the equal edge of the hash comparison (nor TrustedStorage)", p.Witness(path)...)
			} else {
				c.OK(rkey, p.Pos(ret.Pos()), "dominated by the equal edge of the hash comparison or by TrustedStorage")
			}
		}
		if allOK {
			verified[fn] = true
		}
	}

	c.Rule("C06.derived", "every return of a load function built on another load function is a failure return or is dominated by the nil edge of the verified loader's error result; the decoder it runs reads only bytes returned by the verified loader", 2)
	for _, fn := range derived {
		key := core.FuncKey(fn)
		calls := callsLoader(fn, loaderSet)
		errIdx := core.ErrResultIndex(fn)
		// nil edges of tests on the loader call's error result
		nilEdges := map[core.Edge]bool{}
		unverifiedCallee := ""
		for _, lc := range calls {
			callee := lc.Call.StaticCallee()
			if !verified[callee] {
				unverifiedCallee = core.FuncKey(callee)
			}
			cerr := core.ErrResultIndex(callee)
			nres := callee.Signature.Results().Len()
			for _, b := range fn.Blocks {
				ifi := core.BlockIf(b)
				if ifi == nil {
					continue
				}
				if s, ok := core.NilSucc(ifi, func(v ssa.Value) bool {
					if nres == 1 {
						return core.Strip(v) == ssa.Value(lc)
					}
					return extractOf(v, lc, cerr)
				}); ok {
					nilEdges[core.Edge{From: b, Succ: s}] = true
				}
			}
		}
		if unverifiedCallee != "" {
			c.Fail(key+"#callee", p.Pos(fn.Pos()), "relies on "+unverifiedCallee+" which is not verified on all its returns")
			continue
		}
		if errIdx < 0 {
			// Must* variants: no error result; every normal return must be behind the nil edge (the other edge panics)
			for _, ret := range core.Returns(fn) {
				path, reached := core.Reach(fn, nil, func(in ssa.Instruction) bool { return in == ssa.Instruction(ret) }, nilEdges, nil)
				c.Check(!reached, key+"#return", p.Pos(ret.Pos()), "normal return only behind the nil edge of the loader's error", "normal return reachable although the loader reported an error", p.Witness(path)...)
			}
			verified[fn] = true
			continue
		}
		good := true
		for _, ret := range core.Returns(fn) {
			rkey := fmt.Sprintf("%s#return[%s]", key, describeReturn(ret, errIdx))
			nonnil := core.ResultNilness(ret, errIdx) == core.NonNil
			if nonnil {
				// failure return: must carry no node
				if fn.Signature.Results().Len() > 1 && core.ResultNilness(ret, 0) != core.IsNil {
					good = false
					c.Fail(rkey, p.Pos(ret.Pos()), "failure return carries a non-nil first result")
				} else {
					c.OK(rkey, p.Pos(ret.Pos()), "failure return with nil node")
				}
				continue
			}
			path, reached := core.Reach(fn, nil, func(in ssa.Instruction) bool { return in == ssa.Instruction(ret) }, nilEdges, nil)
			if reached {
				good = false
				c.Fail(rkey, p.Pos(ret.Pos()), "possibly-successful return not dominated by the nil edge of the verified loader's error", p.Witness(path)...)
			} else {
				c.OK(rkey, p.Pos(ret.Pos()), "dominated by the nil edge of the verified loader's error")
			}
		}
		// decoder input: any call of a function value derived from DecoderChooser must read bytes derived from the loader result
		for _, ci := range core.Calls(fn) {
			cv := core.CallValue(ci)
			if cv == nil || cv.Call.IsInvoke() || cv.Call.StaticCallee() != nil {
				continue
			}
			var chooser *ssa.Call
			for _, cj := range core.Calls(fn) {
				if fieldFuncCall(cj, "LinkSystem", "DecoderChooser") {
					chooser = core.CallValue(cj)
				}
			}
			if chooser == nil || !extractOf(cv.Call.Value, chooser, 0) {
				continue
			}
			if len(cv.Call.Args) < 2 {
				continue
			}
			src := core.BackSlice(cv.Call.Args[1], core.SliceOpts{ThroughCalls: true, Stores: true})
			fromLoader := false
			for _, lc := range calls {
				for w := range src {
					if extractOf(w, lc, 0) {
						fromLoader = true
					}
				}
			}
			if !c.Check(fromLoader, key+"#decoder-input", p.Pos(cv.Pos()), "decoder reads exactly the bytes returned by the verified loader", "decoder input does not derive from the verified loader's bytes") {
				good = false
			}
		}
		if good {
			verified[fn] = true
		}
	}

	c.Rule("C06.wholestream", "Fill-style loaders: the decoder reads io.TeeReader(storageReader, H) with H the compared hasher, and every path from the decoder call to H.Sum - whether the decoder failed or not - passes io.Copy(H, storageReader), so that the hash covers the whole stream and not what the decoder chose to consume; LoadRaw-style loaders: H.Write receives the whole buffer the reader was copied into and the same whole buffer is what is returned", 3)
	for _, fn := range direct {
		lf := facts[fn]
		if lf == nil || lf.opener == nil {
			continue
		}
		key := core.FuncKey(fn)
		isReader := func(v ssa.Value) bool { return extractOf(v, lf.opener, 0) }
		// decoder calls
		var chooser *ssa.Call
		for _, ci := range core.CallsR(fn) {
			if fieldFuncCall(ci, "LinkSystem", "DecoderChooser") {
				chooser = core.CallValue(ci)
			}
		}
		var decCalls []*ssa.Call
		if chooser != nil {
			for _, ci := range core.CallsR(fn) {
				cv := core.CallValue(ci)
				if cv != nil && !cv.Call.IsInvoke() && extractOf(cv.Call.Value, chooser, 0) {
					decCalls = append(decCalls, cv)
				}
			}
		}
		blockedTrusted := lf.trusted
		for _, dc := range decCalls {
			// is this decoder call on the trusted path (dominated by a trusted edge)?
			_, reachUntrusted := core.Reach(fn, nil, func(in ssa.Instruction) bool { return in == ssa.Instruction(dc) }, blockedTrusted, nil)
			if !reachUntrusted {
				c.Info(key+"#decoder-trusted", p.Pos(dc.Pos()), "decoder call only under TrustedStorage: exempt")
				continue
			}
			if len(dc.Call.Args) < 2 {
				c.Undecided(key+"#decoder-args", p.Pos(dc.Pos()), "decoder call shape not understood")
				continue
			}
			tee, ok := lf.rg.Canon(dc.Call.Args[1]).(*ssa.Call)
			teeOK := ok && core.IsPkgFunc(tee, "io", "TeeReader") && isReader(tee.Call.Args[0]) && isHasher(lf, tee.Call.Args[1])
			c.Check(teeOK, key+"#tee", p.Pos(dc.Pos()), "decoder reads io.TeeReader(storage reader, compared hasher)", "the decoder's input is not io.TeeReader(storage reader, H) with H the hasher that is compared")
			isDrain := func(in ssa.Instruction) bool {
				ci, ok := in.(*ssa.Call)
				return ok && core.IsPkgFunc(ci, "io", "Copy") && isHasher(lf, ci.Call.Args[0]) && isReader(ci.Call.Args[1])
			}
			for _, s := range lf.sums {
				// whatever the decoder reported: a decoder that stops at the end of its item (DontParseBeyondEnd, an
				// assembler's own fast path, a codec registered by the user) leaves the rest of the stream unread
				path, reached := core.Reach(fn, dc, func(in ssa.Instruction) bool { return in == ssa.Instruction(s) }, nil, isDrain)
				c.Check(!reached, key+"#drain", p.Pos(s.Pos()), "every path from the decoder to H.Sum passes io.Copy(H, storage reader)", "H.Sum is reachable after the decoder ran without draining the rest of the stream into the hasher: the hash covers only what the decoder consumed, so a block extended by bytes the decoder does not read is accepted by this loader (and refused by LoadRaw)", p.Witness(path)...)
			}
		}
		if len(decCalls) == 0 {
			// LoadRaw style: buffer discipline
			var buf *ssa.Alloc
			var copyCall *ssa.Call
			for _, ci := range core.CallsR(fn) {
				if cv := core.CallValue(ci); cv != nil && core.IsPkgFunc(ci, "io", "Copy") && isReader(cv.Call.Args[1]) {
					if al, ok := core.Strip(cv.Call.Args[0]).(*ssa.Alloc); ok {
						buf, copyCall = al, cv
					}
				}
			}
			if buf == nil {
				c.Undecided(key+"#buffer", p.Pos(fn.Pos()), "no io.Copy(&localBuffer, storageReader) found")
				continue
			}
			wholeBuf := func(v ssa.Value) bool {
				cv, ok := core.Strip(v).(*ssa.Call)
				return ok && core.IsMethod(cv, "bytes", "Buffer", "Bytes") && core.Receiver(cv) == ssa.Value(buf)
			}
			var writes []*ssa.Call
			for _, ci := range core.CallsR(fn) {
				if cv := core.CallValue(ci); cv != nil && core.IsMethodNamed(ci, "Write") && isHasher(lf, core.Receiver(ci)) {
					writes = append(writes, cv)
				}
			}
			if len(writes) != 1 {
				c.Fail(key+"#hash-write", p.Pos(fn.Pos()), fmt.Sprintf("expected exactly one H.Write of the buffer, found %d", len(writes)))
			} else {
				w := writes[0]
				c.Check(wholeBuf(core.Args(w)[0]), key+"#hash-write", p.Pos(w.Pos()), "H.Write receives the whole buffer (buf.Bytes())", "H.Write does not receive exactly buf.Bytes() of the buffer the storage reader was copied into")
				// ordering: copy -> write -> sum on every path
				for _, s := range lf.sums {
					_, r1 := core.Reach(fn, nil, func(in ssa.Instruction) bool { return in == ssa.Instruction(s) }, nil, func(in ssa.Instruction) bool { return in == ssa.Instruction(w) })
					_, r2 := core.Reach(fn, nil, func(in ssa.Instruction) bool { return in == ssa.Instruction(w) }, nil, func(in ssa.Instruction) bool { return in == ssa.Instruction(copyCall) })
					c.Check(!r1 && !r2, key+"#order", p.Pos(s.Pos()), "io.Copy into the buffer precedes H.Write which precedes H.Sum on every path", "H.Sum reachable without the buffer having been copied and written into the hasher first")
				}
			}
			errIdx := core.ErrResultIndex(fn)
			for _, ret := range core.Returns(fn) {
				rkey := fmt.Sprintf("%s#data[%s]", key, describeReturn(ret, errIdx))
				// one return statement fed by result variables is judged case by case
				good, what := true, ""
				for _, rc := range returnCases(ret, 0, errIdx) {
					nonnil := true
					for _, v := range core.ReachingValues(rc.err, ret) {
						if core.NilnessAt(v, ret.Block()) != core.NonNil {
							nonnil = false
						}
					}
					rv := core.ReachingValues(rc.data, ret)
					if nonnil {
						for _, v := range rv {
							if core.NilnessAt(v, ret.Block()) != core.IsNil {
								good, what = false, "failure return carries (possibly partial) data"
							}
						}
					} else if len(rv) != 1 || !wholeBuf(rv[0]) {
						good, what = false, "returned bytes are not exactly buf.Bytes() of the hashed buffer"
					}
				}
				c.Check(good, rkey, p.Pos(ret.Pos()), "a failure return carries no bytes; returned bytes are the whole hashed buffer", what)
			}
		}
	}

	c.Rule("C06.ioerrors", "the error results of the storage opener call and of every io.Copy/io.ReadAll in a load function are nil-tested, and no return that may report success is reachable from the call without passing the nil edge of that test", 3)
	for _, fn := range direct {
		lf := facts[fn]
		if lf == nil || lf.opener == nil {
			continue
		}
		key := core.FuncKey(fn)
		errIdx := core.ErrResultIndex(fn)
		var ioCalls []*ssa.Call
		ioCalls = append(ioCalls, lf.opener)
		for _, ci := range core.Calls(fn) {
			if cv := core.CallValue(ci); cv != nil && (core.IsPkgFunc(ci, "io", "Copy") || core.IsPkgFunc(ci, "io", "ReadAll")) {
				ioCalls = append(ioCalls, cv)
			}
		}
		for i, ic := range ioCalls {
			nilEdges := map[core.Edge]bool{}
			for _, b := range fn.Blocks {
				if ifi := core.BlockIf(b); ifi != nil {
					if s, ok := core.NilSucc(ifi, func(v ssa.Value) bool { return extractOf(v, ic, 1) }); ok {
						nilEdges[core.Edge{From: b, Succ: s}] = true
					}
				}
			}
			name := "opener"
			if i > 0 {
				name = fmt.Sprintf("copy%d", i)
			}
			path, reached := core.Reach(fn, ic, func(in ssa.Instruction) bool {
				ret, ok := in.(*ssa.Return)
				if !ok {
					return false
				}
				return core.ResultNilness(ret, errIdx) != core.NonNil
			}, nilEdges, nil)
			c.Check(!reached, key+"#ioerr-"+name, p.Pos(ic.Pos()), "I/O error is tested; success is unreachable when it is non-nil", "a possibly-successful return is reachable from this I/O call without passing the nil edge of a test on its error", p.Witness(path)...)
		}
	}

	c.Rule("C06.nocommit", "in LinkSystem.Store every call of the block-write committer is dominated by the nil edge of the encoder's error", 1)
	if st := p.Func("linking", "*LinkSystem", "Store"); st != nil {
		key := core.FuncKey(st)
		var opener, chooser *ssa.Call
		for _, ci := range core.CallsR(st) {
			if fieldFuncCall(ci, "LinkSystem", "StorageWriteOpener") {
				opener = core.CallValue(ci)
			}
			if fieldFuncCall(ci, "LinkSystem", "EncoderChooser") {
				chooser = core.CallValue(ci)
			}
		}
		if opener == nil || chooser == nil {
			c.Undecided(key+"#anchors", p.Pos(st.Pos()), "StorageWriteOpener/EncoderChooser calls not found")
		} else {
			var enc []*ssa.Call
			var commits []ssa.CallInstruction
			for _, ci := range core.CallsR(st) {
				cc := ci.Common()
				if cc.IsInvoke() || cc.StaticCallee() != nil {
					continue
				}
				if extractOf(cc.Value, chooser, 0) {
					if cv := core.CallValue(ci); cv != nil {
						enc = append(enc, cv)
					}
				}
				if extractOf(cc.Value, opener, 1) {
					commits = append(commits, ci)
				}
			}
			nilEdges := map[core.Edge]bool{}
			for _, e := range enc {
				for _, b := range core.RegionOf(st).Blocks() {
					if ifi := core.BlockIf(b); ifi != nil {
						if s, ok := core.NilSucc(ifi, func(v ssa.Value) bool { return core.SameValue(v, e) }); ok {
							nilEdges[core.Edge{From: b, Succ: s}] = true
						}
					}
				}
			}
			if len(commits) == 0 || len(enc) == 0 {
				c.Undecided(key+"#commit", p.Pos(st.Pos()), "committer or encoder call not identified")
			}
			// the encoder writes straight into the storage writer (through io.MultiWriter only): a buffering layer
			// defers write errors to a flush whose failure would not stop the commit
			for _, e := range enc {
				direct := false
				var latch *ssa.Alloc // a local error-latching wrapper of the package around the storage writer, if any
				w := core.Strip(e.Call.Args[1])
				if mw, ok := w.(*ssa.Call); ok && core.IsPkgFunc(mw, "io", "MultiWriter") {
					// nothing else may sit in the fan-out: io.MultiWriter stops at the first writer that fails, so a further
					// member that can refuse a write (a cancellation gate, a size limiter) fails the encoder's write without
					// the storage writer - or the latch in front of it - ever seeing a failure
					foreign := 0
					for _, el := range varargElements(mw.Call.Args[0]) {
						el = core.Strip(el)
						isStorageSide := extractOf(el, opener, 0)
						if al, ok := el.(*ssa.Alloc); ok && !isStorageSide {
							for _, sv := range allocFieldStores(al) {
								if extractOf(sv, opener, 0) {
									isStorageSide = true
								}
							}
						}
						if !isStorageSide && !isHashSink(el) {
							foreign++
						}
					}
					c.Check(foreign == 0, key+"#fan-out-storage-and-hasher-only", p.Pos(mw.Pos()), "the encoder's writer fans out to the storage side and the hasher only", "io.MultiWriter is given a further writer besides the storage side and the hasher: MultiWriter stops at the first member that fails, so when that member refuses a write the encoder gets an error the storage writer (and the latch) never saw - a codec that carries on after a failed write then reports success, and a truncated block is committed under the link of the truncated bytes")
					for _, el := range varargElements(mw.Call.Args[0]) {
						el = core.Strip(el)
						if extractOf(el, opener, 0) {
							direct = true
							continue
						}
						// &wrapper{w: writer}: a struct of this package, created here, holding the storage writer
						if al, ok := el.(*ssa.Alloc); ok {
							if nt := namedOfType(al.Type().(*types.Pointer).Elem()); nt != nil && nt.Obj().Pkg() == st.Pkg.Pkg {
								holds := false
								for _, sv := range allocFieldStores(al) {
									if extractOf(sv, opener, 0) {
										holds = true
									}
								}
								if holds {
									latch = al
								}
							}
						}
					}
				}
				if latch == nil {
					c.Check(direct, key+"#encoder-writes-storage-directly", p.Pos(e.Pos()), "the encoder's writer is io.MultiWriter(storage writer, hasher): every storage write error surfaces as the encoder's error", "the encoder does not write directly into the storage writer (a buffering/wrapping layer sits in between): a failed storage write can surface only at a later flush, after which the block is still committed")
					continue
				}
				// the wrapper must be a pure error latch, and its latched error must gate the commit
				why := latchDiscipline(p, latch)
				c.Check(why == "", key+"#encoder-writes-storage-directly", p.Pos(e.Pos()), "the encoder writes into the storage writer through an error latch of this package (forwards every write unbuffered, records the first failure)", "the wrapper between the encoder and the storage writer is not a pure error latch: "+why)
				if why == "" {
					errIdxF := latchErrField(latch)
					latchNil := core.EdgesWhere(st, func(r core.Rel) bool {
						if r.Op != token.EQL || !core.IsNilConst(r.Y) {
							return false
						}
						u, ok := core.Strip(r.X).(*ssa.UnOp)
						if !ok || u.Op != token.MUL {
							return false
						}
						fa, ok := u.X.(*ssa.FieldAddr)
						return ok && fa.Field == errIdxF && core.Strip(fa.X) == ssa.Value(latch)
					})
					// asked as: assuming what is read from the latch after the encoder ran is NOT nil, can the committer be
					// reached? (covers the read being merged into one error variable that is tested once)
					reads := map[ssa.Value]bool{}
					core.InstrsR(st, func(in ssa.Instruction) {
						u, ok := in.(*ssa.UnOp)
						if !ok || u.Op != token.MUL {
							return
						}
						fa, ok := u.X.(*ssa.FieldAddr)
						if !ok || fa.Field != errIdxF || core.Strip(fa.X) != ssa.Value(latch) {
							return
						}
						if _, after := core.Reach(st, e, func(x ssa.Instruction) bool { return x == in }, nil, nil); after {
							reads[u] = true
						}
					})
					_ = latchNil
					for _, cm := range commits {
						path, reached := core.ReachAssumingNonNil(st, e, func(in ssa.Instruction) bool { return in == ssa.Instruction(cm) }, nil, nil, reads)
						c.Check(len(reads) > 0 && !reached, key+"#commit-after-latch-checked", p.Pos(cm.Pos()), "the committer is called only after the latched storage-write error was found nil", "the committer is reachable without the storage writer's latched error having been tested nil: a codec that carries on after a failed write (and reports success) gets a truncated block committed", p.Witness(path)...)
					}
				}
			}
			// the storage writer is written to and nothing else: Store finishes a write through the committer only. Any other
			// use of the writer the opener handed out (a type assertion to find an Abort / Close / Flush and call it) is a
			// second way to end the write that the storage contract does not know - a committer asked to "abort" with the
			// empty key stores the partial block under that key in a Put-only store
			{
				other := ""
				var opos token.Pos
				core.InstrsR(st, func(in ssa.Instruction) {
					ex, ok := in.(*ssa.Extract)
					if !ok || ex.Tuple != ssa.Value(opener) || ex.Index != 0 || ex.Referrers() == nil {
						return
					}
					for _, ref := range *ex.Referrers() {
						switch x := ref.(type) {
						case *ssa.Store:
							// into the latch's field, or into the variadic slice of MultiWriter
						case *ssa.MakeInterface, *ssa.ChangeInterface, *ssa.DebugRef, *ssa.Phi:
						case *ssa.BinOp:
							// nil test
						case *ssa.TypeAssert:
							other, opos = "a type assertion to "+types.TypeString(x.AssertedType, nil), x.Pos()
						case ssa.CallInstruction:
							if x.Common().IsInvoke() && x.Common().Value == ssa.Value(ex) && x.Common().Method.Name() != "Write" {
								other, opos = "a call of "+x.Common().Method.Name(), x.Pos()
							}
						}
					}
				})
				c.Check(other == "", key+"#writer-only-written", p.Pos(opos), "the storage writer is only written to (directly or through the latch)", "Store uses the storage writer for something besides writing ("+other+"): the write can now be ended in a way the committer does not see - an abort that a Put-only store turns into a put of the partial block under the empty key")
			}
			for _, cm := range commits {
				path, reached := core.Reach(st, nil, func(in ssa.Instruction) bool { return in == ssa.Instruction(cm) }, nilEdges, nil)
				c.Check(!reached, key+"#commit", p.Pos(cm.Pos()), "committer is called only after the encoder returned nil", "the committer is reachable without the encoder having succeeded (a failed encode could commit a block)", p.Witness(path)...)
			}
		}
	} else {
		c.Undecided("linking.(*LinkSystem).Store", "-", "Store not found")
	}

	c.Rule("C06.trustedflag", "no library code stores into LinkSystem.TrustedStorage (only the user declares storage trusted): verification can never be switched off behind the user's back, e.g. on a copied LinkSystem handed to a NodeReifier", 1)
	nTrusted := 0
	for _, fn := range p.ModFns {
		pk := core.FuncPkg(fn)
		if pk == nil || !libraryPkg(core.RelPkg(pk.Path())) {
			continue
		}
		core.Instrs(fn, func(in ssa.Instruction) {
			st, ok := in.(*ssa.Store)
			if !ok {
				return
			}
			if fa, ok := st.Addr.(*ssa.FieldAddr); ok && core.FieldName(fa) == "LinkSystem.TrustedStorage" {
				nTrusted++
				c.Fail(core.FuncKey(fn)+"#sets-TrustedStorage", p.Pos(st.Pos()), "library code assigns LinkSystem.TrustedStorage: loads through that LinkSystem value skip hash verification although the user never declared the storage trusted")
			}
		})
	}
	if nTrusted == 0 {
		c.OK("module#no-TrustedStorage-writer", "-", "no store to LinkSystem.TrustedStorage in library packages")
	}

	runC06Consume(c)
}

func describeReturn(ret *ssa.Return, errIdx int) string {
	if errIdx < 0 || errIdx >= len(ret.Results) {
		return "noerr"
	}
	vs := core.ResultValues(ret, errIdx)
	if len(vs) == 1 {
		return describeValue(vs[0])
	}
	s := ""
	for _, v := range vs {
		s += describeValue(v) + "|"
	}
	return s
}

// describeValue gives a short, position-free description of a value used to
// key obligations (stable under unrelated edits).
func describeValue(v ssa.Value) string {
	switch x := v.(type) {
	case *ssa.Const:
		if x.IsNil() {
			return "nil"
		}
		return x.String()
	case *ssa.MakeInterface:
		return "new " + core.TypeString(x.X.Type())
	case *ssa.Extract:
		if c, ok := x.Tuple.(*ssa.Call); ok {
			return fmt.Sprintf("result%d of %s", x.Index, calleeName(c))
		}
	case *ssa.Call:
		return "result of " + calleeName(x)
	case *ssa.Phi:
		s := "phi("
		for i, e := range x.Edges {
			if i > 0 {
				s += ","
			}
			if _, isPhi := e.(*ssa.Phi); isPhi {
				s += "phi"
			} else {
				s += describeValue(e)
			}
		}
		return s + ")"
	case *ssa.UnOp:
		return x.Op.String() + describeValue(x.X)
	case *ssa.Alloc:
		return "local " + x.Comment
	case *ssa.Parameter:
		return "param " + x.Name()
	}
	return v.Name()
}

func calleeName(c *ssa.Call) string {
	if o := core.CalleeObj(c); o != nil {
		if n := core.RecvNamed(o); n != nil {
			return n.Obj().Name() + "." + o.Name()
		}
		return o.Name()
	}
	if f := core.FieldName(unload(c.Call.Value)); f != "" {
		return "field " + f
	}
	if e, ok := c.Call.Value.(*ssa.Extract); ok {
		return describeValue(e)
	}
	return "func value"
}

func unload(v ssa.Value) ssa.Value {
	if u, ok := v.(*ssa.UnOp); ok {
		return u.X
	}
	return v
}

// varargElements lists the values stored into the slice a variadic call receives (the elements of f(a, b, c)).
func varargElements(v ssa.Value) []ssa.Value {
	var out []ssa.Value
	sl, ok := core.Strip(v).(*ssa.Slice)
	if !ok {
		return nil
	}
	al, ok := sl.X.(*ssa.Alloc)
	if !ok {
		return nil
	}
	for _, ref := range *al.Referrers() {
		ia, ok := ref.(*ssa.IndexAddr)
		if !ok || ia.Referrers() == nil {
			continue
		}
		for _, r2 := range *ia.Referrers() {
			if st, ok := r2.(*ssa.Store); ok && st.Addr == ssa.Value(ia) {
				out = append(out, st.Val)
			}
		}
	}
	return out
}

// allocFieldStores lists the values stored into fields of a local struct.
func allocFieldStores(al *ssa.Alloc) []ssa.Value {
	var out []ssa.Value
	for _, ref := range *al.Referrers() {
		fa, ok := ref.(*ssa.FieldAddr)
		if !ok || fa.Referrers() == nil {
			continue
		}
		for _, r2 := range *fa.Referrers() {
			if st, ok := r2.(*ssa.Store); ok && st.Addr == ssa.Value(fa) {
				out = append(out, st.Val)
			}
		}
	}
	return out
}

// latchErrField: the index of the error-typed field of the wrapper struct (-1 if there is not exactly one).
func latchErrField(al *ssa.Alloc) int {
	st, ok := al.Type().(*types.Pointer).Elem().Underlying().(*types.Struct)
	if !ok {
		return -1
	}
	idx := -1
	for i := 0; i < st.NumFields(); i++ {
		if core.IsErrorType(st.Field(i).Type()) {
			if idx >= 0 {
				return -1
			}
			idx = i
		}
	}
	return idx
}

// latchDiscipline decides whether the Write method of the wrapper's type is a pure error latch: it forwards the very
// bytes it was given to the writer it holds, keeps nothing (it stores into no field but its error field), and on every
// path on which that forwarded Write reported an error (or a short write) the error field is stored before returning.
// Returns "" when it is, otherwise what is wrong.
func latchDiscipline(p *core.Program, al *ssa.Alloc) string {
	pt := al.Type().(*types.Pointer)
	errF := latchErrField(al)
	if errF < 0 {
		return "the wrapper has no single error field to latch a failure in"
	}
	wr := p.Method(pt, "Write")
	if wr == nil || len(wr.Blocks) == 0 || len(wr.Params) < 2 {
		return "the wrapper has no Write method to analyse"
	}
	recv, buf := wr.Params[0], wr.Params[1]
	var fwd *ssa.Call
	nfwd := 0
	for _, ci := range core.Calls(wr) {
		cc := ci.Common()
		if cc.IsInvoke() && cc.Method.Name() == "Write" {
			nfwd++
			fwd = core.CallValue(ci)
		}
	}
	if nfwd != 1 || fwd == nil {
		return "its Write does not forward to exactly one Write of the writer it holds"
	}
	if core.Strip(fwd.Call.Args[0]) != ssa.Value(buf) {
		return "its Write does not forward the very bytes it was given"
	}
	bad := ""
	core.Instrs(wr, func(in ssa.Instruction) {
		st, ok := in.(*ssa.Store)
		if !ok {
			return
		}
		if fa, ok := st.Addr.(*ssa.FieldAddr); ok && core.Strip(fa.X) == ssa.Value(recv) && fa.Field != errF {
			bad = "its Write stores into a field other than the latched error (it keeps state: a buffer?)"
		}
	})
	if bad != "" {
		return bad
	}
	isLatch := func(in ssa.Instruction) bool {
		st, ok := in.(*ssa.Store)
		if !ok {
			return false
		}
		fa, ok := st.Addr.(*ssa.FieldAddr)
		return ok && core.Strip(fa.X) == ssa.Value(recv) && fa.Field == errF
	}
	nilEdges := core.EdgesWhere(wr, func(r core.Rel) bool { return r.Op == token.EQL && extractOf(r.X, fwd, 1) && core.IsNilConst(r.Y) })
	if len(nilEdges) == 0 {
		return "its Write never tests the error of the forwarded Write"
	}
	isRet := func(in ssa.Instruction) bool { _, ok := in.(*ssa.Return); return ok }
	if _, reached := core.Reach(wr, fwd, isRet, nilEdges, isLatch); reached {
		return "after the forwarded Write failed a return is reachable without the error having been latched"
	}
	return ""
}

// isHashSink: the value is a hash.Hash (the hasher the link is computed from).
func isHashSink(v ssa.Value) bool {
	for _, t := range []types.Type{v.Type(), core.Strip(v).Type()} {
		if nt := namedOfType(t); nt != nil && nt.Obj().Pkg() != nil && nt.Obj().Pkg().Path() == "hash" && nt.Obj().Name() == "Hash" {
			return true
		}
	}
	return false
}

// retCase is one way a return statement fed by phis of result variables returns: the data and error values that
// arrive together over one incoming edge of the join.
type retCase struct{ data, err ssa.Value }

func returnCases(ret *ssa.Return, dataIdx, errIdx int) []retCase {
	d, e := unspill(ret.Results[dataIdx], ret), unspill(ret.Results[errIdx], ret)
	dp, dIs := d.(*ssa.Phi)
	ep, eIs := e.(*ssa.Phi)
	var out []retCase
	switch {
	case dIs && eIs && dp.Block() == ep.Block():
		for i := range dp.Edges {
			out = append(out, retCase{dp.Edges[i], ep.Edges[i]})
		}
	case eIs && !dIs:
		for _, x := range ep.Edges {
			out = append(out, retCase{d, x})
		}
	case dIs && !eIs:
		for _, x := range dp.Edges {
			out = append(out, retCase{x, e})
		}
	default:
		out = append(out, retCase{d, e})
	}
	return out
}

// unspill looks through the reload of a result that go/ssa keeps in memory because the function defers.
func unspill(v ssa.Value, ret *ssa.Return) ssa.Value {
	if rv := core.ReachingValues(v, ret); len(rv) == 1 && !core.IsZeroMarker(rv[0]) {
		return rv[0]
	}
	return v
}
