package rules

import (
	"fmt"
	"go/token"
	"go/types"
	"sort"
	"strings"

	"golang.org/x/tools/go/ssa"

	"verif/checker/internal/core"
)

func init() {
	register(&Def{
		ID:          "C07",
		Explanation: "The denotation of each selector clause (Explore / Interests / Match arithmetic, depth accounting) is value-level and not decided. Decided are engine-level necessary conditions that are visible in the shape of the code: (dispatch) every concrete Selector type is constructed by a Parse function that the ParseSelector switch dispatches to, every arm calls one, arm keys are distinct constants; (builderkeys) the keys the selector builder writes under a union key are keys the dispatched Parse function looks up (writer and reader tables agree); (engine) in the advanced walk the visit precedes child iteration; descent happens only with the non-nil result of Explore for that child and hands that very selector down; the visitor receives the Match result when there is one and the node otherwise, with the matching reason constants; WalkMatching calls the user function only for matches; a failed lookup of one interest moves on to the next interest and never leaves the loop; links are loaded with the chooser's prototype; (keepexplored) ExploreRecursive.Explore never discards a non-nil explored selector wholesale (when the depth limit is reached only the recursive edge is stripped).",
		NotCovered:  []string{"the denotation of every clause kind (which children Explore selects, range arithmetic, recursion depth accounting)", "visit order as a sequence", "subset matcher slicing arithmetic"},
		Trusted:     []string{"go/ssa, go/types"},
		Run:         runC07,
	})
}

func runC07(c *core.Ctx) {
	p := c.P
	const rel = "traversal/selector"
	sp := p.Pkg(rel)
	ps := p.Func(rel, "ParseContext", "ParseSelector")

	// arms of the ParseSelector switch: constant key -> dispatched Parse function
	arms := map[string]*ssa.Function{}
	dupKeys := false
	if ps != nil {
		for _, b := range ps.Blocks {
			ifi := core.BlockIf(b)
			if ifi == nil {
				continue
			}
			cmp, ok := core.IfCompare(ifi)
			if !ok || cmp.Op != token.EQL {
				continue
			}
			k, isS := core.ConstString(cmp.Y)
			if !isS {
				continue
			}
			var callee *ssa.Function
			for _, in := range b.Succs[0].Instrs {
				if ci, ok := in.(ssa.CallInstruction); ok {
					if cal := ci.Common().StaticCallee(); cal != nil && strings.HasPrefix(cal.Name(), "Parse") {
						callee = cal
					}
				}
			}
			if _, dup := arms[k]; dup {
				dupKeys = true
			}
			arms[k] = callee
		}
	}

	c.Rule("C07.dispatch", "every arm of the ParseSelector switch (keyed by distinct string constants) calls a Parse function; every concrete type implementing Selector in package traversal/selector is constructed by a function statically reachable from one of those Parse functions", 15)
	if ps == nil || sp == nil {
		c.Undecided(rel+".ParseSelector", "-", "not found")
	} else {
		c.Check(!dupKeys && len(arms) >= 8, core.FuncKey(ps)+"#distinct-keys", p.Pos(ps.Pos()), fmt.Sprintf("%d distinct union keys", len(arms)), "the selector union switch has duplicate or too few constant keys")
		var keys []string
		for k := range arms {
			keys = append(keys, k)
		}
		sort.Strings(keys)
		constructed := map[*types.Named]string{}
		for _, k := range keys {
			f := arms[k]
			c.Check(f != nil, fmt.Sprintf("%s#arm[%q]", core.FuncKey(ps), k), p.Pos(ps.Pos()), "dispatches to a Parse function", fmt.Sprintf("the arm for union key %q does not call a Parse function", k))
			if f == nil {
				continue
			}
			for _, g := range append([]*ssa.Function{f}, staticCalleesIn(f, 3)...) {
				core.Instrs(g, func(in ssa.Instruction) {
					var t types.Type
					switch x := in.(type) {
					case *ssa.MakeInterface:
						t = x.X.Type()
					case *ssa.Alloc:
						t = x.Type().(*types.Pointer).Elem()
					}
					if nt := namedOfType(t); nt != nil && nt.Obj().Pkg() == sp.Pkg {
						if _, ok := constructed[nt]; !ok {
							constructed[nt] = k
						}
					}
				})
			}
		}
		selIface := p.Iface(rel, "Selector")
		for _, im := range p.Implementers(selIface, func(r string) bool { return r == rel }) {
			k, ok := constructed[im.Named]
			c.Check(ok, rel+"."+im.Named.Obj().Name()+"#parsed", "-", fmt.Sprintf("constructed under union key %q", k), "the selector type "+im.Named.Obj().Name()+" is not constructed by any Parse function reachable from the ParseSelector switch: it cannot be expressed in a selector document")
		}
	}

	c.Rule("C07.builderkeys", "for every method of the selector spec builder that assembles an entry under union key K: every further constant key it assembles inside that entry is looked up (LookupByString of the same constant) by the Parse function dispatched for K or a function it statically calls", 8)
	if bt := p.NamedType("traversal/selector/builder", "selectorSpecBuilder"); bt != nil && ps != nil {
		ms := p.SSA.MethodSets.MethodSet(types.NewPointer(bt))
		for i := 0; i < ms.Len(); i++ {
			m := p.SSA.MethodValue(ms.At(i))
			if m == nil || len(m.Blocks) == 0 || m.Synthetic != "" {
				continue
			}
			// keys assembled, by closure nesting depth
			var outer string
			var inner []string
			var walk func(f *ssa.Function, depth int)
			walk = func(f *ssa.Function, depth int) {
				for _, ci := range core.Calls(f) {
					if o := core.CalleeObj(ci); o != nil && o.Name() == "AssembleEntry" {
						args := core.Args(ci)
						if len(args) == 1 {
							if k, ok := core.ConstString(args[0]); ok {
								if depth == 1 && outer == "" {
									outer = k
								} else {
									inner = append(inner, k)
								}
							}
						}
					}
				}
				for _, a := range f.AnonFuncs {
					walk(a, depth+1)
				}
			}
			walk(m, 0)
			if outer == "" {
				continue
			}
			pf := arms[outer]
			if pf == nil {
				c.Fail(core.FuncKey(m)+"#union-key", p.Pos(m.Pos()), fmt.Sprintf("the builder writes union key %q, which ParseSelector does not dispatch", outer))
				continue
			}
			read := map[string]bool{}
			for _, g := range append([]*ssa.Function{pf}, staticCalleesIn(pf, 3)...) {
				for _, ci := range core.Calls(g) {
					if ci.Common().IsInvoke() && ci.Common().Method.Name() == "LookupByString" {
						if k, ok := core.ConstString(ci.Common().Args[0]); ok {
							read[k] = true
						}
					}
				}
				// keys of nested keyed unions are recognised by comparing the single key with constants
				for _, e := range core.IfEdges(g) {
					if r, ok := core.EdgeRel(e); ok && r.Op == token.EQL {
						if k, ok := core.ConstString(r.Y); ok {
							read[k] = true
						}
					}
				}
			}
			var missing []string
			for _, k := range inner {
				if !read[k] {
					missing = append(missing, k)
				}
			}
			sort.Strings(missing)
			c.Check(len(missing) == 0, core.FuncKey(m)+"#keys", p.Pos(m.Pos()), fmt.Sprintf("keys %q under %q are read by %s", inner, outer, pf.Name()), fmt.Sprintf("the builder writes key(s) %q under union key %q that %s never looks up: selectors built with the builder compile to something else than intended", missing, outer, pf.Name()))
		}
	} else {
		c.Undecided("traversal/selector/builder.selectorSpecBuilder", "-", "not found")
	}

	c.Rule("C07.engine", "walk engine shape, with the engine's functions found by role (package traversal: the recursive function under the Walk* API whose activation invokes the AdvVisitFn callback; the functions that ask Selector.Explore; the functions that load blocks) and helpers expanded: (a) within one activation of the visiting walk no callback invocation is reachable after a descent (and the visit is not deferred): parents are visited before their children; (b) every recursive descent made by a function that asked s.Explore(n, ps) receives result 0 of that call and is behind its non-nil edge; (c) the callback gets the Match result under match != nil with the SelectionMatch reason, and a node that is not the Match result under match == nil with the candidate reason; (d) WalkMatching's adapter calls the user function only behind reason == SelectionMatch; (e) in the interest loop the failure edge of LookupBySegment reaches no return before the next iteration; (f) every block load is given the prototype returned by the LinkTargetNodePrototypeChooser", 7)
	const trel = "traversal"
	tr := newTravRoles(p)
	isAdvCallback := func(root *ssa.Function, ci ssa.CallInstruction) bool {
		return callbackType(root, ci) == "AdvVisitFn"
	}
	var visiting []*ssa.Function
	for _, fn := range tr.fns {
		if fn.Parent() != nil || !tr.recursive(fn) || !tr.underWalkAPI(fn) {
			continue
		}
		for _, ci := range core.CallsR(fn) {
			if g := ci.Parent(); g != fn && tr.recursive(g) {
				continue
			}
			if isAdvCallback(fn, ci) {
				visiting = append(visiting, fn)
				break
			}
		}
	}
	if len(visiting) == 0 {
		c.Undecided(trel+"#visiting-walk", "-", "no recursive function under the Walk* API invokes the AdvVisitFn callback")
	}
	reasonConst := func(name string) string {
		if sp2 := p.Pkg(trel); sp2 != nil {
			if cn, ok := sp2.Members[name].(*ssa.NamedConst); ok {
				return cn.Value.Value.ExactString()
			}
		}
		return "?"
	}
	for _, fn := range visiting {
		key := core.FuncKey(fn)
		rg := core.RegionOf(fn)
		isCb := func(in ssa.Instruction) bool {
			ci, ok := in.(ssa.CallInstruction)
			return ok && isAdvCallback(fn, ci)
		}
		// (a) pre-order
		bad := ""
		ndesc := 0
		var pos token.Pos = fn.Pos()
		for _, ci := range core.CallsR(fn) {
			if g := ci.Parent(); g != fn && tr.recursive(g) {
				continue
			}
			if df, isDefer := ci.(*ssa.Defer); isDefer {
				if g := df.Call.StaticCallee(); g != nil && len(g.Blocks) > 0 {
					for _, cj := range core.CallsR(g) {
						if userCallback(g, cj) || isAdvCallback(fn, cj) {
							bad = "the visit is deferred: it runs after the children were explored"
							pos = ci.Pos()
						}
					}
				}
				continue
			}
			isDescent := tr.descent(fn, ci)
			if g := ci.Common().StaticCallee(); g != nil && g.Parent() == fn {
				// a local closure called directly (go/ssa resolves it statically): a descent if the closure descends
				for _, cj := range core.CallsR(g) {
					if tr.descent(fn, cj) {
						isDescent = true
					}
				}
			}
			if !isDescent {
				continue
			}
			ndesc++
			if _, reached := core.Reach(fn, ci, isCb, nil, nil); reached {
				bad = "a callback invocation is reachable after a descent: a child can be explored before its parent node was visited (visit order is no longer depth-first pre-order)"
				pos = ci.Pos()
			}
			// and the descent is not the first thing: some path through the visiting step leads to it
			if _, reached := core.Reach(fn, nil, isTarget(ci), nil, nil); !reached {
				continue
			}
		}
		// the callback must be reachable before the first descent at all (otherwise the order is vacuous)
		if _, reached := core.Reach(fn, nil, isCb, nil, func(in ssa.Instruction) bool {
			ci, ok := in.(ssa.CallInstruction)
			if !ok {
				return false
			}
			if tr.descent(fn, ci) {
				return true
			}
			if g := ci.Common().StaticCallee(); g != nil && g.Parent() == fn {
				return true
			}
			return false
		}); !reached && bad == "" {
			bad = "no callback invocation is reachable before the first descent"
		}
		if ndesc == 0 && bad == "" {
			bad = "no descent recognised in the visiting walk"
		}
		c.Check(bad == "", key+"#visit-first", p.Pos(pos), "children are explored only after the node itself was visited", bad)

		// (e) interest loop
		for _, ci := range core.CallsR(fn) {
			cv := core.CallValue(ci)
			if cv == nil || !cv.Call.IsInvoke() || cv.Call.Method.Name() != "LookupBySegment" {
				continue
			}
			if g := ci.Parent(); g != fn && tr.recursive(g) {
				continue
			}
			home := cv.Parent()
			nonNil := core.EdgesWhere(fn, func(r core.Rel) bool { return r.Op == token.NEQ && extractOf(r.X, cv, 1) && core.IsNilConst(r.Y) })
			badL := len(nonNil) == 0
			var header *ssa.BasicBlock
			for _, lp := range core.LoopBlocks(home) {
				has := false
				for _, b := range lp {
					if b == cv.Block() {
						has = true
					}
				}
				if !has {
					continue
				}
				for _, h := range lp {
					domAll := true
					for _, b := range lp {
						if !h.Dominates(b) {
							domAll = false
						}
					}
					if domAll {
						header = h
					}
				}
			}
			if header == nil {
				badL = true
			}
			for e := range nonNil {
				// from the failure edge every path must come back to the loop header (next interest) before any return
				if header != nil && reachFromBlock(fn, e.To(), func(in ssa.Instruction) bool { _, ok := in.(*ssa.Return); return ok }, func(in ssa.Instruction) bool { return in.Block() == header }) {
					badL = true
				}
			}
			c.Check(!badL, key+"#interest-miss-continues", p.Pos(cv.Pos()), "a missing interest is skipped and the loop goes on", "when the lookup of one interest fails the loop over the interests is left: interests listed after a missing one are never explored")
		}

		// (g) stated interests are explored in the stated order
		var interests *ssa.Call
		for _, ci := range core.CallsR(fn) {
			if g := ci.Parent(); g != fn && tr.recursive(g) {
				continue
			}
			if cv := core.CallValue(ci); cv != nil && cv.Call.IsInvoke() && cv.Call.Method.Name() == "Interests" {
				interests = cv
			}
		}
		if interests != nil {
			isAttn := func(v ssa.Value) bool {
				return core.Strip(v) == ssa.Value(interests) || rg.Canon(v) == ssa.Value(interests)
			}
			attnNil := core.EdgesWhere(fn, func(r core.Rel) bool { return r.Op == token.EQL && isAttn(r.X) && core.IsNilConst(r.Y) })
			nd := 0
			badO := ""
			posO := interests.Pos()
			for _, ci := range core.CallsR(fn) {
				if g := ci.Parent(); g != fn && tr.recursive(g) {
					continue
				}
				isDescent := tr.descent(fn, ci)
				if g := ci.Common().StaticCallee(); g != nil && g.Parent() == fn {
					for _, cj := range core.CallsR(g) {
						if tr.descent(fn, cj) {
							isDescent = true
						}
					}
				}
				if !isDescent || ci.Parent() != fn {
					continue
				}
				// only descents that can run when interests were stated
				if _, reached := core.Reach(fn, interests, isTarget(ci), attnNil, nil); !reached {
					continue
				}
				if _, reachedNil := core.Reach(fn, interests, isTarget(ci), nil, nil); !reachedNil {
					continue
				}
				// ... and cannot run when none were (the explore-all loop is the other arm)
				onlyUnderInterests := true
				for e := range attnNil {
					if reachFromBlock(fn, e.To(), isTarget(ci), nil) {
						onlyUnderInterests = false
					}
				}
				if !onlyUnderInterests {
					continue
				}
				nd++
				var seg ssa.Value
				for _, a := range ci.Common().Args {
					if isPathSegment(a.Type()) {
						seg = a
					}
				}
				if seg == nil {
					// the segment travels inside a struct built at the call site
					for _, a := range ci.Common().Args {
						if st, ok := a.Type().Underlying().(*types.Struct); ok {
							for i := 0; i < st.NumFields(); i++ {
								if isPathSegment(st.Field(i).Type()) {
									seg = fieldValueOfArg(a, i)
								}
							}
						}
					}
					if seg == nil {
						continue
					}
				}
				fromAttn, fromIter := false, false
				for w := range core.BackSlice(seg, core.SliceOpts{Stores: true, ThroughCalls: true}) {
					switch x := w.(type) {
					case *ssa.IndexAddr:
						for w2 := range core.BackSlice(x.X, core.SliceOpts{Stores: true}) {
							if isAttn(w2) {
								fromAttn = true
							}
						}
					case *ssa.Call:
						if x.Call.IsInvoke() && x.Call.Method.Name() == "Next" {
							fromIter = true
						}
					}
				}
				if !fromAttn || fromIter {
					badO = "a child is explored, when the selector states its interests, under a segment that is not the current element of the Interests() list (it comes from an iterator over the node)"
					posO = ci.Pos()
				}
			}
			if nd == 0 {
				// the walk does not have a separate loop for stated interests in this shape (children come out of one
				// cursor whatever the selector states): the order is not decided here
				c.Info(key+"#interests-in-stated-order", p.Pos(posO), "no descent that runs only when interests are stated: order of exploration not decided in this shape")
			} else {
				c.Check(badO == "", key+"#interests-in-stated-order", p.Pos(posO), "stated interests are explored one by one in the order stated", badO+": children are visited in the node's order instead of the order the selector states, and an interest stated twice is explored once")
			}
		}

		// (c) what the callback is told
		var match *ssa.Call
		for _, ci := range core.CallsR(fn) {
			if g := ci.Parent(); g != fn && tr.recursive(g) {
				continue
			}
			if cv := core.CallValue(ci); cv != nil && cv.Call.IsInvoke() && cv.Call.Method.Name() == "Match" {
				match = cv
			}
		}
		good := match != nil
		if match != nil {
			nonNil := core.EdgesWhere(fn, func(r core.Rel) bool { return r.Op == token.NEQ && extractOf(r.X, match, 0) && core.IsNilConst(r.Y) })
			isNil := map[core.Edge]bool{}
			for e := range nonNil {
				isNil[core.Edge{From: e.From, Succ: 1 - e.Succ}] = true
			}
			calls := 0
			matchC, candC := reasonConst("VisitReason_SelectionMatch"), reasonConst("VisitReason_SelectionCandidate")
			for _, ci := range core.CallsR(fn) {
				if !isCb(ci) {
					continue
				}
				cc := ci.Common()
				if len(cc.Args) != 3 {
					good = false
					continue
				}
				calls++
				node, reason := cc.Args[1], cc.Args[2]
				// what the callback is told is judged per path (the two cases may share one call whose arguments
				// were chosen earlier): on every path over match != nil it gets the Match result and the match
				// reason; on every path over match == nil a node that is not the Match result and the candidate reason
				fromMatch := func(v ssa.Value) bool {
					if extractOf(v, match, 0) {
						return true
					}
					if _, isPhi := v.(*ssa.Phi); isPhi {
						return false // unresolved on this path: judged by the slice below
					}
					for w := range core.BackSlice(v, core.SliceOpts{Stores: true, Region: rg}) {
						if extractOf(w, match, 0) {
							return true
						}
					}
					return false
				}
				wrongOnMatch := func(in ssa.Instruction) bool {
					if in != ssa.Instruction(ci) {
						return false
					}
					k, okK := core.PathConst(reason)
					return !(extractOf(core.PathValue(node), match, 0) && okK && k == matchC)
				}
				wrongOnMiss := func(in ssa.Instruction) bool {
					if in != ssa.Instruction(ci) {
						return false
					}
					k, okK := core.PathConst(reason)
					return fromMatch(core.PathValue(node)) || !isNodeType(node.Type()) || !(okK && k == candC)
				}
				if _, r := core.Reach(fn, nil, wrongOnMatch, isNil, nil); r {
					good = false
				}
				if _, r := core.Reach(fn, nil, wrongOnMiss, nonNil, nil); r {
					good = false
				}
			}
			if calls == 0 || len(nonNil) == 0 {
				good = false
			}
			// both cases must actually reach a callback
			anyCb := func(in ssa.Instruction) bool { ci, ok := in.(ssa.CallInstruction); return ok && isCb(ci) }
			if _, r := core.Reach(fn, nil, anyCb, isNil, nil); !r {
				good = false
			}
			if _, r := core.Reach(fn, nil, anyCb, nonNil, nil); !r {
				good = false
			}
		}
		c.Check(good, key+"#match-result-and-reason", p.Pos(fn.Pos()), "matched nodes are reported as the Match result with the match reason, others as candidates", "the visiting walk does not report (Match result, SelectionMatch) exactly when Match returned a node and (node, SelectionCandidate) otherwise")
	}

	// (b) every function that asks the selector and then descends
	for _, fn := range tr.fns {
		if fn.Parent() != nil || !tr.recursive(fn) || !tr.underWalkAPI(fn) {
			continue
		}
		var ex *ssa.Call
		for _, ci := range core.CallsR(fn) {
			if g := ci.Parent(); g != fn && tr.recursive(g) {
				continue
			}
			if cv := core.CallValue(ci); cv != nil && cv.Call.IsInvoke() && cv.Call.Method.Name() == "Explore" {
				if nt := namedOfType(cv.Call.Value.Type()); nt != nil && nt.Obj().Name() == "Selector" && len(cv.Call.Args) == 2 {
					// exploring a child: the segment is a value of the walk, not the package's EmptyPathSegment
					// (with which the reification step unwraps an InterpretAs clause)
					if u, ok := core.Strip(cv.Call.Args[1]).(*ssa.UnOp); ok {
						if _, isGlobal := u.X.(*ssa.Global); isGlobal {
							continue
						}
					}
					ex = cv
				}
			}
		}
		if ex == nil {
			continue
		}
		key := core.FuncKey(fn)
		nonNil := core.EdgesWhere(fn, func(r core.Rel) bool { return r.Op == token.NEQ && extractOf(r.X, ex, 0) && core.IsNilConst(r.Y) })
		n := 0
		for _, ci := range core.CallsR(fn) {
			if g := ci.Parent(); g != fn && tr.recursive(g) {
				continue
			}
			if !tr.descent(fn, ci) {
				continue
			}
			n++
			selOK := false
			for _, a := range ci.Common().Args {
				if extractOf(a, ex, 0) {
					selOK = true
				}
			}
			path, reached := core.Reach(fn, nil, isTarget(ci), nonNil, nil)
			c.Check(selOK && !reached && len(nonNil) > 0, fmt.Sprintf("%s#descent%d-selector", key, n), p.Pos(ci.Pos()), "descends with the explored selector, only when it is non-nil", "a descent does not hand down the selector returned by Explore for this child, or is reachable when Explore returned nil", p.Witness(path)...)
		}
	}

	// (d)
	if fn := p.Func(trel, "Progress", "WalkMatching"); fn != nil && len(fn.AnonFuncs) == 1 {
		cl := fn.AnonFuncs[0]
		matchC := reasonConst("VisitReason_SelectionMatch")
		eq := core.EdgesWhere(cl, func(r core.Rel) bool {
			cv := core.ConstVal(r.Y)
			_, isP := r.X.(*ssa.Parameter)
			return r.Op == token.EQL && isP && cv != nil && cv.ExactString() == matchC
		})
		bad := len(eq) == 0
		for _, ci := range core.CallsR(cl) {
			cc := ci.Common()
			if cc.StaticCallee() == nil && !cc.IsInvoke() {
				if _, isB := cc.Value.(*ssa.Builtin); isB {
					continue
				}
				if _, r := core.Reach(cl, nil, isTarget(ci), eq, nil); r {
					bad = true
				}
			}
		}
		c.Check(!bad, core.FuncKey(fn)+"#matches-only", p.Pos(fn.Pos()), "user function called only for matches", "WalkMatching calls the user function for visits that are not matches")
	}

	// (f) every block load of the walks uses the chooser's prototype
	for _, fn := range tr.fns {
		if tr.absorbed(fn) && fn.Parent() == nil {
			// a loading helper is looked at on its own too: the chooser call normally sits next to the load
		}
		n := 0
		for _, ci := range core.Calls(fn) {
			if !(core.IsMethod(ci, "", "LinkSystem", "Load") || core.IsMethod(ci, "", "LinkSystem", "Fill")) || !tr.underWalkAPI(fn) {
				continue
			}
			n++
			good := false
			for _, cj := range core.CallsR(fn) {
				if !fieldFuncCall(cj, "Config", "LinkTargetNodePrototypeChooser") {
					continue
				}
				chooser := core.CallValue(cj)
				for _, a := range ci.Common().Args {
					for w := range core.BackSlice(a, core.SliceOpts{Stores: true, ThroughCalls: true}) {
						if chooser != nil && extractOf(w, chooser, 0) {
							good = true
						}
					}
				}
			}
			c.Check(good, fmt.Sprintf("%s#chooser-prototype%d", core.FuncKey(fn), n), p.Pos(ci.Pos()), "link targets are built with the chooser's prototype", "a block is loaded with a prototype other than the one returned by LinkTargetNodePrototypeChooser")
		}
	}

	c.Rule("C07.unioninterests", "a union explores each child once: in (ExploreUnion).Interests every interest taken from a member's Interests() is added to the result only after a comparison (PathSegment.Equals, directly or in a helper) with what was collected so far - the walk explores every listed segment, so a segment listed once per member would be explored (with its whole subtree) once per member; and the members are asked at one site only (nested unions would otherwise cost exponentially many calls)", 2)
	if fn := p.Func(rel, "ExploreUnion", "Interests"); fn != nil {
		var memberCalls []*ssa.Call
		for _, ci := range core.CallsR(fn) {
			if cv := core.CallValue(ci); cv != nil && cv.Call.IsInvoke() && cv.Call.Method.Name() == "Interests" {
				memberCalls = append(memberCalls, cv)
			}
		}
		callsEquals := func(ci ssa.CallInstruction) bool {
			if core.IsMethod(ci, "", "PathSegment", "Equals") {
				return true
			}
			if cal := ci.Common().StaticCallee(); cal != nil && len(cal.Blocks) > 0 && core.FuncPkg(cal) == core.FuncPkg(fn) {
				for _, cj := range core.CallsR(cal) {
					if core.IsMethod(cj, "", "PathSegment", "Equals") {
						return true
					}
				}
			}
			return false
		}
		// asking a member is not free (a member that is a union asks all of its members): one asking site, so that k
		// nested unions cost k calls and not 2^k
		c.Check(len(memberCalls) == 1, core.FuncKey(fn)+"#members-asked-once", p.Pos(fn.Pos()), "each member is asked for its interests at one site", fmt.Sprintf("the members' Interests() is called at %d sites of the function: every level of nested unions multiplies the calls, and a selector of a few hundred bytes makes the first step of a walk take exponential time", len(memberCalls)))
		nap := 0
		for _, ci := range core.CallsR(fn) {
			b, ok := ci.Common().Value.(*ssa.Builtin)
			if !ok || b.Name() != "append" || len(ci.Common().Args) < 2 {
				continue
			}
			// appends to the list of segments (not to a list of the members' lists kept for a second pass)
			if sl, ok := ci.Common().Args[0].Type().Underlying().(*types.Slice); !ok || !isPathSegment(sl.Elem()) {
				continue
			}
			fromMember := false
			for w := range core.BackSlice(ci.Common().Args[1], core.SliceOpts{Stores: true, ThroughCallsIf: func(cl *ssa.Call) bool {
				b, ok := cl.Call.Value.(*ssa.Builtin)
				return ok && b.Name() == "append" // the members' lists may be kept in a slice between asking and collecting
			}}) {
				for _, mc := range memberCalls {
					if w == ssa.Value(mc) {
						fromMember = true
					}
				}
			}
			if !fromMember {
				continue
			}
			nap++
			// no path from the function's entry reaches the append without a comparison in between the reading of the
			// member's interests and the append: look from every member call
			bad := false
			var wp []string
			// a comparison loop written out in place is passed through its exit test, also when what was collected
			// so far is empty and the comparison itself is not reached: the loop compares, and does not hold the append
			scanExit := map[ssa.Instruction]bool{}
			if g := ci.Parent(); g != nil {
				for _, lp := range core.NaturalLoops(g) {
					if lp[ci.Block()] {
						continue
					}
					compares := false
					for b := range lp {
						for _, in := range b.Instrs {
							if cj, ok := in.(ssa.CallInstruction); ok && callsEquals(cj) {
								compares = true
							}
						}
					}
					if !compares {
						continue
					}
					for b := range lp {
						if ifi := core.BlockIf(b); ifi != nil && (!lp[b.Succs[0]] || !lp[b.Succs[1]]) {
							scanExit[ifi] = true
						}
					}
				}
			}
			for _, mc := range memberCalls {
				if _, r := core.Reach(fn, mc, isTarget(ci), nil, nil); !r {
					continue
				}
				if path, reached := core.Reach(fn, mc, isTarget(ci), nil, func(in ssa.Instruction) bool {
					if scanExit[in] {
						return true
					}
					cj, ok := in.(ssa.CallInstruction)
					return ok && callsEquals(cj)
				}); reached {
					bad = true
					wp = p.Witness(path)
				}
			}
			c.Check(!bad, fmt.Sprintf("%s#interest-added-once%d", core.FuncKey(fn), nap), p.Pos(ci.Pos()), "interests are compared with what was collected before they are added", "a member's interests are appended to the union's without comparing them with what is already there: a field or index named by two members is listed twice and the walk visits that child, and everything below it, twice", wp...)
		}
		if nap == 0 {
			c.Undecided(core.FuncKey(fn)+"#appends", p.Pos(fn.Pos()), "no append of a member's interests found")
		}
	} else {
		c.Undecided("traversal/selector.(ExploreUnion).Interests", "-", "not found")
	}

	c.Rule("C07.matchdelegates", "what a composite selector matches is what its members match: no Match method of a Selector implementation in traversal/selector consults Decide (its own or a member's) - Decide is the coarser question (a matcher with a subset decides true for nodes its Match returns nothing for), so a Match gated by Decide skips the members that would have matched, and the walk reports the node as a mere candidate", 8)
	if selI := p.Iface("traversal/selector", "Selector"); selI != nil {
		for _, im := range p.Implementers(selI, func(rel string) bool { return rel == "traversal/selector" }) {
			fn := p.Method(im.Type(), "Match")
			if fn == nil || len(fn.Blocks) == 0 {
				continue
			}
			bad := false
			pos := fn.Pos()
			for _, ci := range core.CallsR(fn) {
				if cc := ci.Common(); cc.IsInvoke() && cc.Method.Name() == "Decide" {
					bad, pos = true, ci.Pos()
				} else if cal := cc.StaticCallee(); cal != nil && cal.Name() == "Decide" && cal.Signature.Recv() != nil {
					bad, pos = true, ci.Pos()
				}
			}
			c.Check(!bad, "traversal/selector."+im.Named.Obj().Name()+"#Match-asks-Match", p.Pos(pos), "answers from Match only", "Match of "+im.Named.Obj().Name()+" consults Decide: a member whose Decide is true but whose Match returns nothing (a subset matcher on a node that is too short or of another kind) ends the search, and members behind it that do match are never asked")
		}
	}

	c.Rule("C07.stopat", "the stop-at condition names one link: every value (*Condition).Match can return as true derives from a comparison of the two links as wholes - Cid.Equals, or equality of their String()/Binary()/KeyString()/Bytes() - and never from a comparison of a part of the CID (its multihash, prefix, codec or version): a different link that merely shares the hash must not stop the recursion", 1)
	if fn := p.Func("traversal/selector", "*Condition", "Match"); fn != nil {
		whole := map[string]bool{"Equals": true, "String": true, "Binary": true, "KeyString": true, "Bytes": true, "AsLink": true, "Kind": true}
		bad := ""
		pos := fn.Pos()
		ncmp := 0
		for _, ret := range core.Returns(fn) {
			for _, rv := range core.ResultValues(ret, 0) {
				if b, isC := core.ConstBool(rv); isC && !b {
					continue
				}
				for w := range core.BackSlice(rv, core.SliceOpts{ThroughCalls: true, Stores: true}) {
					cl, ok := w.(*ssa.Call)
					if !ok {
						continue
					}
					o := core.CalleeObj(cl)
					if o == nil {
						continue
					}
					rn := core.RecvNamed(o)
					isCidish := rn != nil && rn.Obj().Pkg() != nil && (rn.Obj().Pkg().Path() == "github.com/ipfs/go-cid" || core.RelPkg(rn.Obj().Pkg().Path()) == "linking/cid")
					isLinkIface := cl.Call.IsInvoke() && namedOfType(cl.Call.Value.Type()) != nil && namedOfType(cl.Call.Value.Type()).Obj().Name() == "Link"
					if !isCidish && !isLinkIface {
						continue
					}
					ncmp++
					if !whole[o.Name()] {
						bad = "the result depends on " + o.FullName() + ", a part of the link"
						pos = cl.Pos()
					}
				}
			}
		}
		c.Check(ncmp > 0 && bad == "", core.FuncKey(fn)+"#whole-link-compare", p.Pos(pos), "links are compared as wholes", bad+": a link with the same multihash under another codec (or CID version) is taken for the stop link, its block is never loaded and its subgraph is silently missing from the walk")
	} else {
		c.Undecided("traversal/selector.(*Condition).Match", "-", "not found")
	}

	c.Rule("C07.keepexplored", "in ExploreRecursive.Explore: once the current clause returned a non-nil selector for the child (nextSelector != nil edge), no return yields the constant nil selector - reaching the depth limit strips the recursive edge (replaceRecursiveEdge(.., nil)) but keeps sibling clauses such as a matcher in the same union", 1)
	if fn := p.Func(rel, "ExploreRecursive", "Explore"); fn != nil {
		key := core.FuncKey(fn)
		var cur *ssa.Call
		for _, ci := range core.Calls(fn) {
			if cv := core.CallValue(ci); cv != nil && cv.Call.IsInvoke() && cv.Call.Method.Name() == "Explore" && isSelectorFieldOf(cv.Call.Value, "ExploreRecursive") {
				cur = cv
			}
		}
		if cur == nil {
			c.Undecided(key+"#keepexplored", p.Pos(fn.Pos()), "call current.Explore not found")
		} else {
			nonNil := core.EdgesWhere(fn, func(r core.Rel) bool { return r.Op == token.NEQ && extractOf(r.X, cur, 0) && core.IsNilConst(r.Y) })
			bad := len(nonNil) == 0
			var pos token.Pos
			for e := range nonNil {
				if reachFromBlock(fn, e.To(), func(in ssa.Instruction) bool {
					ret, ok := in.(*ssa.Return)
					if ok && core.IsNilConst(ret.Results[0]) {
						pos = ret.Pos()
						return true
					}
					return false
				}, nil) {
					bad = true
				}
			}
			if !pos.IsValid() {
				pos = fn.Pos()
			}
			c.Check(!bad, key+"#keepexplored", p.Pos(pos), "an explored selector is never discarded wholesale", "after the current clause selected the child (non-nil selector) Explore can still return the nil selector: when the depth limit is reached inside a union the whole union is dropped, so nodes on the last permitted level are neither visited nor matched")
		}
	} else {
		c.Undecided(rel+".ExploreRecursive.Explore", "-", "not found")
	}
}

// isSelectorFieldOf: v is (a load of) a Selector-typed field of the named selector struct - the clause the recursive
// selector is currently working through, whatever the field is called.
func isSelectorFieldOf(v ssa.Value, typ string) bool {
	v = core.Strip(v)
	var fv *types.Var
	var owner types.Type
	switch x := v.(type) {
	case *ssa.UnOp:
		if fa, ok := x.X.(*ssa.FieldAddr); ok {
			fv, owner = fieldVar(fa), fa.X.Type()
		}
	case *ssa.Field:
		fv, owner = fieldVar(x), x.X.Type()
	}
	if fv == nil {
		return false
	}
	on := namedOfType(owner)
	ft := namedOfType(fv.Type())
	return on != nil && on.Obj().Name() == typ && ft != nil && ft.Obj().Name() == "Selector"
}
