package rules

import (
	"fmt"
	"go/token"
	"go/types"
	"sort"
	"strings"

	"golang.org/x/tools/go/ssa"

	"verif/checker/internal/core"
)

func init() {
	register(&Def{
		ID: "C07",
		Explanation: "The denotation of each selector clause (Explore / Interests / Match arithmetic, depth accounting) is value-level and not decided. Decided are engine-level necessary conditions that are visible in the shape of the code: (dispatch) every concrete Selector type is constructed by a Parse function that the ParseSelector switch dispatches to, every arm calls one, arm keys are distinct constants; (builderkeys) the keys the selector builder writes under a union key are keys the dispatched Parse function looks up (writer and reader tables agree); (engine) in the advanced walk the visit precedes child iteration; descent happens only with the non-nil result of Explore for that child and hands that very selector down; the visitor receives the Match result when there is one and the node otherwise, with the matching reason constants; WalkMatching calls the user function only for matches; a failed lookup of one interest moves on to the next interest and never leaves the loop; links are loaded with the chooser's prototype; (keepexplored) ExploreRecursive.Explore never discards a non-nil explored selector wholesale (when the depth limit is reached only the recursive edge is stripped).",
		NotCovered: []string{"the denotation of every clause kind (which children Explore selects, range arithmetic, recursion depth accounting)", "visit order as a sequence", "subset matcher slicing arithmetic"},
		Trusted:    []string{"go/ssa, go/types"},
		Run:        runC07,
	})
}

func runC07(c *core.Ctx) {
	p := c.P
	const rel = "traversal/selector"
	sp := p.Pkg(rel)
	ps := p.Func(rel, "ParseContext", "ParseSelector")

	// arms of the ParseSelector switch: constant key -> dispatched Parse function
	arms := map[string]*ssa.Function{}
	dupKeys := false
	if ps != nil {
		for _, b := range ps.Blocks {
			ifi := core.BlockIf(b)
			if ifi == nil {
				continue
			}
			cmp, ok := core.IfCompare(ifi)
			if !ok || cmp.Op != token.EQL {
				continue
			}
			k, isS := core.ConstString(cmp.Y)
			if !isS {
				continue
			}
			var callee *ssa.Function
			for _, in := range b.Succs[0].Instrs {
				if ci, ok := in.(ssa.CallInstruction); ok {
					if cal := ci.Common().StaticCallee(); cal != nil && strings.HasPrefix(cal.Name(), "Parse") {
						callee = cal
					}
				}
			}
			if _, dup := arms[k]; dup {
				dupKeys = true
			}
			arms[k] = callee
		}
	}

	c.Rule("C07.dispatch", "every arm of the ParseSelector switch (keyed by distinct string constants) calls a Parse function; every concrete type implementing Selector in package traversal/selector is constructed by a function statically reachable from one of those Parse functions", 15)
	if ps == nil || sp == nil {
		c.Undecided(rel+".ParseSelector", "-", "not found")
	} else {
		c.Check(!dupKeys && len(arms) >= 8, core.FuncKey(ps)+"#distinct-keys", p.Pos(ps.Pos()), fmt.Sprintf("%d distinct union keys", len(arms)), "the selector union switch has duplicate or too few constant keys")
		var keys []string
		for k := range arms {
			keys = append(keys, k)
		}
		sort.Strings(keys)
		constructed := map[*types.Named]string{}
		for _, k := range keys {
			f := arms[k]
			c.Check(f != nil, fmt.Sprintf("%s#arm[%q]", core.FuncKey(ps), k), p.Pos(ps.Pos()), "dispatches to a Parse function", fmt.Sprintf("the arm for union key %q does not call a Parse function", k))
			if f == nil {
				continue
			}
			for _, g := range append([]*ssa.Function{f}, staticCalleesIn(f, 3)...) {
				core.Instrs(g, func(in ssa.Instruction) {
					var t types.Type
					switch x := in.(type) {
					case *ssa.MakeInterface:
						t = x.X.Type()
					case *ssa.Alloc:
						t = x.Type().(*types.Pointer).Elem()
					}
					if nt := namedOfType(t); nt != nil && nt.Obj().Pkg() == sp.Pkg {
						if _, ok := constructed[nt]; !ok {
							constructed[nt] = k
						}
					}
				})
			}
		}
		selIface := p.Iface(rel, "Selector")
		for _, im := range p.Implementers(selIface, func(r string) bool { return r == rel }) {
			k, ok := constructed[im.Named]
			c.Check(ok, rel+"."+im.Named.Obj().Name()+"#parsed", "-", fmt.Sprintf("constructed under union key %q", k), "the selector type "+im.Named.Obj().Name()+" is not constructed by any Parse function reachable from the ParseSelector switch: it cannot be expressed in a selector document")
		}
	}

	c.Rule("C07.builderkeys", "for every method of the selector spec builder that assembles an entry under union key K: every further constant key it assembles inside that entry is looked up (LookupByString of the same constant) by the Parse function dispatched for K or a function it statically calls", 8)
	if bt := p.NamedType("traversal/selector/builder", "selectorSpecBuilder"); bt != nil && ps != nil {
		ms := p.SSA.MethodSets.MethodSet(types.NewPointer(bt))
		for i := 0; i < ms.Len(); i++ {
			m := p.SSA.MethodValue(ms.At(i))
			if m == nil || len(m.Blocks) == 0 || m.Synthetic != "" {
				continue
			}
			// keys assembled, by closure nesting depth
			var outer string
			var inner []string
			var walk func(f *ssa.Function, depth int)
			walk = func(f *ssa.Function, depth int) {
				for _, ci := range core.Calls(f) {
					if o := core.CalleeObj(ci); o != nil && o.Name() == "AssembleEntry" {
						args := core.Args(ci)
						if len(args) == 1 {
							if k, ok := core.ConstString(args[0]); ok {
								if depth == 1 && outer == "" {
									outer = k
								} else {
									inner = append(inner, k)
								}
							}
						}
					}
				}
				for _, a := range f.AnonFuncs {
					walk(a, depth+1)
				}
			}
			walk(m, 0)
			if outer == "" {
				continue
			}
			pf := arms[outer]
			if pf == nil {
				c.Fail(core.FuncKey(m)+"#union-key", p.Pos(m.Pos()), fmt.Sprintf("the builder writes union key %q, which ParseSelector does not dispatch", outer))
				continue
			}
			read := map[string]bool{}
			for _, g := range append([]*ssa.Function{pf}, staticCalleesIn(pf, 3)...) {
				for _, ci := range core.Calls(g) {
					if ci.Common().IsInvoke() && ci.Common().Method.Name() == "LookupByString" {
						if k, ok := core.ConstString(ci.Common().Args[0]); ok {
							read[k] = true
						}
					}
				}
				// keys of nested keyed unions are recognised by comparing the single key with constants
				for _, e := range core.IfEdges(g) {
					if r, ok := core.EdgeRel(e); ok && r.Op == token.EQL {
						if k, ok := core.ConstString(r.Y); ok {
							read[k] = true
						}
					}
				}
			}
			var missing []string
			for _, k := range inner {
				if !read[k] {
					missing = append(missing, k)
				}
			}
			sort.Strings(missing)
			c.Check(len(missing) == 0, core.FuncKey(m)+"#keys", p.Pos(m.Pos()), fmt.Sprintf("keys %q under %q are read by %s", inner, outer, pf.Name()), fmt.Sprintf("the builder writes key(s) %q under union key %q that %s never looks up: selectors built with the builder compile to something else than intended", missing, outer, pf.Name()))
		}
	} else {
		c.Undecided("traversal/selector/builder.selectorSpecBuilder", "-", "not found")
	}

	c.Rule("C07.engine", "walk engine shape: (a) in walkAdv every call of the descent closure is behind the visit call; (b) in explore every descent (walkAdv / walkBlock) receives result 0 of s.Explore(n, ps) and is behind its non-nil edge; (c) in visit the callback gets the Match result under match != nil with the SelectionMatch reason, and the node under match == nil with the candidate reason; (d) WalkMatching's adapter calls the user function only behind reason == SelectionMatch; (e) in walkAdv's interest loop the failure edge of LookupBySegment reaches no return before the next iteration; (f) loadLink hands LinkSystem.Load the prototype returned by the chooser", 7)
	const trel = "traversal"
	if fn := p.Func(trel, "Progress", "walkAdv"); fn != nil {
		key := core.FuncKey(fn)
		var visit ssa.CallInstruction
		for _, ci := range core.Calls(fn) {
			if _, isPlainCall := ci.(*ssa.Call); !isPlainCall {
				continue // a deferred visit runs after the children
			}
			if cal := ci.Common().StaticCallee(); cal != nil && cal.Name() == "visit" {
				visit = ci
			}
		}
		if visit == nil {
			c.Fail(key+"#visit-first", p.Pos(fn.Pos()), "walkAdv does not call visit")
		} else {
			bad := false
			nclosure := 0
			for _, ci := range core.Calls(fn) {
				cc := ci.Common()
				if cc.IsInvoke() {
					continue
				}
				isClosure := false
				if cal := cc.StaticCallee(); cal != nil {
					// go/ssa resolves calls of a local closure variable statically
					isClosure = cal.Parent() == fn
					if cal.Name() == "explore" {
						isClosure = true // direct descent without the closure
					}
				} else {
					for w := range core.BackSlice(cc.Value, core.SliceOpts{Stores: true}) {
						if _, ok := w.(*ssa.MakeClosure); ok {
							isClosure = true
						}
					}
				}
				if !isClosure {
					continue
				}
				nclosure++
				if _, reached := core.Reach(fn, nil, isTarget(ci), nil, isTarget(visit)); reached {
					bad = true
				}
			}
			if nclosure == 0 {
				bad = true // no descent call recognised: the rule would be vacuous
			}
			c.Check(!bad, key+"#visit-first", p.Pos(visit.Pos()), "children are explored only after the node itself was visited", "a child can be explored before its parent node was visited (visit order is no longer depth-first pre-order)")
		}
		// (e) interest loop
		for _, ci := range core.Calls(fn) {
			cv := core.CallValue(ci)
			if cv == nil || !cv.Call.IsInvoke() || cv.Call.Method.Name() != "LookupBySegment" {
				continue
			}
			nonNil := core.EdgesWhere(fn, func(r core.Rel) bool { return r.Op == token.NEQ && extractOf(r.X, cv, 1) && core.IsNilConst(r.Y) })
			bad := len(nonNil) == 0
			// the loop the lookup sits in, and its header (the block of the cycle that dominates the others)
			var header *ssa.BasicBlock
			for _, lp := range core.LoopBlocks(fn) {
				has := false
				for _, b := range lp {
					if b == cv.Block() {
						has = true
					}
				}
				if !has {
					continue
				}
				for _, h := range lp {
					domAll := true
					for _, b := range lp {
						if !h.Dominates(b) {
							domAll = false
						}
					}
					if domAll {
						header = h
					}
				}
			}
			if header == nil {
				bad = true
			}
			for e := range nonNil {
				// from the failure edge every path must come back to the loop header (next interest) before any return
				if header != nil && reachFromBlock(fn, e.To(), func(in ssa.Instruction) bool { _, ok := in.(*ssa.Return); return ok }, func(in ssa.Instruction) bool { return in.Block() == header }) {
					bad = true
				}
			}
			c.Check(!bad, key+"#interest-miss-continues", p.Pos(cv.Pos()), "a missing interest is skipped and the loop goes on", "when the lookup of one interest fails the loop over the interests is left: interests listed after a missing one are never explored")
		}
	} else {
		c.Undecided(trel+".Progress.walkAdv", "-", "not found")
	}
	if fn := p.Func(trel, "Progress", "explore"); fn != nil {
		key := core.FuncKey(fn)
		var ex *ssa.Call
		for _, ci := range core.Calls(fn) {
			if cv := core.CallValue(ci); cv != nil && cv.Call.IsInvoke() && cv.Call.Method.Name() == "Explore" {
				ex = cv
			}
		}
		if ex == nil {
			c.Fail(key+"#explore", p.Pos(fn.Pos()), "explore does not ask the selector (Explore)")
		} else {
			nonNil := core.EdgesWhere(fn, func(r core.Rel) bool { return r.Op == token.NEQ && extractOf(r.X, ex, 0) && core.IsNilConst(r.Y) })
			n := 0
			for _, ci := range core.Calls(fn) {
				cal := ci.Common().StaticCallee()
				if cal == nil || (cal.Name() != "walkAdv" && cal.Name() != "walkBlock") {
					continue
				}
				n++
				selOK := false
				for _, a := range ci.Common().Args {
					if extractOf(a, ex, 0) {
						selOK = true
					}
				}
				path, reached := core.Reach(fn, nil, isTarget(ci), nonNil, nil)
				c.Check(selOK && !reached && len(nonNil) > 0, fmt.Sprintf("%s#descent%d-selector", key, n), p.Pos(ci.Pos()), "descends with the explored selector, only when it is non-nil", "a descent does not hand down the selector returned by Explore for this child, or is reachable when Explore returned nil", p.Witness(path)...)
			}
		}
	}
	if fn := p.Func(trel, "Progress", "visit"); fn != nil {
		key := core.FuncKey(fn)
		var match *ssa.Call
		for _, ci := range core.Calls(fn) {
			if cv := core.CallValue(ci); cv != nil && cv.Call.IsInvoke() && cv.Call.Method.Name() == "Match" {
				match = cv
			}
		}
		reasonConst := func(name string) string {
			if sp2 := p.Pkg(trel); sp2 != nil {
				if cn, ok := sp2.Members[name].(*ssa.NamedConst); ok {
					return cn.Value.Value.ExactString()
				}
			}
			return "?"
		}
		good := match != nil
		if match != nil {
			nonNil := core.EdgesWhere(fn, func(r core.Rel) bool { return r.Op == token.NEQ && extractOf(r.X, match, 0) && core.IsNilConst(r.Y) })
			isNil := map[core.Edge]bool{}
			for e := range nonNil {
				isNil[core.Edge{From: e.From, Succ: 1 - e.Succ}] = true
			}
			calls := 0
			for _, ci := range core.Calls(fn) {
				cc := ci.Common()
				if cc.StaticCallee() != nil || cc.IsInvoke() {
					continue
				}
				if _, isParam := cc.Value.(*ssa.Parameter); !isParam {
					continue
				}
				calls++
				node, reason := cc.Args[1], cc.Args[2]
				rc := core.ConstVal(reason)
				switch {
				case extractOf(node, match, 0):
					_, r := core.Reach(fn, nil, isTarget(ci), nonNil, nil)
					if r || rc == nil || rc.ExactString() != reasonConst("VisitReason_SelectionMatch") {
						good = false
					}
				default:
					if prm, ok := core.Strip(node).(*ssa.Parameter); !ok || !isNodeType(prm.Type()) {
						good = false
					}
					_, r := core.Reach(fn, nil, isTarget(ci), isNil, nil)
					if r || rc == nil || rc.ExactString() != reasonConst("VisitReason_SelectionCandidate") {
						good = false
					}
				}
			}
			if calls != 2 {
				good = false
			}
		}
		c.Check(good, key+"#match-result-and-reason", p.Pos(fn.Pos()), "matched nodes are reported as the Match result with the match reason, others as candidates", "visit does not report (Match result, SelectionMatch) exactly when Match returned a node and (node, SelectionCandidate) otherwise")
	}
	if fn := p.Func(trel, "Progress", "WalkMatching"); fn != nil && len(fn.AnonFuncs) == 1 {
		cl := fn.AnonFuncs[0]
		matchC := "?"
		if cn, ok := p.Pkg(trel).Members["VisitReason_SelectionMatch"].(*ssa.NamedConst); ok {
			matchC = cn.Value.Value.ExactString()
		}
		eq := core.EdgesWhere(cl, func(r core.Rel) bool {
			cv := core.ConstVal(r.Y)
			_, isP := r.X.(*ssa.Parameter)
			return r.Op == token.EQL && isP && cv != nil && cv.ExactString() == matchC
		})
		bad := len(eq) == 0
		for _, ci := range core.Calls(cl) {
			cc := ci.Common()
			if cc.StaticCallee() == nil && !cc.IsInvoke() {
				if _, r := core.Reach(cl, nil, isTarget(ci), eq, nil); r {
					bad = true
				}
			}
		}
		c.Check(!bad, core.FuncKey(fn)+"#matches-only", p.Pos(fn.Pos()), "user function called only for matches", "WalkMatching calls the user function for visits that are not matches")
	}
	if fn := p.Func(trel, "Progress", "loadLink"); fn != nil {
		var chooser *ssa.Call
		for _, ci := range core.Calls(fn) {
			if fieldFuncCall(ci, "Config", "LinkTargetNodePrototypeChooser") {
				chooser = core.CallValue(ci)
			}
		}
		good := false
		for _, ci := range core.Calls(fn) {
			if core.IsMethod(ci, "", "LinkSystem", "Load") && chooser != nil {
				for _, a := range ci.Common().Args {
					if extractOf(a, chooser, 0) {
						good = true
					}
				}
			}
		}
		c.Check(good, core.FuncKey(fn)+"#chooser-prototype", p.Pos(fn.Pos()), "link targets are built with the chooser's prototype", "loadLink does not load with the prototype returned by LinkTargetNodePrototypeChooser")
	}

	c.Rule("C07.keepexplored", "in ExploreRecursive.Explore: once the current clause returned a non-nil selector for the child (nextSelector != nil edge), no return yields the constant nil selector - reaching the depth limit strips the recursive edge (replaceRecursiveEdge(.., nil)) but keeps sibling clauses such as a matcher in the same union", 1)
	if fn := p.Func(rel, "ExploreRecursive", "Explore"); fn != nil {
		key := core.FuncKey(fn)
		var cur *ssa.Call
		for _, ci := range core.Calls(fn) {
			if cv := core.CallValue(ci); cv != nil && cv.Call.IsInvoke() && cv.Call.Method.Name() == "Explore" && core.IsFieldRef(cv.Call.Value, "ExploreRecursive", "current") {
				cur = cv
			}
		}
		if cur == nil {
			c.Undecided(key+"#keepexplored", p.Pos(fn.Pos()), "call current.Explore not found")
		} else {
			nonNil := core.EdgesWhere(fn, func(r core.Rel) bool { return r.Op == token.NEQ && extractOf(r.X, cur, 0) && core.IsNilConst(r.Y) })
			bad := len(nonNil) == 0
			var pos token.Pos
			for e := range nonNil {
				if reachFromBlock(fn, e.To(), func(in ssa.Instruction) bool {
					ret, ok := in.(*ssa.Return)
					if ok && core.IsNilConst(ret.Results[0]) {
						pos = ret.Pos()
						return true
					}
					return false
				}, nil) {
					bad = true
				}
			}
			if !pos.IsValid() {
				pos = fn.Pos()
			}
			c.Check(!bad, key+"#keepexplored", p.Pos(pos), "an explored selector is never discarded wholesale", "after the current clause selected the child (non-nil selector) Explore can still return the nil selector: when the depth limit is reached inside a union the whole union is dropped, so nodes on the last permitted level are neither visited nor matched")
		}
	} else {
		c.Undecided(rel+".ExploreRecursive.Explore", "-", "not found")
	}
}
