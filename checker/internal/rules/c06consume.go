package rules

import (
	"go/token"

	"golang.org/x/tools/go/ssa"

	"verif/checker/internal/core"
)

// runC06Consume: each bundled decoder, on its possibly-nil returns, has read
// its input to EOF or rejects trailing content, so that the hasher teed into
// the reader by Fill has seen the whole block on success.
func runC06Consume(c *core.Ctx) {
	p := c.P
	c.Rule("C06.consume", "each bundled decoder consumes its whole input before a possibly-nil return: dag-cbor and dag-json return nil only behind err == io.EOF of a read after the item (dag-json additionally only after every extra byte compared equal to a whitespace constant); raw assigns exactly io.ReadAll(r) (or the reader's own whole Bytes()) and tests ReadAll's error", 5)
	checkTrailing(c, "codec/dagcbor", "DecodeOptions", "Decode")
	checkTrailing(c, "codec/dagjson", "DecodeOptions", "Decode")

	// dag-json: whitespace discipline of the slurp loop
	if fn := p.Func("codec/dagjson", "DecodeOptions", "Decode"); fn != nil {
		key := core.FuncKey(fn)
		var reads []*ssa.Call
		for _, ci := range core.Calls(fn) {
			if cv := core.CallValue(ci); cv != nil && core.IsMethodNamed(ci, "Read") && len(fn.Params) > 2 && core.Strip(core.Receiver(ci)) == ssa.Value(fn.Params[2]) {
				reads = append(reads, cv)
			}
		}
		isBuf0 := func(v ssa.Value) bool {
			u, ok := v.(*ssa.UnOp)
			if !ok || u.Op != token.MUL {
				return false
			}
			ia, ok := u.X.(*ssa.IndexAddr)
			if !ok {
				return false
			}
			_, isAlloc := ia.X.(*ssa.Alloc)
			i, isC := core.ConstInt(ia.Index)
			return isAlloc && isC && i == 0
		}
		allowed := map[int64]bool{0: true, 9: true, 10: true, 13: true, 32: true}
		badConst := false
		isWS := func(r core.Rel) bool {
			if r.Op != token.EQL || !isBuf0(r.X) {
				return false
			}
			k, ok := core.ConstInt(r.Y)
			if !ok {
				return false
			}
			if !allowed[k] {
				badConst = true
				return false
			}
			return true
		}
		ws := core.EdgesWhere(fn, isWS)
		// ... or a boolean put together from such comparisons (blank := c == ' ' || c == '\t' || ...)
		for e := range core.AnyOfEdgesWhere(fn, isWS) {
			ws[e] = true
		}
		errIdx := core.ErrResultIndex(fn)
		for _, rd := range reads {
			path, reached := core.Reach(fn, rd, func(in ssa.Instruction) bool {
				ret, ok := in.(*ssa.Return)
				return ok && core.ResultNilness(ret, errIdx) != core.NonNil
			}, ws, func(in ssa.Instruction) bool { return in == ssa.Instruction(rd) })
			c.Check(!reached && len(ws) > 0, key+"#whitespace-only", p.Pos(rd.Pos()), "after each extra read a nil return is only reachable when the byte equals a JSON whitespace constant (or 0 from an empty read)", "a nil return is reachable after reading an extra byte that was not compared equal to whitespace: trailing content accepted", p.Witness(path)...)
		}
		if len(reads) == 0 {
			c.Undecided(key+"#whitespace-only", p.Pos(fn.Pos()), "no read of the input after unmarshalling found")
		}
		c.Check(!badConst, key+"#whitespace-set", p.Pos(fn.Pos()), "bytes skipped after the item are within {NUL, TAB, LF, CR, SPACE}", "a non-whitespace byte value is skipped after the item")
	}

	// raw
	if fn := p.Func("codec/raw", "", "Decode"); fn != nil {
		key := core.FuncKey(fn)
		var reader ssa.Value
		if len(fn.Params) > 1 {
			reader = fn.Params[1]
		}
		for _, ci := range core.Calls(fn) {
			name, ok := assemblerCall(ci)
			if !ok || name != "AssignBytes" {
				continue
			}
			arg := ci.Common().Args[0]
			// The assigned bytes must be the result of reading r to EOF: io.ReadAll(r), the reader's own whole
			// Bytes(), or the Bytes() of a buffer that r was drained into (ReadFrom / io.Copy) - never a truncation
			// of those and never a reader other than r itself (e.g. a LimitReader around it).
			sl := core.BackSlice(arg, core.SliceOpts{})
			good := true
			leaves := 0
			var readAll *ssa.Call
			drained := false
			for w := range sl {
				switch x := w.(type) {
				case *ssa.Call:
					leaves++
					switch {
					case core.IsPkgFunc(x, "io", "ReadAll") && core.Strip(x.Call.Args[0]) == reader:
						readAll = x
					case core.IsMethodNamed(x, "Bytes"):
						recv := core.Receiver(x)
						rs := core.BackSlice(recv, core.SliceOpts{})
						if rs[reader] {
							break // the reader itself, type-asserted to something with Bytes()
						}
						// a buffer that r was drained into
						ok := false
						for _, cj := range core.Calls(fn) {
							if core.IsMethodNamed(cj, "ReadFrom") && len(core.Args(cj)) == 1 && core.Strip(core.Args(cj)[0]) == reader && sameBuffer(core.Receiver(cj), recv) {
								ok = true
							}
							if core.IsPkgFunc(cj, "io", "Copy") && core.Strip(cj.Common().Args[1]) == reader && sameBuffer(cj.Common().Args[0], recv) {
								ok = true
							}
						}
						if ok {
							drained = true
						} else {
							good = false
						}
					default:
						good = false
					}
				case *ssa.Slice:
					good = false
				case *ssa.Const:
					if !x.IsNil() {
						good = false
					}
				}
			}
			_ = drained
			c.Check(good && leaves > 0, key+"#whole-input", p.Pos(ci.Pos()), "AssignBytes receives the whole input read from r to EOF", "AssignBytes receives something other than the whole content of the reader (a truncation, or bytes read through a limiting wrapper)")
			if readAll != nil {
				nilEdges := core.EdgesWhere(fn, func(r core.Rel) bool { return r.Op == token.EQL && extractOf(r.X, readAll, 1) && core.IsNilConst(r.Y) })
				path, reached := core.Reach(fn, readAll, isTarget(ci), nilEdges, nil)
				c.Check(!reached, key+"#readall-error", p.Pos(readAll.Pos()), "AssignBytes unreachable when io.ReadAll failed", "AssignBytes reachable after a failed io.ReadAll (partial data assigned)", p.Witness(path)...)
			}
		}
	} else {
		c.Undecided("codec/raw.Decode", "-", "raw decoder not found")
	}
}

// sameBuffer: both values denote the same buffer object (same SSA value after stripping conversions, or share a root call/alloc).
func sameBuffer(a, b ssa.Value) bool { return sameBufferR(nil, a, b) }

// sameBufferR: as sameBuffer, resolving helper boundaries of the given region (nil: the region of each value's function).
func sameBufferR(rg *core.Region, a, b ssa.Value) bool {
	a, b = core.Strip(a), core.Strip(b)
	if a == b || core.SameValue(a, b) {
		return true
	}
	if rg != nil && rg.Canon(a) == rg.Canon(b) {
		return true
	}
	ra := core.BackSlice(a, core.SliceOpts{Stores: true, Region: rg})
	for w := range core.BackSlice(b, core.SliceOpts{Stores: true, Region: rg}) {
		switch w.(type) {
		case *ssa.Alloc, *ssa.Call:
			if ra[w] {
				return true
			}
		}
	}
	return false
}
