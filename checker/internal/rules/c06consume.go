package rules

import "verif/checker/internal/core"

func runC06Consume(c *core.Ctx) {}
