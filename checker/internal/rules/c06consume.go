package rules

import (
	"go/token"

	"golang.org/x/tools/go/ssa"

	"verif/checker/internal/core"
)

// runC06Consume: each bundled decoder, on its possibly-nil returns, has read
// its input to EOF or rejects trailing content, so that the hasher teed into
// the reader by Fill has seen the whole block on success.
func runC06Consume(c *core.Ctx) {
	p := c.P
	c.Rule("C06.consume", "each bundled decoder consumes its whole input before a possibly-nil return: dag-cbor and dag-json return nil only behind err == io.EOF of a read after the item (dag-json additionally only after every extra byte compared equal to a whitespace constant); raw assigns exactly io.ReadAll(r) (or the reader's own whole Bytes()) and tests ReadAll's error", 5)
	checkTrailing(c, "codec/dagcbor", "DecodeOptions", "Decode")
	checkTrailing(c, "codec/dagjson", "DecodeOptions", "Decode")

	// dag-json: whitespace discipline of the slurp loop
	if fn := p.Func("codec/dagjson", "DecodeOptions", "Decode"); fn != nil {
		key := core.FuncKey(fn)
		var reads []*ssa.Call
		for _, ci := range core.Calls(fn) {
			if cv := core.CallValue(ci); cv != nil && core.IsMethodNamed(ci, "Read") && len(fn.Params) > 2 && core.Strip(core.Receiver(ci)) == ssa.Value(fn.Params[2]) {
				reads = append(reads, cv)
			}
		}
		isBuf0 := func(v ssa.Value) bool {
			u, ok := v.(*ssa.UnOp)
			if !ok || u.Op != token.MUL {
				return false
			}
			ia, ok := u.X.(*ssa.IndexAddr)
			if !ok {
				return false
			}
			_, isAlloc := ia.X.(*ssa.Alloc)
			i, isC := core.ConstInt(ia.Index)
			return isAlloc && isC && i == 0
		}
		allowed := map[int64]bool{0: true, 9: true, 10: true, 13: true, 32: true}
		badConst := false
		ws := core.EdgesWhere(fn, func(r core.Rel) bool {
			if r.Op != token.EQL || !isBuf0(r.X) {
				return false
			}
			k, ok := core.ConstInt(r.Y)
			if !ok {
				return false
			}
			if !allowed[k] {
				badConst = true
				return false
			}
			return true
		})
		errIdx := core.ErrResultIndex(fn)
		for _, rd := range reads {
			path, reached := core.Reach(fn, rd, func(in ssa.Instruction) bool {
				ret, ok := in.(*ssa.Return)
				return ok && core.ResultNilness(ret, errIdx) != core.NonNil
			}, ws, func(in ssa.Instruction) bool { return in == ssa.Instruction(rd) })
			c.Check(!reached && len(ws) > 0, key+"#whitespace-only", p.Pos(rd.Pos()), "after each extra read a nil return is only reachable when the byte equals a JSON whitespace constant (or 0 from an empty read)", "a nil return is reachable after reading an extra byte that was not compared equal to whitespace: trailing content accepted", p.Witness(path)...)
		}
		if len(reads) == 0 {
			c.Undecided(key+"#whitespace-only", p.Pos(fn.Pos()), "no read of the input after unmarshalling found")
		}
		c.Check(!badConst, key+"#whitespace-set", p.Pos(fn.Pos()), "bytes skipped after the item are within {NUL, TAB, LF, CR, SPACE}", "a non-whitespace byte value is skipped after the item")
	}

	// raw
	if fn := p.Func("codec/raw", "", "Decode"); fn != nil {
		key := core.FuncKey(fn)
		var reader ssa.Value
		if len(fn.Params) > 1 {
			reader = fn.Params[1]
		}
		for _, ci := range core.Calls(fn) {
			name, ok := assemblerCall(ci)
			if !ok || name != "AssignBytes" {
				continue
			}
			arg := ci.Common().Args[0]
			sl := core.BackSlice(arg, core.SliceOpts{})
			good := true
			leaves := 0
			var readAll *ssa.Call
			for w := range sl {
				switch x := w.(type) {
				case *ssa.Call:
					leaves++
					switch {
					case core.IsPkgFunc(x, "io", "ReadAll") && core.Strip(x.Call.Args[0]) == reader:
						readAll = x
					case core.IsMethodNamed(x, "Bytes"):
						// must be the reader itself, type-asserted
						rs := core.BackSlice(core.Receiver(x), core.SliceOpts{})
						if !rs[reader] {
							good = false
						}
					default:
						good = false
					}
				case *ssa.Slice, *ssa.Parameter, *ssa.Alloc, *ssa.MakeSlice:
					good = false
				case *ssa.Const:
					if !x.IsNil() {
						good = false
					}
				}
			}
			c.Check(good && leaves > 0 && readAll != nil, key+"#whole-input", p.Pos(ci.Pos()), "AssignBytes receives exactly io.ReadAll(r) or the reader's whole Bytes()", "AssignBytes receives something other than the whole input (io.ReadAll(r) / r.Bytes())")
			if readAll != nil {
				nilEdges := core.EdgesWhere(fn, func(r core.Rel) bool { return r.Op == token.EQL && extractOf(r.X, readAll, 1) && core.IsNilConst(r.Y) })
				path, reached := core.Reach(fn, readAll, isTarget(ci), nilEdges, nil)
				c.Check(!reached, key+"#readall-error", p.Pos(readAll.Pos()), "AssignBytes unreachable when io.ReadAll failed", "AssignBytes reachable after a failed io.ReadAll (partial data assigned)", p.Witness(path)...)
			}
		}
	} else {
		c.Undecided("codec/raw.Decode", "-", "raw decoder not found")
	}
}
