// Package rules holds the per-property rule sets. Each property registers a
// Def; its Run function enumerates rule instances from the loaded program and
// records one obligation per instance.
package rules

import (
	"sort"

	"verif/checker/internal/core"
)

// Def describes how one property is decided.
type Def struct {
	ID          string
	Explanation string   // what the rules decide, and that this is a necessary condition and not the behaviour
	NotCovered  []string // clauses of the property no rule decides
	Trusted     []string // trusted base
	Run         func(c *core.Ctx)
}

var registry = map[string]*Def{}

func register(d *Def) { registry[d.ID] = d }

// Get returns the definition for a property id.
func Get(id string) *Def { return registry[id] }

// IDs lists registered property ids.
func IDs() []string {
	var out []string
	for id := range registry {
		out = append(out, id)
	}
	sort.Strings(out)
	return out
}
