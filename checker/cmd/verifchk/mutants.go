package main

import (
	"bytes"
	"encoding/json"
	"fmt"
	"os"
	"os/exec"
	"path/filepath"
	"sort"
	"strings"
	"sync"

	"verif/checker/internal/core"
	"verif/checker/internal/rules"
)

// Mutant is a scripted single edit used to demonstrate that a rule is
// sensitive: applied as an in-memory overlay (nothing is written to /repo and
// nothing is executed), the program must still type-check and the named rule
// must report a violation that is absent on the unmodified tree.
type Mutant struct {
	ID       string `json:"id"`
	Property string `json:"property"`
	Rule     string `json:"rule"`
	File     string `json:"file"` // repo-relative
	Old      string `json:"old"`
	New      string `json:"new"`
	Expect   string `json:"expect_construct,omitempty"` // substring of the construct key expected
	Note     string `json:"note,omitempty"`
	Quick    bool   `json:"quick,omitempty"`
	// Edits allows several replacements (possibly in several files) as one mutant.
	Edits []struct {
		File string `json:"file"`
		Old  string `json:"old"`
		New  string `json:"new"`
	} `json:"edits,omitempty"`
}

type mutantResult struct {
	ID         string   `json:"id"`
	Rule       string   `json:"rule"`
	Status     string   `json:"status"` // caught | missed | skipped | compile-error
	Detail     string   `json:"detail,omitempty"`
	Violations []string `json:"violations,omitempty"` // rule|construct of all violations+undecided
}

// loadMutant parses a .mut file:
//
//	id: C06.check-early-return
//	property: C06
//	rule: C06.check
//	expect: Fill            (optional substring of the construct key)
//	note: free text
//	file: linking/functions.go
//	--- old
//	<exact source text, must occur once>
//	--- new
//	<replacement>
//	--- end
//
// file/old/new blocks may repeat for multi-site mutants.
func loadMutant(path string) (*Mutant, error) {
	b, err := os.ReadFile(path)
	if err != nil {
		return nil, err
	}
	m := &Mutant{}
	lines := strings.Split(string(b), "\n")
	curFile := ""
	mode := ""
	var oldB, newB []string
	flush := func() {
		m.Edits = append(m.Edits, struct {
			File string `json:"file"`
			Old  string `json:"old"`
			New  string `json:"new"`
		}{curFile, strings.Join(oldB, "\n"), strings.Join(newB, "\n")})
		oldB, newB = nil, nil
	}
	for _, ln := range lines {
		switch {
		case ln == "--- old":
			mode = "old"
			continue
		case ln == "--- new":
			mode = "new"
			continue
		case ln == "--- end":
			flush()
			mode = ""
			continue
		}
		switch mode {
		case "old":
			oldB = append(oldB, ln)
		case "new":
			newB = append(newB, ln)
		default:
			k, v, ok := strings.Cut(ln, ":")
			if !ok {
				continue
			}
			v = strings.TrimSpace(v)
			switch strings.TrimSpace(k) {
			case "id":
				m.ID = v
			case "property":
				m.Property = v
			case "rule":
				m.Rule = v
			case "expect":
				m.Expect = v
			case "note":
				m.Note = v
			case "file":
				curFile = v
			case "quick":
				m.Quick = v == "true"
			}
		}
	}
	if m.ID == "" || m.Property == "" || m.Rule == "" || len(m.Edits) == 0 {
		return nil, fmt.Errorf("%s: incomplete mutant", path)
	}
	return m, nil
}

// runMutant analyses the repo with one mutant overlaid and prints a mutantResult.
func runMutant(path, repo, verif string) int {
	m, err := loadMutant(path)
	if err != nil {
		fmt.Fprintln(os.Stderr, err)
		return 2
	}
	res := mutantResult{ID: m.ID, Rule: m.Rule}
	out := func() int {
		b, _ := json.Marshal(res)
		fmt.Println(string(b))
		return 0
	}
	overlay := map[string][]byte{}
	for _, e := range m.Edits {
		abs := filepath.Join(repo, e.File)
		src, ok := overlay[abs]
		if !ok {
			src, err = os.ReadFile(abs)
			if err != nil {
				res.Status, res.Detail = "skipped", "file missing: "+e.File
				return out()
			}
		}
		if n := bytes.Count(src, []byte(e.Old)); n != 1 {
			res.Status, res.Detail = "skipped", fmt.Sprintf("edit anchor occurs %d times in %s (source changed since the mutant was written)", n, e.File)
			return out()
		}
		overlay[abs] = bytes.Replace(src, []byte(e.Old), []byte(e.New), 1)
	}
	def := rules.Get(m.Property)
	if def == nil {
		res.Status, res.Detail = "skipped", "unknown property"
		return out()
	}
	c, p := analyse(def, repo, overlay)
	if p == nil {
		res.Status = "compile-error"
		if len(c.Obls) > 0 {
			res.Detail = c.Obls[0].Msg
		}
		return out()
	}
	r := core.Finish(c, nil)
	for _, o := range r.Unlisted {
		res.Violations = append(res.Violations, o.Rule+"|"+o.Construct)
	}
	sort.Strings(res.Violations)
	res.Status = "analysed"
	return out()
}

// runMutants runs every mutant registered for the property, each in its own
// process, and records the sensitivity table in the evidence.
func runMutants(def *rules.Def, base *core.Result, repo, verif string) {
	files, _ := filepath.Glob(filepath.Join(verif, "mutants", def.ID, "*.mut"))
	sort.Strings(files)
	baseline := map[string]bool{}
	for _, o := range base.Obls {
		if o.Status == core.Violation || o.Status == core.Undecided {
			baseline[o.Rule+"|"+o.Construct] = true
		}
	}
	self, _ := os.Executable()
	results := make([]mutantResult, len(files))
	sem := make(chan struct{}, 8)
	var wg sync.WaitGroup
	for i, f := range files {
		wg.Add(1)
		go func(i int, f string) {
			defer wg.Done()
			sem <- struct{}{}
			defer func() { <-sem }()
			m, err := loadMutant(f)
			if err != nil {
				results[i] = mutantResult{ID: filepath.Base(f), Status: "skipped", Detail: err.Error()}
				return
			}
			cmd := exec.Command(self, "-mutant", f, "-repo", repo, "-verif", verif)
			var stdout, stderr bytes.Buffer
			cmd.Stdout, cmd.Stderr = &stdout, &stderr
			if err := cmd.Run(); err != nil {
				results[i] = mutantResult{ID: m.ID, Rule: m.Rule, Status: "skipped", Detail: "subprocess: " + err.Error() + " " + stderr.String()}
				return
			}
			var r mutantResult
			lines := strings.Split(strings.TrimSpace(stdout.String()), "\n")
			if err := json.Unmarshal([]byte(lines[len(lines)-1]), &r); err != nil {
				results[i] = mutantResult{ID: m.ID, Rule: m.Rule, Status: "skipped", Detail: "bad subprocess output"}
				return
			}
			if r.Status == "analysed" {
				r.Status = "missed"
				var fresh []string
				for _, v := range r.Violations {
					if baseline[v] {
						continue
					}
					fresh = append(fresh, v)
					if strings.HasPrefix(v, m.Rule+"|") && (m.Expect == "" || strings.Contains(v, m.Expect)) {
						r.Status = "caught"
					}
				}
				r.Violations = fresh
			}
			results[i] = r
		}(i, f)
	}
	wg.Wait()
	caught, missed, skipped := 0, 0, 0
	var table []any
	for _, r := range results {
		switch r.Status {
		case "caught":
			caught++
		case "missed":
			missed++
		default:
			skipped++
		}
		table = append(table, r)
	}
	base.Extra["mutants"] = map[string]any{
		"what":    "rule-sensitivity self-test: each mutant is one scripted edit of /repo's current source applied as an in-memory overlay (never written, never executed); it must type-check and the named rule must newly report it",
		"total":   len(results),
		"caught":  caught,
		"missed":  missed,
		"skipped": skipped,
		"results": table,
	}
	fmt.Printf("  mutant sensitivity: %d mutants, %d caught, %d missed, %d skipped/compile-error\n", len(results), caught, missed, skipped)
	for _, r := range results {
		if r.Status != "caught" {
			fmt.Printf("  SELFTEST-%s mutant=%s rule=%s %s\n", strings.ToUpper(r.Status), r.ID, r.Rule, r.Detail)
		}
	}
}
