// verifchk decides structural necessary conditions of the go-ipld-prime
// properties by static analysis of /repo's working tree.
package main

import (
	"encoding/json"
	"flag"
	"fmt"
	"os"
	"path/filepath"
	"runtime/debug"
	"strconv"
	"strings"
	"time"

	"golang.org/x/tools/go/ssa"

	"verif/checker/internal/core"
	"verif/checker/internal/rules"
)

func main() {
	prop := flag.String("prop", "", "property id (C01..C20)")
	tier := flag.String("tier", "quick", "quick|thorough")
	repo := flag.String("repo", "/repo", "repository under analysis")
	verif := flag.String("verif", "/verif", "verification directory (known findings, evidence, reports)")
	dump := flag.String("dump", "", "debug: print SSA of functions whose key contains this string")
	mutant := flag.String("mutant", "", "apply this mutant (json file) as an in-memory overlay and print the result as JSON; writes no evidence")
	replay := flag.String("replay", "", "re-run the rule recorded in this report file and print its diagnostic")
	list := flag.Bool("list", false, "list registered properties")
	flag.BoolVar(&verbose, "v", false, "print every obligation")
	flag.Parse()

	if *list {
		for _, id := range rules.IDs() {
			fmt.Println(id)
		}
		return
	}
	if *replay != "" {
		os.Exit(doReplay(*replay, *repo, *verif))
	}
	if *dump != "" {
		p, err := core.Load(*repo, nil)
		if err != nil {
			fmt.Fprintln(os.Stderr, err)
			os.Exit(2)
		}
		for _, fn := range p.ModFns {
			if strings.Contains(core.FuncKey(fn), *dump) {
				fn.WriteTo(os.Stdout)
			}
		}
		return
	}
	if *mutant != "" {
		os.Exit(runMutant(*mutant, *repo, *verif))
	}
	def := rules.Get(*prop)
	if def == nil {
		fmt.Fprintf(os.Stderr, "unknown property %q\n", *prop)
		os.Exit(2)
	}
	os.Exit(runProperty(def, *tier, *repo, *verif))
}

var verbose bool

func seed() int64 {
	s, _ := strconv.ParseInt(os.Getenv("VERIF_SEED"), 10, 64)
	return s
}

// analyse loads the repo (with overlay) and runs the property's rules. Load
// failures and checker panics are turned into violations of rule LOAD.
func analyse(def *rules.Def, repo string, overlay map[string][]byte) (c *core.Ctx, p *core.Program) {
	c = &core.Ctx{Prop: def.ID}
	defer func() {
		if r := recover(); r != nil {
			c.Rule("CHECKER", "the checker itself must not fail", 0)
			c.Fail("checker#panic", "-", fmt.Sprintf("checker panicked: %v\n%s", r, debug.Stack()))
		}
	}()
	var err error
	p, err = core.Load(repo, overlay)
	if err != nil {
		c.Rule("LOAD", "the repository must load and type-check completely", 0)
		c.Fail("load#"+repo, "-", err.Error())
		return c, nil
	}
	c.P = p
	def.Run(c)
	return c, p
}

func runProperty(def *rules.Def, tier, repo, verif string) int {
	start := time.Now()
	known, err := core.LoadKnown(filepath.Join(verif, "known_findings.json"))
	if err != nil {
		fmt.Fprintln(os.Stderr, "known_findings.json:", err)
		return 2
	}
	c, p := analyse(def, repo, nil)
	res := core.Finish(c, known)
	res.Tier = tier
	if p != nil {
		res.Packages = len(p.Pkgs)
		res.Functions = len(p.ModFns)
	}
	if tier == "thorough" && p != nil {
		runMutants(def, res, repo, verif)
	}
	lines := res.WriteReports(verif, known)
	res.WallS = time.Since(start).Seconds()
	if err := res.WriteEvidence(verif, seed(), def.Explanation, def.NotCovered, def.Trusted); err != nil {
		fmt.Fprintln(os.Stderr, "evidence:", err)
		return 2
	}
	ok, viol, und := 0, 0, 0
	for _, o := range res.Obls {
		switch o.Status {
		case core.OK:
			ok++
		case core.Violation:
			viol++
		case core.Undecided:
			und++
		}
	}
	fmt.Printf("%s %s: %d packages, %d functions, %d rules, %d obligations: %d ok, %d violations (%d known), %d undecided, %.1fs\n",
		def.ID, tier, res.Packages, res.Functions, len(res.Rules), ok+viol+und, ok, viol, len(res.Known), und, res.WallS)
	perRule := map[string][3]int{}
	for _, o := range res.Obls {
		a := perRule[o.Rule]
		switch o.Status {
		case core.OK:
			a[0]++
		case core.Violation:
			a[1]++
		case core.Undecided:
			a[2]++
		}
		perRule[o.Rule] = a
	}
	for _, ri := range res.Rules {
		a := perRule[ri.ID]
		fmt.Printf("  rule %-20s instances=%d ok=%d violation=%d undecided=%d (floor %d)\n", ri.ID, a[0]+a[1]+a[2], a[0], a[1], a[2], ri.Floor)
	}
	if verbose {
		for _, o := range res.Obls {
			fmt.Printf("    [%s] %s %s @%s: %s\n", o.Status, o.Rule, o.Construct, o.Pos, o.Msg)
		}
	}
	for _, l := range lines {
		fmt.Println(l)
	}
	if len(res.Unlisted) > 0 {
		return 1
	}
	return 0
}

func doReplay(path, repo, verif string) int {
	b, err := os.ReadFile(path)
	if err != nil {
		fmt.Fprintln(os.Stderr, err)
		return 2
	}
	var rep struct{ Property, Rule, Construct string }
	if err := json.Unmarshal(b, &rep); err != nil {
		fmt.Fprintln(os.Stderr, err)
		return 2
	}
	def := rules.Get(rep.Property)
	if def == nil {
		fmt.Fprintln(os.Stderr, "unknown property", rep.Property)
		return 2
	}
	c, p := analyse(def, repo, nil)
	found := false
	for _, o := range c.Obls {
		if o.Rule == rep.Rule && o.Construct == rep.Construct {
			found = true
			fmt.Printf("%s %s %s at %s: [%s] %s\n", o.Property, o.Rule, o.Construct, o.Pos, o.Status, o.Msg)
			for _, w := range o.Witness {
				fmt.Println("   |", w)
			}
			if o.Status == core.Violation || o.Status == core.Undecided {
				fmt.Printf("VIOLATION property=%s replay=%s\n", rep.Property, path)
				return 1
			}
		}
	}
	_ = p
	if !found {
		fmt.Printf("construct %s of rule %s no longer exists in %s\n", rep.Construct, rep.Rule, repo)
	}
	return 0
}

var _ = ssa.NaiveForm
