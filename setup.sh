#!/bin/sh
# Builds the checker binary from /verif/checker (offline).
set -e
cd "$(dirname "$0")"
. ./env.sh
mkdir -p bin evidence
(cd checker && go build -o ../bin/verifchk ./cmd/verifchk)
echo "built bin/verifchk"
