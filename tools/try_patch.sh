#!/bin/sh
# usage: tools/try_patch.sh <patch.diff> [property ids...]
# Applies the patch to /repo, runs the named checks (default: all claimed), prints verdicts, reverts.
P="$1"; shift
cd /verif
PROPS="$*"
[ -z "$PROPS" ] && PROPS=$(python3 -c "import json;print(' '.join(c['property_id'] for c in json.load(open('MANIFEST.json'))['checks']))")
git -C /repo apply "$P" || { echo "PATCH DOES NOT APPLY"; exit 2; }
for p in $PROPS; do
  out=$(./check.sh $p quick 2>&1); rc=$?
  n=$(printf '%s\n' "$out" | grep -c '^VIOLATION')
  echo "== $p exit=$rc violations=$n"
  printf '%s\n' "$out" | grep -A1 '^VIOLATION' | grep -v '^--' | cut -c1-260 | head -8
done
git -C /repo checkout -- . ; git -C /repo status --short | head -3
# restore evidence written during the trial
git -C /verif checkout -- evidence 2>/dev/null
