"""Shared by refactor_matrix.py and seed_matrix.py: apply one patch in a private scratch worktree of /repo's HEAD
(outside /repo and /verif, removed afterwards), run every claimed quick check against it with a copy of the checker
binary, and report which rules fire. /repo itself is never touched, so several patches are evaluated in parallel."""
import json, os, shutil, subprocess, concurrent.futures as cf
os.chdir('/verif')
props = [c['property_id'] for c in json.load(open('MANIFEST.json'))['checks']]
BIN = None
def setup(tag):
    global BIN
    subprocess.run(['./setup.sh'], capture_output=True, check=True)
    BIN = '/tmp/verifchk_' + tag
    shutil.copy('bin/verifchk', BIN)  # the checker may be rebuilt while this runs
def teardown():
    if BIN and os.path.exists(BIN): os.remove(BIN)
    subprocess.run(['git', '-C', '/repo', 'worktree', 'prune'])
def run_check(p, wt, outdir):
    d = os.path.join(outdir, p)
    os.makedirs(d, exist_ok=True)
    shutil.copy('known_findings.json', d + '/known_findings.json')
    r = subprocess.run([BIN, '-prop', p, '-tier', 'quick', '-repo', wt, '-verif', d], capture_output=True, text=True)
    rules = []
    for line in r.stdout.splitlines():
        line = line.strip()
        if line.startswith('rule=') and ('[violation]' in line or '[undecided]' in line):
            rules.append(line[:400])
    viol = [l for l in r.stdout.splitlines() if l.startswith('VIOLATION ')]
    return p, (1 if viol or r.returncode != 0 else 0), rules, (r.stderr[-400:] if r.returncode not in (0, 1) else '')
def run_patch(pid, patch):
    """returns (applies, {property: [rule lines]})"""
    wt = '/tmp/vmx_' + pid
    out = '/tmp/vmxout_' + pid
    subprocess.run(['git', '-C', '/repo', 'worktree', 'remove', '--force', wt], capture_output=True)
    shutil.rmtree(wt, ignore_errors=True)
    subprocess.run(['git', '-C', '/repo', 'worktree', 'add', '--detach', wt, 'HEAD', '-q'], capture_output=True, check=True)
    try:
        ap = subprocess.run(['git', '-C', wt, 'apply', os.path.abspath(patch)], capture_output=True, text=True)
        if ap.returncode != 0:
            return False, {}
        with cf.ThreadPoolExecutor(max_workers=5) as ex:
            res = list(ex.map(lambda p: run_check(p, wt, out), props))
        return True, {p: (rules or [err]) for p, rc, rules, err in res if rc == 1}
    finally:
        subprocess.run(['git', '-C', '/repo', 'worktree', 'remove', '--force', wt], capture_output=True)
        shutil.rmtree(wt, ignore_errors=True)
        shutil.rmtree(out, ignore_errors=True)
