#!/usr/bin/env python3
"""usage: confirm_seed.py <agent-out-dir/X> <seed-id> <property> "<what it needs to manifest>"
Confirms a seeded faulty change in a scratch worktree of /repo HEAD (outside /repo and /verif):
 demo passes without the patch, fails with it; the existing suite still matches the baseline with it.
On success stores it as /verif/seeded/<seed-id>/ (patch.diff, demo, notes.md, meta.json)."""
import json, os, re, shutil, subprocess, sys, tempfile
src, sid, prop, needs = sys.argv[1:5]
env = dict(os.environ, GOFLAGS='-mod=mod', GOPROXY='off')
wt = tempfile.mkdtemp(prefix='confirm_', dir='/tmp')
os.rmdir(wt)
# schema/gen/go builds plugins under $TMPDIR/test-go-ipld-prime-gengo: keep that private to this run
env['TMPDIR'] = wt + '.tmp'
os.makedirs(env['TMPDIR'], exist_ok=True)
def run(cmd, cwd=None, check=False):
    r = subprocess.run(cmd, shell=True, cwd=cwd, env=env, capture_output=True, text=True)
    if check and r.returncode != 0:
        print(r.stdout[-2000:], r.stderr[-2000:]); raise SystemExit('command failed: ' + cmd)
    return r
run(f'git -C /repo worktree add --detach {wt} HEAD -q', check=True)
ran = []
try:
    demo_test = os.path.join(src, 'demo_test.go')
    demo_main = os.path.join(src, 'demo', 'main.go')
    if os.path.exists(demo_test):
        first = open(demo_test).readline()
        m = re.search(r'copy to:\s*(\S+)', first)
        pkgdir = m.group(1).rstrip('/') if m else sys.exit('demo_test.go lacks "copy to:" line')
        if pkgdir.startswith('/'):  # absolute path given by the agent: make relative to its worktree
            pkgdir = re.sub(r'^/tmp/w[tsuvwx]_[A-Za-z0-9]+/?', '', pkgdir)
        dst = os.path.join(wt, pkgdir, 'zz_seed_demo_test.go')
        shutil.copy(demo_test, dst)
        names = re.findall(r'^func (Test\w+)\(', open(demo_test).read(), re.M)
        runpat = '^(' + '|'.join(names) + ')$'
        democmd = f"go test -vet=off -count=1 -run '{runpat}' ./{pkgdir}/"
        demokind = 'demo_test.go in ' + pkgdir
    elif os.path.exists(demo_main):
        d = os.path.join(wt, 'zz_seed_demo')
        shutil.copytree(os.path.join(src, 'demo'), d)
        gm = os.path.join(d, 'go.mod')
        if os.path.exists(gm):
            s = open(gm).read()
            s = re.sub(r'=>\s*\S+', '=> ' + wt, s)
            open(gm, 'w').write(s)
            shutil.copy('/repo/go.sum', os.path.join(d, 'go.sum'))
            democmd = f"cd zz_seed_demo && go run ."
        else:
            democmd = "go run ./zz_seed_demo"
        demokind = 'demo/main.go'
    else:
        sys.exit('no demonstration found in ' + src)
    r0 = run(democmd, cwd=wt); ran.append((democmd + '  [without change]', r0.returncode))
    ap = run(f'git apply {os.path.join(src, "patch.diff")}', cwd=wt)
    if ap.returncode != 0:
        print(ap.stderr); sys.exit('patch does not apply to current HEAD')
    bl = run('go build ./...', cwd=wt)
    if bl.returncode != 0:
        print(bl.stderr[-1500:]); sys.exit('does not compile with the change')
    r1 = run(democmd, cwd=wt); ran.append((democmd + '  [with change]', r1.returncode))
    print('demo without change: exit', r0.returncode, '| with change: exit', r1.returncode)
    if r0.returncode != 0 or r1.returncode == 0:
        print(r0.stdout[-800:], r0.stderr[-800:], '-----', r1.stdout[-800:], r1.stderr[-800:])
        sys.exit('demonstration does not discriminate')
    # suite with the change (demo file removed first)
    run('rm -rf zz_seed_demo; find . -name zz_seed_demo_test.go -delete', cwd=wt)
    base = json.load(open('/root/.vp/BASELINE.json'))
    for attempt in range(3):  # schema/gen/go compiles generated code and is flaky when the machine is loaded
        t = run('go test -json -vet=off -count=1 -timeout 25m ./...', cwd=wt)
        passed, failed = set(), set()
        for line in t.stdout.splitlines():
            try: ev = json.loads(line)
            except Exception: continue
            if ev.get('Test') and ev.get('Action') in ('pass', 'fail'):
                (passed if ev['Action'] == 'pass' else failed).add(ev['Package'] + '::' + ev['Test'])
        missing = sorted(set(base['stable_pass']) - passed)
        newfail = sorted(failed - set(base['always_fail']))
        if not missing and not newfail: break
        if not all('schema/gen/go' in x for x in missing + newfail): break
    ran.append(('go test -vet=off -count=1 ./...  [with change]', f'passed={len(passed)} baseline-missing={len(missing)} new-fail={len(newfail)}'))
    print('suite with change: passed', len(passed), 'baseline-missing', len(missing), 'new-fail', len(newfail))
    if missing or newfail:
        print(missing[:5], newfail[:5]); sys.exit('existing tests notice the change')
    out = os.path.join('/verif/seeded', sid)
    os.makedirs(out, exist_ok=True)
    shutil.copy(os.path.join(src, 'patch.diff'), out)
    if os.path.exists(demo_test): shutil.copy(demo_test, out)
    else: shutil.copytree(os.path.join(src, 'demo'), os.path.join(out, 'demo'), dirs_exist_ok=True)
    if os.path.exists(os.path.join(src, 'notes.md')): shutil.copy(os.path.join(src, 'notes.md'), out)
    head = subprocess.check_output(['git', '-C', '/repo', 'rev-parse', '--short', 'HEAD'], text=True).strip()
    json.dump({'seed_id': sid, 'property': prop, 'needs_to_manifest': needs, 'demonstration': demokind,
               'confirmed_at_repo_commit': head, 'what_i_ran': [{'cmd': c, 'result': r} for c, r in ran],
               'origin': 'independent sub-agent given only the property text and a scratch worktree'},
              open(os.path.join(out, 'meta.json'), 'w'), indent=1)
    print('CONFIRMED ->', out)
finally:
    run(f'git -C /repo worktree remove --force {wt}')
    shutil.rmtree(wt + '.tmp', ignore_errors=True)
    run('go clean -testcache')
