#!/usr/bin/env python3
"""Runs every claimed check against every seeded change (applied to /repo, then reverted) and writes
/verif/seeded/MATRIX.json + MATRIX.md: which rules catch which change. Checks for one seed run in parallel."""
import json, os, shutil, subprocess, sys, glob, concurrent.futures as cf
os.chdir('/verif')
props = [c['property_id'] for c in json.load(open('MANIFEST.json'))['checks']]
only = sys.argv[1:]
def run(p):
    # a scratch output directory so evidence/ is not rewritten from a patched tree; the committed
    # known-findings file is copied in so that listed findings are not counted as detections
    os.makedirs('/tmp/seedmatrix_' + p, exist_ok=True)
    shutil.copy('known_findings.json', '/tmp/seedmatrix_' + p + '/known_findings.json')
    r = subprocess.run(['bin/verifchk', '-prop', p, '-tier', 'quick', '-repo', '/repo', '-verif', '/tmp/seedmatrix_' + p], capture_output=True, text=True)
    rules = []
    for line in r.stdout.splitlines():
        line = line.strip()
        if line.startswith('rule=') and ('[violation]' in line or '[undecided]' in line):
            rules.append(line.split()[0][5:] + ' ' + line.split()[1][10:])
    viol = [l for l in r.stdout.splitlines() if l.startswith('VIOLATION ')]
    return p, (1 if viol or r.returncode != 0 else 0), rules
subprocess.run(['./setup.sh'], capture_output=True)
assert subprocess.run(['git', '-C', '/repo', 'status', '--porcelain'], capture_output=True, text=True).stdout.strip() == '', '/repo not clean'
out = {}
for d in sorted(glob.glob('seeded/*/')):
    sid = os.path.basename(d.rstrip('/'))
    if only and sid not in only: continue
    meta = json.load(open(d + 'meta.json'))
    ap = subprocess.run(['git', '-C', '/repo', 'apply', os.path.abspath(d + 'patch.diff')], capture_output=True, text=True)
    if ap.returncode != 0:
        out[sid] = {'property': meta['property'], 'applies': False, 'note': 'patch no longer applies to the repaired tree (the region was changed by a fix: commit)'}
        print(sid, 'DOES NOT APPLY'); continue
    try:
        with cf.ThreadPoolExecutor(max_workers=16) as ex:
            res = list(ex.map(run, props))
    finally:
        subprocess.run(['git', '-C', '/repo', 'checkout', '--', '.'])
        subprocess.run(['git', '-C', '/repo', 'clean', '-fdq'])
    caught = {p: rules for p, rc, rules in res if rc == 1}
    own = meta['property'] in caught
    out[sid] = {'property': meta['property'], 'applies': True, 'caught_by_own_property_check': own, 'firing': caught}
    print(sid, 'own-check:', 'CAUGHT' if own else 'missed', '| all:', {p: len(r) for p, r in caught.items()})
for p in props:
    subprocess.run(['rm', '-rf', '/tmp/seedmatrix_' + p])
if not only:
    json.dump(out, open('seeded/MATRIX.json', 'w'), indent=1, sort_keys=True)
    with open('seeded/MATRIX.md', 'w') as f:
        f.write('| seed | property | own check | rules that fire (property: rule construct) |\n|---|---|---|---|\n')
        for sid, v in sorted(out.items()):
            if not v['applies']:
                f.write(f"| {sid} | {v['property']} | n/a | {v['note']} |\n"); continue
            fire = '; '.join(f"{p}: {', '.join(sorted(set(r.split()[0] for r in rs)))}" for p, rs in sorted(v['firing'].items()))
            f.write(f"| {sid} | {v['property']} | {'caught' if v['caught_by_own_property_check'] else 'MISSED'} | {fire or '-'} |\n")
