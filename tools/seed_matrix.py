#!/usr/bin/env python3
"""Runs every claimed check against every seeded faulty change kept under /verif/seeded/<id>/, each applied in its own
scratch worktree of /repo's HEAD, and writes /verif/seeded/MATRIX.json + MATRIX.md: which rules catch which change.
usage: seed_matrix.py [id ...]"""
import json, os, sys, glob, concurrent.futures as cf
sys.path.insert(0, '/verif/tools')
import matrix_common as mc
only = sys.argv[1:]
mc.setup('seedmatrix')
mpath = 'seeded/MATRIX.json'
out = json.load(open(mpath)) if (only and os.path.exists(mpath)) else {}
ids = [os.path.basename(d.rstrip('/')) for d in sorted(glob.glob('seeded/*/'))]
ids = [i for i in ids if not only or i in only]
metas = {i: json.load(open(f'seeded/{i}/meta.json')) for i in ids}
def one(sid):
    applies, caught = mc.run_patch(sid, f'seeded/{sid}/patch.diff')
    return sid, applies, caught
with cf.ThreadPoolExecutor(max_workers=4) as ex:
    for sid, applies, caught in ex.map(one, ids):
        meta = metas[sid]
        status = meta.get('status_on_current_tree', '')
        if not applies:
            out[sid] = {'property': meta['property'], 'applies': False, 'note': status or 'patch no longer applies to the repaired tree (the region was changed by a fix: commit)'}
            print(sid, 'DOES NOT APPLY'); continue
        own = meta['property'] in caught
        out[sid] = {'property': meta['property'], 'applies': True, 'caught_by_own_property_check': own, 'firing': {p: [r.split()[0][5:] + ' ' + r.split()[1][10:] for r in rs if r.startswith('rule=')] for p, rs in caught.items()}}
        if status: out[sid]['status_on_current_tree'] = status
        print(sid, 'own-check:', 'CAUGHT' if own else 'missed', '| all:', {p: len(r) for p, r in caught.items()}, flush=True)
mc.teardown()
json.dump(out, open(mpath, 'w'), indent=1, sort_keys=True)
with open('seeded/MATRIX.md', 'w') as f:
    f.write('| seed | property | own check | rules that fire (property: rule) |\n|---|---|---|---|\n')
    for sid, v in sorted(out.items()):
        if not v['applies']:
            f.write(f"| {sid} | {v['property']} | n/a | {v['note']} |\n"); continue
        fire = '; '.join(f"{p}: {', '.join(sorted(set(r.split()[0] for r in rs)))}" for p, rs in sorted(v['firing'].items()))
        own = 'caught' if v['caught_by_own_property_check'] else 'MISSED'
        if v.get('status_on_current_tree'): own = 'retired'
        f.write(f"| {sid} | {v['property']} | {own} | {fire or '-'} |\n")
