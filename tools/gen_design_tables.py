#!/usr/bin/env python3
"""Refreshes the generated tables of /verif/DESIGN.md (between <!-- BEGIN GENERATED:x --> / <!-- END GENERATED:x -->
markers) from what the machinery itself wrote: evidence/*.json (rules, floors, instance counts of the last run),
mutants/*/*.mut (the rule-sensitivity catalogue), seeded/MATRIX.json (which rule reports which seeded change) and
known_findings.json. Nothing here decides anything; it only keeps the document in step with the checker."""
import glob, json, os, re
os.chdir('/verif')

def rules_table():
    out = []
    for f in sorted(glob.glob('evidence/C*.json')):
        e = json.load(open(f)); c = e['coverage']; pid = e['property_id']
        out.append(f"\n**{pid}** — {c['obligations']} obligations, {c['discharged']} discharged, "
                   f"{len(c.get('known_findings') or [])} known findings, {c['functions_analysed']} functions in the loaded program "
                   f"(tier of last run: {e['tier']}).\n")
        out.append('| rule | what is decided (as printed by the checker) | floor | instances on the last run |')
        out.append('|---|---|---|---|')
        for r in c['rules']:
            inst = c['instances_by_rule'].get(r['id'], {})
            cnt = ', '.join(f"{k} {v}" for k, v in sorted(inst.items())) or '0'
            out.append(f"| `{r['id']}` | {r['text'].replace('|', '/')} | {r['floor']} | {cnt} |")
    return '\n'.join(out)

def parse_mut(path):
    d = {}
    for line in open(path):
        if line.startswith('---'): break
        m = re.match(r'(\w+):\s*(.*)', line)
        if m: d[m.group(1)] = m.group(2).strip()
    return d

def mutants_table():
    status = {}
    for f in glob.glob('evidence/C*.json'):
        m = json.load(open(f))['coverage'].get('mutants')
        if m:
            for r in (m.get('results') or []): status[r['id']] = r['status']
    out = ['| mutant | rule expected to fire | the edit (still compiles) | last thorough run |', '|---|---|---|---|']
    n = 0
    for f in sorted(glob.glob('mutants/*/*.mut')):
        d = parse_mut(f); n += 1
        out.append(f"| `{d.get('id')}` | `{d.get('rule')}` | {d.get('note', '').replace('|', '/')} ({d.get('file')}) | {status.get(d.get('id'), 'not run yet')} |")
    out.append(f"\n{n} mutants.")
    return '\n'.join(out)

def seeds_table():
    if not os.path.exists('seeded/MATRIX.json'): return '(matrix not generated yet)'
    mx = json.load(open('seeded/MATRIX.json'))
    out = ['| seeded change | property | needs, to manifest | own property check | rules that report it (property: rules) |', '|---|---|---|---|---|']
    for sid, v in sorted(mx.items()):
        meta = json.load(open(f'seeded/{sid}/meta.json'))
        needs = meta.get('needs_to_manifest', '').replace('|', '/')
        if not v['applies'] or meta.get('status_on_current_tree'):
            out.append(f"| {sid} | {v['property']} | {needs} | retired | {meta.get('status_on_current_tree', v.get('note', ''))} |"); continue
        fire = '; '.join(f"{p}: {', '.join(sorted(set(r.split()[0] for r in rs)))}" for p, rs in sorted(v['firing'].items()))
        out.append(f"| {sid} | {v['property']} | {needs} | {'**caught**' if v['caught_by_own_property_check'] else '**missed**'} | {fire or '—'} |")
    live = {sid: v for sid, v in mx.items() if v['applies'] and not json.load(open(f'seeded/{sid}/meta.json')).get('status_on_current_tree')}
    tot = len(live); own = sum(1 for v in live.values() if v['caught_by_own_property_check'])
    anyc = sum(1 for v in live.values() if v['firing'])
    out.append(f"\n{tot} applicable seeded changes; {own} reported by the check of the property they were written against, {anyc} reported by at least one check.")
    return '\n'.join(out)

def findings_table():
    kf = json.load(open('known_findings.json'))
    ent = kf if isinstance(kf, list) else kf.get('findings', kf.get('entries', []))
    out = ['| status | property | rule | construct | commit | what failed |', '|---|---|---|---|---|---|']
    for k in ent:
        out.append(f"| {k.get('status')} | {k.get('property')} | `{k.get('rule', '')}` | `{k.get('construct', '')}` | {k.get('commit', '')} | {k.get('what', '').replace('|', '/')} |")
    return '\n'.join(out)

gens = {'rules': rules_table, 'mutants': mutants_table, 'seeds': seeds_table, 'findings': findings_table}
s = open('DESIGN.md').read()
for name, fn in gens.items():
    b, e = f'<!-- BEGIN GENERATED:{name} -->', f'<!-- END GENERATED:{name} -->'
    if b in s and e in s:
        s = s[:s.index(b) + len(b)] + '\n' + fn() + '\n' + s[s.index(e):]
    else:
        print('marker missing:', name)
open('DESIGN.md', 'w').write(s)
print('DESIGN.md tables refreshed')
