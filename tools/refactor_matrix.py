#!/usr/bin/env python3
"""Runs every claimed check against every behaviour-preserving refactoring kept under /verif/refactors/<id>/patch.diff,
each applied in its own scratch worktree of /repo's HEAD. A VIOLATION here is a false alarm of the machinery.
Writes refactors/MATRIX.json + MATRIX.md.   usage: refactor_matrix.py [id ...]"""
import json, os, sys, glob, concurrent.futures as cf
sys.path.insert(0, '/verif/tools')
import matrix_common as mc
only = sys.argv[1:]
mc.setup('rfmatrix')
mpath = 'refactors/MATRIX.json'
out = json.load(open(mpath)) if os.path.exists(mpath) else {}
ids = [os.path.basename(d.rstrip('/')) for d in sorted(glob.glob('refactors/*/'))]
ids = [i for i in ids if not only or i in only]
def one(rid):
    applies, alarms = mc.run_patch(rid, f'refactors/{rid}/patch.diff')
    return rid, applies, alarms
with cf.ThreadPoolExecutor(max_workers=4) as ex:
    for rid, applies, alarms in ex.map(one, ids):
        if not applies:
            out[rid] = {'applies': False}; print(rid, 'DOES NOT APPLY'); continue
        out[rid] = {'applies': True, 'false_alarms': alarms}
        print(rid, 'quiet' if not alarms else 'FALSE ALARM ' + json.dumps({p: len(r) for p, r in alarms.items()}), flush=True)
        for p, rs in alarms.items():
            for r in rs[:6]: print('     ', r[:300])
mc.teardown()
json.dump(out, open(mpath, 'w'), indent=1, sort_keys=True)
with open('refactors/MATRIX.md', 'w') as f:
    f.write('| refactoring | applies | checks that (wrongly) report it |\n|---|---|---|\n')
    for rid, v in sorted(out.items()):
        fa = '; '.join(f"{p}: {', '.join(sorted(set(r.split()[0] for r in rs)))}" for p, rs in sorted(v.get('false_alarms', {}).items()))
        f.write(f"| {rid} | {v['applies']} | {fa or 'none'} |\n")
