#!/usr/bin/env python3
"""Runs every claimed check against every behaviour-preserving refactoring kept under /verif/refactors/<id>/patch.diff
(applied to /repo, then reverted). A VIOLATION here is a false alarm of the machinery. Writes refactors/MATRIX.json + MATRIX.md.
usage: refactor_matrix.py [id ...]"""
import json, os, shutil, subprocess, sys, glob, concurrent.futures as cf
os.chdir('/verif')
props = [c['property_id'] for c in json.load(open('MANIFEST.json'))['checks']]
only = sys.argv[1:]
def run(p):
    d = '/tmp/rfmatrix_' + p
    os.makedirs(d, exist_ok=True)
    shutil.copy('known_findings.json', d + '/known_findings.json')
    r = subprocess.run([BIN, '-prop', p, '-tier', 'quick', '-repo', '/repo', '-verif', d], capture_output=True, text=True)
    rules = []
    for line in r.stdout.splitlines():
        line = line.strip()
        if line.startswith('rule=') and ('[violation]' in line or '[undecided]' in line):
            rules.append(line[:400])
    viol = [l for l in r.stdout.splitlines() if l.startswith('VIOLATION ')]
    return p, (1 if viol or r.returncode != 0 else 0), rules, (r.stderr[-400:] if r.returncode not in (0, 1) else '')
subprocess.run(['./setup.sh'], capture_output=True)
BIN = '/tmp/verifchk_rfmatrix'; shutil.copy('bin/verifchk', BIN)  # the checker may be rebuilt while this runs
assert subprocess.run(['git', '-C', '/repo', 'status', '--porcelain'], capture_output=True, text=True).stdout.strip() == '', '/repo not clean'
mpath = 'refactors/MATRIX.json'
out = json.load(open(mpath)) if os.path.exists(mpath) else {}
for d in sorted(glob.glob('refactors/*/')):
    rid = os.path.basename(d.rstrip('/'))
    if only and rid not in only: continue
    ap = subprocess.run(['git', '-C', '/repo', 'apply', os.path.abspath(d + 'patch.diff')], capture_output=True, text=True)
    if ap.returncode != 0:
        out[rid] = {'applies': False}; print(rid, 'DOES NOT APPLY', ap.stderr[:200]); continue
    try:
        with cf.ThreadPoolExecutor(max_workers=16) as ex:
            res = list(ex.map(run, props))
    finally:
        subprocess.run(['git', '-C', '/repo', 'checkout', '--', '.'])
        subprocess.run(['git', '-C', '/repo', 'clean', '-fdq'])
    alarms = {p: rules or [err] for p, rc, rules, err in res if rc == 1}
    out[rid] = {'applies': True, 'false_alarms': alarms}
    print(rid, 'quiet' if not alarms else 'FALSE ALARM ' + json.dumps({p: len(r) for p, r in alarms.items()}))
    for p, rs in alarms.items():
        for r in rs[:6]: print('     ', r[:300])
for p in props:
    subprocess.run(['rm', '-rf', '/tmp/rfmatrix_' + p])
os.remove(BIN)
json.dump(out, open(mpath, 'w'), indent=1, sort_keys=True)
with open('refactors/MATRIX.md', 'w') as f:
    f.write('| refactoring | applies | checks that (wrongly) report it |\n|---|---|---|\n')
    for rid, v in sorted(out.items()):
        fa = '; '.join(f"{p}: {', '.join(sorted(set(r.split()[0] for r in rs)))}" for p, rs in sorted(v.get('false_alarms', {}).items()))
        f.write(f"| {rid} | {v['applies']} | {fa or 'none'} |\n")
