#!/usr/bin/env python3
"""Runs /repo's test suite (guard off; there are no hooks) and compares the set of
passing tests with /root/.vp/BASELINE.json stable_pass. Used before every fix: commit."""
import json, subprocess, sys, os
base = json.load(open('/root/.vp/BASELINE.json'))
want = set(base['stable_pass'])
env = dict(os.environ, GOFLAGS='-mod=mod')
p = subprocess.run(['go', 'test', '-json', '-vet=off', '-count=1', '-timeout', '25m', './...'], cwd='/repo', env=env, capture_output=True, text=True)
passed, failed = set(), set()
for line in p.stdout.splitlines():
    try:
        ev = json.loads(line)
    except Exception:
        continue
    if ev.get('Test') and ev.get('Action') in ('pass', 'fail'):
        key = ev['Package'] + '::' + ev['Test']
        (passed if ev['Action'] == 'pass' else failed).add(key)
missing = sorted(want - passed)
print('passed', len(passed), 'failed', len(failed), 'baseline', len(want), 'baseline-missing', len(missing))
for m in missing[:20]:
    print('  MISSING', m)
unexpected = sorted(failed - set(base.get('always_fail', [])))
for m in unexpected[:20]:
    print('  NEW-FAIL', m)
sys.exit(1 if missing or unexpected else 0)
