// F5d (C09, C12): generated typed map accepts the same key twice when it is supplied through
// AssembleKey/AssembleValue (AssembleEntry rejects it).
package main

import (
	"fmt"
	"os"

	"github.com/ipld/go-ipld-prime/datamodel"
	"github.com/ipld/go-ipld-prime/node/gendemo"
)

func msg(ma datamodel.MapAssembler) {
	for _, k := range []string{"whee", "woot", "waga"} {
		va, err := ma.AssembleEntry(k)
		if err != nil {
			panic(err)
		}
		if err := va.AssignInt(1); err != nil {
			panic(err)
		}
	}
	if err := ma.Finish(); err != nil {
		panic(err)
	}
}

func main() {
	nb := gendemo.Type.Map__String__Msg3.NewBuilder()
	ma, _ := nb.BeginMap(2)
	var firstErr error
	for i := 0; i < 2; i++ {
		if err := ma.AssembleKey().AssignString("a"); err != nil {
			firstErr = err
			break
		}
		va := ma.AssembleValue()
		inner, err := va.BeginMap(3)
		if err != nil {
			firstErr = err
			break
		}
		msg(inner)
	}
	if firstErr == nil {
		firstErr = ma.Finish()
	}
	fmt.Println("second 'a' via AssembleKey: err =", firstErr)
	if firstErr == nil {
		n := nb.Build()
		fmt.Println("built node length:", n.Length())
		fmt.Println("FAIL: repeated key accepted")
		os.Exit(1)
	}
	fmt.Println("PASS")
}
