// F1 (C03): DAG-CBOR decoder accepts tags on non-bytes items.
// Run: see ../README.md. Expected after the fix: every input is rejected.
package main

import (
	"bytes"
	"fmt"
	"os"

	"github.com/ipld/go-ipld-prime/codec/dagcbor"
	"github.com/ipld/go-ipld-prime/node/basicnode"
)

func main() {
	bad := 0
	for _, in := range [][]byte{
		{0xc1, 0x05},                   // tag(1) 5
		{0xc1, 0xa0},                   // tag(1) {}
		{0xa1, 0xc1, 0x61, 0x61, 0x01}, // {tag(1)"a": 1}
		{0xd8, 0x2a, 0x05},             // tag(42) 5
		{0x81, 0xc1, 0xf6},             // [tag(1) null]
		{0xc1, 0x80},                   // tag(1) []
	} {
		nb := basicnode.Prototype.Any.NewBuilder()
		err := dagcbor.Decode(nb, bytes.NewReader(in))
		fmt.Printf("%x -> err=%v\n", in, err)
		if err == nil {
			bad++
		}
	}
	if bad > 0 {
		fmt.Println("FAIL: tagged non-bytes items accepted:", bad)
		os.Exit(1)
	}
	fmt.Println("PASS")
}
