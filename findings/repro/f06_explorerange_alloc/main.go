// F6 (C10): ExploreRange sizes a make() by end-start taken from untrusted AsInt values.
package main

import (
	"fmt"
	"os"
	"strings"

	"github.com/ipld/go-ipld-prime/codec/dagjson"
	"github.com/ipld/go-ipld-prime/node/basicnode"
	"github.com/ipld/go-ipld-prime/traversal/selector"
)

func try(spec string) (panicked bool) {
	defer func() {
		if r := recover(); r != nil {
			fmt.Printf("%s -> PANIC %v\n", spec, r)
			panicked = true
		}
	}()
	nb := basicnode.Prototype.Any.NewBuilder()
	if err := dagjson.Decode(nb, strings.NewReader(spec)); err != nil {
		fmt.Println("decode:", err)
		return false
	}
	_, err := selector.CompileSelector(nb.Build())
	fmt.Printf("%s -> err=%v\n", spec, err)
	return false
}

func main() {
	bad := false
	bad = try(`{"r":{"^":0,"$":4611686018427387904,">":{".":{}}}}`) || bad
	bad = try(`{"r":{"^":-9223372036854775808,"$":9223372036854775807,">":{".":{}}}}`) || bad
	if bad {
		fmt.Println("FAIL: selector compilation panics on extreme range")
		os.Exit(1)
	}
	fmt.Println("PASS")
}
