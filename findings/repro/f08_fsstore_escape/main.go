// F8-fs (C17): fsstore never applied its escaping function, so keys reached the
// filesystem raw: "../../x" escaped the base directory, keys with "/" made directories.
package main

import (
	"context"
	"fmt"
	"os"
	"path/filepath"

	"github.com/ipld/go-ipld-prime/storage/fsstore"
)

func main() {
	root, _ := os.MkdirTemp("", "f08")
	defer os.RemoveAll(root)
	base := filepath.Join(root, "a", "b", "store")
	os.MkdirAll(base, 0o777)
	var st fsstore.Store
	if err := st.InitDefaults(base); err != nil {
		panic(err)
	}
	ctx := context.Background()
	key := "../../../escaped"
	err := st.Put(ctx, key, []byte("data"))
	fmt.Println("put err:", err)
	bad := false
	filepath.Walk(root, func(p string, fi os.FileInfo, err error) error {
		if err == nil && !fi.IsDir() {
			rel, _ := filepath.Rel(base, p)
			fmt.Println("file:", rel)
			if len(rel) >= 2 && rel[:2] == ".." {
				bad = true
			}
		}
		return nil
	})
	got, err := st.Get(ctx, key)
	fmt.Printf("get: %q %v\n", got, err)
	if bad || string(got) != "data" {
		fmt.Println("FAIL: store wrote outside its base directory or lost the block")
		os.Exit(1)
	}
	fmt.Println("PASS")
}
