// F16 (C10/C06 observation): loading a link whose CID declares a digest longer than
// the hash function produces makes LinkPrototype.BuildLink slice out of range.
package main

import (
	"fmt"
	"os"

	cid "github.com/ipfs/go-cid"
	"github.com/ipld/go-ipld-prime/linking"
	cidlink "github.com/ipld/go-ipld-prime/linking/cid"
	"github.com/ipld/go-ipld-prime/node/basicnode"
	"github.com/ipld/go-ipld-prime/storage/memstore"
	_ "github.com/ipld/go-ipld-prime/codec/dagcbor"
	mh "github.com/multiformats/go-multihash"
)

func main() {
	digest := make([]byte, 64)
	m, err := mh.Encode(digest, mh.SHA2_256)
	fmt.Println("encode err:", err)
	c := cid.NewCidV1(0x71, m)
	// round-trip through bytes as a decoder would
	c2, err := cid.Cast(c.Bytes())
	fmt.Println("cast err:", err, c2.Prefix())
	lnk := cidlink.Link{Cid: c2}
	store := &memstore.Store{}
	store.Put(nil, lnk.Binary(), []byte{0x01})
	lsys := cidlink.DefaultLinkSystem()
	lsys.SetReadStorage(store)
	defer func() {
		if r := recover(); r != nil {
			fmt.Println("FAIL: Load panicked:", r)
			os.Exit(1)
		}
	}()
	_, err = lsys.Load(linking.LinkContext{}, lnk, basicnode.Prototype.Any)
	fmt.Println("load err:", err)
	fmt.Println("PASS")
}
