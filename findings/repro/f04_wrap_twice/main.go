// F4 (C19/C20): bindnode.Wrap with an inferred schema twice for the same named Go type
// panicked ("duplicate type name"), and inference wrote a package-level type system.
package main

import (
	"fmt"
	"os"
	"sync"

	"github.com/ipld/go-ipld-prime/node/bindnode"
)

type T struct {
	A int64
	B string
}

func main() {
	defer func() {
		if r := recover(); r != nil {
			fmt.Println("FAIL: panic:", r)
			os.Exit(1)
		}
	}()
	n1 := bindnode.Wrap(&T{1, "x"}, nil)
	n2 := bindnode.Wrap(&T{2, "y"}, nil)
	_ = bindnode.Prototype((*T)(nil), nil)
	fmt.Println(n1.Type().Name(), n2.Type().Name())
	var wg sync.WaitGroup
	for i := 0; i < 8; i++ {
		wg.Add(1)
		go func() { defer wg.Done(); bindnode.Wrap(&T{3, "z"}, nil) }()
	}
	wg.Wait()
	fmt.Println("PASS")
}
