// F13b/F13c (C16, C12): identity WalkTransforming with LinkVisitOnlyOnce dropped the second
// occurrence of a link from a list, and in a map left the key dangling (next AssembleKey -> panic "misuse").
// F13a (C16, known finding): a loaded block is inlined into its parent instead of being stored and re-linked.
package main

import (
	"fmt"
	"os"

	_ "github.com/ipld/go-ipld-prime/codec/dagcbor"
	"github.com/ipld/go-ipld-prime/datamodel"
	"github.com/ipld/go-ipld-prime/fluent/qp"
	"github.com/ipld/go-ipld-prime/linking"
	cidlink "github.com/ipld/go-ipld-prime/linking/cid"
	"github.com/ipld/go-ipld-prime/node/basicnode"
	"github.com/ipld/go-ipld-prime/storage/memstore"
	"github.com/ipld/go-ipld-prime/traversal"
	"github.com/ipld/go-ipld-prime/traversal/selector"
	"github.com/ipld/go-ipld-prime/traversal/selector/builder"
	cid "github.com/ipfs/go-cid"
)

func main() {
	store := &memstore.Store{}
	lsys := cidlink.DefaultLinkSystem()
	lsys.SetReadStorage(store)
	lsys.SetWriteStorage(store)
	lp := cidlink.LinkPrototype{Prefix: cid.Prefix{Version: 1, Codec: 0x71, MhType: 0x12, MhLength: 32}}
	leaf, _ := qp.BuildMap(basicnode.Prototype.Any, 1, func(ma datamodel.MapAssembler) { qp.MapEntry(ma, "x", qp.Int(1)) })
	lnk, err := lsys.Store(linking.LinkContext{}, lp, leaf)
	if err != nil {
		panic(err)
	}
	list, _ := qp.BuildList(basicnode.Prototype.Any, 3, func(la datamodel.ListAssembler) {
		qp.ListEntry(la, qp.Link(lnk))
		qp.ListEntry(la, qp.Link(lnk))
		qp.ListEntry(la, qp.Int(3))
	})
	m, _ := qp.BuildMap(basicnode.Prototype.Any, 3, func(ma datamodel.MapAssembler) {
		qp.MapEntry(ma, "a", qp.Link(lnk))
		qp.MapEntry(ma, "b", qp.Link(lnk))
		qp.MapEntry(ma, "c", qp.Int(3))
	})
	ssb := builder.NewSelectorSpecBuilder(basicnode.Prototype.Any)
	sel, _ := selector.CompileSelector(ssb.ExploreRecursive(selector.RecursionLimitNone(), ssb.ExploreAll(ssb.ExploreRecursiveEdge())).Node())
	bad := 0
	run := func(name string, n datamodel.Node) {
		defer func() {
			if r := recover(); r != nil {
				fmt.Println(name, "PANIC:", r)
				bad++
			}
		}()
		prog := traversal.Progress{Cfg: &traversal.Config{LinkSystem: lsys, LinkVisitOnlyOnce: true, LinkTargetNodePrototypeChooser: func(datamodel.Link, linking.LinkContext) (datamodel.NodePrototype, error) {
			return basicnode.Prototype.Any, nil
		}}}
		out, err := prog.WalkTransforming(n, sel, func(p traversal.Progress, n datamodel.Node) (datamodel.Node, error) { return n, nil })
		if err != nil {
			fmt.Println(name, "err:", err)
			bad++
			return
		}
		fmt.Println(name, "in length", n.Length(), "out length", out.Length())
		if out.Length() != n.Length() {
			bad++
		}
	}
	run("list [L, L, 3]", list)
	run("map {a:L, b:L, c:3}", m)
	if bad > 0 {
		fmt.Println("FAIL")
		os.Exit(1)
	}
	fmt.Println("PASS")
}
