// F9 (C19/C09): bindnode stored integers into narrower Go fields without an overflow check
// (int8 field <- 300 held 44; uint > 2^63 into a signed field wrapped negative);
// an optional *uint64 field made AssignInt call SetInt on a uint value (reflect panic).
package main

import (
	"fmt"
	"os"

	"github.com/ipld/go-ipld-prime/node/basicnode"
	"github.com/ipld/go-ipld-prime/node/bindnode"
	"github.com/ipld/go-ipld-prime/schema"
)

type S struct {
	A int8
	B uint8
	C int64
	D *uint64
}

func main() {
	ts := schema.TypeSystem{}
	ts.Init()
	ts.Accumulate(schema.SpawnInt("Int"))
	ts.Accumulate(schema.SpawnStruct("S", []schema.StructField{
		schema.SpawnStructField("A", "Int", false, false),
		schema.SpawnStructField("B", "Int", false, false),
		schema.SpawnStructField("C", "Int", false, false),
		schema.SpawnStructField("D", "Int", true, false),
	}, schema.SpawnStructRepresentationMap(nil)))
	proto := bindnode.Prototype((*S)(nil), ts.TypeByName("S"))
	bad := 0
	try := func(field string, assign func(a interface {
		AssignInt(int64) error
	}) error, wantErr bool) {
		defer func() {
			if r := recover(); r != nil {
				fmt.Println(field, "PANIC", r)
				bad++
			}
		}()
		nb := proto.NewBuilder()
		ma, _ := nb.BeginMap(4)
		va, err := ma.AssembleEntry(field)
		if err != nil {
			panic(err)
		}
		err = assign(va)
		fmt.Printf("%s: err=%v\n", field, err)
		if wantErr && err == nil {
			bad++
		}
		if !wantErr && err != nil {
			bad++
		}
	}
	try("A", func(a interface{ AssignInt(int64) error }) error { return a.AssignInt(300) }, true)
	try("B", func(a interface{ AssignInt(int64) error }) error { return a.AssignInt(256) }, true)
	try("A", func(a interface{ AssignInt(int64) error }) error { return a.AssignInt(-128) }, false)
	try("D", func(a interface{ AssignInt(int64) error }) error { return a.AssignInt(5) }, false)
	// uint beyond int64 into a signed field
	func() {
		nb := proto.NewBuilder()
		ma, _ := nb.BeginMap(4)
		va, _ := ma.AssembleEntry("C")
		err := va.AssignNode(basicnode.NewUint(1 << 63))
		fmt.Println("C <- 2^63: err =", err)
		if err == nil {
			bad++
		}
	}()
	if bad > 0 {
		fmt.Println("FAIL:", bad)
		os.Exit(1)
	}
	fmt.Println("PASS")
}
