// F12 (C08): the representation node of a stringprefix union has Kind()==String but Length()==1.
package main

import (
	"fmt"
	"os"

	"github.com/ipld/go-ipld-prime/node/bindnode"
	"github.com/ipld/go-ipld-prime/schema"
)

type U struct {
	A *string
	B *string
}

func main() {
	ts := schema.TypeSystem{}
	ts.Init()
	ts.Accumulate(schema.SpawnString("String"))
	ts.Accumulate(schema.SpawnString("A"))
	ts.Accumulate(schema.SpawnString("B"))
	ts.Accumulate(schema.SpawnUnion("U", []schema.TypeName{"A", "B"}, schema.SpawnUnionRepresentationStringprefix(":", map[string]schema.TypeName{"a": "A", "b": "B"})))
	v := "x"
	n := bindnode.Wrap(&U{A: &v}, ts.TypeByName("U"))
	r := n.Representation()
	s, _ := r.AsString()
	fmt.Println("repr kind:", r.Kind(), "AsString:", s, "Length:", r.Length())
	if r.Length() != -1 {
		fmt.Println("FAIL: a string-kind node must report Length -1")
		os.Exit(1)
	}
	fmt.Println("PASS")
}
