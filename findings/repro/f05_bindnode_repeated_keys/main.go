// F5a/b/c (C09, C12), F10/F10b (C09, C10): bindnode accepted repeated struct fields (last wins),
// repeated typed-map keys (Keys=[a a]) and a second entry of a keyed union; a CBOR uint > 2^63 into a
// kinded union without an int member, and [["nosuch",1]] into a listpairs struct, panicked.
package main

import (
	"fmt"
	"os"
	"strings"

	"github.com/ipld/go-ipld-prime/codec/dagcbor"
	"github.com/ipld/go-ipld-prime/codec/dagjson"
	"github.com/ipld/go-ipld-prime/datamodel"
	"github.com/ipld/go-ipld-prime/node/bindnode"
	"github.com/ipld/go-ipld-prime/schema"
)

type S struct {
	A int64
	B string
}
type M struct {
	Keys   []string
	Values map[string]int64
}
type U struct {
	S *string
	I *int64
}
type K struct {
	S *string
	B *bool
}

func main() {
	ts := schema.TypeSystem{}
	ts.Init()
	ts.Accumulate(schema.SpawnInt("Int"))
	ts.Accumulate(schema.SpawnString("String"))
	ts.Accumulate(schema.SpawnBool("Bool"))
	ts.Accumulate(schema.SpawnStruct("S", []schema.StructField{
		schema.SpawnStructField("A", "Int", false, false),
		schema.SpawnStructField("B", "String", false, false),
	}, schema.SpawnStructRepresentationMap(nil)))
	ts.Accumulate(schema.SpawnStruct("LP", []schema.StructField{
		schema.SpawnStructField("A", "Int", false, false),
		schema.SpawnStructField("B", "String", false, false),
	}, schema.SpawnStructRepresentationListPairs()))
	ts.Accumulate(schema.SpawnMap("M", "String", "Int", false))
	ts.Accumulate(schema.SpawnUnion("U", []schema.TypeName{"String", "Int"}, schema.SpawnUnionRepresentationKeyed(map[string]schema.TypeName{"s": "String", "i": "Int"})))
	ts.Accumulate(schema.SpawnUnion("K", []schema.TypeName{"String", "Bool"}, schema.SpawnUnionRepresentationKinded(map[datamodel.Kind]schema.TypeName{datamodel.Kind_String: "String", datamodel.Kind_Bool: "Bool"})))
	bad := 0
	try := func(what string, proto datamodel.NodePrototype, json string, wantErr bool) {
		defer func() {
			if r := recover(); r != nil {
				fmt.Printf("%-34s PANIC %v\n", what, r)
				bad++
			}
		}()
		nb := proto.NewBuilder()
		err := dagjson.Decode(nb, strings.NewReader(json))
		fmt.Printf("%-34s err=%v\n", what, err)
		if wantErr != (err != nil) {
			bad++
		}
	}
	try("struct repeated field", bindnode.Prototype((*S)(nil), ts.TypeByName("S")).Representation(), `{"A":1,"B":"x","A":2}`, true)
	try("struct ok", bindnode.Prototype((*S)(nil), ts.TypeByName("S")).Representation(), `{"A":1,"B":"x"}`, false)
	try("typed map repeated key", bindnode.Prototype((*M)(nil), ts.TypeByName("M")).Representation(), `{"a":1,"a":2}`, true)
	try("typed map ok", bindnode.Prototype((*M)(nil), ts.TypeByName("M")).Representation(), `{"a":1,"b":2}`, false)
	try("keyed union two entries", bindnode.Prototype((*U)(nil), ts.TypeByName("U")).Representation(), `{"s":"x","i":2}`, true)
	try("keyed union ok", bindnode.Prototype((*U)(nil), ts.TypeByName("U")).Representation(), `{"i":2}`, false)
	try("listpairs unknown field", bindnode.Prototype((*S)(nil), ts.TypeByName("LP")).Representation(), `[["nosuch",1]]`, true)
	try("listpairs ok", bindnode.Prototype((*S)(nil), ts.TypeByName("LP")).Representation(), `[["A",1],["B","x"]]`, false)
	func() {
		defer func() {
			if r := recover(); r != nil {
				fmt.Println("kinded union <- big uint: PANIC", r)
				bad++
			}
		}()
		nb := bindnode.Prototype((*K)(nil), ts.TypeByName("K")).Representation().NewBuilder()
		err := dagcbor.Decode(nb, strings.NewReader("\x1b\xff\xff\xff\xff\xff\xff\xff\xff"))
		fmt.Println("kinded union <- big uint: err =", err)
		if err == nil {
			bad++
		}
	}()
	if bad > 0 {
		fmt.Println("FAIL:", bad)
		os.Exit(1)
	}
	fmt.Println("PASS")
}
