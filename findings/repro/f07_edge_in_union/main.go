// F7 (C10): a recursive edge directly inside a union compiles, then panics on walk.
package main

import (
	"fmt"
	"os"
	"strings"

	"github.com/ipld/go-ipld-prime/codec/dagjson"
	"github.com/ipld/go-ipld-prime/datamodel"
	"github.com/ipld/go-ipld-prime/node/basicnode"
	"github.com/ipld/go-ipld-prime/traversal"
	"github.com/ipld/go-ipld-prime/traversal/selector"
)

func main() {
	spec := `{"R":{"l":{"depth":3},":>":{"|":[{"@":{}},{"a":{">":{"@":{}}}}]}}}`
	nb := basicnode.Prototype.Any.NewBuilder()
	if err := dagjson.Decode(nb, strings.NewReader(spec)); err != nil {
		panic(err)
	}
	sel, err := selector.CompileSelector(nb.Build())
	if err != nil {
		fmt.Println("compile rejected (fine):", err)
		fmt.Println("PASS")
		return
	}
	db := basicnode.Prototype.Any.NewBuilder()
	dagjson.Decode(db, strings.NewReader(`{"x":{"y":1},"z":[1,2]}`))
	defer func() {
		if r := recover(); r != nil {
			fmt.Println("FAIL: walk panicked:", r)
			os.Exit(1)
		}
	}()
	err = traversal.WalkMatching(db.Build(), sel, func(p traversal.Progress, n datamodel.Node) error { return nil })
	fmt.Println("walk err:", err)
	fmt.Println("PASS")
}
