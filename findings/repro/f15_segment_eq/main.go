// F15 (C16): WalkTransforming compared PathSegments with ==, so an ExploreFields selector naming
// list positions ("0") never matched the integer segments of a list: the transforming walk ignored
// positions that the visiting walk (which uses lookups) honours.
package main

import (
	"fmt"
	"os"

	"github.com/ipld/go-ipld-prime/datamodel"
	"github.com/ipld/go-ipld-prime/fluent/qp"
	"github.com/ipld/go-ipld-prime/node/basicnode"
	"github.com/ipld/go-ipld-prime/traversal"
	"github.com/ipld/go-ipld-prime/traversal/selector"
	"github.com/ipld/go-ipld-prime/traversal/selector/builder"
)

func main() {
	list, _ := qp.BuildList(basicnode.Prototype.Any, 2, func(la datamodel.ListAssembler) {
		qp.ListEntry(la, qp.String("a"))
		qp.ListEntry(la, qp.String("b"))
	})
	ssb := builder.NewSelectorSpecBuilder(basicnode.Prototype.Any)
	sel, err := selector.CompileSelector(ssb.ExploreFields(func(efsb builder.ExploreFieldsSpecBuilder) {
		efsb.Insert("0", ssb.Matcher())
	}).Node())
	if err != nil {
		panic(err)
	}
	var visited []string
	traversal.WalkMatching(list, sel, func(p traversal.Progress, n datamodel.Node) error {
		visited = append(visited, p.Path.String())
		return nil
	})
	var transformed []string
	out, err := traversal.WalkTransforming(list, sel, func(p traversal.Progress, n datamodel.Node) (datamodel.Node, error) {
		transformed = append(transformed, p.Path.String())
		return basicnode.NewString("X"), nil
	})
	if err != nil {
		panic(err)
	}
	first, _ := out.LookupByIndex(0)
	fs, _ := first.AsString()
	fmt.Println("WalkMatching visited:", visited, " WalkTransforming transformed:", transformed, " out[0] =", fs)
	if len(visited) != len(transformed) || fs != "X" {
		fmt.Println("FAIL")
		os.Exit(1)
	}
	fmt.Println("PASS")
}
