// F3 (C11): a bytes node backed by a reader returned its content only once:
// the second AsBytes was empty, and reading a subset match emptied the original.
package main

import (
	"bytes"
	"fmt"
	"os"

	"github.com/ipld/go-ipld-prime/node/basicnode"
	"github.com/ipld/go-ipld-prime/traversal/selector"
)

func main() {
	n := basicnode.NewBytesFromReader(bytes.NewReader([]byte("hello world")))
	a, _ := n.AsBytes()
	b, _ := n.AsBytes()
	fmt.Printf("first=%q second=%q\n", a, b)
	bad := !bytes.Equal(a, b)
	m, err := selector.Slice{From: 6, To: 11}.Slice(n)
	if err != nil {
		panic(err)
	}
	mb, _ := m.AsBytes()
	c, _ := n.AsBytes()
	mb2, _ := m.AsBytes()
	fmt.Printf("match=%q original-after=%q match-again=%q\n", mb, c, mb2)
	if string(mb) != "world" || string(c) != "hello world" || string(mb2) != "world" {
		bad = true
	}
	if bad {
		fmt.Println("FAIL")
		os.Exit(1)
	}
	fmt.Println("PASS")
}
