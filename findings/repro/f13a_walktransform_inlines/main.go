// F13a (C16, known finding): an identity WalkTransforming over {a: L, b: 2} returns {a: {x:1}, b: 2}:
// the block behind the link is inlined into its parent, nothing is stored, the result is not equal to the input.
package main

import (
	"fmt"
	"os"

	_ "github.com/ipld/go-ipld-prime/codec/dagcbor"
	"github.com/ipld/go-ipld-prime/datamodel"
	"github.com/ipld/go-ipld-prime/fluent/qp"
	"github.com/ipld/go-ipld-prime/linking"
	cidlink "github.com/ipld/go-ipld-prime/linking/cid"
	"github.com/ipld/go-ipld-prime/node/basicnode"
	"github.com/ipld/go-ipld-prime/storage/memstore"
	"github.com/ipld/go-ipld-prime/traversal"
	"github.com/ipld/go-ipld-prime/traversal/selector"
	"github.com/ipld/go-ipld-prime/traversal/selector/builder"
	cid "github.com/ipfs/go-cid"
)

func main() {
	store := &memstore.Store{}
	lsys := cidlink.DefaultLinkSystem()
	lsys.SetReadStorage(store)
	lsys.SetWriteStorage(store)
	lp := cidlink.LinkPrototype{Prefix: cid.Prefix{Version: 1, Codec: 0x71, MhType: 0x12, MhLength: 32}}
	leaf, _ := qp.BuildMap(basicnode.Prototype.Any, 1, func(ma datamodel.MapAssembler) { qp.MapEntry(ma, "x", qp.Int(1)) })
	lnk, _ := lsys.Store(linking.LinkContext{}, lp, leaf)
	root, _ := qp.BuildMap(basicnode.Prototype.Any, 2, func(ma datamodel.MapAssembler) {
		qp.MapEntry(ma, "a", qp.Link(lnk))
		qp.MapEntry(ma, "b", qp.Int(2))
	})
	ssb := builder.NewSelectorSpecBuilder(basicnode.Prototype.Any)
	sel, _ := selector.CompileSelector(ssb.ExploreRecursive(selector.RecursionLimitNone(), ssb.ExploreAll(ssb.ExploreRecursiveEdge())).Node())
	prog := traversal.Progress{Cfg: &traversal.Config{LinkSystem: lsys, LinkTargetNodePrototypeChooser: func(datamodel.Link, linking.LinkContext) (datamodel.NodePrototype, error) {
		return basicnode.Prototype.Any, nil
	}}}
	out, err := prog.WalkTransforming(root, sel, func(p traversal.Progress, n datamodel.Node) (datamodel.Node, error) { return n, nil })
	if err != nil {
		panic(err)
	}
	a, _ := out.LookupByString("a")
	fmt.Println("input a kind:", datamodel.Kind_Link, " output a kind:", a.Kind(), " deep-equal to input:", datamodel.DeepEqual(root, out))
	if !datamodel.DeepEqual(root, out) {
		fmt.Println("FAIL: identity transform across a link does not return an equal tree")
		os.Exit(1)
	}
	fmt.Println("PASS")
}
