// F17 (C01) and F2 (C02): unsigned integers beyond int64, which basicnode and the dag-cbor
// codec support through UintNode, broke the generic algorithms: DeepEqual panicked,
// Copy failed, EncodedLength failed although Encode succeeds.
package main

import (
	"bytes"
	"fmt"
	"os"

	"github.com/ipld/go-ipld-prime/codec/dagcbor"
	"github.com/ipld/go-ipld-prime/datamodel"
	"github.com/ipld/go-ipld-prime/node/basicnode"
)

func main() {
	bad := 0
	a, b := basicnode.NewUint(1<<63), basicnode.NewUint(1<<63)
	func() {
		defer func() {
			if r := recover(); r != nil {
				fmt.Println("DeepEqual PANIC:", r)
				bad++
			}
		}()
		eq := datamodel.DeepEqual(a, b)
		ne := datamodel.DeepEqual(a, basicnode.NewUint(1<<63+1))
		ni := datamodel.DeepEqual(a, basicnode.NewInt(5))
		fmt.Println("DeepEqual same:", eq, "different:", ne, "vs small:", ni)
		if !eq || ne || ni {
			bad++
		}
	}()
	nb := basicnode.Prototype.Any.NewBuilder()
	err := datamodel.Copy(a, nb)
	fmt.Println("Copy err:", err)
	if err != nil {
		bad++
	} else if !datamodel.DeepEqual(nb.Build(), a) {
		bad++
	}
	var buf bytes.Buffer
	encErr := dagcbor.Encode(a, &buf)
	l, lenErr := dagcbor.EncodedLength(a)
	fmt.Println("Encode err:", encErr, "bytes:", buf.Len(), "EncodedLength:", l, lenErr)
	if encErr == nil && (lenErr != nil || l != int64(buf.Len())) {
		bad++
	}
	if bad > 0 {
		fmt.Println("FAIL:", bad)
		os.Exit(1)
	}
	fmt.Println("PASS")
}
