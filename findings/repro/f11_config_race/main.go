// F11 + F-mem (C20): run with -race. Concurrent walks sharing one *traversal.Config with a
// nil Ctx both wrote Config.Ctx; concurrent loads from a zero-value memstore wrote Store.Bag on Get.
package main

import (
	"context"
	"fmt"
	"sync"

	"github.com/ipld/go-ipld-prime/datamodel"
	"github.com/ipld/go-ipld-prime/node/basicnode"
	"github.com/ipld/go-ipld-prime/storage/memstore"
	"github.com/ipld/go-ipld-prime/traversal"
	"github.com/ipld/go-ipld-prime/traversal/selector"
)

func main() {
	n := basicnode.NewString("x")
	cfg := &traversal.Config{}
	st := &memstore.Store{}
	var wg sync.WaitGroup
	for i := 0; i < 8; i++ {
		wg.Add(1)
		go func() {
			defer wg.Done()
			traversal.Progress{Cfg: cfg}.WalkMatching(n, selector.Matcher{}, func(traversal.Progress, datamodel.Node) error { return nil })
			st.Get(context.Background(), "nokey")
		}()
	}
	wg.Wait()
	fmt.Println("PASS (no race reported)")
}
